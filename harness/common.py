"""Shared machinery for the per-property checks (see DESIGN.md section 2).

Every check goes through `run_check(spec, tier)`:
  1. extract tables from /repo (spec.extract)            -> lean/Earverif/Gen/*.lean
  2. `lake build` the property's Lean modules + driver    (kernel re-checks theorems)
  3. axiom audit of every property theorem, forbidden-token grep
  4. correspondence: model (Lean driver) vs real code      (spec.correspond)
  5. direct-predicate search on the real code              (spec.search)
  6. failing-input search when 2-4 broke; known-findings classification
  7. evidence file
Exit codes: 0 held, 1 violation (VIOLATION line printed), 2 infrastructure failure.
"""
import fcntl
import hashlib
import json
import os
import random
import re
import subprocess
import sys
import time
import traceback

VERIF = os.path.dirname(os.path.dirname(os.path.abspath(__file__)))
REPO = os.environ.get("EAR_REPO", "/repo")
if os.environ.get("EAR_REPO"):
    # mutation trials against a scratch checkout: private copy of the Lean project (regenerated tables must
    # not leak into /verif/lean), private evidence/replay directory
    LEAN = os.path.join(REPO, ".verif_lean")
    OUT = os.path.join(REPO, ".verif_out")
    _rs = subprocess.run(["rsync", "-a", "--delete", os.path.join(VERIF, "lean") + "/", LEAN + "/"])
    if _rs.returncode not in (0, 24):  # 24 = files vanished while copying (someone else is building)
        raise SystemExit("rsync of the Lean project failed: %d" % _rs.returncode)
else:
    LEAN = os.path.join(VERIF, "lean")
    OUT = VERIF
GEN = os.path.join(LEAN, "Earverif", "Gen")
ALLOWED_AXIOMS = {"propext", "Classical.choice", "Quot.sound"}
FORBIDDEN = re.compile(
    r"\bsorry\b|\badmit\b|^\s*axiom\s|native_decide|bv_decide|implemented_by|\bunsafe\s|maxHeartbeats\s+0\b"
)

TRUSTED_BASE_COMMON = [
    "Lean 4.33.0 kernel (lake build; leanchecker in the thorough tier)",
    "axioms allowed: propext, Classical.choice, Quot.sound (audited by #print axioms on every run); "
    "no native_decide, no bv_decide, no user axioms, no sorry",
    "hand-written Lean model tied to /repo by the correspondence harness (harness/*.py) run on every check",
    "CPython/numpy/scipy/lxml as executed in /venv",
]


class Infra(Exception):
    """Infrastructure failure: exit 2, never reported as held or violated."""


def log(*a):
    print(*a, flush=True)


# --------------------------------------------------------------------------------------
# Lean side


class LakeLock:
    def __enter__(self):
        os.makedirs(os.path.join(LEAN, ".lake"), exist_ok=True)
        self.f = open(os.path.join(LEAN, ".lake", "verif.lock"), "w")
        fcntl.flock(self.f, fcntl.LOCK_EX)
        return self

    def __exit__(self, *a):
        fcntl.flock(self.f, fcntl.LOCK_UN)
        self.f.close()


def lake_build(targets, timeout=3000):
    """Build targets under the lock. Returns (ok, output)."""
    with LakeLock():
        try:
            p = subprocess.run(
                ["lake", "build"] + list(targets), cwd=LEAN, capture_output=True, text=True, timeout=timeout
            )
        except subprocess.TimeoutExpired:
            raise Infra("lake build timed out")
    out = p.stdout + p.stderr
    return p.returncode == 0, out


def write_if_changed(path, text):
    os.makedirs(os.path.dirname(path), exist_ok=True)
    try:
        with open(path) as f:
            if f.read() == text:
                return False
    except FileNotFoundError:
        pass
    tmp = path + ".tmp%d" % os.getpid()
    with open(tmp, "w") as f:
        f.write(text)
    os.replace(tmp, path)
    return True


def strip_comments(src):
    """Remove Lean block and line comments (for the forbidden-token grep)."""
    out = []
    i, depth, n = 0, 0, len(src)
    while i < n:
        if src.startswith("/-", i):
            depth += 1
            i += 2
        elif depth and src.startswith("-/", i):
            depth -= 1
            i += 2
        elif depth:
            if src[i] == "\n":
                out.append("\n")
            i += 1
        elif src.startswith("--", i):
            while i < n and src[i] != "\n":
                i += 1
        else:
            out.append(src[i])
            i += 1
    return "".join(out)


def grep_forbidden(modules):
    """Return list of (file, lineno, line) hits outside comments in the given module files
    and everything they import from this project."""
    seen, todo, hits = set(), list(modules), []
    while todo:
        m = todo.pop()
        if m in seen:
            continue
        seen.add(m)
        path = os.path.join(LEAN, *m.split(".")) + ".lean"
        if not os.path.exists(path):
            continue
        src = open(path).read()
        for im in re.findall(r"^import\s+(Earverif\.[\w.]+)", src, re.M):
            todo.append(im)
        for no, line in enumerate(strip_comments(src).split("\n"), 1):
            if FORBIDDEN.search(line):
                hits.append((path, no, line.strip()))
    return hits, sorted(seen)


def audit_axioms(pid, module, theorems):
    """#print axioms for each theorem; returns {name: sorted axioms or None if missing}."""
    lines = ["import %s" % module] + ["#print axioms %s" % t for t in theorems]
    path = os.path.join(LEAN, ".lake", "audit_%s.lean" % pid)
    os.makedirs(os.path.dirname(path), exist_ok=True)
    with open(path, "w") as f:
        f.write("\n".join(lines) + "\n")
    with LakeLock():
        p = subprocess.run(["lake", "env", "lean", path], cwd=LEAN, capture_output=True, text=True, timeout=1200)
    out = p.stdout + p.stderr
    res = {t: None for t in theorems}
    # outputs: "'name' depends on axioms: [a, b]" (possibly wrapped) / "'name' does not depend on any axioms"
    flat = re.sub(r"\s+", " ", out)
    for t in theorems:
        m = re.search(r"'%s' depends on axioms: \[([^\]]*)\]" % re.escape(t), flat)
        if m:
            res[t] = sorted(x.strip() for x in m.group(1).split(",") if x.strip())
        elif re.search(r"'%s' does not depend on any axioms" % re.escape(t), flat):
            res[t] = []
    return res, out


class Driver:
    """Line-protocol driver: native exe if built, else `lake env lean --run`."""

    def __init__(self, exe, module):
        self.exe = os.path.join(LEAN, ".lake", "build", "bin", exe)
        self.src = os.path.join(LEAN, *module.split(".")) + ".lean"

    def run(self, lines, timeout=3000):
        if not lines:
            return []
        data = "\n".join(lines) + "\n"
        if os.path.exists(self.exe):
            cmd = [self.exe]
        else:
            cmd = ["lake", "env", "lean", "--run", self.src]
        p = subprocess.run(cmd, cwd=LEAN, input=data, capture_output=True, text=True, timeout=timeout)
        if p.returncode != 0:
            raise Infra("driver failed: %s\n%s" % (cmd, (p.stdout + p.stderr)[-2000:]))
        out = p.stdout.split("\n")
        if out and out[-1] == "":
            out.pop()
        if len(out) != len(lines):
            raise Infra("driver answered %d lines for %d inputs" % (len(out), len(lines)))
        return out


# --------------------------------------------------------------------------------------
# Known findings


def load_known():
    path = os.path.join(VERIF, "known_findings.json")
    if not os.path.exists(path):
        return []
    return json.load(open(path)).get("findings", [])


# --------------------------------------------------------------------------------------
# Check context


class Ctx:
    def __init__(self, pid, tier, seed):
        self.pid, self.tier, self.seed = pid, tier, seed
        self.rng = random.Random("%s/%s/%d" % (pid, tier, seed))
        self.t0 = time.time()
        self.obligations = []  # (name, discharged: bool, detail)
        self.broken = []  # descriptions of broken proof obligations / correspondences
        self.hits = []  # concrete failing inputs: dict(kind, input, detail, classifier tags)
        self.cov = {
            "evaluations": 0,
            "distinct_nontrivial": 0,
            "traces_validated_against_impl": 0,
            "samples": [],
            "distribution": {},
        }
        self._distinct = set()
        self._samp_rng = random.Random("samples/%s/%d" % (pid, seed))
        self.assumptions = []
        self.notes = []

    @property
    def quick(self):
        return self.tier == "quick"

    def count(self, key, n=1):
        d = self.cov["distribution"]
        d[key] = d.get(key, 0) + n

    def case(self, canon, nontrivial=True, sample=None):
        """Record one explored case. `canon` is a hashable/str identity of the case."""
        self.cov["evaluations"] += 1
        if nontrivial:
            h = hashlib.blake2b(repr(canon).encode(), digest_size=8).digest()
            self._distinct.add(h)
        if sample is not None:
            # reservoir of 6 samples drawn uniformly from the cases offered
            self._nsamp = getattr(self, "_nsamp", 0) + 1
            if len(self.cov["samples"]) < 6:
                self.cov["samples"].append(sample)
            else:
                j = self._samp_rng.randrange(self._nsamp)
                if j < 6:
                    self.cov["samples"][j] = sample

    def validated(self, n=1):
        self.cov["traces_validated_against_impl"] += n

    def obligation(self, name, ok, detail=""):
        self.obligations.append((name, bool(ok), detail))
        if not ok:
            self.broken.append("obligation %s: %s" % (name, detail))

    def disagree(self, what, inp, model, impl):
        """Correspondence broke on a concrete input (not by itself a violation)."""
        self.broken.append("correspondence %s on %r: model=%r impl=%r" % (what, inp, model, impl))
        self.count("disagreements")

    def hit(self, what, inp, detail, tags=()):
        """The property itself fails on the real code for this concrete input."""
        self.hits.append({"what": what, "input": inp, "detail": detail, "tags": list(tags)})


def sources_changed(pid):
    """Anchor files of this property whose content differs from fingerprints.json (informational)."""
    try:
        fp = json.load(open(os.path.join(VERIF, "fingerprints.json"))).get(pid, {})
    except Exception:
        return None
    changed = []
    for f, h in sorted(fp.items()):
        path = os.path.join(REPO, f)
        try:
            now = hashlib.sha256(open(path, "rb").read()).hexdigest()
        except OSError:
            now = "missing"
        if now != h:
            changed.append(f)
    return changed


def finish(ctx, spec):
    """Classify, write evidence and replay, print lines, return exit code."""
    known = [k for k in load_known() if k.get("property") == ctx.pid and k.get("status") == "known"]
    unlisted, listed = [], {}
    for h in ctx.hits:
        m = [k for k in known if k.get("classifier") in h["tags"]]
        if m:
            listed.setdefault(m[0]["classifier"], (m[0], []))[1].append(h)
        else:
            unlisted.append(h)
    # a broken obligation/correspondence that is fully explained by listed findings is not re-reported
    broken = list(ctx.broken)
    code = 0
    replay = None
    if unlisted or broken:
        os.makedirs(os.path.join(OUT, "replays"), exist_ok=True)
        replay = os.path.join(OUT, "replays", "%s-%s-%d.json" % (ctx.pid, ctx.tier, ctx.seed))
        with open(replay, "w") as f:
            json.dump(
                {
                    "property": ctx.pid,
                    "tier": ctx.tier,
                    "seed": ctx.seed,
                    "failing_inputs": unlisted[:20],
                    "broken": broken[:50],
                    "theorems_or_correspondence_not_checking": [b.split(":")[0] for b in broken][:50],
                    "replay_cmd": "./check %s --replay %s" % (ctx.pid, os.path.relpath(replay, OUT)),
                },
                f,
                indent=1,
                default=str,
            )
        code = 1
    n_ob = len(ctx.obligations)
    n_ok = sum(1 for o in ctx.obligations if o[1])
    ctx.cov["distinct_nontrivial"] = len(ctx._distinct)
    cov = dict(ctx.cov)
    cov.update(
        {
            "obligations": n_ob,
            "discharged": n_ok,
            "obligation_names": [o[0] for o in ctx.obligations],
            "undischarged": [(o[0], o[2][:300]) for o in ctx.obligations if not o[1]],
            "checker_cmd": "cd lean && lake build %s  # + `lake env lean` #print axioms audit%s"
            % (" ".join(spec.lean_targets), "; lake env leanchecker" if not ctx.quick else ""),
            "trusted_base": TRUSTED_BASE_COMMON + list(spec.trusted_base),
            "rule": spec.rule,
            "exhaustive": False,
            "known_findings_reproduced": {k: len(v[1]) for k, v in listed.items()},
            "notes": ctx.notes,
            "anchor_sources_changed_since_model_validated": sources_changed(ctx.pid),
        }
    )
    ev = {
        "property_id": ctx.pid,
        "tier": ctx.tier,
        "seed": ctx.seed,
        "level": "proof",
        "coverage": cov,
        "assumptions": list(spec.assumptions) + ctx.assumptions,
        "wall_s": round(time.time() - ctx.t0, 2),
        "violations": len(unlisted) + (1 if broken and not unlisted else 0),
    }
    os.makedirs(os.path.join(OUT, "evidence"), exist_ok=True)
    with open(os.path.join(OUT, "evidence", "%s.json" % ctx.pid), "w") as f:
        json.dump(ev, f, indent=1, default=str)
    for cl, (k, hs) in listed.items():
        log("KNOWN-FINDING: property=%s %s (%d reproductions this run; classifier %s)" % (ctx.pid, k["what"], len(hs), cl))
    for k in known:  # every listed finding gets its line, also when this run's sampling did not land on it
        if k.get("classifier") not in listed:
            log("KNOWN-FINDING: property=%s %s (listed; 0 reproductions this run: its witness was not sampled; classifier %s)"
                % (ctx.pid, k["what"], k.get("classifier")))
    if code:
        rel = os.path.relpath(replay, OUT)
        if unlisted:
            seen_what = set()
            for h in unlisted:  # one example per distinct kind of failure, at most three
                if h["what"] in seen_what or len(seen_what) >= 3:
                    continue
                seen_what.add(h["what"])
                log("failing input: %s" % json.dumps(h, default=str)[:1500])
            log("VIOLATION property=%s replay=%s" % (ctx.pid, rel))
        else:
            for b in broken[:5]:
                log("broken: " + b[:1500])
            log("VIOLATION property=%s replay=%s no-failing-input-found" % (ctx.pid, rel))
    else:
        log(
            "OK property=%s tier=%s obligations=%d/%d validated=%d evaluations=%d wall=%.1fs"
            % (ctx.pid, ctx.tier, n_ok, n_ob, cov["traces_validated_against_impl"], cov["evaluations"], ev["wall_s"])
        )
    return code


class Spec:
    """Per-property description; subclasses/instances fill these in."""

    pid = ""
    lean_targets = ()  # lake targets (modules and driver exes)
    props_module = ""  # module holding the property theorems
    theorems = ()  # fully qualified names of property theorems (obligations)
    trusted_base = ()
    assumptions = ()
    rule = ""

    def extract(self, ctx):  # T: regenerate Gen/*.lean from /repo
        pass

    def correspond(self, ctx):  # C: model vs implementation
        pass

    def search(self, ctx, deep):  # direct predicate on the real code
        pass


def run_check(spec, tier, seed):
    ctx = Ctx(spec.pid, tier, seed)
    try:
        # 1. extraction (failure to import the real code is a finding about the code, not infra)
        try:
            spec.extract(ctx)
        except Infra:
            raise
        except Exception as e:
            ctx.obligation("extract", False, "table extraction from /repo failed: %r" % (e,))
            ctx.notes.append(traceback.format_exc()[-1500:])
        # 2. build
        prop_targets = [t for t in spec.lean_targets if "." in t]
        drv_targets = [t for t in spec.lean_targets if "." not in t]
        ok, out = lake_build(prop_targets)
        build_ok = ok
        if not ok:
            errs = [l for l in out.split("\n") if l.startswith("error:")]
            ctx.notes.append("lake build failed: " + "\n".join(errs[:10]))
        drv_ok = True
        if drv_targets:
            drv_ok, dout = lake_build(drv_targets)
            if not drv_ok:
                ctx.broken.append("correspondence driver does not build: " + _first_error(dout))
        # 3. audit
        hits, mods = grep_forbidden([spec.props_module])
        hits += grep_forbidden(["Earverif.Props.Kernels", "Earverif.Props.KernelsSel", "Earverif.Props.KernelsAdm"])[0]
        ctx.obligation("no-forbidden-tokens", not hits, "; ".join("%s:%d %s" % h for h in hits[:5]))
        if build_ok:
            ax, raw = audit_axioms(spec.pid, spec.props_module, spec.theorems)
        else:
            ax, raw = {t: None for t in spec.theorems}, out
        for t in spec.theorems:
            a = ax[t]
            if a is None:
                # which theorem failed? look for its file error; all are undischarged if build failed
                ctx.obligation(t, False, "not checked by the kernel (build/audit failed): " + _first_error(out if not build_ok else raw))
            elif not set(a) <= ALLOWED_AXIOMS:
                ctx.obligation(t, False, "uses axioms %s" % a)
            else:
                ctx.obligation(t, True, "axioms %s" % a)
        # 3b. translated kernels (T): Python source of scalar kernels -> Gen/Kernels.lean -> equality with the model
        try:
            from . import kernels
            kob = kernels.obligations(spec.pid)
        except Exception as e:  # the translator itself is framework code
            raise Infra("kernel translator failed to load: %r" % (e,))
        if kob:
            kmod, kthms = kob
            try:
                kernels.extract()
                kok, kout = lake_build([kmod])
                if kok:
                    kax, _ = audit_axioms(spec.pid + "_kernels", kmod, kthms)
                    for t in kthms:
                        a = kax.get(t)
                        okk = a is not None and set(a) <= ALLOWED_AXIOMS
                        ctx.obligation("kernel:" + t.split(".")[-1], okk,
                                       "axioms %s" % a if okk else "translated source no longer equals the model (or uses axioms %s)" % a)
                else:  # some kernel theorem broke: find out which ones belong to this property
                    st = kernels.status()
                    for t in kthms:
                        err = st.get(t, "not elaborated")
                        ctx.obligation("kernel:" + t.split(".")[-1], err is None,
                                       "" if err is None else "translated Python source no longer equals the Lean model: %s" % str(err)[:300])
            except Infra:
                raise
            except Exception as e:
                ctx.obligation("kernel-translation", False, "extraction from the Python source failed: %r" % (e,))
        if not ctx.quick and build_ok:
            with LakeLock():
                p = subprocess.run(
                    ["lake", "env", "leanchecker"] + mods, cwd=LEAN, capture_output=True, text=True, timeout=3000
                )
            ctx.obligation("leanchecker", p.returncode == 0, (p.stdout + p.stderr)[-500:])
        # 4. correspondence
        if drv_ok:
            try:
                spec.correspond(ctx)
            except Infra:
                raise
            except Exception as e:
                # the correspondence code itself fell over: on a changed tree this usually means the implementation's
                # intermediate results no longer have the shape/behaviour the model has -> a broken tie, then search
                ctx.broken.append("correspondence harness raised %s: %s" % (type(e).__name__, str(e)[:300]))
                ctx.notes.append(traceback.format_exc()[-2000:])
        # 5/6. direct predicate search; deeper if something broke
        try:
            spec.search(ctx, deep=bool(ctx.broken) or not ctx.quick)
        except Infra:
            raise
        except Exception as e:
            # an exception that comes out of the repository's own code (innermost frame under REPO) while the search
            # harness was exercising it is behaviour of the code under test, not a harness bug: report it as a broken
            # tie (hits found before it are kept); anything else is a harness bug -> exit 2
            tb = traceback.extract_tb(e.__traceback__)
            inner = os.path.realpath(tb[-1].filename) if tb else ""
            if inner.startswith(os.path.realpath(REPO) + os.sep):
                ctx.broken.append("search harness: the code under test raised %s: %s (at %s:%d)"
                                  % (type(e).__name__, str(e)[:300], os.path.relpath(inner, os.path.realpath(REPO)), tb[-1].lineno))
                ctx.notes.append(traceback.format_exc()[-2000:])
            else:
                raise
        return finish(ctx, spec)
    except Infra as e:
        log("INFRA-FAILURE property=%s: %s" % (spec.pid, e))
        return 2
    except subprocess.TimeoutExpired as e:
        log("INFRA-FAILURE property=%s: timeout %s" % (spec.pid, e))
        return 2
    except Exception:
        # a bug in the harness itself is never reported as held or as a violation
        log("INFRA-FAILURE property=%s: unexpected harness exception\n%s" % (spec.pid, traceback.format_exc()[-3000:]))
        return 2


def _first_error(out):
    for l in out.split("\n"):
        if "error" in l:
            return l[:400]
    return out[-300:]
