/- C05 — layer separation of the composed panner on a checked table (over ℝ).

   A Triplet accepts `p` only if `p = Σ gᵢ·Pᵢ` with every `gᵢ ≥ −1e-11`; if every vertex has `z ∈ [−1, 0]` then
   `p.z ≤ 3e-11`, so a direction with `z > 3e-11` is rejected (`triplet_none_of_above`; mirrored for `z ∈ [0, 1]`).
   The inner triplets of a VirtualNgon are triplets.  A region that rejects cannot be the first accepting region; a
   region none of whose channels feeds the real channel `i` through the downmix leaves `i` at exactly 0 (the scatter
   writes only the region's own channels, the downmix row of `i` is zero elsewhere, `0 / norm = 0`). -/
import Earverif.Proofs.C05ExactCert

namespace Earverif.PointSource.Cover
open Earverif.PointSource
open Earverif.GainCalc (quadRoot)

/-- the slack of the layer-separation statements: three times the acceptance tolerance `1e-11` of `Triplet.handle` -/
noncomputable def layerDelta : ℝ := 3 / 100000000000

/-! ### one-sided triplets -/

theorem comb3_z (s t u : ℝ) (a b c : Vec3 ℝ) : (comb3 s t u (a, b, c)).2.2 = s * a.2.2 + t * b.2.2 + u * c.2.2 := by
  obtain ⟨a0, a1, a2⟩ := a
  obtain ⟨b0, b1, b2⟩ := b
  obtain ⟨c0, c1, c2⟩ := c
  simp [comb3, add3, smul3]

/-- an accepted direction is `Σ gᵢ Pᵢ` with `gᵢ ≥ −1e-11` -/
theorem triplet_accept_comb (a b c p : Vec3 ℝ) (hd : det3 (a, b, c) ≠ 0) (h : Triplet.handle (a, b, c) p ≠ none) :
    ∃ s t u : ℝ, -(1 / 100000000000) ≤ s ∧ -(1 / 100000000000) ≤ t ∧ -(1 / 100000000000) ≤ u ∧ p = comb3 s t u (a, b, c) := by
  unfold Triplet.handle at h
  split at h
  · rename_i hacc
    simp only [Triplet.accepts, pv_cramer, tripletEps_real] at hacc
    exact ⟨_, _, _, hacc.1, hacc.2.1, hacc.2.2, cramer_vec a b c p hd⟩
  · exact absurd rfl h

/-- all vertices at or below the horizontal plane (z ∈ [−1, 0]) ⇒ a direction with `z > 3e-11` is rejected -/
theorem triplet_none_of_above (a b c p : Vec3 ℝ) (hd : det3 (a, b, c) ≠ 0) (ha : -1 ≤ a.2.2 ∧ a.2.2 ≤ 0)
    (hb : -1 ≤ b.2.2 ∧ b.2.2 ≤ 0) (hc : -1 ≤ c.2.2 ∧ c.2.2 ≤ 0) (hp : layerDelta < p.2.2) :
    Triplet.handle (a, b, c) p = none := by
  by_contra h
  obtain ⟨s, t, u, hs, ht, hu, rfl⟩ := triplet_accept_comb a b c p hd h
  rw [comb3_z] at hp
  unfold layerDelta at hp
  have e1 : s * a.2.2 ≤ 1 / 100000000000 := by nlinarith
  have e2 : t * b.2.2 ≤ 1 / 100000000000 := by nlinarith
  have e3 : u * c.2.2 ≤ 1 / 100000000000 := by nlinarith
  linarith

/-- all vertices at or above the horizontal plane (z ∈ [0, 1]) ⇒ a direction with `z < −3e-11` is rejected -/
theorem triplet_none_of_below (a b c p : Vec3 ℝ) (hd : det3 (a, b, c) ≠ 0) (ha : 0 ≤ a.2.2 ∧ a.2.2 ≤ 1)
    (hb : 0 ≤ b.2.2 ∧ b.2.2 ≤ 1) (hc : 0 ≤ c.2.2 ∧ c.2.2 ≤ 1) (hp : p.2.2 < -layerDelta) :
    Triplet.handle (a, b, c) p = none := by
  by_contra h
  obtain ⟨s, t, u, hs, ht, hu, rfl⟩ := triplet_accept_comb a b c p hd h
  rw [comb3_z] at hp
  unfold layerDelta at hp
  have e1 : -(1 / 100000000000) ≤ s * a.2.2 := by nlinarith
  have e2 : -(1 / 100000000000) ≤ t * b.2.2 := by nlinarith
  have e3 : -(1 / 100000000000) ≤ u * c.2.2 := by nlinarith
  linarith

/-- `p` is on the far side of the layer: above by more than `layerDelta` (`up = false`: lower layer) or below -/
def FarSide (up : Bool) (p : Vec3 ℝ) : Prop := if up then p.2.2 < -layerDelta else layerDelta < p.2.2

/-- the real `z` of a table vertex is on the layer's side -/
def ZSide (up : Bool) (a : Vec3 ℝ) : Prop := if up then 0 ≤ a.2.2 ∧ a.2.2 ≤ 1 else -1 ≤ a.2.2 ∧ a.2.2 ≤ 0

theorem triplet_none_of_far (up : Bool) (a b c p : Vec3 ℝ) (hd : det3 (a, b, c) ≠ 0) (ha : ZSide up a) (hb : ZSide up b)
    (hc : ZSide up c) (hp : FarSide up p) : Triplet.handle (a, b, c) p = none := by
  cases up
  · exact triplet_none_of_above a b c p hd ha hb hc hp
  · exact triplet_none_of_below a b c p hd ha hb hc hp

theorem zSide_real (K : Nat) (up : Bool) (w : IV) (a : Vec3 ℝ) (e : castV w = smul3 ((2 : ℝ) ^ K) a)
    (h : (if up then decide (0 ≤ w.2.2) && decide (w.2.2 ≤ 2 ^ K) else decide (-(2 ^ K) ≤ w.2.2) && decide (w.2.2 ≤ 0)) = true) :
    ZSide up a := by
  have hS : (0 : ℝ) < (2 : ℝ) ^ K := by positivity
  have ez : ((w.2.2 : ℤ) : ℝ) = (2 : ℝ) ^ K * a.2.2 := by
    have := congrArg (fun v : Vec3 ℝ => v.2.2) e
    simpa [castV, smul3] using this
  cases up
  · simp only [Bool.false_eq_true, if_false, Bool.and_eq_true, decide_eq_true_eq] at h
    have h1 : -((2 : ℝ) ^ K) ≤ ((w.2.2 : ℤ) : ℝ) := by exact_mod_cast h.1
    have h2 : ((w.2.2 : ℤ) : ℝ) ≤ 0 := by exact_mod_cast h.2
    rw [ez] at h1 h2
    simp only [ZSide, Bool.false_eq_true, if_false]
    constructor
    · by_contra hh
      have := mul_lt_mul_of_pos_left (not_le.mp hh) hS
      linarith
    · by_contra hh
      have := mul_pos hS (not_le.mp hh)
      linarith
  · simp only [if_true, Bool.and_eq_true, decide_eq_true_eq] at h
    have h1 : (0 : ℝ) ≤ ((w.2.2 : ℤ) : ℝ) := by exact_mod_cast h.1
    have h2 : ((w.2.2 : ℤ) : ℝ) ≤ (2 : ℝ) ^ K := by exact_mod_cast h.2
    rw [ez] at h1 h2
    simp only [ZSide, if_true]
    constructor
    · by_contra hh
      have := mul_neg_of_pos_of_neg hS (not_le.mp hh)
      linarith
    · by_contra hh
      have := mul_lt_mul_of_pos_left (not_le.mp hh) hS
      linarith

theorem zSide_getD (K : Nat) (up : Bool) (pos : List P3) (ps : List IV) (hm : pos.mapM (scaleP3 K) = some ps)
    (h : zSide K up ps = true) (i : Nat) (hi : i < ps.length) : ZSide up ((pos.map (p3 (α := ℝ))).getD i zero3) := by
  unfold zSide at h
  rw [List.all_eq_true] at h
  have hmem : ps.getD i (0, 0, 0) ∈ ps := by
    rw [List.getD_eq_getElem?_getD, List.getElem?_eq_getElem hi]; exact List.getElem_mem _
  exact zSide_real K up _ _ (mapM_scale_getD K pos ps hm i) (h _ hmem)

/-- **a one-sided region rejects every direction on the far side** (any roots: it is not a quad) -/
theorem regionOneSided_sound (K : Nat) (up : Bool) (r : RawRegion) (reg : Region ℝ) (hreg : r.toRegion = some reg)
    (h : regionOneSided K up r = true) (hwf : isPermOfRange r.order r.pos.length = true ∨ r.kind ≠ 1)
    (roots : Option ℝ × Option ℝ) (p : Vec3 ℝ) (hp : FarSide up p) :
    reg.handle roots p = none := by
  obtain ⟨kind, ch, pos, centre, cdm, order⟩ := r
  unfold regionOneSided at h
  simp only at h hwf
  split at h
  · rename_i _ _ a b c hm
    have hz := zSide_getD K up pos _ hm
    obtain ⟨x0, xs0, f0, hm, hx0⟩ := mapM_cons_some' _ _ _ _ hm
    obtain ⟨x1, xs1, f1, hm, hx1⟩ := mapM_cons_some' _ _ _ _ hm
    obtain ⟨x2, xs2, f2, hm, hx2⟩ := mapM_cons_some' _ _ _ _ hm
    have hnil := mapM_nil' _ _ hm
    subst hnil hx2 hx1 hx0
    simp only [RawRegion.toRegion, Option.some.injEq] at hreg
    subst hreg
    simp only [Bool.and_eq_true, bne_iff_ne, ne_eq] at h
    have hdet := idet_real K _ _ _ _ _ _ (scaleP3_real K _ _ f0) (scaleP3_real K _ _ f1) (scaleP3_real K _ _ f2) h.1
    have z0 := hz h.2 0 (by simp)
    have z1 := hz h.2 1 (by simp)
    have z2 := hz h.2 2 (by simp)
    simp only [List.map_cons, List.map_nil, List.getD_cons_zero, List.getD_cons_succ] at z0 z1 z2
    simp only [Region.handle, Option.map_eq_none_iff]
    exact triplet_none_of_far up _ _ _ p hdet z0 z1 z2 hp
  · rename_i _ _ ps hm
    simp only [RawRegion.toRegion, Option.some.injEq] at hreg
    subst hreg
    split at h
    · rename_i ce hce
      have hpl := mapM_length _ _ _ hm
      simp only [Bool.and_eq_true, List.all_eq_true, List.mem_range, bne_iff_ne, ne_eq] at h
      obtain ⟨hz, hdet⟩ := h
      have hzc : ZSide up (p3 centre) := by
        unfold zSide at hz
        rw [List.all_eq_true] at hz
        exact zSide_real K up ce _ (scaleP3_real K _ _ hce) (hz ce (by simp))
      have hzs : zSide K up ps = true := by
        unfold zSide at hz ⊢
        rw [List.all_eq_true] at hz ⊢
        exact fun v hv => hz v (by simp [hv])
      have hperm : isPermOfRange order pos.length = true := by
        rcases hwf with h' | h'
        · exact h'
        · exact absurd rfl h'
      simp only [isPermOfRange, Bool.and_eq_true, beq_iff_eq, List.all_eq_true, decide_eq_true_eq] at hperm
      obtain ⟨⟨holen, holt⟩, _⟩ := hperm
      have hord : ∀ i, i < pos.length → order.getD i 0 < ps.length := by
        intro i hi
        rw [hpl, List.getD_eq_getElem?_getD, List.getElem?_eq_getElem (by omega)]
        exact holt _ (List.getElem_mem _)
      simp only [Region.handle]
      apply ngon_none
      intro i hi
      simp only [List.length_map] at hi ⊢
      have hd := hdet i (by rw [hpl]; exact hi)
      simp only [fanTri, hpl] at hd
      have hi2 : (i + 1) % pos.length < pos.length := Nat.mod_lt _ (by omega)
      exact triplet_none_of_far up _ _ _ p
        (idet_real K _ _ _ _ _ _ (mapM_scale_getD K pos ps hm _) (mapM_scale_getD K pos ps hm _) (scaleP3_real K _ _ hce) hd)
        (zSide_getD K up pos ps hm hzs _ (hord i hi)) (zSide_getD K up pos ps hm hzs _ (hord _ hi2)) hzc hp
    · exact absurd h (by simp)
  · exact absurd h (by simp)

/-! ### channels that a region does not write stay at zero -/

theorem scatter_getD_of_not_mem : ∀ (is : List Nat) (vs out : List ℝ) (c : Nat), c ∉ is →
    (scatter out is vs).getD c 0 = out.getD c 0
  | [], _, out, c, _ => by simp [scatter]
  | _ :: _, [], out, c, _ => by simp [scatter]
  | i :: is, v :: vs, out, c, h => by
    have hic : i ≠ c := fun e => h (by simp [e])
    have his : c ∉ is := fun e => h (by simp [e])
    rw [scatter, scatter_getD_of_not_mem is vs _ c his, List.getD_eq_getElem?_getD, List.getD_eq_getElem?_getD,
      List.getElem?_set_ne hic]

theorem getD_zeros (n c : Nat) : (zeros n : List ℝ).getD c 0 = 0 := by
  rw [zeros_eq, List.getD_eq_getElem?_getD, List.getElem?_replicate]
  split <;> rfl

theorem dot_eq_zero : ∀ (a b : List ℝ), (∀ c, a.getD c 0 = 0 ∨ b.getD c 0 = 0) → dot a b = 0
  | [], _, _ => by simp [dot]
  | _ :: _, [], _ => by simp [dot]
  | x :: xs, y :: ys, h => by
    have h0 := h 0
    simp only [List.getD_cons_zero] at h0
    have hrest := dot_eq_zero xs ys (fun c => by simpa using h (c + 1))
    simp only [dot, hrest, add_zero]
    rcases h0 with rfl | rfl <;> simp

/-- the downmix row of the real channel `i` is zero at an inner channel that does not feed it -/
theorem downmixRows_zero (l : RawLayout) (i c : Nat) (hi : i < l.nReal) (h : feeds l i c = false) :
    ((l.downmixRows (α := ℝ)).getD i []).getD c 0 = 0 := by
  have getD_map_range : ∀ {β : Type} (f : Nat → β) (n j : Nat) (d : β), j < n → ((List.range n).map f).getD j d = f j := by
    intro β f n j d hj
    rw [List.getD_eq_getElem?_getD, List.getElem?_map, List.getElem?_range hj]; rfl
  unfold RawLayout.downmixRows
  rw [getD_map_range _ _ _ _ hi]
  by_cases hc : c < l.nInner
  · rw [getD_map_range _ _ _ _ hc]
    have : l.downmix.find? (fun e => e.1 == i && e.2.1 == c) = none := by
      rw [List.find?_eq_none]
      intro e he hpe
      unfold feeds at h
      rw [List.any_eq_false] at h
      exact h e he hpe
    rw [this]
    simp
  · rw [List.getD_eq_getElem?_getD, List.getElem?_eq_none (by simp; omega)]
    rfl

theorem getD_normalise (v : List ℝ) (i : Nat) (h : v.getD i 0 = 0) : (normalise v).getD i 0 = 0 := by
  unfold normalise
  rw [List.getD_eq_getElem?_getD, List.getElem?_map]
  rw [List.getD_eq_getElem?_getD] at h
  cases hv : v[i]? with
  | none => rfl
  | some x =>
    rw [hv] at h
    simp only [Option.getD_some] at h
    simp [h]

theorem getD_matVec (D : List (List ℝ)) (v : List ℝ) (i : Nat) (hi : i < D.length) :
    (matVec D v).getD i 0 = dot (D.getD i []) v := by
  unfold matVec
  rw [List.getD_eq_getElem?_getD, List.getElem?_map, List.getD_eq_getElem?_getD, List.getElem?_eq_getElem hi]
  rfl

/-! ### the composed panner -/

/-- `scatter` leaves channel `c` at 0 when every value it writes there is 0 -/
theorem scatter_getD_zero : ∀ (is : List Nat) (vs out : List ℝ) (c : Nat), out.getD c 0 = 0 →
    (∀ j, is[j]? = some c → vs.getD j 0 = 0) → (scatter out is vs).getD c 0 = 0
  | [], _, out, c, h, _ => by simpa [scatter] using h
  | _ :: _, [], out, c, h, _ => by simpa [scatter] using h
  | i :: is, v :: vs, out, c, h, hz => by
    rw [scatter]
    apply scatter_getD_zero is vs _ c
    · by_cases hic : i = c
      · subst hic
        have hv : v = 0 := by simpa using hz 0 (by simp)
        subst hv
        rw [List.getD_eq_getElem?_getD, List.getElem?_set]
        simp only [if_true]
        split <;> rfl
      · rw [List.getD_eq_getElem?_getD, List.getElem?_set_ne hic, ← List.getD_eq_getElem?_getD]; exact h
    · intro j hj
      simpa using hz (j + 1) (by simpa using hj)

/-- the QuadRegion `r` of the table `l`, asked for the direction `p`, answers `None`, or its answer gives the weight
    EXACTLY 0 to every corner whose channel feeds one of the real channels `rows` (the pan value across the layer is a
    root clipped to 0 resp. 1, so the two bilinear weights `x·y`, `(1−x)·y` … of those corners are products with 0) -/
def QuadZeroAt (l : RawLayout) (rows : List Nat) (r : RawRegion) (p : Vec3 ℝ) : Prop :=
  let q : QuadRegion ℝ := ⟨r.pos.map p3, r.order⟩
  ∀ gv, q.handle (quadRoot (q.polys p).1) (quadRoot (q.polys p).2) p = some gv →
    ∀ j c, r.ch[j]? = some c → (rows.any fun i => feeds l i c) = true → gv.getD j 0 = 0

/-- the hypothesis left for QuadRegions: every QuadRegion of the table that has a channel feeding one of `rows`, asked for
    a direction on the far side, answers `None` OR gives the corners feeding `rows` the weight exactly 0 (`QuadZeroAt`).
    (The stronger "always answers `None`" is FALSE on the real tables: for `p.z` between about −1e-10 and −3e-11 the
    vertical pan root is still inside `pan_axis`' window (−1e-10, 1+1e-10), is clipped to 0 and the quad accepts — with
    weight exactly 0 on its upper corners; see the `example` on 4+5+0 in Props/C05.lean.) -/
def QuadsZeroFar (l : RawLayout) (rows : List Nat) (up : Bool) : Prop :=
  ∀ r ∈ l.regions, r.kind = 2 → touches l rows r = true → ∀ p : Vec3 ℝ, FarSide up p → QuadZeroAt l rows r p

theorem mem_results {regions : List (Region ℝ)} {n : Nat} {roots : Nat → Option ℝ × Option ℝ} {p : Vec3 ℝ} {g : List ℝ}
    (h : PointSourcePanner.handle regions n roots p = some g) :
    ∃ (k : Nat) (reg : Region ℝ) (gv : List ℝ), regions[k]? = some reg ∧ reg.handle (roots k) p = some gv ∧
      g = scatter (zeros n) reg.channels gv := by
  unfold PointSourcePanner.handle at h
  have hm := firstAccept_mem h
  obtain ⟨k, hk, he⟩ := List.mem_iff_getElem.mp hm
  have hk' : k < regions.length := by simpa [PointSourcePanner.results] using hk
  have hr := results_getElem? regions n roots p k hk'
  rw [List.getElem?_eq_getElem hk, he, Option.some.injEq] at hr
  cases hh : regions[k].handle (roots k) p with
  | none => rw [hh] at hr; simp [remap] at hr
  | some gv =>
    rw [hh] at hr
    simp only [remap, Option.map_some, Option.some.injEq] at hr
    exact ⟨k, regions[k], gv, List.getElem?_eq_getElem hk', hh, hr⟩

/-- **Layer separation on a checked table.**  `rows`: real channels; every region with a channel feeding one of them
    is one-sided (`layerOkQ`; QuadRegions by hypothesis `hq`: `None` or weight 0 on the corners feeding `rows`).  For every
    direction on the far side the modelled `configure(layout).handle` answers a vector with one entry per real channel
    that gives every channel of `rows` the gain exactly 0. -/
theorem layer_separation_of_check (K : Nat) (l : RawLayout) (hwf : l.wellFormed = true) (hst : l.stereo = none)
    (rows : List Nat) (up : Bool) (hc : layerOkQ K l rows up = true) (hq : QuadsZeroFar l rows up) (p : Vec3 ℝ)
    (hp : FarSide up p) (out : List ℝ) (hout : handleSel quadRoot l p = some out) (i : Nat) (hi : i ∈ rows)
    (hir : i < l.nReal) : out.length = l.nReal ∧ out.getD i 0 = 0 := by
  obtain ⟨regions, hregs⟩ := mapM_toRegion_of_wf l hwf
  unfold handleSel at hout
  rw [hregs] at hout
  simp only at hout
  unfold RawLayout.handle at hout
  rw [hregs, hst] at hout
  simp only at hout
  cases hin : PointSourcePanner.handle regions l.nInner (rootsOf quadRoot regions p) p with
  | none => rw [hin] at hout; simp [PointSourcePannerDownmix.handle] at hout
  | some g =>
    rw [hin] at hout
    simp only [PointSourcePannerDownmix.handle, Option.map_some, Option.some.injEq] at hout
    subst hout
    obtain ⟨k, reg, gv, hreg, hacc, rfl⟩ := mem_results hin
    -- the raw region
    have hklt : k < regions.length := by
      by_contra hge
      rw [List.getElem?_eq_none (by omega)] at hreg
      exact absurd hreg (by simp)
    have hlen : regions.length = l.regions.length := mapM_length _ _ _ hregs
    have hraw : l.regions[k]? = some l.regions[k] := List.getElem?_eq_getElem (by omega)
    obtain ⟨reg', hreg', hto⟩ := mapM_getElem? _ _ _ hregs _ _ hraw
    rw [hreg] at hreg'
    simp only [Option.some.injEq] at hreg'
    subst hreg'
    set r := l.regions[k] with hr
    have hrmem : r ∈ l.regions := List.getElem_mem _
    -- the accepting region gives the weight 0 to every channel of its own that feeds `rows`
    have hzero : ∀ j c, r.ch[j]? = some c → (rows.any fun i => feeds l i c) = true → gv.getD j 0 = 0 := by
      by_cases ht' : touches l rows r = true
      · unfold layerOkQ at hc
        rw [List.all_eq_true] at hc
        have := hc r hrmem
        simp only [ht', Bool.not_true, Bool.false_or, Bool.or_eq_true, beq_iff_eq] at this
        have hrw : r.wellFormed l.nInner = true := by
          simp only [RawLayout.wellFormed, Bool.and_eq_true, List.all_eq_true] at hwf
          exact hwf.1.1.1 r hrmem
        rcases this with hk2 | hone
        · -- a quad: by hypothesis
          have hqz := hq r hrmem hk2 ht' p hp
          obtain ⟨kind, ch, pos, centre, cdm, order⟩ := r
          simp only at hk2
          subst hk2
          simp only [RawRegion.wellFormed, Bool.and_eq_true, beq_iff_eq] at hrw
          obtain ⟨⟨⟨_, _⟩, hposlen⟩, hk4⟩ := hrw
          have hl4 : pos.length = 4 := by rw [hposlen]; simpa using hk4.1
          match pos, hl4, hto, hqz with
          | [q0, q1, q2, q3], _, hto, hqz =>
            simp only [RawRegion.toRegion, Option.some.injEq] at hto
            subst hto
            simp only [Region.handle, rootsOf, hreg] at hacc
            exact hqz gv hacc
        · have hperm : isPermOfRange r.order r.pos.length = true ∨ r.kind ≠ 1 := by
            by_cases hk1 : r.kind = 1
            · left
              obtain ⟨kind, ch, pos, centre, cdm, order⟩ := r
              simp only at hk1
              subst hk1
              simp only [RawRegion.wellFormed, Bool.and_eq_true, beq_iff_eq] at hrw
              obtain ⟨⟨⟨_, _⟩, hposlen⟩, hk4⟩ := hrw
              simp only
              rw [hposlen]
              exact hk4.1.2
            · right; exact hk1
          rw [regionOneSided_sound K up r reg hto hone hperm _ p hp] at hacc
          exact absurd hacc (by simp)
      · intro j c hj hf
        exfalso
        apply ht'
        unfold touches
        rw [List.any_eq_true]
        exact ⟨c, List.mem_of_getElem? hj, hf⟩
    refine ⟨by simp [normalise, matVec, length_downmixRows'], ?_⟩
    -- hence row `i` of the downmix meets only zeros
    rw [toRegion_channels r reg hto]
    apply getD_normalise
    rw [getD_matVec _ _ _ (by rw [length_downmixRows']; exact hir)]
    apply dot_eq_zero
    intro c
    by_cases hf : feeds l i c = true
    · right
      apply scatter_getD_zero _ _ _ _ (getD_zeros _ _)
      intro j hj
      exact hzero j c hj (by rw [List.any_eq_true]; exact ⟨i, hi, hf⟩)
    · left
      exact downmixRows_zero l i c hir (by simpa using hf)

/-- a table all of whose touching regions are one-sided has no touching QuadRegion -/
theorem layerOk_noquad (K : Nat) (l : RawLayout) (rows : List Nat) (up : Bool) (h : layerOk K l rows up = true) :
    layerOkQ K l rows up = true ∧ QuadsZeroFar l rows up := by
  unfold layerOk at h
  rw [List.all_eq_true] at h
  constructor
  · unfold layerOkQ
    rw [List.all_eq_true]
    intro r hr
    have := h r hr
    simp only [Bool.or_eq_true, Bool.not_eq_true'] at this ⊢
    rcases this with h' | h'
    · exact Or.inl (Or.inl h')
    · exact Or.inr h'
  · intro r hr hk ht
    have := h r hr
    simp only [ht, Bool.not_true, Bool.false_or] at this
    obtain ⟨kind, ch, pos, centre, cdm, order⟩ := r
    simp only at hk
    subst hk
    unfold regionOneSided at this
    simp at this

theorem layerRows_lt (l : RawLayout) (up : Bool) (k : Nat) (h : k ∈ layerRows l up) : k < l.nReal ∧ l.stereo = none := by
  unfold layerRows at h
  split at h
  · simp at h
  · rename_i hs
    rw [List.mem_filter, List.mem_range] at h
    exact ⟨h.1, hs⟩

/-! ### one pan axis of one QuadRegion at one (binary64) direction: a decidable check -/

/-- the pan axis (`rot = false`: `pan_x`, `rot = true`: `pan_y`) of the QuadRegion `r`, asked for the direction `v`, can only
    return clips of roots in `[xl, xh]` (`axisOk` on the scaled integer corners in vertex order) -/
def quadAxisOk (K : Nat) (r : RawRegion) (v : P3) (rot : Bool) (xl xh : Q2) : Bool :=
  match r.pos.mapM (scaleP3 K), scaleP3 K v with
  | some ps, some p =>
    let c := fun k => ps.getD (r.order.getD k 0) (0, 0, 0)
    if rot then axisOk (ipanPoly (c 1) (c 2) (c 3) (c 0) p) xl xh else axisOk (ipanPoly (c 0) (c 1) (c 2) (c 3) p) xl xh
  | _, _ => false

theorem quadAxisOk_sound (K : Nat) (r : RawRegion) (v : P3) (rot : Bool) (xl xh : Q2)
    (h : quadAxisOk K r v rot xl xh = true) :
    let q : QuadRegion ℝ := ⟨r.pos.map p3, r.order⟩
    AxisIn (if rot then (q.polys (p3 v)).2 else (q.polys (p3 v)).1) ((xl.1 : ℝ) / xl.2) ((xh.1 : ℝ) / xh.2) := by
  unfold quadAxisOk at h
  split at h
  · rename_i ps p hps hp
    have hget := mapM_scale_getD K r.pos ps hps
    have ep := scaleP3_real K v p hp
    have hS : (0 : ℝ) < (2 : ℝ) ^ K := by positivity
    cases rot
    · simp only [Bool.false_eq_true, if_false] at h ⊢
      exact axisOk_real _ hS _ _ _ _ p _ _ _ _ (p3 v) (hget _) (hget _) (hget _) (hget _) ep xl xh h
    · simp only [if_true] at h ⊢
      exact axisOk_real _ hS _ _ _ _ p _ _ _ _ (p3 v) (hget _) (hget _) (hget _) (hget _) ep xl xh h
  · exact absurd h (by simp)

theorem clip01_zero : clip01 (0 : ℝ) = 0 := by
  simp [clip01, min_real, max_real, zero_real, one_real]

/-- a pan value certified to lie in `[·, 0]` is exactly 0 -/
theorem AxisIn.eq_zero {c : ℝ × ℝ × ℝ} {xl : ℝ} (h : AxisIn c xl 0) (x : ℝ) (hx : quadRoot c = some x) : x = 0 := by
  obtain ⟨h0, h1⟩ := h.mem x hx
  rw [clip01_zero] at h1
  exact le_antisymm h1 (le_trans (clip01_nonneg _) h0)

/-- non-vacuity of `triplet_none_of_above`: the triplet (1,0,0), (0,1,0), (0,0,−1) (all z ∈ [−1, 0]) rejects straight up -/
example : Triplet.handle (((1 : ℝ), (0 : ℝ), (0 : ℝ)), ((0 : ℝ), (1 : ℝ), (0 : ℝ)), ((0 : ℝ), (0 : ℝ), (-1 : ℝ)))
    ((0 : ℝ), (0 : ℝ), (1 : ℝ)) = none :=
  triplet_none_of_above _ _ _ _ (by norm_num [det3]) (by norm_num) (by norm_num) (by norm_num)
    (by unfold layerDelta; norm_num)

end Earverif.PointSource.Cover
