/- `Delay.process` (the three slice copies) = shift of the concatenation. -/
import Earverif.Model.Stream
namespace Earverif.Stream

theorem setSlice_length {α : Type} (l : List α) (s : Nat) (v : List α) (h : s + v.length ≤ l.length) :
    (setSlice l s v).length = l.length := by
  simp only [setSlice, List.length_append, List.length_take, List.length_drop]; omega

theorem getElem?_setSlice {α : Type} (l : List α) (s : Nat) (v : List α) (h : s + v.length ≤ l.length) (i : Nat) :
    (setSlice l s v)[i]? = if i < s then l[i]? else if i < s + v.length then v[i - s]? else l[i]? := by
  simp only [setSlice, List.append_assoc]
  rw [List.getElem?_append]
  simp only [List.length_take]
  have hs : min s l.length = s := by omega
  rw [hs]
  split
  · rw [List.getElem?_take]; simp [*]
  · rename_i h1
    rw [List.getElem?_append]
    split
    · rename_i h2
      have : i < s + v.length := by omega
      simp [*]
    · rename_i h2
      rw [List.getElem?_drop]
      have : ¬ (i < s + v.length) := by omega
      simp only [this, if_false]
      congr 1; omega

/-- One call: output = first `len(inp)` of `mem ++ inp`, new memory = the rest. -/
theorem delay_process_eq {α : Type} (z : α) (mem inp : List α) :
    Delay.process z mem inp = ((mem ++ inp).take inp.length, (mem ++ inp).drop inp.length) := by
  unfold Delay.process
  simp only [List.length_replicate]
  rcases Nat.lt_trichotomy mem.length inp.length with h | h | h
  · apply Prod.ext
    · apply List.ext_getElem?
      intro i
      grind [getElem?_setSlice, setSlice_length]
    · apply List.ext_getElem?
      intro i
      grind [getElem?_setSlice, setSlice_length]
  · apply Prod.ext
    · apply List.ext_getElem?
      intro i
      grind [getElem?_setSlice, setSlice_length]
    · apply List.ext_getElem?
      intro i
      grind [getElem?_setSlice, setSlice_length]
  · apply Prod.ext
    · apply List.ext_getElem?
      intro i
      grind [getElem?_setSlice, setSlice_length]
    · apply List.ext_getElem?
      intro i
      grind [getElem?_setSlice, setSlice_length]

theorem take_drop_glue {α : Type} (L F : List α) (n k : Nat) (hn : n ≤ L.length) :
    L.take n ++ (L.drop n ++ F).take k = (L ++ F).take (n + k) ∧
    (L.drop n ++ F).drop k = (L ++ F).drop (n + k) := by
  have e : L ++ F = L.take n ++ (L.drop n ++ F) := by
    rw [← List.append_assoc, List.take_append_drop]
  have hl : (L.take n).length = n := by simp; omega
  constructor
  · conv => rhs; rw [e]
    have := List.take_length_add_append (l₁ := L.take n) (l₂ := L.drop n ++ F) (i := k)
    rw [hl] at this; rw [this]
  · conv => rhs; rw [e]
    have := List.drop_length_add_append (l₁ := L.take n) (l₂ := L.drop n ++ F) (i := k)
    rw [hl] at this; rw [this]

/-- Any sequence of calls: outputs concatenate to the first `T` samples of `mem ++ x`, the memory is
the rest, and every call returns as many samples as it was given. -/
theorem delay_run_eq {α : Type} (z : α) (parts : List (List α)) : ∀ mem : List α,
    (Delay.run z mem parts).1.flatten = (mem ++ parts.flatten).take parts.flatten.length ∧
    (Delay.run z mem parts).2 = (mem ++ parts.flatten).drop parts.flatten.length ∧
    (Delay.run z mem parts).1.map List.length = parts.map List.length := by
  induction parts with
  | nil => intro mem; simp [Delay.run]
  | cons b bs ih =>
    intro mem
    simp only [Delay.run, delay_process_eq]
    obtain ⟨h1, h2, h3⟩ := ih ((mem ++ b).drop b.length)
    have hn : b.length ≤ (mem ++ b).length := by simp
    obtain ⟨g1, g2⟩ := take_drop_glue (mem ++ b) bs.flatten b.length bs.flatten.length hn
    refine ⟨?_, ?_, ?_⟩
    · simp only [List.flatten_cons, List.length_append, h1, g1, List.append_assoc]
    · simp only [List.flatten_cons, List.length_append, h2, g2, List.append_assoc]
    · simp only [List.map_cons, h3, List.length_take, List.length_append]
      congr 1; omega

end Earverif.Stream
