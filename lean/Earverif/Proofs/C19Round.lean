/- C19: full round trips for the table-instantiated model over ℝ: per-sector lemmas (fuel-free description of a
   sector, both compositions inside one sector incl. the mod-360 bookkeeping), the two sector lookups on the
   regenerated table (soundness, totality), independence of the sector chosen on shared boundaries. -/
import Earverif.Proofs.C19Table
namespace Earverif.Conv
open Real
open Earverif.Gen.C19 (mapping elTop elTopTilde)

/-! ### one sector, fuel-free description -/

/-- The left azimuth re-expressed relative to the right one (`relative_angle(right_az, left_az)` when both are in
`(-180, 180]`-ish range): fuel-free. -/
noncomputable def Sector.lrel (s : Sector ℝ) : ℝ :=
  if s.left.az < s.right.az then s.left.az + 360 else s.left.az

/-- What the round-trip proofs need of a sector (all true of the five sectors of the reference table). -/
structure GoodSector (s : Sector ℝ) : Prop where
  hR1 : -180 < s.right.az
  hR2 : s.right.az ≤ 180
  hL1 : -180 ≤ s.left.az
  hL2 : s.left.az < 180
  hw1 : s.right.az < s.lrel
  hw2 : s.lrel < s.right.az + 180
  hdet : s.det ≠ 0

theorem upLt_one (x y : ℝ) (n : Nat) (h1 : x - 360 ≤ y) (h2 : y < x) : upLt x (n + 1) y = y + 360 := by
  rw [upLt_succ, if_pos h2, upLt_id x (y + 360) n (by linarith)]

theorem GoodSector.relLeft {s : Sector ℝ} (g : GoodSector s) (m : Nat) :
    relativeAngle (m + 1) s.right.az s.left.az = s.lrel := by
  rw [relativeAngle_near m _ _ (by linarith [g.hR2, g.hL1]) (by linarith [g.hR1, g.hL2])]
  unfold Sector.lrel
  split_ifs with h1 h2
  · rfl
  · linarith [g.hR1, g.hL2]
  · rfl

theorem GoodSector.stop {s : Sector ℝ} (g : GoodSector s) (m : Nat) :
    upLt s.right.az (m + 1) (downGt s.right.az (m + 1) s.left.az) = s.lrel := by
  rw [downGt_id _ _ _ (by linarith [g.hR1, g.hL2])]
  unfold Sector.lrel
  split_ifs with h
  · exact upLt_one _ _ _ (by linarith [g.hR2, g.hL1]) h
  · exact upLt_id _ _ _ (not_lt.mp h)

/-- `relative_angle(right_az, az)` for `az ∈ [-180, 180]`, fuel-free. -/
theorem GoodSector.relAz {s : Sector ℝ} (g : GoodSector s) (m : Nat) (az : ℝ) (h1 : -180 ≤ az) (h2 : az ≤ 180) :
    relativeAngle (m + 1) s.right.az az = if az < s.right.az then az + 360 else az := by
  rw [relativeAngle_near m _ _ (by linarith [g.hR2]) (by linarith [g.hR1])]
  split_ifs with ha hb
  · rfl
  · linarith [g.hR1]
  · rfl

/-- The polar lookup test of `_find_sector` for this sector. -/
theorem GoodSector.inside {s : Sector ℝ} (g : GoodSector s) (m : Nat) (az : ℝ) :
    insideAngleRange (m + 1) az s.right.az s.left.az (k 0) =
      decide (relativeAngle (m + 1) s.right.az az ≤ s.lrel) := by
  rw [insideAngleRange_eq, g.stop]

theorem GoodSector.mid {s : Sector ℝ} (g : GoodSector s) :
    s.right.az - (s.lrel + s.right.az) / 2 ≠ 0 ∧ |s.right.az - (s.lrel + s.right.az) / 2| < 90 ∧
    |s.right.az - (s.lrel + s.right.az) / 2| = (s.lrel - s.right.az) / 2 := by
  have h1 := g.hw1; have h2 := g.hw2
  have e : s.right.az - (s.lrel + s.right.az) / 2 = -((s.lrel - s.right.az) / 2) := by ring
  refine ⟨by rw [e]; intro h; linarith, ?_, ?_⟩
  · rw [e, abs_neg, abs_of_pos (by linarith)]; linarith
  · rw [e, abs_neg, abs_of_pos (by linarith)]


theorem k_neg180 : (k (-180) : ℝ) = -180 := by simp [k, Scalar.ofRat]

theorem RP_el (n : Nat) : 0 < (RP n).elTop ∧ (RP n).elTop < 90 ∧ 0 < (RP n).elTopTilde ∧ (RP n).elTopTilde < 90 := by
  obtain ⟨h1, h2, -, -⟩ := RP_consts n
  rw [h1, h2]; norm_num

/-- polar -> Cartesian -> polar inside a good sector of the table model, for an azimuth in the sector's closed
range: the image lies in the sector's cone (gains `≥ 0`, sum `> 0`) and converting it back *with the same sector*
returns the original position (`180 ↦ -180`). -/
theorem polar_in_sector (m : Nat) (s : Sector ℝ) (g : GoodSector s) (az el d : ℝ) (h1 : -180 ≤ az)
    (h2 : az ≤ 180) (hin : relativeAngle (m + 1) s.right.az az ≤ s.lrel) (hd : 0 < d) (hel : |el| < 90) :
    0 ≤ (gains s (polarToCartIn (RP (m + 1)) s az el d).1 (polarToCartIn (RP (m + 1)) s az el d).2.1).1 ∧
    0 ≤ (gains s (polarToCartIn (RP (m + 1)) s az el d).1 (polarToCartIn (RP (m + 1)) s az el d).2.1).2 ∧
    0 < (gains s (polarToCartIn (RP (m + 1)) s az el d).1 (polarToCartIn (RP (m + 1)) s az el d).2.1).1 +
        (gains s (polarToCartIn (RP (m + 1)) s az el d).1 (polarToCartIn (RP (m + 1)) s az el d).2.1).2 ∧
    cartToPolarIn (RP (m + 1)) s (polarToCartIn (RP (m + 1)) s az el d).1
        (polarToCartIn (RP (m + 1)) s az el d).2.1 (polarToCartIn (RP (m + 1)) s az el d).2.2 =
      (if az = 180 then -180 else az, el, d) := by
  obtain ⟨e1, e2, e3, e4⟩ := RP_el (m + 1)
  have hf : (RP (m + 1)).fuel = m + 1 := rfl
  obtain ⟨hm0, hm1, hm2⟩ := g.mid
  have hrl := g.relLeft m
  set a := relativeAngle (m + 1) s.right.az az with ha
  have haR : s.right.az ≤ a := by
    rw [ha, g.relAz m az h1 h2]; split_ifs with h
    · linarith [g.hR2]
    · exact not_lt.mp h
  have hamid : |a - (s.lrel + s.right.az) / 2| ≤ |s.right.az - (s.lrel + s.right.az) / 2| := by
    rw [hm2, abs_le]; constructor <;> linarith
  have hp := mapAzToLinear_mem01 s.lrel s.right.az a hm0 hm1 hamid
  have hazp : azToP (RP (m + 1)) s az = mapAzToLinear s.lrel s.right.az a := by
    dsimp only [azToP]; rw [hf, hrl]
  have hrpos : 0 < (elToCart (RP (m + 1)) el d).2 := elToCart_rxy_pos _ e1 e2 e3 e4 el d hd hel
  have hp0 : 0 ≤ azToP (RP (m + 1)) s az := by rw [hazp]; exact hp.1
  have hp1 : azToP (RP (m + 1)) s az ≤ 1 := by rw [hazp]; exact hp.2
  generalize hpe : azToP (RP (m + 1)) s az = p at hp0 hp1
  generalize hre : (elToCart (RP (m + 1)) el d).2 = rxy at hrpos
  have hx : (polarToCartIn (RP (m + 1)) s az el d).1 = rxy * (1 - p) * s.left.x + rxy * p * s.right.x := by
    unfold polarToCartIn; simp only; rw [hpe, hre]; ring
  have hy : (polarToCartIn (RP (m + 1)) s az el d).2.1 = rxy * (1 - p) * s.left.y + rxy * p * s.right.y := by
    unfold polarToCartIn; simp only; rw [hpe, hre]; ring
  have hgn : gains s (polarToCartIn (RP (m + 1)) s az el d).1 (polarToCartIn (RP (m + 1)) s az el d).2.1 =
      (rxy * (1 - p), rxy * p) := by rw [hx, hy]; exact gains_combination s g.hdet _ _
  rw [hgn]
  refine ⟨mul_nonneg hrpos.le (by linarith), mul_nonneg hrpos.le hp0, by simp only; nlinarith, ?_⟩
  have := polar_cart_polar_in_sector_partial (RP (m + 1)) e1 e2 e3 e4 s g.hdet az el d hd hel
    (by rw [hf, hrl]; exact hm0) (by rw [hf, hrl]; exact hm1)
    (by rw [hf, hrl, ← ha]; exact lt_of_le_of_lt hamid hm1)
  rw [this, hf, k_neg180, relativeAngle_norm180 m _ az g.hR1.le g.hR2 h1 h2]


/-- Cartesian -> polar -> Cartesian inside a good sector of the table model, for a point of the sector's cone:
the azimuth produced is in `[-180, 180)` and in the sector's closed polar range, and converting back *with the
same sector* returns the original point. -/
theorem cart_in_sector (m : Nat) (s : Sector ℝ) (g : GoodSector s) (x y z : ℝ)
    (hg1 : 0 ≤ (gains s x y).1) (hg2 : 0 ≤ (gains s x y).2) (hpos : 0 < (gains s x y).1 + (gains s x y).2) :
    (-180 ≤ (cartToPolarIn (RP (m + 1)) s x y z).1 ∧ (cartToPolarIn (RP (m + 1)) s x y z).1 < 180) ∧
    relativeAngle (m + 1) s.right.az (cartToPolarIn (RP (m + 1)) s x y z).1 ≤ s.lrel ∧
    polarToCartIn (RP (m + 1)) s (cartToPolarIn (RP (m + 1)) s x y z).1
        (cartToPolarIn (RP (m + 1)) s x y z).2.1 (cartToPolarIn (RP (m + 1)) s x y z).2.2 = (x, y, z) := by
  obtain ⟨e1, e2, e3, e4⟩ := RP_el (m + 1)
  have hf : (RP (m + 1)).fuel = m + 1 := rfl
  obtain ⟨hm0, hm1, hm2⟩ := g.mid
  have hrl := g.relLeft m
  have hp0 : 0 ≤ (gains s x y).2 / ((gains s x y).1 + (gains s x y).2) := div_nonneg hg2 hpos.le
  have hp1 : (gains s x y).2 / ((gains s x y).1 + (gains s x y).2) ≤ 1 := by
    rw [div_le_one hpos]; linarith
  generalize hpe : (gains s x y).2 / ((gains s x y).1 + (gains s x y).2) = p at hp0 hp1
  have hrange := mapLinearToAz_mem_sector s.lrel s.right.az p hm1 hp0 hp1
  rw [hm2, abs_le] at hrange
  set a0 := mapLinearToAz s.lrel s.right.az p with ha0
  have haz : (cartToPolarIn (RP (m + 1)) s x y z).1 = relativeAngle (m + 1) (-180) a0 := by
    unfold cartToPolarIn; dsimp only [pToAz]; rw [hf, hrl, hpe, k_neg180]
  have hren : relativeAngle (m + 1) s.right.az (relativeAngle (m + 1) (-180) a0) = a0 :=
    relativeAngle_renorm m s.right.az a0 g.hR1.le g.hR2 (by linarith [hrange.1]) (by linarith [hrange.2, g.hw2])
  have hmem := relativeAngle_mem (m + 1) (-180) a0 (by push_cast; linarith [hrange.1, g.hR1])
    (by push_cast; linarith [hrange.2, g.hw2, g.hR2])
  refine ⟨by rw [haz]; exact ⟨hmem.1, by linarith [hmem.2]⟩, by rw [haz, hren]; linarith [hrange.2], ?_⟩
  apply cart_polar_cart_in_sector_partial (RP (m + 1)) e1 e2 e3 e4 s g.hdet x y z hg1 hg2 hpos
    (by rw [hf, hrl]; exact hm0) (by rw [hf, hrl]; exact hm1)
  rw [hf, hrl, haz, hren, hpe]

/-! ### the five sectors of the regenerated table -/

noncomputable def sec0 : Sector ℝ := ⟨0, ⟨0, 0, 1, 0⟩, ⟨-30, 1, 1, 0⟩⟩
noncomputable def sec1 : Sector ℝ := ⟨1, ⟨-30, 1, 1, 0⟩, ⟨-110, 1, -1, 0⟩⟩
noncomputable def sec2 : Sector ℝ := ⟨2, ⟨-110, 1, -1, 0⟩, ⟨110, -1, -1, 0⟩⟩
noncomputable def sec3 : Sector ℝ := ⟨3, ⟨110, -1, -1, 0⟩, ⟨30, -1, 1, 0⟩⟩
noncomputable def sec4 : Sector ℝ := ⟨4, ⟨30, -1, 1, 0⟩, ⟨0, 0, 1, 0⟩⟩

theorem sectors_RP (n : Nat) : sectors (RP n) = [sec0, sec1, sec2, sec3, sec4] := by
  have h : sectors (RP n) =
      [⟨0, ⟨k 0, k 0, k 1, k 0⟩, ⟨k (-30), k 1, k 1, k 0⟩⟩,
       ⟨1, ⟨k (-30), k 1, k 1, k 0⟩, ⟨k (-110), k 1, k (-1), k 0⟩⟩,
       ⟨2, ⟨k (-110), k 1, k (-1), k 0⟩, ⟨k 110, k (-1), k (-1), k 0⟩⟩,
       ⟨3, ⟨k 110, k (-1), k (-1), k 0⟩, ⟨k 30, k (-1), k 1, k 0⟩⟩,
       ⟨4, ⟨k 30, k (-1), k 1, k 0⟩, ⟨k 0, k 0, k 1, k 0⟩⟩] := by
    simp [sectors, RP, Params.ofTable, mapping, List.range, List.range.loop]
  rw [h]
  simp [k, Scalar.ofRat, sec0, sec1, sec2, sec3, sec4]

theorem mem_sectors_RP {n : Nat} {s : Sector ℝ} (h : s ∈ sectors (RP n)) :
    s = sec0 ∨ s = sec1 ∨ s = sec2 ∨ s = sec3 ∨ s = sec4 := by
  rw [sectors_RP] at h; simpa using h

theorem good0 : GoodSector sec0 := by constructor <;> norm_num [sec0, Sector.lrel, Sector.det]
theorem good1 : GoodSector sec1 := by constructor <;> norm_num [sec1, Sector.lrel, Sector.det]
theorem good2 : GoodSector sec2 := by constructor <;> norm_num [sec2, Sector.lrel, Sector.det]
theorem good3 : GoodSector sec3 := by constructor <;> norm_num [sec3, Sector.lrel, Sector.det]
theorem good4 : GoodSector sec4 := by constructor <;> norm_num [sec4, Sector.lrel, Sector.det]

theorem good_of_mem {n : Nat} {s : Sector ℝ} (h : s ∈ sectors (RP n)) : GoodSector s := by
  rcases mem_sectors_RP h with rfl | rfl | rfl | rfl | rfl
  exacts [good0, good1, good2, good3, good4]

theorem lrel0 : sec0.lrel = 0 := by norm_num [sec0, Sector.lrel]
theorem lrel1 : sec1.lrel = -30 := by norm_num [sec1, Sector.lrel]
theorem lrel2 : sec2.lrel = 250 := by norm_num [sec2, Sector.lrel]
theorem lrel3 : sec3.lrel = 110 := by norm_num [sec3, Sector.lrel]
theorem lrel4 : sec4.lrel = 30 := by norm_num [sec4, Sector.lrel]

/-! ### `_find_sector` on the table -/

/-- Soundness: the sector returned contains the azimuth (closed range). -/
theorem find_polar_sound (m : Nat) (az : ℝ) (s : Sector ℝ) (h : findSector (RP (m + 1)) az = some s) :
    s ∈ sectors (RP (m + 1)) ∧ relativeAngle (m + 1) s.right.az az ≤ s.lrel := by
  unfold findSector at h
  have hmem := List.mem_of_find?_eq_some h
  have hp := List.find?_some h
  have hf : (RP (m + 1)).fuel = m + 1 := rfl
  rw [hf, (good_of_mem hmem).inside] at hp
  exact ⟨hmem, of_decide_eq_true hp⟩

/-- Totality: every azimuth in `[-180, 180]` is in some sector. -/
theorem find_polar_total (m : Nat) (az : ℝ) (h1 : -180 ≤ az) (h2 : az ≤ 180) :
    ∃ s, findSector (RP (m + 1)) az = some s := by
  have key : ∃ s ∈ sectors (RP (m + 1)), relativeAngle (m + 1) s.right.az az ≤ s.lrel := by
    rw [sectors_RP]
    rcases le_total az (-110) with a | a
    · exact ⟨sec2, by simp, by rw [good2.relAz m az h1 h2, lrel2]; norm_num [sec2]; split_ifs <;> linarith⟩
    rcases le_total az (-30) with b | b
    · exact ⟨sec1, by simp, by rw [good1.relAz m az h1 h2, lrel1]; norm_num [sec1]; split_ifs <;> linarith⟩
    rcases le_total az 0 with c | c
    · exact ⟨sec0, by simp, by rw [good0.relAz m az h1 h2, lrel0]; norm_num [sec0]; split_ifs <;> linarith⟩
    rcases le_total az 30 with d | d
    · exact ⟨sec4, by simp, by rw [good4.relAz m az h1 h2, lrel4]; norm_num [sec4]; split_ifs <;> linarith⟩
    rcases le_total az 110 with e | e
    · exact ⟨sec3, by simp, by rw [good3.relAz m az h1 h2, lrel3]; norm_num [sec3]; split_ifs <;> linarith⟩
    · exact ⟨sec2, by simp, by rw [good2.relAz m az h1 h2, lrel2]; norm_num [sec2]; split_ifs <;> linarith⟩
  obtain ⟨s, hs, hr⟩ := key
  have : (findSector (RP (m + 1)) az).isSome := by
    unfold findSector
    rw [List.find?_isSome]
    refine ⟨s, hs, ?_⟩
    have hf : (RP (m + 1)).fuel = m + 1 := rfl
    rw [hf, (good_of_mem hs).inside]
    exact decide_eq_true hr
  exact Option.isSome_iff_exists.mp this


/-! ### `_find_cart_sector` on the table -/

/-- The sector with its azimuths replaced by the azimuths of its Cartesian ends (what `_find_cart_sector`
compares against). -/
noncomputable def Sector.cart (s : Sector ℝ) : Sector ℝ :=
  ⟨s.idx, ⟨cartAz s.left.x s.left.y, s.left.x, s.left.y, s.left.z⟩,
          ⟨cartAz s.right.x s.right.y, s.right.x, s.right.y, s.right.z⟩⟩

theorem cart0 : sec0.cart = ⟨0, ⟨0, 0, 1, 0⟩, ⟨-45, 1, 1, 0⟩⟩ := by
  simp [Sector.cart, sec0, cartAz_octant.1, cartAz_octant.2.1]
theorem cart1 : sec1.cart = ⟨1, ⟨-45, 1, 1, 0⟩, ⟨-135, 1, -1, 0⟩⟩ := by
  simp [Sector.cart, sec1, cartAz_octant.2.1, cartAz_octant.2.2.2.1]
theorem cart2 : sec2.cart = ⟨2, ⟨-135, 1, -1, 0⟩, ⟨135, -1, -1, 0⟩⟩ := by
  simp [Sector.cart, sec2, cartAz_octant.2.2.2.1, cartAz_octant.2.2.2.2.2.1]
theorem cart3 : sec3.cart = ⟨3, ⟨135, -1, -1, 0⟩, ⟨45, -1, 1, 0⟩⟩ := by
  simp [Sector.cart, sec3, cartAz_octant.2.2.2.2.2.1, cartAz_octant.2.2.2.2.2.2.2]
theorem cart4 : sec4.cart = ⟨4, ⟨45, -1, 1, 0⟩, ⟨0, 0, 1, 0⟩⟩ := by
  simp [Sector.cart, sec4, cartAz_octant.2.2.2.2.2.2.2, cartAz_octant.1]

theorem goodc0 : GoodSector sec0.cart := by rw [cart0]; constructor <;> norm_num [Sector.lrel, Sector.det]
theorem goodc1 : GoodSector sec1.cart := by rw [cart1]; constructor <;> norm_num [Sector.lrel, Sector.det]
theorem goodc2 : GoodSector sec2.cart := by rw [cart2]; constructor <;> norm_num [Sector.lrel, Sector.det]
theorem goodc3 : GoodSector sec3.cart := by rw [cart3]; constructor <;> norm_num [Sector.lrel, Sector.det]
theorem goodc4 : GoodSector sec4.cart := by rw [cart4]; constructor <;> norm_num [Sector.lrel, Sector.det]

theorem goodc_of_mem {n : Nat} {s : Sector ℝ} (h : s ∈ sectors (RP n)) : GoodSector s.cart := by
  rcases mem_sectors_RP h with rfl | rfl | rfl | rfl | rfl
  exacts [goodc0, goodc1, goodc2, goodc3, goodc4]

theorem cartAz_mem (x y : ℝ) : -180 ≤ cartAz x y ∧ cartAz x y < 180 := by
  rw [cartAz_real]
  have h1 : -π < at2 x y := Complex.neg_pi_lt_arg _
  have h2 : at2 x y ≤ π := Complex.arg_le_pi _
  have hp : 0 < 180 / π := by positivity
  have e : π * (180 / π) = 180 := by field_simp
  constructor
  · have := mul_le_mul_of_nonneg_right h2 hp.le; rw [e] at this; linarith
  · have := mul_lt_mul_of_pos_right h1 hp; rw [neg_mul, e] at this; linarith

/-- A point whose azimuth (possibly shifted by one turn) lies between the azimuths of the Cartesian ends of a
sector lies in the sector's cone. -/
theorem cone_of_cartAz (s : Sector ℝ) (ρL ρR θL θR Rc Lc : ℝ)
    (hlx : s.left.x = ρL * sin θL) (hly : s.left.y = ρL * cos θL)
    (hrx : s.right.x = ρR * sin θR) (hry : s.right.y = ρR * cos θR)
    (hθL : θL = -Lc * (π / 180)) (hθR : θR = -Rc * (π / 180))
    (hρL : 0 < ρL) (hρR : 0 < ρR) (hw1 : Rc < Lc) (hw2 : Lc < Rc + 180)
    (x y : ℝ) (hxy : ¬ (x = 0 ∧ y = 0)) (A' : ℝ)
    (hA' : A' = cartAz x y ∨ A' = cartAz x y + 360) (h1 : Rc ≤ A') (h2 : A' ≤ Lc) :
    0 ≤ (gains s x y).1 ∧ 0 ≤ (gains s x y).2 ∧ 0 < (gains s x y).1 + (gains s x y).2 := by
  set z : ℂ := ⟨y, x⟩ with hz
  have hz0 : z ≠ 0 := by
    intro h
    have a := congrArg Complex.re h; have b := congrArg Complex.im h
    simp [hz] at a b; exact hxy ⟨b, a⟩
  have hr : 0 < ‖z‖ := norm_pos_iff.mpr hz0
  have hsin : x = ‖z‖ * sin (at2 x y) := by
    have := Complex.sin_arg z
    unfold at2; rw [this]; field_simp; rfl
  have hcos : y = ‖z‖ * cos (at2 x y) := by
    have := Complex.cos_arg hz0
    unfold at2; rw [this]; field_simp; rfl
  have hpi : π ≠ 0 := pi_ne_zero
  have hcz : cartAz x y = -(at2 x y * (180 / π)) := cartAz_real x y
  have hp : 0 < π / 180 := by positivity
  set θ' := -A' * (π / 180) with hθ'
  have hsc : sin θ' = sin (at2 x y) ∧ cos θ' = cos (at2 x y) := by
    rcases hA' with h | h
    · have : θ' = at2 x y := by rw [hθ', h, hcz]; field_simp
      rw [this]; exact ⟨rfl, rfl⟩
    · have : θ' = at2 x y - 2 * π := by rw [hθ', h, hcz]; field_simp; ring
      rw [this, sin_sub_two_pi, cos_sub_two_pi]; exact ⟨rfl, rfl⟩
  apply cone_gains s ρL θL ρR θR ‖z‖ θ' x y hlx hly hrx hry (by rw [hsc.1]; exact hsin)
    (by rw [hsc.2]; exact hcos) hρL hρR hr
  · rw [hθL, hθ']; nlinarith
  · rw [hθR, hθ']; nlinarith
  · rw [hθL, hθR]; nlinarith [pi_pos]
  · rw [hθL, hθR]; nlinarith


theorem sin_3pi4 : sin (3 * π / 4) = √2 / 2 := by
  rw [show 3 * π / 4 = π - π / 4 by ring, sin_pi_sub, sin_pi_div_four]
theorem cos_3pi4 : cos (3 * π / 4) = -(√2 / 2) := by
  rw [show 3 * π / 4 = π - π / 4 by ring, cos_pi_sub, cos_pi_div_four]
theorem sin_m5pi4 : sin (-(5 * π / 4)) = √2 / 2 := by
  rw [show -(5 * π / 4) = 3 * π / 4 - 2 * π by ring, sin_sub_two_pi, sin_3pi4]
theorem cos_m5pi4 : cos (-(5 * π / 4)) = -(√2 / 2) := by
  rw [show -(5 * π / 4) = 3 * π / 4 - 2 * π by ring, cos_sub_two_pi, cos_3pi4]
theorem sqrt2_mul_neg : √2 * -(√2 / 2) = -1 := by linarith [sqrt2_mul]

theorem v_s0 : (0:ℝ) = 1 * sin 0 := by simp
theorem v_c0 : (1:ℝ) = 1 * cos 0 := by simp
theorem v_s4 : (1:ℝ) = √2 * sin (π / 4) := by rw [sin_pi_div_four, sqrt2_mul]
theorem v_c4 : (1:ℝ) = √2 * cos (π / 4) := by rw [cos_pi_div_four, sqrt2_mul]
theorem v_s34 : (1:ℝ) = √2 * sin (3 * π / 4) := by rw [sin_3pi4, sqrt2_mul]
theorem v_c34 : (-1:ℝ) = √2 * cos (3 * π / 4) := by rw [cos_3pi4, sqrt2_mul_neg]
theorem v_sm54 : (1:ℝ) = √2 * sin (-(5 * π / 4)) := by rw [sin_m5pi4, sqrt2_mul]
theorem v_cm54 : (-1:ℝ) = √2 * cos (-(5 * π / 4)) := by rw [cos_m5pi4, sqrt2_mul_neg]
theorem v_sm34 : (-1:ℝ) = √2 * sin (-(3 * π / 4)) := by rw [sin_neg, sin_3pi4, sqrt2_mul_neg]
theorem v_cm34 : (-1:ℝ) = √2 * cos (-(3 * π / 4)) := by rw [cos_neg, cos_3pi4, sqrt2_mul_neg]
theorem v_sm4 : (-1:ℝ) = √2 * sin (-(π / 4)) := by rw [sin_neg, sin_pi_div_four, sqrt2_mul_neg]
theorem v_cm4 : (1:ℝ) = √2 * cos (-(π / 4)) := by rw [cos_neg, cos_pi_div_four, sqrt2_mul]

/-- The test of `_find_cart_sector` for a sector of the table, fuel-free. -/
theorem cart_inside (m : Nat) (s : Sector ℝ) (hs : s ∈ sectors (RP (m + 1))) (A : ℝ) (h1 : -180 ≤ A)
    (h2 : A < 180) :
    insideAngleRange (RP (m + 1)).fuel A (cartAz s.right.x s.right.y) (cartAz s.left.x s.left.y) (k 0) =
      decide ((if A < s.cart.right.az then A + 360 else A) ≤ s.cart.lrel) := by
  have hf : (RP (m + 1)).fuel = m + 1 := rfl
  rw [hf]
  show insideAngleRange (m + 1) A s.cart.right.az s.cart.left.az (k 0) = _
  rw [(goodc_of_mem hs).inside, (goodc_of_mem hs).relAz m A h1 h2.le]

/-- Soundness of `_find_cart_sector` (step 2): off the vertical axis, the sector found has non-negative gains
with positive sum. -/
theorem find_cart_sound (m : Nat) (x y : ℝ) (hxy : ¬ (x = 0 ∧ y = 0)) (s : Sector ℝ)
    (h : findCartSector (RP (m + 1)) (cartAz x y) = some s) :
    s ∈ sectors (RP (m + 1)) ∧
    0 ≤ (gains s x y).1 ∧ 0 ≤ (gains s x y).2 ∧ 0 < (gains s x y).1 + (gains s x y).2 := by
  unfold findCartSector at h
  have hmem := List.mem_of_find?_eq_some h
  have hp := List.find?_some h
  obtain ⟨hA1, hA2⟩ := cartAz_mem x y
  rw [cart_inside m s hmem _ hA1 hA2] at hp
  have hle := of_decide_eq_true hp
  refine ⟨hmem, ?_⟩
  set A := cartAz x y with hA
  have hA' : (if A < s.cart.right.az then A + 360 else A) = A ∨
      (if A < s.cart.right.az then A + 360 else A) = A + 360 := by split_ifs <;> simp
  have hge : s.cart.right.az ≤ (if A < s.cart.right.az then A + 360 else A) := by
    split_ifs with hc
    · linarith [(goodc_of_mem hmem).hR2]
    · exact not_lt.mp hc
  generalize (if A < s.cart.right.az then A + 360 else A) = A' at hle hA' hge
  have s2 : (0:ℝ) < √2 := by positivity
  rcases mem_sectors_RP hmem with rfl | rfl | rfl | rfl | rfl
  · rw [cart0] at hle hge; norm_num [Sector.lrel] at hle hge
    exact cone_of_cartAz sec0 1 √2 0 (π / 4) (-45) 0 v_s0 v_c0 v_s4 v_c4
      (by ring) (by ring) one_pos s2 (by norm_num) (by norm_num) x y hxy A' hA' hge hle
  · rw [cart1] at hle hge; norm_num [Sector.lrel] at hle hge
    exact cone_of_cartAz sec1 √2 √2 (π / 4) (3 * π / 4) (-135) (-45) v_s4 v_c4 v_s34 v_c34
      (by ring) (by ring) s2 s2 (by norm_num) (by norm_num) x y hxy A' hA' hge hle
  · rw [cart2] at hle hge; norm_num [Sector.lrel] at hle hge
    exact cone_of_cartAz sec2 √2 √2 (-(5 * π / 4)) (-(3 * π / 4)) 135 225 v_sm54 v_cm54 v_sm34 v_cm34
      (by ring) (by ring) s2 s2 (by norm_num) (by norm_num) x y hxy A' hA' hge hle
  · rw [cart3] at hle hge; norm_num [Sector.lrel] at hle hge
    exact cone_of_cartAz sec3 √2 √2 (-(3 * π / 4)) (-(π / 4)) 45 135 v_sm34 v_cm34 v_sm4 v_cm4
      (by ring) (by ring) s2 s2 (by norm_num) (by norm_num) x y hxy A' hA' hge hle
  · rw [cart4] at hle hge; norm_num [Sector.lrel] at hle hge
    exact cone_of_cartAz sec4 √2 1 (-(π / 4)) 0 0 45 v_sm4 v_cm4 v_s0 v_c0
      (by ring) (by ring) s2 one_pos (by norm_num) (by norm_num) x y hxy A' hA' hge hle

/-- Totality of `_find_cart_sector`: every direction is in some sector. -/
theorem find_cart_total (m : Nat) (x y : ℝ) : ∃ s, findCartSector (RP (m + 1)) (cartAz x y) = some s := by
  obtain ⟨hA1, hA2⟩ := cartAz_mem x y
  set A := cartAz x y with hA
  have key : ∃ s ∈ sectors (RP (m + 1)), (if A < s.cart.right.az then A + 360 else A) ≤ s.cart.lrel := by
    rw [sectors_RP]
    rcases le_total A (-135) with a | a
    · exact ⟨sec2, by simp, by rw [cart2]; norm_num [Sector.lrel]; split_ifs <;> linarith⟩
    rcases le_total A (-45) with b | b
    · exact ⟨sec1, by simp, by rw [cart1]; norm_num [Sector.lrel]; split_ifs <;> linarith⟩
    rcases le_total A 0 with c | c
    · exact ⟨sec0, by simp, by rw [cart0]; norm_num [Sector.lrel]; split_ifs <;> linarith⟩
    rcases le_total A 45 with d | d
    · exact ⟨sec4, by simp, by rw [cart4]; norm_num [Sector.lrel]; split_ifs <;> linarith⟩
    rcases le_total A 135 with e | e
    · exact ⟨sec3, by simp, by rw [cart3]; norm_num [Sector.lrel]; split_ifs <;> linarith⟩
    · exact ⟨sec2, by simp, by rw [cart2]; norm_num [Sector.lrel]; split_ifs <;> linarith⟩
  obtain ⟨s, hs, hr⟩ := key
  have : (findCartSector (RP (m + 1)) A).isSome := by
    unfold findCartSector
    rw [List.find?_isSome]
    exact ⟨s, hs, by rw [cart_inside m s hs A hA1 hA2]; exact decide_eq_true hr⟩
  exact Option.isSome_iff_exists.mp this

/-! ### independence of the sector on shared boundaries (Cartesian side) -/

theorem GoodSector.lrel_norm {s : Sector ℝ} (g : GoodSector s) (m : Nat) :
    relativeAngle (m + 1) (-180) s.lrel = s.left.az := by
  unfold Sector.lrel
  split_ifs with h
  · rw [relativeAngle_down m (-180) _ (by linarith [g.hL1]) (by linarith [g.hL2])]; ring
  · exact relativeAngle_of_mem _ _ _ g.hL1 (by linarith [g.hL2])

/-- A point on the ray shared by two adjacent good sectors converts to the same polar position with either. -/
theorem cart_adjacent (m : Nat) (s s' : Sector ℝ) (g : GoodSector s) (g' : GoodSector s')
    (hshare : s.right = s'.left) (x y z t : ℝ) (ht : 0 < t) (hx : x = t * s.right.x) (hy : y = t * s.right.y) :
    cartToPolarIn (RP (m + 1)) s x y z = cartToPolarIn (RP (m + 1)) s' x y z := by
  have hf : (RP (m + 1)).fuel = m + 1 := rfl
  have h1 : gains s x y = (0, t) := by
    have := gains_combination s g.hdet 0 t
    rw [hx, hy]; simpa using this
  have h2 : gains s' x y = (t, 0) := by
    have := gains_combination s' g'.hdet t 0
    rw [hx, hy, hshare]; simpa using this
  unfold cartToPolarIn
  rw [h1, h2]
  simp only [zero_add, add_zero, zero_div, div_self ht.ne']
  congr 1
  dsimp only [pToAz]
  rw [hf, g.relLeft, g'.relLeft, mapLinearToAz_one _ _ g.mid.2.1, mapLinearToAz_zero _ _ g'.mid.2.1, k_neg180,
    g'.lrel_norm, ← hshare]
  exact relativeAngle_of_mem _ _ _ g.hR1.le (by have := g'.hL2; rw [← hshare] at this; linarith)

theorem gains_sec0 (x y : ℝ) : gains sec0 x y = (y - x, x) := by
  rw [gains_real]; simp only [Sector.det, sec0]; refine Prod.ext ?_ ?_ <;> simp only <;> ring
theorem gains_sec1 (x y : ℝ) : gains sec1 x y = ((x + y) / 2, (x - y) / 2) := by
  rw [gains_real]; simp only [Sector.det, sec1]; refine Prod.ext ?_ ?_ <;> simp only <;> ring
theorem gains_sec2 (x y : ℝ) : gains sec2 x y = ((x - y) / 2, -(x + y) / 2) := by
  rw [gains_real]; simp only [Sector.det, sec2]; refine Prod.ext ?_ ?_ <;> simp only <;> ring
theorem gains_sec3 (x y : ℝ) : gains sec3 x y = (-(x + y) / 2, (y - x) / 2) := by
  rw [gains_real]; simp only [Sector.det, sec3]; refine Prod.ext ?_ ?_ <;> simp only <;> ring
theorem gains_sec4 (x y : ℝ) : gains sec4 x y = (-x, x + y) := by
  rw [gains_real]; simp only [Sector.det, sec4]; refine Prod.ext ?_ ?_ <;> simp only <;> ring


/-- The cone of a sector: gains non-negative with positive sum. -/
def InCone (s : Sector ℝ) (x y : ℝ) : Prop :=
  0 ≤ (gains s x y).1 ∧ 0 ≤ (gains s x y).2 ∧ 0 < (gains s x y).1 + (gains s x y).2

theorem wc01 (m : Nat) (x y z : ℝ) (h : InCone sec0 x y) (h' : InCone sec1 x y) :
    cartToPolarIn (RP (m + 1)) sec0 x y z = cartToPolarIn (RP (m + 1)) sec1 x y z := by
  unfold InCone at h h'; rw [gains_sec0] at h; rw [gains_sec1] at h'; simp only at h h'
  have e : y = x := by linarith [h.1, h'.2.1]
  exact cart_adjacent m sec0 sec1 good0 good1 rfl x y z x (by linarith [h.2.2]) (by simp [sec0])
    (by simp [sec0, e])

theorem wc12 (m : Nat) (x y z : ℝ) (h : InCone sec1 x y) (h' : InCone sec2 x y) :
    cartToPolarIn (RP (m + 1)) sec1 x y z = cartToPolarIn (RP (m + 1)) sec2 x y z := by
  unfold InCone at h h'; rw [gains_sec1] at h; rw [gains_sec2] at h'; simp only at h h'
  have e : y = -x := by linarith [h.1, h'.2.1]
  exact cart_adjacent m sec1 sec2 good1 good2 rfl x y z x (by linarith [h.2.2]) (by simp [sec1])
    (by simp [sec1, e])

theorem wc23 (m : Nat) (x y z : ℝ) (h : InCone sec2 x y) (h' : InCone sec3 x y) :
    cartToPolarIn (RP (m + 1)) sec2 x y z = cartToPolarIn (RP (m + 1)) sec3 x y z := by
  unfold InCone at h h'; rw [gains_sec2] at h; rw [gains_sec3] at h'; simp only at h h'
  have e : y = x := by linarith [h.1, h'.2.1]
  exact cart_adjacent m sec2 sec3 good2 good3 rfl x y z (-x) (by linarith [h.2.2]) (by simp [sec2])
    (by simp [sec2, e])

theorem wc34 (m : Nat) (x y z : ℝ) (h : InCone sec3 x y) (h' : InCone sec4 x y) :
    cartToPolarIn (RP (m + 1)) sec3 x y z = cartToPolarIn (RP (m + 1)) sec4 x y z := by
  unfold InCone at h h'; rw [gains_sec3] at h; rw [gains_sec4] at h'; simp only at h h'
  have e : y = -x := by linarith [h.1, h'.2.1]
  exact cart_adjacent m sec3 sec4 good3 good4 rfl x y z (-x) (by linarith [h'.2.2]) (by simp [sec3])
    (by simp [sec3, e])

theorem wc40 (m : Nat) (x y z : ℝ) (h : InCone sec4 x y) (h' : InCone sec0 x y) :
    cartToPolarIn (RP (m + 1)) sec4 x y z = cartToPolarIn (RP (m + 1)) sec0 x y z := by
  unfold InCone at h h'; rw [gains_sec4] at h; rw [gains_sec0] at h'; simp only at h h'
  have e : x = 0 := by linarith [h.1, h'.2.1]
  exact cart_adjacent m sec4 sec0 good4 good0 rfl x y z y (by linarith [h'.2.2]) (by simp [sec4, e])
    (by simp [sec4])

/-- **Sector agreement, Cartesian side**: a point lying in the cones of two sectors of the table (only possible on
a shared boundary ray) converts to the same polar position with either. -/
theorem cart_sector_indep (m n : Nat) (s s' : Sector ℝ) (hs : s ∈ sectors (RP n)) (hs' : s' ∈ sectors (RP n))
    (x y z : ℝ) (h : InCone s x y) (h' : InCone s' x y) :
    cartToPolarIn (RP (m + 1)) s x y z = cartToPolarIn (RP (m + 1)) s' x y z := by
  rcases mem_sectors_RP hs with rfl | rfl | rfl | rfl | rfl <;>
  rcases mem_sectors_RP hs' with rfl | rfl | rfl | rfl | rfl
  any_goals rfl
  · exact wc01 m x y z h h'
  · exfalso; unfold InCone at h h'; rw [gains_sec0] at h; rw [gains_sec2] at h'; simp only at h h'; linarith [h.1, h.2.1, h.2.2, h'.1, h'.2.1]
  · exfalso; unfold InCone at h h'; rw [gains_sec0] at h; rw [gains_sec3] at h'; simp only at h h'; linarith [h.1, h.2.1, h.2.2, h'.1, h'.2.1]
  · exact (wc40 m x y z h' h).symm
  · exact (wc01 m x y z h' h).symm
  · exact wc12 m x y z h h'
  · exfalso; unfold InCone at h h'; rw [gains_sec1] at h; rw [gains_sec3] at h'; simp only at h h'; linarith [h.1, h.2.1, h.2.2, h'.1, h'.2.1]
  · exfalso; unfold InCone at h h'; rw [gains_sec1] at h; rw [gains_sec4] at h'; simp only at h h'; linarith [h.1, h.2.1, h.2.2, h'.1, h'.2.1]
  · exfalso; unfold InCone at h h'; rw [gains_sec2] at h; rw [gains_sec0] at h'; simp only at h h'; linarith [h.1, h.2.1, h.2.2, h'.1, h'.2.1]
  · exact (wc12 m x y z h' h).symm
  · exact wc23 m x y z h h'
  · exfalso; unfold InCone at h h'; rw [gains_sec2] at h; rw [gains_sec4] at h'; simp only at h h'; linarith [h.1, h.2.1, h.2.2, h'.1, h'.2.1]
  · exfalso; unfold InCone at h h'; rw [gains_sec3] at h; rw [gains_sec0] at h'; simp only at h h'; linarith [h.1, h.2.1, h.2.2, h'.1, h'.2.1]
  · exfalso; unfold InCone at h h'; rw [gains_sec3] at h; rw [gains_sec1] at h'; simp only at h h'; linarith [h.1, h.2.1, h.2.2, h'.1, h'.2.1]
  · exact (wc23 m x y z h' h).symm
  · exact wc34 m x y z h h'
  · exact wc40 m x y z h h'
  · exfalso; unfold InCone at h h'; rw [gains_sec4] at h; rw [gains_sec1] at h'; simp only at h h'; linarith [h.1, h.2.1, h.2.2, h'.1, h'.2.1]
  · exfalso; unfold InCone at h h'; rw [gains_sec4] at h; rw [gains_sec2] at h'; simp only at h h'; linarith [h.1, h.2.1, h.2.2, h'.1, h'.2.1]
  · exact (wc34 m x y z h' h).symm


/-! ### independence of the sector on shared boundaries (polar side) -/

/-- An azimuth on the boundary shared by two adjacent good sectors converts to the same point with either. -/
theorem polar_adjacent (m : Nat) (s s' : Sector ℝ) (g : GoodSector s) (g' : GoodSector s')
    (hshare : s.right = s'.left) (az el d : ℝ)
    (h1 : relativeAngle (m + 1) s.right.az az = s.right.az)
    (h2 : relativeAngle (m + 1) s'.right.az az = s'.lrel) :
    polarToCartIn (RP (m + 1)) s az el d = polarToCartIn (RP (m + 1)) s' az el d := by
  have hf : (RP (m + 1)).fuel = m + 1 := rfl
  have p1 : azToP (RP (m + 1)) s az = 1 := by
    dsimp only [azToP]; rw [hf, g.relLeft, h1]; exact mapAzToLinear_right _ _ g.mid.1 g.mid.2.1
  have p0 : azToP (RP (m + 1)) s' az = 0 := by
    dsimp only [azToP]; rw [hf, g'.relLeft, h2]; exact mapAzToLinear_left _ _ g'.mid.1 g'.mid.2.1
  unfold polarToCartIn
  rw [p1, p0, ← hshare]
  simp

/-- Closed polar range of a sector (fuel-free), for azimuths in `[-180, 180]`. -/
def InRange (s : Sector ℝ) (az : ℝ) : Prop := (if az < s.right.az then az + 360 else az) ≤ s.lrel

theorem GoodSector.inRange_iff {s : Sector ℝ} (g : GoodSector s) (m : Nat) (az : ℝ) (h1 : -180 ≤ az)
    (h2 : az ≤ 180) : relativeAngle (m + 1) s.right.az az ≤ s.lrel ↔ InRange s az := by
  unfold InRange; rw [g.relAz m az h1 h2]

theorem r0 {az : ℝ} (h1 : -180 ≤ az) (h : InRange sec0 az) : -30 ≤ az ∧ az ≤ 0 := by
  unfold InRange at h; rw [lrel0] at h
  have hR : sec0.right.az = -30 := rfl
  by_cases c : az < sec0.right.az
  · rw [if_pos c] at h; exfalso; linarith
  · rw [if_neg c] at h; rw [hR] at c; exact ⟨not_lt.mp c, h⟩
theorem r1 {az : ℝ} (h1 : -180 ≤ az) (h : InRange sec1 az) : -110 ≤ az ∧ az ≤ -30 := by
  unfold InRange at h; rw [lrel1] at h
  have hR : sec1.right.az = -110 := rfl
  by_cases c : az < sec1.right.az
  · rw [if_pos c] at h; exfalso; linarith
  · rw [if_neg c] at h; rw [hR] at c; exact ⟨not_lt.mp c, h⟩
theorem r2 {az : ℝ} (h : InRange sec2 az) : 110 ≤ az ∨ az ≤ -110 := by
  unfold InRange at h; rw [lrel2] at h
  have hR : sec2.right.az = 110 := rfl
  by_cases c : az < sec2.right.az
  · rw [if_pos c] at h; right; linarith
  · rw [hR] at c; left; exact not_lt.mp c
theorem r3 {az : ℝ} (h1 : -180 ≤ az) (h : InRange sec3 az) : 30 ≤ az ∧ az ≤ 110 := by
  unfold InRange at h; rw [lrel3] at h
  have hR : sec3.right.az = 30 := rfl
  by_cases c : az < sec3.right.az
  · rw [if_pos c] at h; exfalso; linarith
  · rw [if_neg c] at h; rw [hR] at c; exact ⟨not_lt.mp c, h⟩
theorem r4 {az : ℝ} (h1 : -180 ≤ az) (h : InRange sec4 az) : 0 ≤ az ∧ az ≤ 30 := by
  unfold InRange at h; rw [lrel4] at h
  have hR : sec4.right.az = 0 := rfl
  by_cases c : az < sec4.right.az
  · rw [if_pos c] at h; exfalso; linarith
  · rw [if_neg c] at h; rw [hR] at c; exact ⟨not_lt.mp c, h⟩

theorem wp (m : Nat) (s s' : Sector ℝ) (g : GoodSector s) (g' : GoodSector s') (hshare : s.right = s'.left)
    (az el d : ℝ) (h1 : -180 ≤ az) (h2 : az ≤ 180) (e : az = s.right.az)
    (e' : (if az < s'.right.az then az + 360 else az) = s'.lrel) :
    polarToCartIn (RP (m + 1)) s az el d = polarToCartIn (RP (m + 1)) s' az el d := by
  apply polar_adjacent m s s' g g' hshare
  · rw [g.relAz m az h1 h2, if_neg (by rw [e]; exact lt_irrefl _), e]
  · rw [g'.relAz m az h1 h2, e']

/-- **Sector agreement, polar side**: an azimuth lying in the closed ranges of two sectors of the table (only
possible on a shared boundary) converts to the same Cartesian point with either. -/
theorem polar_sector_indep (m n : Nat) (s s' : Sector ℝ) (hs : s ∈ sectors (RP n)) (hs' : s' ∈ sectors (RP n))
    (az el d : ℝ) (h1 : -180 ≤ az) (h2 : az ≤ 180) (h : InRange s az) (h' : InRange s' az) :
    polarToCartIn (RP (m + 1)) s az el d = polarToCartIn (RP (m + 1)) s' az el d := by
  rcases mem_sectors_RP hs with rfl | rfl | rfl | rfl | rfl <;>
  rcases mem_sectors_RP hs' with rfl | rfl | rfl | rfl | rfl
  any_goals rfl
  · have a := r0 h1 h; have b := r1 h1 h'
    exact wp m sec0 sec1 good0 good1 rfl az el d h1 h2 (by show az = (-30:ℝ); linarith)
      (by rw [lrel1]; rw [if_neg (by show ¬ az < (-110:ℝ); linarith)]; linarith)
  · exfalso; have a := r0 h1 h; rcases r2 h' with b | b <;> linarith
  · exfalso; have a := r0 h1 h; have b := r3 h1 h'; linarith
  · have a := r0 h1 h; have b := r4 h1 h'
    exact (wp m sec4 sec0 good4 good0 rfl az el d h1 h2 (by show az = (0:ℝ); linarith)
      (by rw [lrel0]; rw [if_neg (by show ¬ az < (-30:ℝ); linarith)]; linarith)).symm
  · have a := r1 h1 h; have b := r0 h1 h'
    exact (wp m sec0 sec1 good0 good1 rfl az el d h1 h2 (by show az = (-30:ℝ); linarith)
      (by rw [lrel1]; rw [if_neg (by show ¬ az < (-110:ℝ); linarith)]; linarith)).symm
  · have a := r1 h1 h
    have e : az = -110 := by rcases r2 h' with b | b <;> linarith
    exact wp m sec1 sec2 good1 good2 rfl az el d h1 h2 (by show az = (-110:ℝ); linarith)
      (by rw [lrel2]; rw [if_pos (by show az < (110:ℝ); linarith)]; linarith)
  · exfalso; have a := r1 h1 h; have b := r3 h1 h'; linarith
  · exfalso; have a := r1 h1 h; have b := r4 h1 h'; linarith
  · exfalso; have a := r0 h1 h'; rcases r2 h with b | b <;> linarith
  · have a := r1 h1 h'
    have e : az = -110 := by rcases r2 h with b | b <;> linarith
    exact (wp m sec1 sec2 good1 good2 rfl az el d h1 h2 (by show az = (-110:ℝ); linarith)
      (by rw [lrel2]; rw [if_pos (by show az < (110:ℝ); linarith)]; linarith)).symm
  · have a := r3 h1 h'
    have e : az = 110 := by rcases r2 h with b | b <;> linarith
    exact wp m sec2 sec3 good2 good3 rfl az el d h1 h2 (by show az = (110:ℝ); linarith)
      (by rw [lrel3]; rw [if_neg (by show ¬ az < (30:ℝ); linarith)]; linarith)
  · exfalso; have a := r4 h1 h'; rcases r2 h with b | b <;> linarith
  · exfalso; have a := r3 h1 h; have b := r0 h1 h'; linarith
  · exfalso; have a := r3 h1 h; have b := r1 h1 h'; linarith
  · have a := r3 h1 h
    have e : az = 110 := by rcases r2 h' with b | b <;> linarith
    exact (wp m sec2 sec3 good2 good3 rfl az el d h1 h2 (by show az = (110:ℝ); linarith)
      (by rw [lrel3]; rw [if_neg (by show ¬ az < (30:ℝ); linarith)]; linarith)).symm
  · have a := r3 h1 h; have b := r4 h1 h'
    exact wp m sec3 sec4 good3 good4 rfl az el d h1 h2 (by show az = (30:ℝ); linarith)
      (by rw [lrel4]; rw [if_neg (by show ¬ az < (0:ℝ); linarith)]; linarith)
  · have a := r4 h1 h; have b := r0 h1 h'
    exact wp m sec4 sec0 good4 good0 rfl az el d h1 h2 (by show az = (0:ℝ); linarith)
      (by rw [lrel0]; rw [if_neg (by show ¬ az < (-30:ℝ); linarith)]; linarith)
  · exfalso; have a := r4 h1 h; have b := r1 h1 h'; linarith
  · exfalso; have a := r4 h1 h; rcases r2 h' with b | b <;> linarith
  · have a := r4 h1 h; have b := r3 h1 h'
    exact (wp m sec3 sec4 good3 good4 rfl az el d h1 h2 (by show az = (30:ℝ); linarith)
      (by rw [lrel4]; rw [if_neg (by show ¬ az < (0:ℝ); linarith)]; linarith)).symm

/-! ### small lemmas for the assembled round trips -/

theorem k_eps : (k (1 / 10000000000) : ℝ) = 1 / 10000000000 := by simp [k, Scalar.ofRat]

theorem snap_iff (x y : ℝ) :
    (abs x < k (1 / 10000000000) ∧ abs y < k (1 / 10000000000)) ↔
      (|x| < 1 / 10000000000 ∧ |y| < 1 / 10000000000) := by
  rw [abs_real, abs_real, k_eps]

theorem not_origin_of_inCone {s : Sector ℝ} {x y : ℝ} (h : InCone s x y) : ¬ (x = 0 ∧ y = 0) := by
  rintro ⟨rfl, rfl⟩
  unfold InCone at h
  rw [gains_real] at h
  simp at h

/-- Horizontal "radius" (sum of the gains) of the image of a polar position: `r_xy` of the elevation warp. -/
theorem polar_image_radius (P : Params ℝ) (s : Sector ℝ) (hdet : s.det ≠ 0) (az el d : ℝ) :
    (gains s (polarToCartIn P s az el d).1 (polarToCartIn P s az el d).2.1).1 +
      (gains s (polarToCartIn P s az el d).1 (polarToCartIn P s az el d).2.1).2 = (elToCart P el d).2 := by
  generalize hpe : azToP P s az = p
  generalize hre : (elToCart P el d).2 = rxy
  have hx : (polarToCartIn P s az el d).1 = rxy * (1 - p) * s.left.x + rxy * p * s.right.x := by
    unfold polarToCartIn; simp only; rw [hpe, hre]; ring
  have hy : (polarToCartIn P s az el d).2.1 = rxy * (1 - p) * s.left.y + rxy * p * s.right.y := by
    unfold polarToCartIn; simp only; rw [hpe, hre]; ring
  rw [hx, hy, gains_combination s hdet]; simp only; ring

/-- In the cone of a sector of the table the sum of the gains is `|x|` or `|y|` (the square norm). -/
theorem cone_radius {n : Nat} {s : Sector ℝ} (hs : s ∈ sectors (RP n)) (x y : ℝ) :
    (gains s x y).1 + (gains s x y).2 ≤ |x| ∨ (gains s x y).1 + (gains s x y).2 ≤ |y| := by
  rcases mem_sectors_RP hs with rfl | rfl | rfl | rfl | rfl
  · right; rw [gains_sec0]; simp only; linarith [le_abs_self y]
  · left; rw [gains_sec1]; simp only; linarith [le_abs_self x]
  · right; rw [gains_sec2]; simp only; linarith [neg_abs_le y]
  · left; rw [gains_sec3]; simp only; linarith [neg_abs_le x]
  · right; rw [gains_sec4]; simp only; linarith [le_abs_self y]

theorem elToCart_radius_low (n : Nat) (el d : ℝ) (hel : |el| ≤ 30) : (elToCart (RP n) el d).2 = d := by
  rw [elToCart_real, (RP_consts n).1, if_neg (not_lt.mpr hel)]



end Earverif.Conv
