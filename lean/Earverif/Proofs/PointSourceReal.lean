/- The point-source panner model over ℝ: `Scalar ℝ` instance, bridge lemmas, and the basic algebra shared by
   Props/C05.lean and Props/C12.lean. -/
import Earverif.Model.PointSource
import Mathlib.Analysis.SpecialFunctions.Pow.Real
import Mathlib.Analysis.SpecialFunctions.Sqrt
import Mathlib.Tactic.Ring
import Mathlib.Tactic.FieldSimp
import Mathlib.Tactic.Linarith
import Mathlib.Tactic.Positivity
import Mathlib.Tactic.NormNum

namespace Earverif.PointSource

noncomputable instance instScalarReal : Scalar ℝ where
  ofRat q := (q : ℝ)
  sqrt := Real.sqrt
  max := Max.max
  min := Min.min
  powHalf x := (1 / 2 : ℝ) ^ x
  decLt _ _ := Classical.propDecidable _
  decLe _ _ := Classical.propDecidable _

@[simp] theorem sqrt_real (x : ℝ) : Scalar.sqrt x = Real.sqrt x := rfl
@[simp] theorem max_real (a b : ℝ) : Scalar.max a b = Max.max a b := rfl
@[simp] theorem min_real (a b : ℝ) : Scalar.min a b = Min.min a b := rfl
@[simp] theorem powHalf_real (x : ℝ) : Scalar.powHalf x = (1 / 2 : ℝ) ^ x := rfl
@[simp] theorem ofRat_real (q : Rat) : (Scalar.ofRat q : ℝ) = (q : ℝ) := rfl
@[simp] theorem zero_real : (zero : ℝ) = 0 := by simp [zero]
@[simp] theorem one_real : (one : ℝ) = 1 := by simp [one]
theorem tripletEps_real : (tripletEps : ℝ) = -(1 / 100000000000) := by
  simp only [tripletEps, ofRat_real]; norm_num
theorem tripletEps_neg : (tripletEps : ℝ) < 0 := by rw [tripletEps_real]; norm_num

/-! ### clip -/

theorem clip01_nonneg (x : ℝ) : 0 ≤ clip01 x := by
  simp only [clip01, min_real, max_real, zero_real, one_real]
  exact le_min (le_max_right _ _) zero_le_one

theorem clip01_le_one (x : ℝ) : clip01 x ≤ 1 := by
  simp only [clip01, min_real, max_real, zero_real, one_real]
  exact min_le_right _ _

theorem clip01_of_mem {x : ℝ} (h0 : 0 ≤ x) (h1 : x ≤ 1) : clip01 x = x := by
  simp only [clip01, min_real, max_real, zero_real, one_real]
  rw [max_eq_left h0, min_eq_left h1]

theorem clip01_sq_le (x : ℝ) : clip01 x * clip01 x ≤ x * x := by
  have h0 := clip01_nonneg x
  have h : clip01 x ≤ |x| := by
    simp only [clip01, min_real, max_real, zero_real, one_real]
    exact le_trans (min_le_left _ _) (max_le (le_abs_self x) (abs_nonneg x))
  calc clip01 x * clip01 x ≤ |x| * |x| := mul_le_mul h h h0 (abs_nonneg x)
    _ = x * x := abs_mul_abs_self x

/-! ### lists of gains -/

theorem sumsq_nonneg : ∀ v : List ℝ, 0 ≤ sumsq v
  | [] => by simp [sumsq]
  | x :: xs => by
    simp only [sumsq]
    have := sumsq_nonneg xs
    nlinarith [mul_self_nonneg x]

theorem sumsq_eq_zero : ∀ {v : List ℝ}, sumsq v = 0 → ∀ x ∈ v, x = 0
  | [], _, x, hx => by simp at hx
  | y :: ys, h, x, hx => by
    simp only [sumsq] at h
    have h1 := sumsq_nonneg ys
    have h2 := mul_self_nonneg y
    have hy : y * y = 0 := by linarith
    have hys : sumsq ys = 0 := by linarith
    rcases List.mem_cons.mp hx with rfl | hx
    · exact mul_self_eq_zero.mp hy
    · exact sumsq_eq_zero hys x hx

theorem sumsq_map_div (c : ℝ) : ∀ v : List ℝ, sumsq (v.map (· / c)) = sumsq v / (c * c)
  | [] => by simp [sumsq]
  | x :: xs => by
    simp only [List.map_cons, sumsq, sumsq_map_div c xs]
    by_cases hc : c = 0
    · subst hc; simp
    · field_simp

theorem sumsq_map_mul (c : ℝ) : ∀ v : List ℝ, sumsq (v.map (· * c)) = sumsq v * (c * c)
  | [] => by simp [sumsq]
  | x :: xs => by
    simp only [List.map_cons, sumsq, sumsq_map_mul c xs]; ring

/-- `normalise` of a non-zero vector has unit power. -/
theorem sumsq_normalise {v : List ℝ} (h : sumsq v ≠ 0) : sumsq (normalise v) = 1 := by
  unfold normalise norm
  rw [sumsq_map_div, sqrt_real, Real.mul_self_sqrt (sumsq_nonneg v)]
  exact div_self h

theorem normalise_nonneg {v : List ℝ} (hv : ∀ x ∈ v, 0 ≤ x) : ∀ x ∈ normalise v, 0 ≤ x := by
  intro x hx
  unfold normalise at hx
  obtain ⟨y, hy, rfl⟩ := List.mem_map.mp hx
  exact div_nonneg (hv y hy) (by rw [norm, sqrt_real]; exact Real.sqrt_nonneg _)

theorem normalise_zero {v : List ℝ} (h : sumsq v = 0) : ∀ x ∈ normalise v, x = 0 := by
  intro x hx
  unfold normalise at hx
  obtain ⟨y, hy, rfl⟩ := List.mem_map.mp hx
  rw [sumsq_eq_zero h y hy]; simp

/-- non-negative in, non-negative out; unit power unless the input was the zero vector. -/
theorem normalise_spec {v : List ℝ} (hv : ∀ x ∈ v, 0 ≤ x) :
    (∀ x ∈ normalise v, 0 ≤ x) ∧ (sumsq (normalise v) = 1 ∨ ∀ x ∈ normalise v, x = 0) := by
  refine ⟨normalise_nonneg hv, ?_⟩
  by_cases h : sumsq v = 0
  · exact Or.inr (normalise_zero h)
  · exact Or.inl (sumsq_normalise h)

theorem dot_nonneg : ∀ {a b : List ℝ}, (∀ x ∈ a, 0 ≤ x) → (∀ x ∈ b, 0 ≤ x) → 0 ≤ dot a b
  | [], _, _, _ => by simp [dot]
  | _ :: _, [], _, _ => by simp [dot]
  | x :: xs, y :: ys, ha, hb => by
    simp only [dot]
    have h1 : 0 ≤ x * y := mul_nonneg (ha x (by simp)) (hb y (by simp))
    have h2 := dot_nonneg (a := xs) (b := ys) (fun z hz => ha z (by simp [hz])) (fun z hz => hb z (by simp [hz]))
    linarith

theorem scatter_nonneg : ∀ (idx : List Nat) (vals out : List ℝ), (∀ x ∈ out, 0 ≤ x) → (∀ x ∈ vals, 0 ≤ x) →
    ∀ x ∈ scatter out idx vals, 0 ≤ x
  | [], _, out, ho, _ => by simpa [scatter] using ho
  | _ :: _, [], out, ho, _ => by simpa [scatter] using ho
  | i :: is, v :: vs, out, ho, hv => by
    simp only [scatter]
    apply scatter_nonneg is vs
    · intro x hx
      rcases List.mem_or_eq_of_mem_set hx with h | h
      · exact ho x h
      · rw [h]; exact hv v (by simp)
    · intro x hx; exact hv x (by simp [hx])

theorem zeros_nonneg (n : Nat) : ∀ x ∈ (zeros n : List ℝ), 0 ≤ x := by
  intro x hx
  simp only [zeros, zero_real] at hx
  rw [List.eq_of_mem_replicate hx]

/-! ### firstAccept -/

theorem firstAccept_mem {γ : Type} : ∀ {rs : List (Option γ)} {g : γ}, firstAccept rs = some g → some g ∈ rs
  | [], _, h => by simp [firstAccept] at h
  | some a :: _, g, h => by
    simp only [firstAccept, Option.some.injEq] at h; subst h; simp
  | none :: rest, g, h => by
    simp only [firstAccept] at h
    exact List.mem_cons_of_mem _ (firstAccept_mem h)

theorem firstAccept_eq_none {γ : Type} : ∀ {rs : List (Option γ)}, firstAccept rs = none ↔ ∀ r ∈ rs, r = none
  | [] => by simp [firstAccept]
  | some a :: rest => by simp [firstAccept]
  | none :: rest => by
    simp only [firstAccept, List.mem_cons, forall_eq_or_imp, true_and]
    exact firstAccept_eq_none

/-! ### 3×3 algebra -/

/-- `p = s·a + t·b + u·c` -/
noncomputable def comb3 (s t u : ℝ) (P : Mat3 ℝ) : Vec3 ℝ :=
  add3 (add3 (smul3 s P.1) (smul3 t P.2.1)) (smul3 u P.2.2)

/-- VBAP: for an invertible position matrix the gains of `s·a + t·b + u·c` before normalisation are `(s,t,u)`. -/
theorem pv_comb3 (P : Mat3 ℝ) (hd : det3 P ≠ 0) (s t u : ℝ) : Triplet.pv P (comb3 s t u P) = (s, t, u) := by
  obtain ⟨⟨a0, a1, a2⟩, ⟨b0, b1, b2⟩, ⟨c0, c1, c2⟩⟩ := P
  simp only [det3] at hd
  simp only [Triplet.pv, vecMat, inv3, det3, comb3, add3, smul3]
  generalize hdef : (a0 * (b1 * c2 - b2 * c1) - a1 * (b0 * c2 - b2 * c0) + a2 * (b0 * c1 - b1 * c0)) = d at hd ⊢
  refine Prod.ext ?_ (Prod.ext ?_ ?_) <;> simp only <;> field_simp <;> rw [← hdef] <;> ring

end Earverif.PointSource
