/-
The loop over a renderer's items (`for track_spec_processor, block_processing in self.block_processing_channels`):
every channel adds its timeline's effect to the shared rows; over any sequence of blocks the rows are a function of
the absolute sample index and the concatenated input only.
-/
import Earverif.Proofs.C03Bpc
import Earverif.Proofs.C02Compose
namespace Earverif.Renderer
open Earverif.Stream Earverif.Timeline
set_option linter.unusedSectionVars false

variable {α M S K ι V : Type}

/-- Every channel is in the state `BpcInv` (samples before `S0` consumed) relative to its timeline. -/
def ChansInv (interp : S → M → Except Err (S × List (PBlock K))) (S0 : Int) :
    List (α × Bpc M S K) → List (List (PBlock K)) → Prop
  | [], [] => True
  | (_, b) :: cs, all :: alls => (∃ lb, ChainLB lb all) ∧ BpcInv interp all b S0 ∧ ChansInv interp S0 cs alls
  | _, _ => False

/-- The rows after all channels of a block have run. -/
def chanRows (upd : K → Nat → ι → V → V) (S0 : Int) (get : α → List ι) :
    List α → List (List (PBlock K)) → List V → List V
  | t :: ts, all :: alls, out =>
    chanRows upd S0 get ts alls (mapRows (fun j x o => effAll upd all (S0 + j) x o) (get t) out)
  | _, _, out => out

/-- One channel's effect on one row (`x` = its input sample there, if any). -/
def rowStep (upd : K → Nat → ι → V → V) (s : Int) (x : Option ι) (all : List (PBlock K)) (o : V) : V :=
  match x with
  | some x => effAll upd all s x o
  | none => o

/-- One row after all channels: fold of the per-sample effects. -/
def rowFold (upd : K → Nat → ι → V → V) (s : Int) (xs : α → Option ι) : List α → List (List (PBlock K)) → V → V
  | t :: ts, all :: alls, o =>
    rowFold upd s xs ts alls (rowStep upd s (xs t) all o)
  | _, _, o => o

theorem procChans_spec (interp : S → M → Except Err (S × List (PBlock K)))
    (hy : ∀ st m st' new, interp st m = .ok (st', new) → new.length ≤ 2)
    (upd : K → Nat → ι → V → V) (S0 : Int) (get : α → List ι) (n : Nat) :
    ∀ (chans : List (α × Bpc M S K)) (alls : List (List (PBlock K))) (out : List V),
      ChansInv interp S0 chans alls → (∀ c ∈ chans, (get c.1).length = n) →
      ∃ chans', procChans interp upd S0 get chans out =
          .ok (chans', chanRows upd S0 get (chans.map (·.1)) alls out) ∧
        ChansInv interp (S0 + n) chans' alls ∧ chans'.map (·.1) = chans.map (·.1) := by
  intro chans
  induction chans with
  | nil =>
    intro alls out hinv _
    cases alls with
    | nil => exact ⟨[], rfl, trivial, rfl⟩
    | cons a as => exact absurd hinv (by simp [ChansInv])
  | cons c cs ih =>
    intro alls out hinv hlen
    obtain ⟨t, b⟩ := c
    cases alls with
    | nil => exact absurd hinv (by simp [ChansInv])
    | cons all alls =>
      obtain ⟨⟨lb, hch⟩, hb, hrest⟩ := hinv
      obtain ⟨b', e1, hb'⟩ := bpc_process_spec interp hy upd hch b S0 hb (get t) out
      have hn : (get t).length = n := hlen (t, b) List.mem_cons_self
      rw [hn] at hb'
      obtain ⟨cs', e2, hcs', hts⟩ := ih alls (mapRows (fun j x o => effAll upd all (S0 + j) x o) (get t) out)
        hrest (fun c hc => hlen c (List.mem_cons_of_mem _ hc))
      refine ⟨(t, b') :: cs', ?_, ⟨⟨lb, hch⟩, hb', hcs'⟩, by simp [hts]⟩
      simp only [procChans, e1, bind, Except.bind, e2, pure, Except.pure, List.map_cons, chanRows]

theorem getElem?_mapRows (F : Nat → ι → V → V) (inp : List ι) (out : List V) (i : Nat) :
    (mapRows F inp out)[i]? = (out[i]?).map (fun o => match inp[i]? with | some x => F i x o | none => o) := by
  simp only [mapRows, List.getElem?_mapIdx]
  cases out[i]? <;> rfl

theorem chanRows_length (upd : K → Nat → ι → V → V) (S0 : Int) (get : α → List ι) :
    ∀ (ts : List α) (alls : List (List (PBlock K))) (out : List V),
      (chanRows upd S0 get ts alls out).length = out.length := by
  intro ts
  induction ts with
  | nil => intro alls out; rfl
  | cons t ts ih =>
    intro alls out
    cases alls with
    | nil => rfl
    | cons all alls => simp only [chanRows, ih, mapRows_length]

theorem getElem?_chanRows (upd : K → Nat → ι → V → V) (S0 : Int) (get : α → List ι) (i : Nat) :
    ∀ (ts : List α) (alls : List (List (PBlock K))) (out : List V),
      (chanRows upd S0 get ts alls out)[i]? =
        (out[i]?).map (rowFold upd (S0 + i) (fun t => (get t)[i]?) ts alls) := by
  intro ts
  induction ts with
  | nil => intro alls out; simp [chanRows, rowFold]
  | cons t ts ih =>
    intro alls out
    cases alls with
    | nil => simp [chanRows, rowFold]
    | cons all alls =>
      simp only [chanRows, rowFold, ih, getElem?_mapRows, Option.map_map]
      rfl

/-- A renderer that consists of the channel loop only (DirectSpeakers, HOA; the gain stage of Objects), fed ANY
sequence of blocks: nothing raises, every call returns as many rows as frames, and row `i` of the concatenation is
`rowFold` at absolute index `S0 + i` of the concatenated input. -/
theorem chans_subRun_spec [Zero V] (interp : S → M → Except Err (S × List (PBlock K)))
    (hy : ∀ st m st' new, interp st m = .ok (st', new) → new.length ≤ 2)
    (upd : K → Nat → ι → V → V) (getf : List (List Rat) → α → List ι)
    (hgl : ∀ blk t, (getf blk t).length = blk.length)
    (hga : ∀ b1 b2 t, getf (b1 ++ b2) t = getf b1 t ++ getf b2 t) :
    ∀ (blocks : List (List (List Rat))) (chans : List (α × Bpc M S K)) (alls : List (List (PBlock K))) (S0 : Int),
      ChansInv interp S0 chans alls →
      ∃ chans' os,
        subRun (fun ch S1 b => procChans interp upd S1 (getf b) ch (List.replicate b.length (0 : V)))
          chans S0 blocks = .ok (chans', os) ∧
        os.map List.length = blocks.map List.length ∧
        ∀ i, os.flatten[i]? =
          if i < blocks.flatten.length then
            some (rowFold upd (S0 + i) (fun t => (getf blocks.flatten t)[i]?) (chans.map (·.1)) alls 0)
          else none := by
  intro blocks
  induction blocks with
  | nil =>
    intro chans alls S0 _
    exact ⟨chans, [], rfl, rfl, by intro i; simp⟩
  | cons b bs ih =>
    intro chans alls S0 hinv
    obtain ⟨ch1, e1, hinv1, hts⟩ := procChans_spec interp hy upd S0 (getf b) b.length chans alls
      (List.replicate b.length (0 : V)) hinv (fun c _ => hgl b c.1)
    obtain ⟨ch2, os, e2, hl, hrow⟩ := ih ch1 alls (S0 + b.length) hinv1
    refine ⟨ch2, chanRows upd S0 (getf b) (chans.map (·.1)) alls (List.replicate b.length 0) :: os, ?_, ?_, ?_⟩
    · simp only [subRun, e1, e2]
    · simp only [List.map_cons, hl, chanRows_length, List.length_replicate]
    · intro i
      simp only [List.flatten_cons, List.getElem?_append, chanRows_length, List.length_replicate,
        List.length_append]
      by_cases hi : i < b.length
      · rw [if_pos hi, if_pos (by omega), getElem?_chanRows]
        simp only [List.getElem?_replicate, hi, if_true, Option.map_some]
        congr 2
        funext t
        rw [hga, List.getElem?_append_left (by rw [hgl]; exact hi)]
      · rw [if_neg hi, hrow (i - b.length)]
        by_cases h2 : i - b.length < bs.flatten.length
        · rw [if_pos h2, if_pos (by omega), hts]
          have e : S0 + (b.length : Int) + ((i - b.length : Nat) : Int) = S0 + i := by omega
          rw [e]
          congr 2
          funext t
          rw [hga, List.getElem?_append_right (by rw [hgl]; omega), hgl]
        · rw [if_neg h2, if_neg (by omega)]

end Earverif.Renderer
