/-
C01 model — `ear.core.objectbased.gain_calc.GainCalc.render` from the point where the sub-panners
have answered, and the small numeric sub-models its power invariant rests on.

Core Lean only; written once over a scalar type `α` (class `Scalar`): the driver runs it over
`Float` against numpy, `Props/C01.lean` proves the theorems over `ℝ`.  Vectors are `List α`,
matrices are lists of rows.

Transliteration notes (what is *not* a literal copy of the Python):
* numpy raises on shape mismatches (`gains_full[~mask] = gains` with the wrong number of values,
  `np.dot` of incompatible shapes).  The model is total: `zipWith`/`dot` truncate to the shorter
  operand and `scatter` pads with 0.  The theorems carry the shape hypotheses explicitly and the
  driver refuses (`bad-shape`) inputs on which numpy would raise.
* `np.dot` summation order is BLAS' business; the model sums right-to-left (structural recursion).
  The correspondence tolerance (1e-12 absolute) covers the reassociation.
* `np.nan_to_num` is the `Scalar.nanToNum` field: numpy's definition over `Float`
  (NaN -> 0, +-inf -> +-largest finite), the identity over `ℝ` (no NaN there; finiteness under
  float arithmetic is searched, not proved).
* `value == x` comparisons are `x ≤ y ∧ y ≤ x` (same truth table as IEEE `==`, incl. NaN and -0).
-/
namespace Earverif.GainCalc

/-- Scalars the numeric kernels run over. -/
class Scalar (α : Type) extends Add α, Sub α, Mul α, Div α, Neg α, LT α, LE α where
  ofRat : Rat → α
  sqrt : α → α
  cos : α → α
  sin : α → α
  pi : α
  /-- `np.nan_to_num` on one element -/
  nanToNum : α → α
  decLt : (a b : α) → Decidable (a < b)
  decLe : (a b : α) → Decidable (a ≤ b)

instance {α : Type} [Scalar α] (a b : α) : Decidable (a < b) := Scalar.decLt a b
instance {α : Type} [Scalar α] (a b : α) : Decidable (a ≤ b) := Scalar.decLe a b

/-- binary64 with the C library's functions (`ofRat` is exact for binary64-representable
rationals and correctly rounded for the decimal constants used here). -/
instance : Scalar Float where
  ofRat q := Float.ofInt q.num / Float.ofNat q.den
  sqrt := Float.sqrt
  cos := Float.cos
  sin := Float.sin
  pi := 3.141592653589793
  nanToNum x :=
    if x.isNaN then 0.0
    else if x.isInf then (if x > 0.0 then 1.7976931348623157e308 else -1.7976931348623157e308)
    else x
  decLt := fun a b => Float.decLt a b
  decLe := fun a b => Float.decLe a b

section
variable {α : Type} [Scalar α]
open Scalar (sqrt)

/-- numeric constant -/
@[inline] def k (q : Rat) : α := Scalar.ofRat q

/-- `0.0` -/
@[inline] def zero : α := k 0
/-- `1.0` -/
@[inline] def one : α := k 1

/-- IEEE `==` -/
@[inline] def eqS (x y : α) : Bool := decide (x ≤ y) && decide (y ≤ x)

/-- `np.sum` of a vector -/
def sum : List α → α
  | [] => zero
  | x :: xs => x + sum xs

/-- `x ** 2` elementwise -/
def sq (v : List α) : List α := v.map fun x => x * x

/-- `np.sum(v ** 2)` -/
def sumSq (v : List α) : α := sum (sq v)

/-- `np.dot(a, b)` of two vectors -/
def dot : List α → List α → α
  | a :: as, b :: bs => a * b + dot as bs
  | _, _ => zero

/-- `np.zeros(n)` -/
def zeros (n : Nat) : List α := List.replicate n zero

/-- `a + b` elementwise -/
def vadd (a b : List α) : List α := List.zipWith (· + ·) a b

/-- `np.dot(w, M)` for a vector `w` (length K) and a matrix `M` given as K rows of length `n`:
    `out[j] = Σ_k w[k] * M[k][j]`. -/
def vecMat (n : Nat) : List α → List (List α) → List α
  | w :: ws, r :: rs => vadd (r.map fun x => w * x) (vecMat n ws rs)
  | _, _ => zeros n

/-- `np.sqrt` elementwise -/
def vsqrt (v : List α) : List α := v.map sqrt

/-- `full = np.zeros(len(mask)); full[~mask] = v`: the entries of `v` go, in order, to the slots where
    `mask` is false; the masked slots hold the literal `0.0`.  (numpy raises unless `v` has exactly as many
    entries as there are unmasked slots; the model pads with 0 / drops the rest.) -/
def scatter : List Bool → List α → List α
  | [], _ => []
  | true :: m, v => zero :: scatter m v
  | false :: m, x :: v => x :: scatter m v
  | false :: m, [] => zero :: scatter m []

/-- number of unmasked slots -/
def countFalse : List Bool → Nat
  | [] => 0
  | true :: m => countFalse m
  | false :: m => countFalse m + 1

/-! ### `diverge`: the three-way gain formula -/

/-- `gain_calc.diverge`, gains only.  `none` = no `objectDivergence` element. -/
def divergeGains (value : Option α) : List α :=
  match value with
  | none => [one]
  | some v =>
    if eqS v zero then [one]
    else
      let gl := v / (v + one)
      let gc := (one - v) / (v + one)
      [gl, gc, gl]

/-! ### `direct_diffuse_split`, `get_object_gain` -/

/-- `gain_calc.direct_diffuse_split` -/
def directDiffuseSplit (gains : List α) (diffuse : α) : List α × List α :=
  (gains.map fun g => g * sqrt (one - diffuse), gains.map fun g => g * sqrt diffuse)

/-- `renderer_common.get_object_gain` -/
def getObjectGain (mute : Bool) (objectGain : α) : α := if mute then zero else objectGain

/-! ### `GainCalc.render` after the sub-panners -/

/-- What the zone handling contributed.  Polar path: the matrix returned by
    `ZoneExclusionDownmix.downmix_for_excluded` (`D[i][j]` = coefficient from channel i to channel j; the
    identity when nothing or everything is excluded).  Cartesian path: the mask returned by
    `allocentric.get_excluded`, with which `extent_pan` scatters the allocentric panner's answer. -/
inductive ZonePath (α : Type) where
  | polar (D : List (List α))
  | cartesian (excluded : List Bool)

/-- `ZoneExclusionHandler.handle` after `downmix_for_excluded`: `np.sqrt(np.dot(gains**2, downmix))` -/
def zoneHandle (n : Nat) (gains : List α) (D : List (List α)) : List α :=
  vsqrt (vecMat n (sq gains) D)

/-- The per-position gain rows as `np.apply_along_axis(extent_pan, 1, diverged_positions, ...)` sees them:
    polar path = what `PolarExtentHandler.handle` returned; Cartesian path = the closure `extent_pan`
    scattering what `allocentric_extent_pan` returned into the non-excluded slots. -/
def gainsForEachPos (path : ZonePath α) (g : List (List α)) : List (List α) :=
  match path with
  | .polar _ => g
  | .cartesian excluded => g.map (scatter excluded)

/-- `GainCalc.render` from `gains = np.sqrt(np.dot(diverged_gains, gains_for_each_pos**2))` to the end.
    `n` = number of non-LFE channels; `d` = diverged gains; `g` = one vector per diverged position;
    `blockGain` = `block_format.gain`; `objectGain`, `mute` = `extra_data.object_gain/_mute`;
    `isLfe` = `layout.is_lfe`; `diffuse` = `block_format.diffuse`.  Returns (direct, diffuse). -/
def render (n : Nat) (path : ZonePath α) (d : List α) (g : List (List α))
    (blockGain objectGain : α) (mute : Bool) (isLfe : List Bool) (diffuse : α) : List α × List α :=
  let rows := gainsForEachPos path g
  -- gains = np.sqrt(np.dot(diverged_gains, gains_for_each_pos**2))
  let gains := vsqrt (vecMat n d (rows.map sq))
  -- if not block_format.cartesian: gains = self.zone_exclusion_handler.handle(gains, zoneExclusion)
  let gains := match path with
    | .polar D => zoneHandle n gains D
    | .cartesian _ => gains
  -- gains = np.nan_to_num(gains)
  let gains := gains.map Scalar.nanToNum
  -- gains *= block_format.gain * get_object_gain(object_meta)
  let a := blockGain * getObjectGain mute objectGain
  let gains := gains.map fun x => x * a
  -- gains_full = np.zeros(len(self.is_lfe)); gains_full[~self.is_lfe] = gains
  let gainsFull := scatter isLfe gains
  directDiffuseSplit gainsFull diffuse

/-- The shapes on which numpy does not raise inside `render`. -/
def shapesOk (n : Nat) (path : ZonePath α) (d : List α) (g : List (List α)) (isLfe : List Bool) : Bool :=
  d.length == g.length && countFalse isLfe == n &&
  match path with
  | .polar D => g.all (·.length == n) && D.length == n && D.all (·.length == n)
  | .cartesian ex => ex.length == n && g.all (·.length == countFalse ex)

/-! ### `ZoneExclusionDownmix.downmix_for_excluded` (own copy; the decision logic that produces
    `excluded` belongs to another check) -/

/-- `excluded[group]` all true (`np.all(excluded[group])`; an index past the end raises in numpy: `none`) -/
def allExcluded (excluded : List Bool) : List Nat → Option Bool
  | [] => some true
  | j :: js => do
    let e ← excluded[j]?
    let r ← allExcluded excluded js
    pure (e && r)

/-- `group[~excluded[group]]` -/
def notExcluded (excluded : List Bool) (group : List Nat) : List Nat :=
  group.filter fun j => !(excluded.getD j true)

/-- one row: `downmix[i, not_excluded] = 1.0 / len(not_excluded)` on a row of zeros -/
def downmixRow (n : Nat) (ne : List Nat) : List α :=
  (List.range n).map fun j => if ne.contains j then one / k (mkRat ne.length 1) else zero

/-- first group with a non-excluded member; `none` = the `assert False` after the loop -/
def firstUsable (excluded : List Bool) : List (List Nat) → Option (List Nat)
  | [] => none
  | grp :: rest =>
    match allExcluded excluded grp with
    | none => none
    | some true => firstUsable excluded rest
    | some false => some (notExcluded excluded grp)

/-- `np.eye(n)` -/
def eye (n : Nat) : List (List α) :=
  (List.range n).map fun i => (List.range n).map fun j => if i == j then one else zero

/-- `ZoneExclusionDownmix.downmix_for_excluded`; `groups[i]` = `self.channel_groups[i]` (priority-ordered
    groups of channel indices for channel i).  `none` where the Python raises (shape assert, index error,
    `assert False`). -/
def downmixForExcluded (groups : List (List (List Nat))) (excluded : List Bool) : Option (List (List α)) :=
  let n := groups.length
  if excluded.length != n then none
  else if excluded.all id || excluded.all (!·) then some (eye n)
  else groups.mapM fun grps => (firstUsable excluded grps).map (downmixRow n)

/-! ### Polar extent: `PolarExtentHandler.handle` depth combination, `calc_pv_spread` skeleton,
    `SpreadingPanner.panning_values_for_weight` normalisation -/

/-- `np.sqrt(np.mean(np.square(pvs), axis=0))` for the two distances -/
def depthCombine (p1 p2 : List α) : List α :=
  List.zipWith (fun a b => sqrt ((a * a + b * b) / k 2)) p1 p2

/-- `PolarExtentPanner.calc_pv_spread` with the panner calls replaced by their results:
    `aSpread` = `np.interp(max(width, height), [0, fade_width], [0, 1])`, `p` = `panning_func(position)`,
    `s` = `spreading_panner.panning_values_for_weight(weight_f)`, `n` their length.
    (`pv = 0.0` is broadcast against the first array added; if neither branch runs the Python returns the
    scalar `0.0`, here a vector of zeros — unreachable since the two amounts sum to 1.) -/
def calcPvSpread (n : Nat) (aSpread : α) (p s : List α) : List α :=
  let aPoint := one - aSpread
  let pv : List α := zeros n
  let pv := if k (1 / 10000000000) < aPoint then vadd pv (p.map fun x => aPoint * (x * x)) else pv
  let pv := if k (1 / 10000000000) < aSpread then vadd pv (s.map fun x => aSpread * (x * x)) else pv
  vsqrt pv

/-- `np.linalg.norm` of a vector -/
def norm (v : List α) : α := sqrt (sumSq v)

/-- `total_pv / np.linalg.norm(total_pv)` (last line of `panning_values_for_weight`) -/
def normalise (v : List α) : List α :=
  let l := norm v
  v.map fun x => x / l

/-! ### `allo_extent.get_gains`: the final `safe_norm` -/

/-- `safe_norm` inside `allo_extent.get_gains` -/
def safeNorm (v : List α) : List α :=
  let l := norm v
  if k (1 / 10000000000000000) < l then v.map fun x => x / l else zeros v.length

/-! ### `point_source.AllocentricPanner` over an arbitrary speaker grid -/

/-- One leaf of the speaker tree: channel index and allocentric position. -/
structure Leaf (α : Type) where
  idx : Nat
  x : α
  y : α
  z : α

/-- `AllocentricPanner.st`: planes (ascending z) of rows (ascending y) of leaves (ascending x). -/
abbrev Tree (α : Type) := List (List (List (Leaf α)))

/-- `_single_balance_pan` -/
def singleBalancePan (minimum maximum value : α) : α × α :=
  if eqS minimum maximum then (one, one)
  else if value ≤ minimum then (zero, one)
  else if maximum ≤ value then (one, zero)
  else
    let a := (value - minimum) / (maximum - minimum)
    let aa := a * Scalar.pi / k 2
    (Scalar.cos aa, Scalar.sin aa)

/-- the `for i, zz in enumerate(...)` loop shared by `_find_planes/_find_rows/_find_columns`:
    `coords` = the key coordinate of each entry, `i` = index of the head of `coords`, `len` = total. -/
def findLoop (len : Nat) (v : α) : Nat → List α → Nat × Nat
  | _, [] => (len - 1, len - 1)
  | i, c :: cs =>
    if eqS c v then (i, i)
    else if v < c then (i - 1, i)
    else findLoop len v (i + 1) cs

/-- `_find_planes` / `_find_rows` / `_find_columns` on the list of key coordinates (non-empty) -/
def findPair (coords : List α) (v : α) : Nat × Nat :=
  match coords with
  | [] => (0, 0)
  | c0 :: _ => if v ≤ c0 then (0, 0) else findLoop coords.length v 0 coords

/-- key coordinate of a plane / row: that of its first leaf (`st[zz][0][0][1][2]`, `stz[yy][0][1][1]`);
    an empty plane/row raises IndexError in Python: `none` -/
def planeZ (pl : List (List (Leaf α))) : Option α := do (← (← pl.head?).head?).z
def rowY (row : List (Leaf α)) : Option α := do (← row.head?).y

/-- innermost loop of `AllocentricPanner.handle` for one row: the two assignments
    `ret[idx] = zgain * ygain * xgain` (`c` = `zgain * ygain`), in loop order.  `none` = IndexError. -/
def rowWrites (row : List (Leaf α)) (px c : α) : Option (List (Nat × α)) :=
  let xc := row.map (·.x)
  let i := findPair xc px
  match xc[i.1]?, xc[i.2]?, row[i.1]?, row[i.2]? with
  | some a, some b, some l0, some l1 =>
    let g := singleBalancePan a b px
    some [(l0.idx, c * g.1), (l1.idx, c * g.2)]
  | _, _, _, _ => none

/-- middle loop (`for ygain, yy in zip(yGains, yRows)`, two iterations) for one plane -/
def planeWrites (pl : List (List (Leaf α))) (px py gz : α) : Option (List (Nat × α)) :=
  match pl.mapM rowY with
  | none => none
  | some yc =>
    let i := findPair yc py
    match yc[i.1]?, yc[i.2]?, pl[i.1]?, pl[i.2]? with
    | some a, some b, some r0, some r1 =>
      let g := singleBalancePan a b py
      match rowWrites r0 px (gz * g.1), rowWrites r1 px (gz * g.2) with
      | some w0, some w1 => some (w0 ++ w1)
      | _, _ => none
    | _, _, _, _ => none

/-- `AllocentricPanner.handle`: the assignments `ret[idx] = zgain * ygain * xgain` in loop order
    (outer loop `for zgain, zz in zip(zGains, zPlanes)`, two iterations). -/
def alloWrites (st : Tree α) (px py pz : α) : Option (List (Nat × α)) :=
  match st.mapM planeZ with
  | none => none
  | some zc =>
    let i := findPair zc pz
    match zc[i.1]?, zc[i.2]?, st[i.1]?, st[i.2]? with
    | some a, some b, some p0, some p1 =>
      let g := singleBalancePan a b pz
      match planeWrites p0 px py g.1, planeWrites p1 px py g.2 with
      | some w0, some w1 => some (w0 ++ w1)
      | _, _ => none
    | _, _, _, _ => none

/-- apply the assignments to `np.zeros(n)` -/
def applyWrites (n : Nat) (ws : List (Nat × α)) : List α :=
  ws.foldl (fun ret (w : Nat × α) => ret.set w.1 w.2) (zeros n)

/-- `AllocentricPanner.handle` -/
def alloHandle (n : Nat) (st : Tree α) (px py pz : α) : Option (List α) :=
  (alloWrites st px py pz).map (applyWrites n)

end
end Earverif.GainCalc
