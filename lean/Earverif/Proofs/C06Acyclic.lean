/-
C06 / C14 link, object graph: `_validate_object_loops` (C14 model `Validate.validateObjectLoops`, run by
`validateStructure` on `toDoc a`) accepts ⇒ the audioObject nesting of `a` has a rank that decreases along sub-object
references and is below the number of objects (`chains_short_of_loops`, `rank_of_chains_short`).  `Props/C06.lean`
states this as `acyclic_of_validate` (its `Acyclic` is exactly that rank statement).  Consequence there: the fuel
`a.objects.length` of `objectPathsFrom` suffices on validated documents, so `specStates` is the set of chains.
Core Lean only.
-/
import Earverif.Proofs.C06Doc

namespace Earverif.Adm

open Earverif.AdmV (Doc)
open Earverif.Validate (validateStructure validateObjectLoops objLoopDfs)

/-- pigeonhole: a duplicate-free list of numbers below `n` has at most `n` entries -/
theorem nodup_lt_length {l : List Nat} {n : Nat} (hnd : l.Nodup) (hlt : ∀ x ∈ l, x < n) : l.length ≤ n := by
  have := hnd.length_le_of_subset (l₂ := List.range n) (fun x hx => List.mem_range.2 (hlt x hx))
  simpa using this

theorem append_nodup_step {path : List Nat} {node : Nat} {q : List Nat}
    (h : ((path ++ [node]) ++ q).Nodup) : (path ++ node :: q).Nodup := by
  simpa [List.append_assoc] using h

/-- a successful `dfs(node, path)` of `_validate_loops`, started with enough fuel for the objects not yet on `path`:
every chain of sub-object references from `node` (of ANY length) is duplicate-free and avoids `path`. -/
theorem objLoopDfs_chains (d : Doc) (n : Nat) (hch : ∀ o c, o < n → c ∈ (d.obj o).objects → c < n) :
    ∀ (f node : Nat) (path : List Nat), objLoopDfs d f node path = .ok () → path.Nodup → (∀ x ∈ path, x < n) →
      node < n → n + 1 ≤ path.length + f →
      ∀ p, Chain (fun i => (d.obj i).objects) node p → (path ++ p).Nodup
  | 0, node, path, _, hnd, hlt, _, hlen => by
    intro p _
    have := nodup_lt_length hnd hlt
    omega
  | f + 1, node, path, h, hnd, hlt, hn, hlen => by
    intro p hp
    unfold objLoopDfs at h
    split at h
    · cases h
    · rename_i hc
      have hnot : node ∉ path := by simpa using hc
      have hnd' : (path ++ [node]).Nodup := by
        rw [List.nodup_append]
        exact ⟨hnd, by simp, fun x hx y hy => by
          rw [List.mem_singleton] at hy; subst hy; intro e; subst e; exact hnot hx⟩
      have hlt' : ∀ x ∈ path ++ [node], x < n := by
        intro x hx
        rcases List.mem_append.1 hx with hx | hx
        · exact hlt x hx
        · rw [List.mem_singleton] at hx; subst hx; exact hn
      cases hp with
      | single => exact hnd'
      | cons _ s q hs hq =>
        have hsub := Validate.forE_ok h s hs
        have := objLoopDfs_chains d n hch f s (path ++ [node]) hsub hnd' hlt' (hch node s hn hs)
          (by simp only [List.length_append, List.length_singleton]; omega) q hq
        exact append_nodup_step this

theorem Chain.all_lt_of_lt {ch : Nat → List Nat} {n : Nat} (hch : ∀ o c, o < n → c ∈ ch o → c < n) {r : Nat} {p : List Nat}
    (h : Chain ch r p) (hr : r < n) : ∀ x ∈ p, x < n := by
  induction h with
  | single r => intro x hx; rw [List.mem_singleton] at hx; subst hx; exact hr
  | cons r s p hs _ ih =>
    intro x hx
    rcases List.mem_cons.1 hx with rfl | hx
    · exact hr
    · exact ih (hch r s hr hs) x hx

/-- `_validate_object_loops` accepted: chains of sub-object references from an object have at most as many
entries as there are objects -/
theorem chains_short_of_loops (d : Doc) (hch : ∀ o c, o < d.objects.length → c ∈ (d.obj o).objects → c < d.objects.length)
    (hv : validateObjectLoops d = .ok ()) {r : Nat} (hr : r < d.objects.length) {p : List Nat}
    (hp : Chain (fun i => (d.obj i).objects) r p) : p.length ≤ d.objects.length := by
  have h0 := Validate.forE_ok hv r (List.mem_range.2 hr)
  have hnd := objLoopDfs_chains d d.objects.length hch _ r [] h0 List.nodup_nil (by simp) hr (by simp) p hp
  rw [List.nil_append] at hnd
  exact nodup_lt_length hnd (hp.all_lt_of_lt hch hr)

/-! ### a rank from bounded chains -/

def maxLen : List (List Nat) → Nat
  | [] => 0
  | p :: ps => max p.length (maxLen ps)

theorem le_maxLen {l : List (List Nat)} {p : List Nat} (h : p ∈ l) : p.length ≤ maxLen l := by
  induction l with
  | nil => cases h
  | cons q qs ih =>
    rcases List.mem_cons.1 h with rfl | h
    · exact Nat.le_max_left ..
    · exact Nat.le_trans (ih h) (Nat.le_max_right ..)

theorem maxLen_le {l : List (List Nat)} {b : Nat} (h : ∀ p ∈ l, p.length ≤ b) : maxLen l ≤ b := by
  induction l with
  | nil => exact Nat.zero_le _
  | cons q qs ih =>
    exact Nat.max_le.2 ⟨h q (List.mem_cons_self ..), ih fun p hp => h p (List.mem_cons_of_mem _ hp)⟩

theorem exists_maxLen {l : List (List Nat)} (h : l ≠ []) : ∃ p ∈ l, p.length = maxLen l := by
  induction l with
  | nil => exact absurd rfl h
  | cons q qs ih =>
    by_cases hq : qs = []
    · subst hq; exact ⟨q, List.mem_cons_self .., by simp [maxLen]⟩
    · obtain ⟨p, hp, hl⟩ := ih hq
      by_cases hle : maxLen qs ≤ q.length
      · exact ⟨q, List.mem_cons_self .., by simp [maxLen, Nat.max_eq_left hle]⟩
      · exact ⟨p, List.mem_cons_of_mem _ hp, by simp only [maxLen]; omega⟩

/-- if every chain from an in-range node has at most `n` entries (and children of in-range nodes are in range, nodes
out of range have no children), the longest-chain length minus one is a rank: it decreases along `ch` and is below `n` -/
theorem rank_of_chains_short (ch : Nat → List Nat) (n : Nat) (hch : ∀ o c, o < n → c ∈ ch o → c < n)
    (hout : ∀ o, n ≤ o → ch o = [])
    (hshort : ∀ r, r < n → ∀ p, Chain ch r p → p.length ≤ n) :
    ∃ rank : Nat → Nat, (∀ o c, c ∈ ch o → rank c < rank o) ∧ ∀ o, o < n → rank o < n := by
  refine ⟨fun o => maxLen (pathsFrom ch n o) - 1, ?_, ?_⟩
  · intro o c hc
    have ho : o < n := by
      by_cases h : o < n
      · exact h
      · rw [hout o (by omega)] at hc; cases hc
    have hcn := hch o c ho hc
    have hn : 1 ≤ n := by omega
    have hself : [c] ∈ pathsFrom ch n c := mem_pathsFrom_of_chain (.single c) n (by simpa using hn)
    obtain ⟨p, hp, hl⟩ := exists_maxLen (List.ne_nil_of_mem hself)
    have hpc := chain_of_mem_pathsFrom n c p hp
    have hop : Chain ch o (o :: p) := .cons o c p hc hpc
    have hlen := hshort o ho _ hop
    have hmem := mem_pathsFrom_of_chain hop n hlen
    have h1 := le_maxLen hmem
    have h2 := le_maxLen hself
    simp only [List.length_cons, List.length_nil] at h1 h2
    show maxLen (pathsFrom ch n c) - 1 < maxLen (pathsFrom ch n o) - 1
    omega
  · intro o ho
    have hn : 1 ≤ n := by omega
    have hself : [o] ∈ pathsFrom ch n o := mem_pathsFrom_of_chain (.single o) n (by simpa using hn)
    have h2 := le_maxLen hself
    have h1 : maxLen (pathsFrom ch n o) ≤ n :=
      maxLen_le fun p hp => hshort o ho p (chain_of_mem_pathsFrom n o p hp)
    simp only [List.length_cons, List.length_nil] at h2
    show maxLen (pathsFrom ch n o) - 1 < n
    omega

/-! ### through `toDoc` -/

theorem toDoc_obj (a : Adm) (o : Nat) : (toDoc a).obj o = tdObj (a.obj o) :=
  getD_map_default' tdObj a.objects o default default rfl

theorem toDoc_obj_objects (a : Adm) (o : Nat) : ((toDoc a).obj o).objects = a.subs o := by
  rw [toDoc_obj]; rfl

theorem toDoc_nobjects (a : Adm) : (toDoc a).objects.length = a.objects.length := by simp [toDoc]

end Earverif.Adm
