/-
C07 — soundness of the pack-allocation search: every yielded solution is `Valid`.
Invariant on partial solutions; one lemma per nested Python function.
-/
import Earverif.Model.PackAlloc

namespace Earverif.PackAlloc
open List

/-! ### small list facts -/

theorem perm_of_mem_zipIdx {α : Type} : ∀ (l : List α) (k i : Nat) (t : α),
    (t, i) ∈ l.zipIdx k → k ≤ i ∧ l ~ t :: l.eraseIdx (i - k)
  | [], _, _, _, h => by simp at h
  | a :: as, k, i, t, h => by
    rw [zipIdx_cons, mem_cons] at h
    rcases h with h | h
    · cases h
      refine ⟨Nat.le_refl _, ?_⟩
      rw [Nat.sub_self, eraseIdx_cons_zero]
    · obtain ⟨h1, h2⟩ := perm_of_mem_zipIdx as (k + 1) i t h
      refine ⟨by omega, ?_⟩
      have e : i - k = (i - (k + 1)) + 1 := by omega
      rw [e, eraseIdx_cons_succ]
      exact (Perm.cons a h2).trans (Perm.swap t a _)

theorem inById_iff (x : Nat) (l : List Nat) : inById x l = true ↔ x ∈ l := by
  simp only [inById, any_eq_true, beq_iff_eq]
  exact ⟨fun ⟨y, hy, e⟩ => e ▸ hy, fun h => ⟨x, h, rfl⟩⟩

theorem indexById_some : ∀ (l : List Nat) (x i : Nat), indexById x l = some i →
    l ~ x :: (l.take i ++ l.drop (i + 1))
  | [], _, _, h => by simp [indexById] at h
  | y :: ys, x, i, h => by
    simp only [indexById] at h
    split at h
    · cases h
      subst_vars
      simp
    · cases hr : indexById x ys with
      | none => simp [hr] at h
      | some j =>
        simp [hr] at h
        subst h
        have ih := indexById_some ys x j hr
        simp only [take_succ_cons, drop_succ_cons, cons_append]
        exact (Perm.cons y ih).trans (Perm.swap x y _)

theorem indexById_none : ∀ (l : List Nat) (x : Nat), indexById x l = none → x ∉ l
  | [], _, _ => by simp
  | y :: ys, x, h => by
    simp only [indexById] at h
    split at h
    · cases h
    · cases hr : indexById x ys with
      | none =>
        have := indexById_none ys x hr
        simp only [mem_cons, not_or]
        exact ⟨fun e => by subst e; simp_all, this⟩
      | some j => simp [hr] at h

/-! ### the invariant -/

/-- A (partial) `AllocatedPack` is well-formed w.r.t. the original pack list. -/
def GoodAlloc (packs0 : List Pack) (a : Allocated) : Prop :=
  a.pack ∈ packs0 ∧ a.allocation.map (·.1) = a.pack.channels ∧
    ∀ cs ∈ a.allocation, ∀ t, cs.2 = some (some t) → isCompatible (some t) cs.1 = true

def Good (packs0 : List Pack) (sol : Sol) : Prop := ∀ a ∈ sol, GoodAlloc packs0 a

/-- Accounting of the pack references: what the solution uses is what the partial
solution used plus the references still open. -/
def RefsAcc : Option (List Nat) → List Nat → List Nat → Prop
  | none, _, _ => True
  | some r, before, after => after ~ before ++ r

def roots (sol : Sol) : List Nat := sol.map (·.pack.root)

def filledSlots (al : List (Channel × Slot)) : List TrackRef := al.filterMap (·.2)

theorem filled_nil : filled [] = [] := rfl

theorem filled_cons (a : Allocated) (s : Sol) : filled (a :: s) = filledSlots a.allocation ++ filled s := by
  simp [filled, slots, filledSlots]

theorem filled_append (s t : Sol) : filled (s ++ t) = filled s ++ filled t := by
  simp [filled, slots]

theorem slots_cons (a : Allocated) (s : Sol) : slots (a :: s) = a.allocation ++ slots s := by
  simp [slots]

/-! ### `try_allocate` -/

theorem tryAllocateSlots_spec (track : TrackRef) : ∀ (al al' : List (Channel × Slot)),
    tryAllocateSlots track al = some al' →
    al'.map (·.1) = al.map (·.1) ∧ filledSlots al' ~ track :: filledSlots al ∧
    ∀ cs ∈ al', cs ∈ al ∨ (cs.2 = some track ∧ isCompatible track cs.1 = true)
  | [], _, h => by simp [tryAllocateSlots] at h
  | (c, s) :: rest, al', h => by
    simp only [tryAllocateSlots] at h
    split at h
    · rename_i hc
      cases h
      simp only [Bool.and_eq_true, Option.isNone_iff_eq_none] at hc
      obtain ⟨hs, hcomp⟩ := hc
      subst hs
      refine ⟨by simp, by simp [filledSlots], ?_⟩
      intro cs hcs
      simp only [mem_cons] at hcs
      rcases hcs with rfl | hcs
      · right; exact ⟨rfl, hcomp⟩
      · left; simp [hcs]
    · cases hr : tryAllocateSlots track rest with
      | none => simp [hr] at h
      | some r' =>
        simp [hr] at h
        subst h
        obtain ⟨i1, i2, i3⟩ := tryAllocateSlots_spec track rest r' hr
        refine ⟨by simp [i1], ?_, ?_⟩
        · cases s with
          | none => simpa [filledSlots] using i2
          | some x =>
            simp only [filledSlots] at i2 ⊢
            exact (Perm.cons x i2).trans (Perm.swap _ _ _)
        · intro cs hcs
          simp only [mem_cons] at hcs
          rcases hcs with rfl | hcs
          · left; simp
          · rcases i3 cs hcs with h | h
            · left; simp [h]
            · right; exact h

theorem tryAllocate_spec (track : TrackRef) (a a' : Allocated) (h : tryAllocate track a = some a') :
    a'.pack = a.pack ∧ a'.allocation.map (·.1) = a.allocation.map (·.1) ∧
    filledSlots a'.allocation ~ track :: filledSlots a.allocation ∧
    ∀ cs ∈ a'.allocation, cs ∈ a.allocation ∨ (cs.2 = some track ∧ isCompatible track cs.1 = true) := by
  simp only [tryAllocate] at h
  cases hr : tryAllocateSlots track a.allocation with
  | none => simp [hr] at h
  | some al =>
    simp [hr] at h
    subst h
    exact ⟨rfl, tryAllocateSlots_spec track _ _ hr⟩

theorem tryAllocate_good (packs0 : List Pack) (track : TrackRef) (a a' : Allocated)
    (h : tryAllocate track a = some a') (hg : GoodAlloc packs0 a) : GoodAlloc packs0 a' := by
  obtain ⟨h1, h2, _, h4⟩ := tryAllocate_spec track a a' h
  obtain ⟨g1, g2, g3⟩ := hg
  refine ⟨h1 ▸ g1, by rw [h2, h1, g2], ?_⟩
  intro cs hcs t ht
  rcases h4 cs hcs with h | ⟨e, hc⟩
  · exact g3 cs h t ht
  · rw [ht] at e
    cases e
    exact hc

theorem emptyAllocation_good (packs0 : List Pack) (p : Pack) (hp : p ∈ packs0) :
    GoodAlloc packs0 (emptyAllocation p) := by
  refine ⟨hp, by simp [emptyAllocation, Function.comp_def], ?_⟩
  intro cs hcs t ht
  simp only [emptyAllocation, mem_map] at hcs
  obtain ⟨c, _, rfl⟩ := hcs
  cases ht

theorem filledSlots_empty (p : Pack) : filledSlots (emptyAllocation p).allocation = [] := by
  simp [filledSlots, emptyAllocation]

/-! ### `candidate_partial_solutions` -/

theorem existingCandidates_spec (track : TrackRef) : ∀ (post pre : List Allocated) (np : Sol),
    np ∈ existingCandidates track pre post →
    ∃ pre' a a' post', np = pre' ++ a' :: post' ∧ pre ++ post = pre' ++ a :: post' ∧
      tryAllocate track a = some a'
  | [], _, _, h => by simp [existingCandidates] at h
  | a :: post, pre, np, h => by
    simp only [existingCandidates] at h
    have rec_ : np ∈ existingCandidates track (pre ++ [a]) post →
        ∃ pre' a0 a' post', np = pre' ++ a' :: post' ∧ pre ++ a :: post = pre' ++ a0 :: post' ∧
          tryAllocate track a0 = some a' := by
      intro h'
      obtain ⟨pre', a0, a', post', e1, e2, e3⟩ := existingCandidates_spec track post (pre ++ [a]) np h'
      exact ⟨pre', a0, a', post', e1, by simpa using e2, e3⟩
    split at h
    · rename_i a' ha
      simp only [mem_cons] at h
      rcases h with rfl | h
      · exact ⟨pre, a, a', post, rfl, rfl, ha⟩
      · exact rec_ h
    · exact rec_ h

/-- What one candidate does to the accounting. -/
structure StepOK (packs0 : List Pack) (track : TrackRef) (packs : List Pack)
    (refs : Option (List Nat)) (partialSol : Sol) (c : Sol × List Pack × Option (List Nat)) : Prop where
  good : Good packs0 c.1
  packs_sub : ∀ p ∈ c.2.1, p ∈ packs
  filled : filled c.1 ~ track :: filled partialSol
  refs_none : refs = none → c.2.2 = none
  refs_some : ∀ r, refs = some r → ∃ r', c.2.2 = some r' ∧ roots c.1 ++ r' ~ roots partialSol ++ r

theorem existing_stepOK (packs0 : List Pack) (track : TrackRef) (packs : List Pack)
    (refs : Option (List Nat)) (partialSol np : Sol)
    (hg : Good packs0 partialSol) (h : np ∈ existingCandidates track [] partialSol) :
    StepOK packs0 track packs refs partialSol (np, packs, refs) := by
  obtain ⟨pre', a, a', post', e1, e2, e3⟩ := existingCandidates_spec track partialSol [] np h
  simp only [nil_append] at e2
  obtain ⟨s1, s2, s3, s4⟩ := tryAllocate_spec track a a' e3
  subst e1 e2
  refine ⟨?_, fun p hp => hp, ?_, fun h => h, ?_⟩
  · intro x hx
    simp only [mem_append, mem_cons] at hx
    rcases hx with hx | rfl | hx
    · exact hg x (by simp [hx])
    · exact tryAllocate_good packs0 track a x e3 (hg a (by simp))
    · exact hg x (by simp [hx])
  · simp only [filled_append, filled_cons]
    have : filled pre' ++ (filledSlots a'.allocation ++ filled post') ~
        filled pre' ++ ((track :: filledSlots a.allocation) ++ filled post') :=
      Perm.append_left _ (Perm.append_right _ s3)
    refine this.trans ?_
    simp only [cons_append]
    exact perm_middle
  · intro r hr
    refine ⟨r, hr, ?_⟩
    simp [roots, s1]

theorem candidateNewPacksAux_spec (track : TrackRef) (refs : Option (List Nat)) (all : List Pack) :
    ∀ (suffix : List Pack) (c : Pack × List Pack × Option (List Nat)),
    (∀ p ∈ suffix, p ∈ all) → c ∈ candidateNewPacksAux track refs all suffix →
    c.1 ∈ all ∧ (∀ p ∈ c.2.1, p ∈ all) ∧ (refs = none → c.2.2 = none) ∧
    ∀ r, refs = some r → ∃ r', c.2.2 = some r' ∧ r ~ c.1.root :: r'
  | [], _, _, h => by simp [candidateNewPacksAux] at h
  | p :: rest, c, hsub, h => by
    have hrest : ∀ q ∈ rest, q ∈ all := fun q hq => hsub q (by simp [hq])
    have hp : p ∈ all := hsub p (by simp)
    have hrp : ∀ q ∈ (if track.isNone then p :: rest else all), q ∈ all := by
      intro q hq
      split at hq
      · exact hsub q hq
      · exact hq
    simp only [candidateNewPacksAux] at h
    cases refs with
    | none =>
      simp only [mem_cons] at h
      rcases h with rfl | h
      · exact ⟨hp, hrp, fun _ => rfl, fun r hr => by cases hr⟩
      · exact candidateNewPacksAux_spec track none all rest c hrest h
    | some r =>
      simp only at h
      cases hi : indexById p.root r with
      | none =>
        simp only [hi] at h
        exact candidateNewPacksAux_spec track (some r) all rest c hrest h
      | some i =>
        simp only [hi, mem_cons] at h
        rcases h with rfl | h
        · refine ⟨hp, hrp, (fun h => by cases h), ?_⟩
          intro r0 hr0
          cases hr0
          exact ⟨_, rfl, indexById_some r p.root i hi⟩
        · exact candidateNewPacksAux_spec track (some r) all rest c hrest h

theorem candidateNewPacks_spec (track : TrackRef) (refs : Option (List Nat)) (packs : List Pack)
    (c : Pack × List Pack × Option (List Nat)) (h : c ∈ candidateNewPacks track refs packs) :
    c.1 ∈ packs ∧ (∀ p ∈ c.2.1, p ∈ packs) ∧ (refs = none → c.2.2 = none) ∧
    ∀ r, refs = some r → ∃ r', c.2.2 = some r' ∧ r ~ c.1.root :: r' := by
  unfold candidateNewPacks at h
  split at h
  · simp at h
  · exact candidateNewPacksAux_spec track refs packs packs c (fun _ hp => hp) h

theorem new_stepOK (packs0 : List Pack) (track : TrackRef) (packs : List Pack)
    (refs : Option (List Nat)) (partialSol : Sol) (c : Sol × List Pack × Option (List Nat))
    (hsub : ∀ p ∈ packs, p ∈ packs0) (hg : Good packs0 partialSol)
    (h : c ∈ newCandidates track packs refs partialSol) :
    StepOK packs0 track packs refs partialSol c := by
  simp only [newCandidates, mem_filterMap] at h
  obtain ⟨⟨p, rp, rr⟩, hc, hm⟩ := h
  simp only at hm
  cases ht : tryAllocate track (emptyAllocation p) with
  | none => simp [ht] at hm
  | some a =>
    simp [ht] at hm
    subst hm
    obtain ⟨c1, c2, c3, c4⟩ := candidateNewPacks_spec track refs packs _ hc
    simp only at c1 c2 c3 c4
    obtain ⟨s1, _, s3, _⟩ := tryAllocate_spec track _ a ht
    refine ⟨?_, c2, ?_, c3, ?_⟩
    · intro x hx
      simp only [mem_append, mem_singleton] at hx
      rcases hx with hx | rfl
      · exact hg x hx
      · exact tryAllocate_good packs0 track _ x ht (emptyAllocation_good packs0 p (hsub p c1))
    · simp only [filled_append, filled_cons, filled_nil, append_nil]
      rw [filledSlots_empty] at s3
      exact (Perm.append_left _ s3).trans (by simp)
    · intro r hr
      obtain ⟨r', e1, e2⟩ := c4 r hr
      refine ⟨r', e1, ?_⟩
      simp only [roots, map_append, map_cons, map_nil, s1, append_assoc, singleton_append]
      exact Perm.append_left _ (by simpa [emptyAllocation] using e2.symm)

theorem candidatePartialSolutions_stepOK (packs0 : List Pack) (track : TrackRef) (packs : List Pack)
    (refs : Option (List Nat)) (partialSol : Sol) (c : Sol × List Pack × Option (List Nat))
    (hsub : ∀ p ∈ packs, p ∈ packs0) (hg : Good packs0 partialSol)
    (h : c ∈ candidatePartialSolutions track packs refs partialSol) :
    StepOK packs0 track packs refs partialSol c := by
  have hex : ∀ c, c ∈ (existingCandidates track [] partialSol).map (fun np => (np, packs, refs)) →
      StepOK packs0 track packs refs partialSol c := by
    intro c hc
    simp only [mem_map] at hc
    obtain ⟨np, hnp, rfl⟩ := hc
    exact existing_stepOK packs0 track packs refs partialSol np hg hnp
  simp only [candidatePartialSolutions] at h
  split at h
  · split at h
    · rename_i e tl heq
      simp only [mem_singleton] at h
      subst h
      exact hex _ (by rw [heq]; simp)
    · exact new_stepOK packs0 track packs refs partialSol c hsub hg h
  · simp only [mem_append] at h
    rcases h with h | h
    · exact hex c h
    · exact new_stepOK packs0 track packs refs partialSol c hsub hg h

/-! ### `_allocate_packs_impl_obvious` -/

theorem obviousChannel_spec (tracks : List TrackRef) (c : Channel) (s s' : Slot)
    (tracks' : List TrackRef) (h : obviousChannel tracks c s = some (s', tracks')) :
    s'.toList ++ tracks' ~ s.toList ++ tracks ∧ tracks'.length ≤ tracks.length ∧
    (∀ t, s' = some (some t) → s = some (some t) ∨ isCompatible (some t) c = true) := by
  unfold obviousChannel at h
  cases s with
  | some x =>
    simp at h
    obtain ⟨rfl, rfl⟩ := h
    exact ⟨Perm.refl _, Nat.le_refl _, fun t ht => Or.inl ht⟩
  | none =>
    simp only at h
    split at h
    · cases h
    · rename_i t i rest heq
      have hmem : (t, i) ∈ tracks.zipIdx.filter (fun ti => isCompatible ti.1 c) := by
        rw [heq]; simp
      simp only [mem_filter] at hmem
      obtain ⟨hz, hcomp⟩ := hmem
      obtain ⟨_, hperm⟩ := perm_of_mem_zipIdx tracks 0 i t hz
      simp only [Nat.sub_zero] at hperm
      split at h
      · simp at h
        obtain ⟨rfl, rfl⟩ := h
        refine ⟨by simpa using hperm.symm, ?_, ?_⟩
        · have := hperm.length_eq
          simp at this
          omega
        · intro t' ht'
          cases ht'
          right; exact hcomp
      · simp at h
        obtain ⟨rfl, rfl⟩ := h
        exact ⟨Perm.refl _, Nat.le_refl _, fun t ht => by cases ht⟩

theorem filledSlots_cons (c : Channel) (s : Slot) (rest : List (Channel × Slot)) :
    filledSlots ((c, s) :: rest) = s.toList ++ filledSlots rest := by
  cases s <;> simp [filledSlots]

theorem obviousSlots_spec : ∀ (al : List (Channel × Slot)) (tracks : List TrackRef)
    (al' : List (Channel × Slot)) (tracks' : List TrackRef),
    obviousSlots tracks al = some (al', tracks') →
    al'.map (·.1) = al.map (·.1) ∧ filledSlots al' ++ tracks' ~ filledSlots al ++ tracks ∧
    tracks'.length ≤ tracks.length ∧
    ((∀ cs ∈ al, ∀ t, cs.2 = some (some t) → isCompatible (some t) cs.1 = true) →
      ∀ cs ∈ al', ∀ t, cs.2 = some (some t) → isCompatible (some t) cs.1 = true)
  | [], tracks, al', tracks', h => by
    simp [obviousSlots] at h
    obtain ⟨rfl, rfl⟩ := h
    simp [filledSlots]
  | (c, s) :: rest, tracks, al', tracks', h => by
    simp only [obviousSlots] at h
    split at h
    · cases h
    · rename_i s1 t1 h1
      split at h
      · cases h
      · rename_i r2 t2 h2
        simp at h
        obtain ⟨rfl, rfl⟩ := h
        obtain ⟨a1, a2, a3⟩ := obviousChannel_spec tracks c s s1 t1 h1
        obtain ⟨b1, b2, b3, b4⟩ := obviousSlots_spec rest t1 r2 t2 h2
        refine ⟨by simp [b1], ?_, by omega, ?_⟩
        · rw [filledSlots_cons, filledSlots_cons]
          -- s1 ++ F r2 ++ t2 ~ s1 ++ (F rest ++ t1) ~ F rest ++ (s1 ++ t1) ~ F rest ++ (s ++ tracks)
          have p1 : s1.toList ++ filledSlots r2 ++ t2 ~ s1.toList ++ (filledSlots rest ++ t1) := by
            rw [append_assoc]; exact Perm.append_left _ b2
          have p2 : s1.toList ++ (filledSlots rest ++ t1) ~ filledSlots rest ++ (s1.toList ++ t1) := by
            rw [← append_assoc, ← append_assoc]
            exact Perm.append_right _ perm_append_comm
          have p3 : filledSlots rest ++ (s1.toList ++ t1) ~ filledSlots rest ++ (s.toList ++ tracks) :=
            Perm.append_left _ a1
          have p4 : filledSlots rest ++ (s.toList ++ tracks) ~ s.toList ++ filledSlots rest ++ tracks := by
            rw [← append_assoc]
            exact Perm.append_right _ perm_append_comm
          exact p1.trans (p2.trans (p3.trans p4))
        · intro hall cs hcs t ht
          simp only [mem_cons] at hcs
          rcases hcs with rfl | hcs
          · simp only at ht
            rcases a3 t ht with h | h
            · exact hall (c, s) (by simp) t h
            · exact h
          · exact b4 (fun cs' hcs' => hall cs' (by simp [hcs'])) cs hcs t ht

theorem obviousPacks_spec (packs0 : List Pack) : ∀ (sol : Sol) (tracks : List TrackRef)
    (sol' : Sol) (tracks' : List TrackRef),
    obviousPacks tracks sol = some (sol', tracks') →
    roots sol' = roots sol ∧ filled sol' ++ tracks' ~ filled sol ++ tracks ∧
    tracks'.length ≤ tracks.length ∧ (Good packs0 sol → Good packs0 sol')
  | [], tracks, sol', tracks', h => by
    simp [obviousPacks] at h
    obtain ⟨rfl, rfl⟩ := h
    exact ⟨rfl, Perm.refl _, Nat.le_refl _, fun h => h⟩
  | a :: rest, tracks, sol', tracks', h => by
    simp only [obviousPacks] at h
    split at h
    · cases h
    · rename_i al t1 h1
      split at h
      · cases h
      · rename_i r2 t2 h2
        simp at h
        obtain ⟨rfl, rfl⟩ := h
        obtain ⟨a1, a2, a3, a4⟩ := obviousSlots_spec a.allocation tracks al t1 h1
        obtain ⟨b1, b2, b3, b4⟩ := obviousPacks_spec packs0 rest t1 r2 t2 h2
        refine ⟨by simp only [roots, map_cons] at b1 ⊢; rw [b1], ?_, by omega, ?_⟩
        · simp only [filled_cons]
          have p1 : filledSlots al ++ filled r2 ++ t2 ~ filledSlots al ++ (filled rest ++ t1) := by
            rw [append_assoc]; exact Perm.append_left _ b2
          have p2 : filledSlots al ++ (filled rest ++ t1) ~ filled rest ++ (filledSlots al ++ t1) := by
            rw [← append_assoc, ← append_assoc]
            exact Perm.append_right _ perm_append_comm
          have p3 : filled rest ++ (filledSlots al ++ t1) ~ filled rest ++ (filledSlots a.allocation ++ tracks) :=
            Perm.append_left _ a2
          have p4 : filled rest ++ (filledSlots a.allocation ++ tracks) ~
              filledSlots a.allocation ++ filled rest ++ tracks := by
            rw [← append_assoc]
            exact Perm.append_right _ perm_append_comm
          exact p1.trans (p2.trans (p3.trans p4))
        · intro hg x hx
          simp only [mem_cons] at hx
          rcases hx with rfl | hx
          · obtain ⟨g1, g2, g3⟩ := hg a (by simp)
            exact ⟨g1, by simp only; rw [a1, g2], a4 g3⟩
          · exact b4 (fun y hy => hg y (by simp [hy])) x hx

/-! ### `_allocate_packs_impl` -/

theorem refsDone_iff (refs : Option (List Nat)) : refsDone refs = true ↔ refs = none ∨ refs = some [] := by
  cases refs with
  | none => simp [refsDone]
  | some r => cases r <;> simp [refsDone]

/-- The invariant carried through the search. -/
theorem allocImpl_sound (packs0 : List Pack) : ∀ (fuel : Nat) (packs : List Pack)
    (tracks : List TrackRef) (refs : Option (List Nat)) (partialSol sol : Sol),
    (∀ p ∈ packs, p ∈ packs0) → Good packs0 partialSol →
    sol ∈ allocImpl fuel packs tracks refs partialSol →
    Good packs0 sol ∧ (∀ cs ∈ slots sol, cs.2 ≠ none) ∧
    filled sol ~ filled partialSol ++ tracks ∧ RefsAcc refs (roots partialSol) (roots sol)
  | 0, _, _, _, _, _, _, _, h => by simp [allocImpl] at h
  | fuel + 1, packs, [], refs, partialSol, sol, hsub, hg, h => by
    simp only [allocImpl] at h
    split at h
    · rename_i hc
      simp only [mem_singleton] at h
      subst h
      simp only [Bool.and_eq_true, all_eq_true] at hc
      obtain ⟨hr, hall⟩ := hc
      refine ⟨hg, ?_, by simp, ?_⟩
      · intro cs hcs he
        have := hall cs hcs
        rw [he] at this
        cases this
      · rcases (refsDone_iff refs).1 hr with rfl | rfl
        · trivial
        · simp [RefsAcc]
    · simp at h
  | fuel + 1, packs, track :: rest, refs, partialSol, sol, hsub, hg, h => by
    simp only [allocImpl] at h
    split at h
    · simp at h
    · simp only [mem_flatMap] at h
      obtain ⟨⟨np, rp, rr⟩, hc, hs⟩ := h
      have hsub' : ∀ p ∈ packs.filter
          (couldPossiblyAllocate (track :: rest) refs (countEmpty partialSol)), p ∈ packs0 :=
        fun p hp => hsub p (mem_filter.1 hp).1
      have st := candidatePartialSolutions_stepOK packs0 track _ refs partialSol _ hsub' hg hc
      simp only [allocObviousWith] at hs
      split at hs
      · simp at hs
      · rename_i np' tracks' hob
        obtain ⟨o1, o2, o3, o4⟩ := obviousPacks_spec packs0 np rest np' tracks' hob
        have ih := allocImpl_sound packs0 fuel rp tracks' rr np' sol
          (fun p hp => hsub' p (st.packs_sub p hp)) (o4 st.good) hs
        obtain ⟨i1, i2, i3, i4⟩ := ih
        refine ⟨i1, i2, ?_, ?_⟩
        · -- filled sol ~ filled np' ++ tracks' ~ filled np ++ rest ~ track :: filled partial ++ rest
          refine i3.trans (o2.trans ?_)
          refine (Perm.append_right _ st.filled).trans ?_
          simp only [cons_append]
          exact perm_middle.symm
        · cases refs with
          | none => trivial
          | some r =>
            obtain ⟨r', e1, e2⟩ := st.refs_some r rfl
            simp only at e1 e2
            subst e1
            simp only [RefsAcc] at i4 ⊢
            rw [o1] at i4
            exact i4.trans e2

/-! ### top level -/

theorem tracksIncSilent_realTracks (prob : Problem) :
    (tracksIncSilent prob).filterMap id = prob.tracks := by
  simp [tracksIncSilent, filterMap_append, filterMap_map]

theorem tracksIncSilent_count (prob : Problem) :
    (tracksIncSilent prob).count none = prob.numSilent := by
  simp only [tracksIncSilent, count_append, count_replicate_self]
  have : (prob.tracks.map some).count (none : TrackRef) = 0 := by
    rw [count_eq_zero]
    simp
  omega

theorem isCompatible_some (t : Track) (c : Channel) :
    isCompatible (some t) c = true ↔ t.cf = c.cf ∧ t.pf ∈ c.pfs := by
  simp [isCompatible, inById_iff]

end Earverif.PackAlloc
