/- Shared helpers for the line-protocol drivers (core Lean only). -/
namespace Earverif.Driver

def words (s : String) : List String :=
  (s.splitOn " ").filter (· ≠ "")

def parseInt? (s : String) : Option Int := s.toInt?

def parseInts? (ws : List String) : Option (List Int) := ws.mapM parseInt?

/-- Read stdin line by line, answer each line with `f`. -/
partial def lineLoop (f : String → String) : IO Unit := do
  let stdin ← IO.getStdin
  let stdout ← IO.getStdout
  let rec go : IO Unit := do
    let line ← stdin.getLine
    if line.isEmpty then return ()
    let l := (line.dropEndWhile (fun c => c == '\n' || c == '\r')).toString
    stdout.putStrLn (f l)
    go
  go
  stdout.flush

end Earverif.Driver
