/- C05 — exactness of the composed panner at a loudspeaker position: the analytic lemmas over ℝ.

   * Triplet: `p · P⁻¹` by Cramer (`pv_cramer`); a component below `−1e-11` ⇒ `Triplet.handle = none`; invariance under
     scaling positions and direction by the same factor.
   * one pan axis of a QuadRegion with the closed-form root selection `GainCalc.quadRoot`: if the quadratic has no root
     in the acceptance window outside `[xl, xh]` and the nearly-real complex branch is not taken, every selected pan
     value is the clip of a root in `[xl, xh]` (`quadRoot_mem`); if `r0 ∈ [0,1]` is the only root in the window, the
     selection is exactly `r0` (`quadRoot_exact`).  These are the converse directions of
     `roots_in_unit_pos` / `quadRoot_of_unit_root` (Proofs/C05CoverQuad.lean).
   * `NoRootIn` from sign conditions (values at the end points, discriminant, vertex position).
   * QuadRegion: the final sign test is bilinear in the two pan values, so it fails on a box if it fails at its four
     corners (`quad_handle_none_of_box`); at a corner of the quad the answer is the corner's unit vector.
   * list plumbing: `scatter` of a unit vector, `normalise` of a unit vector, first accepting region, VirtualNgon at a
     vertex, downmix of `e_k` through a matrix whose column `k` is `e_k`, the stereo wrapper at M±030. -/
import Earverif.Proofs.C05CoverQuad

namespace Earverif.PointSource.Cover
open Earverif.PointSource
open Earverif.GainCalc (quadRoot acceptRoot firstSome eqS eqS_real)

/-! ### Triplet -/

/-- `p · P⁻¹` by Cramer's rule (also for `det = 0`, where both sides are 0 over ℝ) -/
theorem pv_cramer (a b c p : Vec3 ℝ) :
    Triplet.pv (a, b, c) p =
      (det3 (p, b, c) / det3 (a, b, c), det3 (a, p, c) / det3 (a, b, c), det3 (a, b, p) / det3 (a, b, c)) := by
  obtain ⟨a0, a1, a2⟩ := a
  obtain ⟨b0, b1, b2⟩ := b
  obtain ⟨c0, c1, c2⟩ := c
  obtain ⟨p0, p1, p2⟩ := p
  simp only [Triplet.pv, vecMat, inv3, det3]
  refine Prod.ext ?_ (Prod.ext ?_ ?_) <;> simp only <;> ring

/-- a Cramer component below `−1e-11` -/
def TripletOut (a b c p : Vec3 ℝ) : Prop :=
  det3 (a, b, c) ≠ 0 ∧
    (det3 (p, b, c) / det3 (a, b, c) < -(1 / 100000000000) ∨ det3 (a, p, c) / det3 (a, b, c) < -(1 / 100000000000) ∨
      det3 (a, b, p) / det3 (a, b, c) < -(1 / 100000000000))

theorem triplet_none_of_out {a b c p : Vec3 ℝ} (h : TripletOut a b c p) : Triplet.handle (a, b, c) p = none := by
  unfold Triplet.handle
  rw [if_neg]
  intro hacc
  simp only [Triplet.accepts, pv_cramer, tripletEps_real] at hacc
  obtain ⟨h1, h2, h3⟩ := hacc
  rcases h.2 with h' | h' | h' <;> linarith

theorem TripletOut.of_scaled {S : ℝ} (hS : 0 < S) {a b c p : Vec3 ℝ}
    (h : TripletOut (smul3 S a) (smul3 S b) (smul3 S c) (smul3 S p)) : TripletOut a b c p := by
  have hT : S ^ 3 ≠ 0 := by positivity
  obtain ⟨hd, hc⟩ := h
  rw [det3_smul] at hd hc
  rw [det3_smul, det3_smul, det3_smul, mul_div_mul_left _ _ hT, mul_div_mul_left _ _ hT, mul_div_mul_left _ _ hT] at hc
  exact ⟨fun h0 => hd (by rw [h0, mul_zero]), hc⟩

/-- a source exactly at one of the three loudspeakers of an independent triplet excites only that loudspeaker
    (same statement as `triplet_exact_at_vertex` of Props/C05.lean, which imports this file) -/
theorem triplet_at_vertex (a b c : Vec3 ℝ) (hd : det3 (a, b, c) ≠ 0) :
    Triplet.handle (a, b, c) a = some (1, 0, 0) ∧ Triplet.handle (a, b, c) b = some (0, 1, 0) ∧
      Triplet.handle (a, b, c) c = some (0, 0, 1) := by
  have e1 : det3 (a, a, c) = 0 := by
    obtain ⟨a0, a1, a2⟩ := a; obtain ⟨c0, c1, c2⟩ := c; simp only [det3]; ring
  have e2 : det3 (b, b, c) = 0 := by
    obtain ⟨b0, b1, b2⟩ := b; obtain ⟨c0, c1, c2⟩ := c; simp only [det3]; ring
  have e3 : det3 (a, c, c) = 0 := by
    obtain ⟨a0, a1, a2⟩ := a; obtain ⟨c0, c1, c2⟩ := c; simp only [det3]; ring
  have e4 : det3 (a, b, b) = 0 := det3_self23 a b
  have e5 : det3 (a, b, a) = 0 := det3_self13 a b
  have e6 : det3 (c, b, c) = 0 := det3_self13 c b
  have hpa : Triplet.pv (a, b, c) a = (1, 0, 0) := by rw [pv_cramer, e1, e5, div_self hd]; simp
  have hpb : Triplet.pv (a, b, c) b = (0, 1, 0) := by rw [pv_cramer, e2, e4, div_self hd]; simp
  have hpc : Triplet.pv (a, b, c) c = (0, 0, 1) := by rw [pv_cramer, e6, e3, div_self hd]; simp
  have heps := tripletEps_neg
  have c1 : clip01 (1 : ℝ) = 1 := clip01_of_mem zero_le_one (le_refl _)
  have c0 : clip01 (0 : ℝ) = 0 := clip01_of_mem (le_refl _) zero_le_one
  refine ⟨?_, ?_, ?_⟩
  · have hacc : Triplet.accepts (a, b, c) a := by
      simp only [Triplet.accepts, hpa]; exact ⟨by linarith, by linarith, by linarith⟩
    simp only [Triplet.handle, if_pos hacc, Triplet.gains, hpa, sqrt_real]
    norm_num [c1, c0]
  · have hacc : Triplet.accepts (a, b, c) b := by
      simp only [Triplet.accepts, hpb]; exact ⟨by linarith, by linarith, by linarith⟩
    simp only [Triplet.handle, if_pos hacc, Triplet.gains, hpb, sqrt_real]
    norm_num [c1, c0]
  · have hacc : Triplet.accepts (a, b, c) c := by
      simp only [Triplet.accepts, hpc]; exact ⟨by linarith, by linarith, by linarith⟩
    simp only [Triplet.handle, if_pos hacc, Triplet.gains, hpc, sqrt_real]
    norm_num [c1, c0]

/-! ### a quadratic without roots in an open interval -/

def NoRootIn (A B C u v : ℝ) : Prop := ∀ t, u < t → t < v → A * t ^ 2 + B * t + C ≠ 0

theorem noRootIn_empty (A B C : ℝ) {u v : ℝ} (h : v ≤ u) : NoRootIn A B C u v :=
  fun _ h1 h2 => absurd (lt_trans h1 h2) (not_lt.mpr h)

/-- linear: same weak sign at both ends, not both zero -/
theorem noRootIn_lin (B C u v : ℝ)
    (hs : (0 ≤ B * u + C ∧ 0 ≤ B * v + C) ∨ (B * u + C ≤ 0 ∧ B * v + C ≤ 0))
    (hne : B * u + C ≠ 0 ∨ B * v + C ≠ 0) : NoRootIn 0 B C u v := by
  intro t h1 h2 h0
  have h0' : B * t + C = 0 := by linarith
  -- B (t − u) = −(B u + C),  B (v − t) = B v + C
  have e1 : B * (t - u) = -(B * u + C) := by linarith
  have e2 : B * (v - t) = B * v + C := by linarith
  have htu : 0 < t - u := by linarith
  have hvt : 0 < v - t := by linarith
  rcases hs with ⟨a1, a2⟩ | ⟨a1, a2⟩
  · -- B (t−u) ≤ 0 and B (v−t) ≥ 0 ⇒ B = 0 ⇒ both values 0
    have hB1 : B ≤ 0 := by
      by_contra hh
      have := mul_pos (not_le.mp hh) htu
      linarith
    have hB2 : 0 ≤ B := by
      by_contra hh
      have := mul_neg_of_neg_of_pos (not_le.mp hh) hvt
      linarith
    have hB : B = 0 := le_antisymm hB1 hB2
    subst hB
    rcases hne with h | h <;> apply h <;> linarith
  · have hB1 : 0 ≤ B := by
      by_contra hh
      have := mul_neg_of_neg_of_pos (not_le.mp hh) htu
      linarith
    have hB2 : B ≤ 0 := by
      by_contra hh
      have := mul_pos (not_le.mp hh) hvt
      linarith
    have hB : B = 0 := le_antisymm hB2 hB1
    subst hB
    rcases hne with h | h <;> apply h <;> linarith

/-- negative discriminant -/
theorem noRootIn_disc (A B C u v : ℝ) (h : B * B - 4 * A * C < 0) : NoRootIn A B C u v := by
  intro t _ _ h0
  have : B * B - 4 * A * C = (2 * A * t + B) ^ 2 := by linear_combination (-4 * A) * h0
  rw [this] at h
  exact absurd (sq_nonneg _) (not_le.mpr h)

/-- `A·f ≤ 0` at both ends (`A ≠ 0`: the roots straddle the interval) -/
theorem noRootIn_straddle (A B C u v : ℝ) (hA : A ≠ 0) (hu : A * (A * u ^ 2 + B * u + C) ≤ 0)
    (hv : A * (A * v ^ 2 + B * v + C) ≤ 0) : NoRootIn A B C u v := by
  intro t h1 h2 h0
  have hA2 : 0 < A * A := mul_self_pos.mpr hA
  -- g = A f;  g(u) − g(t) = (u − t)(A²(u + t) + A B) ≤ 0,  g(v) − g(t) = (v − t)(A²(v + t) + A B) ≤ 0
  have e1 : A * (A * u ^ 2 + B * u + C) = (u - t) * (A * A * (u + t) + A * B) := by linear_combination A * h0
  have e2 : A * (A * v ^ 2 + B * v + C) = (v - t) * (A * A * (v + t) + A * B) := by linear_combination A * h0
  rw [e1] at hu
  rw [e2] at hv
  have k1 : 0 ≤ A * A * (u + t) + A * B := by
    by_contra hh
    have := mul_pos_of_neg_of_neg (by linarith : u - t < 0) (not_le.mp hh)
    linarith
  have k2 : A * A * (v + t) + A * B ≤ 0 := by
    by_contra hh
    have := mul_pos (by linarith : 0 < v - t) (not_le.mp hh)
    linarith
  have : A * A * (v - u) ≤ 0 := by linarith
  have : 0 < A * A * (v - u) := mul_pos hA2 (by linarith)
  linarith

/-- `A·f(u) ≥ 0` and the vertex is at or left of `u`: both roots (if any) are ≤ `u` -/
theorem noRootIn_left (A B C u v : ℝ) (hA : A ≠ 0) (hu : 0 ≤ A * (A * u ^ 2 + B * u + C))
    (hvx : 0 ≤ A * (2 * A * u + B)) : NoRootIn A B C u v := by
  intro t h1 _ h0
  have hA2 : 0 < A * A := mul_self_pos.mpr hA
  have e1 : A * (A * u ^ 2 + B * u + C) = (u - t) * (A * A * (u + t) + A * B) := by linear_combination A * h0
  rw [e1] at hu
  -- A²(u+t) + A B = A(2Au + B) + A²(t − u) > 0
  have : 0 < A * A * (u + t) + A * B := by
    have : 0 < A * A * (t - u) := mul_pos hA2 (by linarith)
    nlinarith
  have := mul_neg_of_neg_of_pos (by linarith : u - t < 0) this
  linarith

/-- `A·f(v) ≥ 0` and the vertex is at or right of `v` -/
theorem noRootIn_right (A B C u v : ℝ) (hA : A ≠ 0) (hv : 0 ≤ A * (A * v ^ 2 + B * v + C))
    (hvx : A * (2 * A * v + B) ≤ 0) : NoRootIn A B C u v := by
  intro t _ h2 h0
  have hA2 : 0 < A * A := mul_self_pos.mpr hA
  have e2 : A * (A * v ^ 2 + B * v + C) = (v - t) * (A * A * (v + t) + A * B) := by linear_combination A * h0
  rw [e2] at hv
  have : A * A * (v + t) + A * B < 0 := by
    have : 0 < A * A * (v - t) := mul_pos hA2 (by linarith)
    nlinarith
  have := mul_neg_of_pos_of_neg (by linarith : 0 < v - t) this
  linarith

theorem NoRootIn.of_scaled {S A B C u v : ℝ} (h : NoRootIn (S * A) (S * B) (S * C) u v) :
    NoRootIn A B C u v := by
  intro t h1 h2 h0
  exact h t h1 h2 (by linear_combination S * h0)

/-! ### the closed-form root selection -/

theorem acceptRoot_eq (r x : ℝ) (h : acceptRoot r = some x) : -eps < r ∧ r < 1 + eps ∧ x = clip01 r := by
  obtain ⟨h1, h2⟩ := acceptRoot_some r x h
  refine ⟨h1, h2, ?_⟩
  simp only [acceptRoot, GainCalc.k_real, GainCalc.one_real, GainCalc.zero_real] at h
  have c1 : (((-1 / 10000000000 : ℚ)) : ℝ) = -(1 / 10000000000) := by push_cast; ring
  have c2 : (((1 / 10000000000 : ℚ)) : ℝ) = 1 / 10000000000 := by push_cast; ring
  rw [c1, c2] at h
  unfold eps at h1 h2
  rw [if_pos ⟨h1, h2⟩] at h
  simp only [Option.some.injEq] at h
  rw [← h]
  simp only [GainCalc.clip, clip01, min_real, max_real, zero_real, one_real]
  by_cases h0 : r < 0
  · rw [if_pos h0, max_eq_right h0.le, min_eq_left zero_le_one]
  · rw [if_neg h0]
    by_cases h1' : 1 < r
    · rw [if_pos h1', max_eq_left (not_lt.mp h0), min_eq_right h1'.le]
    · rw [if_neg h1', max_eq_left (not_lt.mp h0), min_eq_left (not_lt.mp h1')]

/-- the nearly-real complex branch of `pan_axis` is not taken -/
def CplxOk (A B C : ℝ) : Prop :=
  A = 0 ∨ 0 ≤ B * B - 4 * A * C ∨ 4 * (A * A) ≤ -(B * B - 4 * A * C) * (bigE * bigE)

theorem CplxOk.of_scaled {S A B C : ℝ} (hS : S ≠ 0) (h : CplxOk (S * A) (S * B) (S * C)) : CplxOk A B C := by
  have hS2 : 0 < S * S := mul_self_pos.mpr hS
  rcases h with h | h | h
  · exact Or.inl ((mul_eq_zero.mp h).resolve_left hS)
  · right; left
    have : S * B * (S * B) - 4 * (S * A) * (S * C) = S * S * (B * B - 4 * A * C) := by ring
    rw [this] at h
    exact nonneg_of_mul_nonneg_right h hS2
  · right; right
    have e : 4 * (S * A * (S * A)) = S * S * (4 * (A * A)) := by ring
    have e' : -(S * B * (S * B) - 4 * (S * A) * (S * C)) * (bigE * bigE) =
        S * S * (-(B * B - 4 * A * C) * (bigE * bigE)) := by ring
    rw [e, e'] at h
    exact le_of_mul_le_mul_left h hS2

/-- **Every pan value the selection can return is the clip of a root in `[xl, xh]`**, if the quadratic has no root in
    the acceptance window left of `xl` or right of `xh` and the complex branch is excluded. -/
theorem quadRoot_mem (A B C xl xh : ℝ) (hc : CplxOk A B C) (h1 : NoRootIn A B C (-eps) xl)
    (h2 : NoRootIn A B C xh (1 + eps)) (x : ℝ) (hx : quadRoot (A, B, C) = some x) :
    ∃ r, xl ≤ r ∧ r ≤ xh ∧ x = clip01 r := by
  have key : ∀ r, A * r ^ 2 + B * r + C = 0 → acceptRoot r = some x → ∃ r, xl ≤ r ∧ r ≤ xh ∧ x = clip01 r := by
    intro r hr ha
    obtain ⟨w1, w2, w3⟩ := acceptRoot_eq r x ha
    refine ⟨r, ?_, ?_, w3⟩
    · by_contra hh
      exact h1 r w1 (not_le.mp hh) hr
    · by_contra hh
      exact h2 r (not_le.mp hh) w2 hr
  unfold quadRoot at hx
  simp only [GainCalc.zero_real, GainCalc.k_real] at hx
  by_cases hA : A = 0
  · have hA' : eqS A 0 = true := (eqS_real A 0).mpr hA
    rw [if_pos hA'] at hx
    by_cases hB : B = 0
    · have hB' : eqS B 0 = true := (eqS_real B 0).mpr hB
      rw [if_pos hB'] at hx
      exact absurd hx (by simp)
    · have hB' : ¬ eqS B 0 = true := fun h => hB ((eqS_real B 0).mp h)
      rw [if_neg hB'] at hx
      refine key (-C / B) ?_ hx
      rw [hA]; field_simp; ring
  · have hA' : ¬ eqS A 0 = true := fun h => hA ((eqS_real A 0).mp h)
    rw [if_neg hA'] at hx
    have c4 : (((4 : ℚ)) : ℝ) = 4 := by push_cast; ring
    have c2 : (((2 : ℚ)) : ℝ) = 2 := by push_cast; ring
    have ce : (((1 / 10000000000 : ℚ)) : ℝ) = 1 / 10000000000 := by push_cast; ring
    simp only [c4, c2, ce] at hx
    by_cases hD : B * B - 4 * A * C < 0
    · rw [if_pos hD] at hx
      -- complex pair: the certificate says the imaginary part is at least 1e-10
      exfalso
      rcases hc with h | h | h
      · exact hA h
      · linarith
      · simp only [GainCalc.sqrt_real] at hx
        split at hx
        · rename_i him
          have hpos : 0 < 2 * GainCalc.maxS A (-A) := by
            have : 0 < GainCalc.maxS A (-A) := by
              unfold GainCalc.maxS
              split
              · rename_i hlt; linarith
              · rename_i hlt
                rcases lt_or_gt_of_ne hA with h' | h'
                · exfalso; exact hlt (by linarith)
                · exact h'
            linarith
          have hm2 : GainCalc.maxS A (-A) * GainCalc.maxS A (-A) = A * A := by
            unfold GainCalc.maxS
            split <;> ring
          rw [div_lt_iff₀ hpos] at him
          have hsq : -(B * B - 4 * A * C) < (1 / 10000000000 * (2 * GainCalc.maxS A (-A))) ^ 2 := by
            have h0 : 0 ≤ -(B * B - 4 * A * C) := by linarith
            have := Real.sqrt_lt_sqrt (Real.sqrt_nonneg _) him
            calc -(B * B - 4 * A * C) = Real.sqrt (-(B * B - 4 * A * C)) ^ 2 := (Real.sq_sqrt h0).symm
              _ < (1 / 10000000000 * (2 * GainCalc.maxS A (-A))) ^ 2 :=
                pow_lt_pow_left₀ him (Real.sqrt_nonneg _) (by norm_num)
          have e : (1 / 10000000000 * (2 * GainCalc.maxS A (-A))) ^ 2 = 4 * (A * A) / (bigE * bigE) := by
            unfold bigE
            rw [mul_pow, mul_pow, sq (GainCalc.maxS A (-A)), hm2]; ring
          rw [e, lt_div_iff₀ (by unfold bigE; norm_num)] at hsq
          linarith
        · exact absurd hx (by simp)
    · rw [if_neg hD] at hx
      have hD' : 0 ≤ B * B - 4 * A * C := not_lt.mp hD
      simp only [GainCalc.sqrt_real] at hx
      set s := Real.sqrt (B * B - 4 * A * C) with hs
      have hss : s * s = B * B - 4 * A * C := Real.mul_self_sqrt hD'
      set q : ℝ := if B < 0 then -(B - s) / 2 else -(B + s) / 2 with hq
      have hqq : q * q + B * q + A * C = 0 := by
        rw [hq]
        split <;> nlinarith
      have hr1 : A * (q / A) ^ 2 + B * (q / A) + C = 0 := by
        field_simp
        linear_combination hqq
      cases ha : acceptRoot (q / A) with
      | some y =>
        rw [ha] at hx
        simp only [firstSome, Option.some.injEq] at hx
        subst hx
        exact key _ hr1 ha
      | none =>
        rw [ha] at hx
        simp only [firstSome] at hx
        by_cases hq0 : q = 0
        · have hq0' : eqS q 0 = true := (eqS_real q 0).mpr hq0
          rw [if_pos hq0'] at hx
          exact absurd hx (by simp)
        · have hq0' : ¬ eqS q 0 = true := fun h => hq0 ((eqS_real q 0).mp h)
          rw [if_neg hq0'] at hx
          have hr2 : A * (C / q) ^ 2 + B * (C / q) + C = 0 := by
            field_simp
            linear_combination C * hqq
          exact key _ hr2 hx

/-- no root in the window at all ⇒ the selection finds nothing -/
theorem quadRoot_none (A B C xl xh : ℝ) (hc : CplxOk A B C) (h1 : NoRootIn A B C (-eps) xl)
    (h2 : NoRootIn A B C xh (1 + eps)) (hlt : xh < xl) : quadRoot (A, B, C) = none := by
  cases hx : quadRoot (A, B, C) with
  | none => rfl
  | some x =>
    obtain ⟨r, hr1, hr2, _⟩ := quadRoot_mem A B C xl xh hc h1 h2 x hx
    linarith

/-- **`r0 ∈ [0,1]` is a root and the only root in the window ⇒ the selection is exactly `r0`.** -/
theorem quadRoot_exact (A B C r0 : ℝ) (h0 : 0 ≤ r0) (h1 : r0 ≤ 1) (hr : A * r0 ^ 2 + B * r0 + C = 0)
    (hne : ¬(A = 0 ∧ B = 0 ∧ C = 0)) (hl : NoRootIn A B C (-eps) r0) (hh : NoRootIn A B C r0 (1 + eps)) :
    quadRoot (A, B, C) = some r0 := by
  have he := eps_pos
  have huniq : ∀ r, -eps < r → r < 1 + eps → A * r ^ 2 + B * r + C = 0 → r = r0 := by
    intro r w1 w2 hr'
    by_contra hne'
    rcases lt_or_gt_of_ne hne' with h | h
    · exact hl r w1 h hr'
    · exact hh r h w2 hr'
  obtain ⟨x, hx, hx0, hx1, hfx⟩ := quadRoot_of_unit_root A B C ⟨r0, h0, h1, hr⟩
    (fun r w1 w2 hr' => by rw [huniq r w1 w2 hr']; exact ⟨h0, h1⟩) hne
  rw [hx, huniq x (by linarith) (by linarith) hfx]

/-! ### the bilinear sign test on a box -/

theorem affine_nonpos {m c x X0 X1 : ℝ} (h0 : X0 ≤ x) (h1 : x ≤ X1) (e0 : m * X0 + c ≤ 0) (e1 : m * X1 + c ≤ 0) :
    m * x + c ≤ 0 := by
  by_cases hm : 0 ≤ m
  · nlinarith
  · nlinarith

/-- a bilinear form that is ≤ 0 at the four corners of a box is ≤ 0 on the box -/
theorem bilinear_nonpos (al be ga de x y X0 X1 Y0 Y1 : ℝ) (hx0 : X0 ≤ x) (hx1 : x ≤ X1) (hy0 : Y0 ≤ y) (hy1 : y ≤ Y1)
    (c00 : (1 - X0) * (1 - Y0) * al + X0 * (1 - Y0) * be + X0 * Y0 * ga + (1 - X0) * Y0 * de ≤ 0)
    (c01 : (1 - X0) * (1 - Y1) * al + X0 * (1 - Y1) * be + X0 * Y1 * ga + (1 - X0) * Y1 * de ≤ 0)
    (c10 : (1 - X1) * (1 - Y0) * al + X1 * (1 - Y0) * be + X1 * Y0 * ga + (1 - X1) * Y0 * de ≤ 0)
    (c11 : (1 - X1) * (1 - Y1) * al + X1 * (1 - Y1) * be + X1 * Y1 * ga + (1 - X1) * Y1 * de ≤ 0) :
    (1 - x) * (1 - y) * al + x * (1 - y) * be + x * y * ga + (1 - x) * y * de ≤ 0 := by
  -- in y, at X0 and X1
  have a0 : (1 - X0) * (1 - y) * al + X0 * (1 - y) * be + X0 * y * ga + (1 - X0) * y * de ≤ 0 := by
    have := affine_nonpos (m := -(1 - X0) * al - X0 * be + X0 * ga + (1 - X0) * de) (c := (1 - X0) * al + X0 * be)
      hy0 hy1 (by linarith) (by linarith)
    linarith
  have a1 : (1 - X1) * (1 - y) * al + X1 * (1 - y) * be + X1 * y * ga + (1 - X1) * y * de ≤ 0 := by
    have := affine_nonpos (m := -(1 - X1) * al - X1 * be + X1 * ga + (1 - X1) * de) (c := (1 - X1) * al + X1 * be)
      hy0 hy1 (by linarith) (by linarith)
    linarith
  have := affine_nonpos (m := -(1 - y) * al + (1 - y) * be + y * ga - y * de) (c := (1 - y) * al + y * de)
    hx0 hx1 (by linarith) (by linarith)
  linarith

theorem clip01_mono {a b : ℝ} (h : a ≤ b) : clip01 a ≤ clip01 b := by
  simp only [clip01, min_real, max_real, zero_real, one_real]
  exact min_le_min (max_le_max h (le_refl _)) (le_refl _)

theorem dot3_comm (a b : Vec3 ℝ) : dot3 a b = dot3 b a := by
  obtain ⟨a0, a1, a2⟩ := a
  obtain ⟨b0, b1, b2⟩ := b
  simp only [dot3]; ring

/-- **`QuadRegion.handle` answers `None`** when the pan values are confined to a box on which the bilinear sign test
    fails (ordered corners `a b c d` = `order` applied to the positions) -/
theorem quad_handle_none_of_box (q0 q1 q2 q3 : Vec3 ℝ) (o : List Nat) (ho : isPermOfRange o 4 = true) (p : Vec3 ℝ)
    (x y X0 X1 Y0 Y1 : ℝ) (hx0 : X0 ≤ x) (hx1 : x ≤ X1) (hy0 : Y0 ≤ y) (hy1 : y ≤ Y1)
    (hbox : ∀ X ∈ [X0, X1], ∀ Y ∈ [Y0, Y1],
      (1 - X) * (1 - Y) * dot3 ([q0, q1, q2, q3].getD (o.getD 0 0) zero3) p +
        X * (1 - Y) * dot3 ([q0, q1, q2, q3].getD (o.getD 1 0) zero3) p +
        X * Y * dot3 ([q0, q1, q2, q3].getD (o.getD 2 0) zero3) p +
        (1 - X) * Y * dot3 ([q0, q1, q2, q3].getD (o.getD 3 0) zero3) p ≤ 0) :
    (⟨[q0, q1, q2, q3], o⟩ : QuadRegion ℝ).handle (some x) (some y) p = none := by
  simp only [QuadRegion.handle, QuadRegion.weights, one_real, zero_real]
  rw [comb_scatter4 ho, ← bil_eq_comb4, if_pos]
  rw [dot3_comm, dot3_bil, dot3_comm p, dot3_comm p, dot3_comm p, dot3_comm p]
  have := bilinear_nonpos _ _ _ _ x y X0 X1 Y0 Y1 hx0 hx1 hy0 hy1 (hbox X0 (by simp) Y0 (by simp))
    (hbox X0 (by simp) Y1 (by simp)) (hbox X1 (by simp) Y0 (by simp)) (hbox X1 (by simp) Y1 (by simp))
  linarith

/-! ### non-vacuity of the hypotheses -/

/-- `f(t) = t`: `0` is a root, the only one in the window, so the selection is exactly `0` (`quadRoot_exact`) -/
example : quadRoot ((0 : ℝ), (1 : ℝ), (0 : ℝ)) = some 0 := by
  have := quadRoot_exact 0 1 0 0 (le_refl _) zero_le_one (by norm_num) (by norm_num)
    (fun t _ h2 h0 => by nlinarith) (fun t h1 _ h0 => by nlinarith)
  simpa using this

/-- `f(t) = t − 2` has no root in the window: the hypotheses of `quadRoot_mem` / `quadRoot_none` hold with the empty
    interval `xl = 1 > xh = 0` -/
example : quadRoot ((0 : ℝ), (1 : ℝ), (-2 : ℝ)) = none := by
  have he : eps < 1 := by unfold eps; norm_num
  exact quadRoot_none 0 1 (-2) 1 0 (Or.inl rfl) (fun t _ h2 h0 => by nlinarith) (fun t _ h2 h0 => by nlinarith)
    (by norm_num)

/-- a direction outside a triplet: `(0, 0, −1)` against the standard basis -/
example : TripletOut ((1 : ℝ), (0 : ℝ), (0 : ℝ)) ((0 : ℝ), (1 : ℝ), (0 : ℝ)) ((0 : ℝ), (0 : ℝ), (1 : ℝ))
    ((0 : ℝ), (0 : ℝ), (-1 : ℝ)) := by
  norm_num [TripletOut, det3]

/-- a bilinear form that is ≤ 0 at the corners of the unit box (`−1` everywhere) -/
example (x y : ℝ) (hx0 : 0 ≤ x) (hx1 : x ≤ 1) (hy0 : 0 ≤ y) (hy1 : y ≤ 1) :
    (1 - x) * (1 - y) * (-1) + x * (1 - y) * (-1) + x * y * (-1) + (1 - x) * y * (-1) ≤ (0 : ℝ) :=
  bilinear_nonpos (-1) (-1) (-1) (-1) x y 0 1 0 1 hx0 hx1 hy0 hy1 (by norm_num) (by norm_num) (by norm_num) (by norm_num)

end Earverif.PointSource.Cover
