/- Line protocol for the BW64 writer/reader byte models (serves C09 and C17).

   values   : `-` = None, `e` = b'' , otherwise lower-case hex
   chna     : `-` = None, `c<hex>` = ChnaChunk whose AudioIDs are the consecutive 40-byte groups of <hex>
   in  : `write <closed 0|1> <force 0|1> <channels> <rate> <bits> <chna> <axml> <bext> [; op]*`
           op = `w <val>` | `sa <val>` | `sb <val>` | `sc <chna>`
   out : hex of the buffer | `unpackable` (struct.pack would raise)
   in  : `read <hex|e>`
   out : `err <kind>` | `ok ff=<hex> tag=_ ch=_ rate=_ bits=_ frames=_ data=<val> chna=<chna> axml=<val> bext=<val> warns=<sorted kinds,>`
   in  : `trunc <hex>`   out: the `read` answers for every proper prefix (k = 0 .. len-1) joined by ` | `
   `bad-op` for a malformed line. -/
import Earverif.Model.Bw64Reader
import Earverif.Driver.Util
open Earverif.Bw64 Earverif.Driver

def hexDigit? (c : Char) : Option Nat :=
  if '0' ≤ c ∧ c ≤ '9' then some (c.toNat - '0'.toNat)
  else if 'a' ≤ c ∧ c ≤ 'f' then some (c.toNat - 'a'.toNat + 10)
  else none

def parseHexChars : List Char → Option Bytes
  | [] => some []
  | a :: b :: rest => do
    let x ← hexDigit? a
    let y ← hexDigit? b
    let r ← parseHexChars rest
    some ((16 * x + y) :: r)
  | _ => none

def parseHex? (s : String) : Option Bytes := parseHexChars s.toList

def hexChar (n : Nat) : Char := if n < 10 then Char.ofNat (48 + n) else Char.ofNat (87 + n)

def toHex (b : Bytes) : String :=
  String.ofList (b.flatMap fun x => [hexChar (x / 16 % 16), hexChar (x % 16)])

/-- bytes-or-None -/
def parseVal? (s : String) : Option (Option Bytes) :=
  if s = "-" then some none
  else if s = "e" then some (some [])
  else (parseHex? s).map some

def showBytes (b : Bytes) : String := if b.isEmpty then "e" else toHex b

def showVal : Option Bytes → String
  | none => "-"
  | some b => showBytes b

def groups40 : Nat → Bytes → Option (List ChnaEntry)
  | _, [] => some []
  | 0, _ => none
  | fuel + 1, b =>
    if b.length < 40 then none else do
      let r ← groups40 fuel (b.drop 40)
      some (⟨fromLE (b.take 2), (b.take 40).drop 2⟩ :: r)

def parseChna? (s : String) : Option (Option (List ChnaEntry)) :=
  if s = "-" then some none
  else match s.toList with
    | 'c' :: rest => do
      let b ← parseHexChars rest
      let es ← groups40 (b.length + 1) b
      some (some es)
    | _ => none

def showChna : Option (List ChnaEntry) → String
  | none => "-"
  | some es => "c" ++ toHex (es.map ChnaEntry.enc).flatten

def parseOp? (ws : List String) : Option WOp :=
  match ws with
  | ["w", v] => do
    match ← parseVal? v with
    | some b => some (.write b)
    | none => none
  | ["sa", v] => do some (.setAxml (← parseVal? v))
  | ["sb", v] => do some (.setBext (← parseVal? v))
  | ["sc", v] => do some (.setChna (← parseChna? v))
  | _ => none

def showErr : Err → String
  | .struct => "struct" | .notRiff => "notRiff" | .notWave => "notWave" | .missingDs64 => "missingDs64"
  | .badId => "badId" | .chunkEnd => "chunkEnd" | .missingChunk => "missingChunk" | .fmtSize => "fmtSize"
  | .cbSize => "cbSize" | .fmtInvalid => "fmtInvalid" | .chnaTracks => "chnaTracks"
  | .unsupported => "unsupported" | .fuel => "fuel"

def showWarn : Warn → String
  | .dataPad => "dataPad" | .chnaRef => "chnaRef"

def insertSorted (x : String) : List String → List String
  | [] => [x]
  | y :: ys => if x ≤ y then x :: y :: ys else y :: insertSorted x ys

def sortStrings (l : List String) : List String := l.foldr insertSorted []

def showRead (f : Bytes) : String :=
  match readFile f with
  | .error e => "err " ++ showErr e
  | .ok (p, w) =>
    s!"ok ff={toHex p.fileFormat} tag={p.fmt.formatTag} ch={p.fmt.channels} rate={p.fmt.rate} bits={p.fmt.bits} " ++
    s!"frames={p.frames} data={showBytes p.data} chna={showChna p.chna} axml={showVal p.axml} bext={showVal p.bext} " ++
    "warns=" ++ String.intercalate "," (sortStrings (w.map showWarn))

def answerWrite (hd : List String) (rest : List String) : String :=
  match hd with
  | [closed, force, ch, rate, bits, chna, axml, bext] =>
    match parseInts? [closed, force, ch, rate, bits], parseChna? chna, parseVal? axml, parseVal? bext,
          rest.mapM (fun s => parseOp? (words s)) with
    | some [c, fo, ch, rate, bits], some chna, some axml, some bext, some ops =>
      if c < 0 ∨ c > 1 ∨ fo < 0 ∨ fo > 1 ∨ ch < 0 ∨ rate < 0 ∨ bits < 0 then "bad-op" else
      let fmt : Fmt := ⟨ch.toNat, rate.toNat, bits.toNat⟩
      if !(fmt.packable && chnaPackable chna && bytesPackable axml && bytesPackable bext
            && ops.all WOp.packable) then "unpackable" else
      if c = 1 then toHex (closedFile fmt chna axml bext (fo = 1) ops)
      else toHex (unclosedFile fmt chna axml bext (fo = 1) ops)
    | _, _, _, _, _ => "bad-op"
  | _ => "bad-op"

def answer (line : String) : String :=
  match line.splitOn ";" with
  | hd :: rest =>
    match words hd with
    | "write" :: ws => answerWrite ws rest
    | ["read", h] =>
      if !rest.isEmpty then "bad-op" else
      match parseVal? h with
      | some (some f) => showRead f
      | _ => "bad-op"
    | ["trunc", h] =>
      if !rest.isEmpty then "bad-op" else
      match parseHex? h with
      | some f => String.intercalate " | " ((List.range f.length).map fun k => showRead (f.take k))
      | none => "bad-op"
    | _ => "bad-op"
  | [] => "bad-op"

def main : IO Unit := lineLoop answer
