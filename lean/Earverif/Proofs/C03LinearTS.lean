/-
C03, last clause ("linear in the input audio") for items with TRACK SPECS: the literal meaning of a track spec
(`TrackSpec.meaning`, C20: inputs summed, scaled by the gains, delayed by the coefficient delays) is additive and
homogeneous in the input, hence so is every item stream `sAt`, hence the specified output `outAtTS` / `outTS`
(`Model/RendererTS.lean`).
-/
import Earverif.Model.RendererTS
import Earverif.Proofs.C03Linear
import Earverif.Proofs.C20
namespace Earverif.TrackSpec
open Earverif.RenderSpec (addX smulX SameShape)

/-! ### list algebra over `Rat` -/

theorem vadd4 : ∀ (a b c d : List Rat), vadd (vadd a b) (vadd c d) = vadd (vadd a c) (vadd b d)
  | [], _, _, _ => by simp [vadd]
  | _ :: _, [], _, _ => by simp [vadd]
  | _ :: _, _ :: _, [], _ => by simp [vadd]
  | _ :: _, _ :: _, _ :: _, [] => by simp [vadd]
  | a :: as, b :: bs, c :: cs, d :: ds => by
    have ih := vadd4 as bs cs ds
    simp only [vadd, List.zipWith_cons_cons] at ih ⊢
    rw [ih]
    congr 1
    ring

theorem vadd_zeros_zeros (n : Nat) : vadd (zeros n : List Rat) (zeros n) = zeros n :=
  vadd_zeros _ n (zeros_length n)

theorem foldl_vadd_add : ∀ (as bs : List (List Rat)) (a0 b0 : List Rat), as.length = bs.length →
    (List.zipWith vadd as bs).foldl vadd (vadd a0 b0) = vadd (as.foldl vadd a0) (bs.foldl vadd b0)
  | [], [], _, _, _ => rfl
  | [], _ :: _, _, _, h => by simp at h
  | _ :: _, [], _, _, h => by simp at h
  | a :: as, b :: bs, a0, b0, h => by
    simp only [List.zipWith_cons_cons, List.foldl_cons]
    rw [vadd4, foldl_vadd_add as bs _ _ (by simpa using h)]

theorem map_mul_vadd (g : Rat) (a b : List Rat) :
    (vadd a b).map (· * g) = vadd (a.map (· * g)) (b.map (· * g)) := by
  simp only [vadd, List.map_zipWith, List.zipWith_map_left, List.zipWith_map_right]
  congr 1
  funext x y
  ring

theorem scaleOpt_vadd (g : Option Rat) (a b : List Rat) :
    scaleOpt g (vadd a b) = vadd (scaleOpt g a) (scaleOpt g b) := by
  cases g with
  | none => rfl
  | some g => exact map_mul_vadd g a b

theorem delayBy_vadd (k : Nat) (a b : List Rat) (h : a.length = b.length) :
    delayBy k (vadd a b) = vadd (delayBy k a) (delayBy k b) := by
  simp only [delayBy, vadd_length, ← h, Nat.min_self]
  have e : (zeros k : List Rat) ++ vadd a b = vadd (zeros k ++ a) (zeros k ++ b) := by
    simp only [vadd]
    rw [List.zipWith_append (by simp)]
    congr 1
    exact (vadd_zeros_zeros k).symm
  rw [e]
  simp only [vadd, List.take_zipWith]

theorem map_getD_addX (n k : Nat) : ∀ (x y : List (List Rat)), (∀ fr ∈ x, fr.length = n) → (∀ fr ∈ y, fr.length = n) →
    (addX x y).map (fun fr => fr.getD k (0 : Rat)) =
      vadd (x.map fun fr => fr.getD k 0) (y.map fun fr => fr.getD k 0)
  | [], _, _, _ => by simp [addX, vadd]
  | _ :: _, [], _, _ => by simp [addX, vadd]
  | a :: as, b :: bs, hx, hy => by
    have ih := map_getD_addX n k as bs (fun fr h => hx fr (List.mem_cons_of_mem _ h))
      (fun fr h => hy fr (List.mem_cons_of_mem _ h))
    simp only [addX, vadd, List.zipWith_cons_cons, List.map_cons] at ih ⊢
    rw [ih]
    congr 1
    have ha := hx a List.mem_cons_self
    have hb := hy b List.mem_cons_self
    simp only [List.getD_eq_getElem?_getD, List.getElem?_zipWith]
    by_cases hk : k < n
    · rw [List.getElem?_eq_getElem (by omega), List.getElem?_eq_getElem (by omega)]
      simp
    · rw [List.getElem?_eq_none (by omega), List.getElem?_eq_none (by omega)]
      simp

theorem addX_length (x y : List (List Rat)) (h : x.length = y.length) : (addX x y).length = x.length := by
  simp [addX, h]

/-! ### `meaning` is additive -/

mutual
theorem meaning_add (fs : Int) (nch : Nat) : ∀ (s : Spec Rat) (x y : List (List Rat)), SameShape nch x y →
    meaning fs nch s (addX x y) = vadd (meaning fs nch s x) (meaning fs nch s y)
  | .direct i, x, y, h => by
    simp only [meaning]
    cases chanIdx nch i with
    | some k => exact map_getD_addX nch k x y h.wx h.wy
    | none =>
      simp only [addX_length x y h.len, ← h.len]
      exact (vadd_zeros_zeros _).symm
  | .silent, x, y, h => by
    simp only [meaning, addX_length x y h.len, ← h.len]
    exact (vadd_zeros_zeros _).symm
  | .mix ts, x, y, h => by
    simp only [meaning, vsum, addX_length x y h.len, ← h.len]
    rw [meaningList_add fs nch ts x y h]
    have hl : (meaningList fs nch ts x).length = (meaningList fs nch ts y).length := by
      rw [meaningList_eq_map, meaningList_eq_map, List.length_map, List.length_map]
    have := foldl_vadd_add _ _ (zeros x.length) (zeros x.length) hl
    rw [vadd_zeros_zeros] at this
    exact this
  | .gain t g, x, y, h => by
    simp only [meaning]
    rw [meaning_add fs nch t x y h, map_mul_vadd]
  | .matrix t g d, x, y, h => by
    simp only [meaning]
    rw [meaning_add fs nch t x y h, scaleOpt_vadd]
    cases d with
    | none => rfl
    | some ms =>
      simp only
      exact delayBy_vadd _ _ _ (by
        rw [scaleOpt_length, scaleOpt_length, meaning_length, meaning_length, h.len])
theorem meaningList_add (fs : Int) (nch : Nat) : ∀ (ts : List (Spec Rat)) (x y : List (List Rat)), SameShape nch x y →
    meaningList fs nch ts (addX x y) = List.zipWith vadd (meaningList fs nch ts x) (meaningList fs nch ts y)
  | [], _, _, _ => by simp [meaningList]
  | t :: ts, x, y, h => by
    simp only [meaningList, List.zipWith_cons_cons]
    rw [meaning_add fs nch t x y h, meaningList_add fs nch ts x y h]
end

/-! ### `meaning` is homogeneous -/

theorem map_smul_zeros (a : Rat) (n : Nat) : (zeros n : List Rat).map (a * ·) = zeros n := by
  simp only [zeros, List.map_replicate]
  congr 1
  show a * 0 = 0
  ring

theorem map_smul_vadd (a : Rat) (l m : List Rat) : (vadd l m).map (a * ·) = vadd (l.map (a * ·)) (m.map (a * ·)) := by
  simp only [vadd, List.map_zipWith, List.zipWith_map_left, List.zipWith_map_right]
  congr 1
  funext x y
  ring

theorem foldl_vadd_smul (a : Rat) : ∀ (ls : List (List Rat)) (acc : List Rat),
    (ls.map (·.map (a * ·))).foldl vadd (acc.map (a * ·)) = (ls.foldl vadd acc).map (a * ·)
  | [], _ => rfl
  | l :: ls, acc => by
    simp only [List.map_cons, List.foldl_cons]
    rw [← map_smul_vadd, foldl_vadd_smul a ls]

theorem scaleOpt_smul (a : Rat) (g : Option Rat) (l : List Rat) :
    scaleOpt g (l.map (a * ·)) = (scaleOpt g l).map (a * ·) := by
  cases g with
  | none => rfl
  | some g =>
    simp only [scaleOpt, List.map_map]
    apply List.map_congr_left
    intro v _
    simp only [Function.comp]
    ring

theorem delayBy_smul (a : Rat) (k : Nat) (l : List Rat) : delayBy k (l.map (a * ·)) = (delayBy k l).map (a * ·) := by
  simp only [delayBy, List.length_map, List.map_take, List.map_append, map_smul_zeros]

mutual
theorem meaning_smul (fs : Int) (nch : Nat) (a : Rat) : ∀ (s : Spec Rat) (x : List (List Rat)),
    meaning fs nch s (smulX a x) = (meaning fs nch s x).map (a * ·)
  | .direct i, x => by
    simp only [meaning]
    cases chanIdx nch i with
    | some k =>
      simp only [smulX, List.map_map]
      apply List.map_congr_left
      intro fr _
      simp only [Function.comp, List.getD_eq_getElem?_getD, List.getElem?_map]
      cases fr[k]? with
      | none => show (0 : Rat) = a * 0; ring
      | some v => rfl
    | none => simp only [smulX, List.length_map]; exact (map_smul_zeros a _).symm
  | .silent, x => by simp only [meaning, smulX, List.length_map]; exact (map_smul_zeros a _).symm
  | .mix ts, x => by
    simp only [meaning, vsum]
    rw [meaningList_smul fs nch a ts x]
    have : (smulX a x).length = x.length := by simp [smulX]
    rw [this, ← map_smul_zeros a x.length, foldl_vadd_smul, map_smul_zeros]
  | .gain t g, x => by
    simp only [meaning]
    rw [meaning_smul fs nch a t x, List.map_map, List.map_map]
    apply List.map_congr_left
    intro v _
    simp only [Function.comp]
    ring
  | .matrix t g d, x => by
    simp only [meaning]
    rw [meaning_smul fs nch a t x, scaleOpt_smul]
    cases d with
    | none => rfl
    | some ms => exact delayBy_smul a _ _
theorem meaningList_smul (fs : Int) (nch : Nat) (a : Rat) : ∀ (ts : List (Spec Rat)) (x : List (List Rat)),
    meaningList fs nch ts (smulX a x) = (meaningList fs nch ts x).map (·.map (a * ·))
  | [], _ => by simp [meaningList]
  | t :: ts, x => by
    simp only [meaningList, List.map_cons]
    rw [meaning_smul fs nch a t x, meaningList_smul fs nch a ts x]
end

end Earverif.TrackSpec

/-! ### the specification with track specs is linear in the input -/
namespace Earverif.RendererTS
open Earverif.Stream Earverif.Timeline Earverif.Renderer Earverif.RenderSpec
open Earverif.TrackSpec (Spec)
set_option linter.unusedSectionVars false

section
variable {V : Type}

theorem zero_frame_add (n : Nat) : List.zipWith (· + ·) (List.replicate n (0 : Rat)) (List.replicate n 0) =
    List.replicate n 0 := by
  rw [List.zipWith_replicate]; simp

/-- The input followed by the tail's silence, for the sum of two inputs. -/
theorem addX_tail (c : Cfg V) (x y : List (List Rat)) (h : x.length = y.length) :
    addX x y ++ tailFrames c = addX (x ++ tailFrames c) (y ++ tailFrames c) := by
  simp only [addX]
  rw [List.zipWith_append h]
  congr 1
  simp only [tailFrames]
  rw [List.zipWith_replicate, Nat.min_self, zero_frame_add]

theorem smulX_tail (c : Cfg V) (a : Rat) (x : List (List Rat)) :
    smulX a x ++ tailFrames c = smulX a (x ++ tailFrames c) := by
  simp only [smulX, List.map_append]
  congr 1
  simp only [tailFrames, List.map_replicate]
  congr 2
  show (0 : Rat) = a * 0
  ring

theorem sameShape_tail (c : Cfg V) (x y : List (List Rat)) (h : SameShape c.n_in x y) :
    SameShape c.n_in (x ++ tailFrames c) (y ++ tailFrames c) where
  len := by simp [h.len]
  wx := by
    intro fr hfr
    rcases List.mem_append.mp hfr with hfr | hfr
    · exact h.wx fr hfr
    · simp only [tailFrames, List.mem_replicate] at hfr; rw [hfr.2]; simp
  wy := by
    intro fr hfr
    rcases List.mem_append.mp hfr with hfr | hfr
    · exact h.wy fr hfr
    · simp only [tailFrames, List.mem_replicate] at hfr; rw [hfr.2]; simp

/-- **`sAt_add`** — the audio of an item is additive in the input: `y_item(x + x') = y_item(x) + y_item(x')`. -/
theorem sAt_add (c : Cfg V) (spec : Spec Rat) (x y : List (List Rat)) (h : SameShape c.n_in x y) (t : Int) :
    sAt c spec (addX x y) t = sAt c spec x t + sAt c spec y t := by
  unfold sAt
  split
  · rw [addX_tail c x y h.len, TrackSpec.meaning_add _ _ spec _ _ (sameShape_tail c x y h)]
    have hl : (TrackSpec.meaning c.sr c.n_in spec (x ++ tailFrames c)).length =
        (TrackSpec.meaning c.sr c.n_in spec (y ++ tailFrames c)).length := by
      rw [TrackSpec.meaning_length, TrackSpec.meaning_length]; simp [h.len]
    generalize TrackSpec.meaning c.sr c.n_in spec (x ++ tailFrames c) = l at hl
    generalize TrackSpec.meaning c.sr c.n_in spec (y ++ tailFrames c) = m at hl
    simp only [TrackSpec.vadd, List.getD_eq_getElem?_getD, List.getElem?_zipWith]
    by_cases ht : t.toNat < l.length
    · rw [List.getElem?_eq_getElem ht, List.getElem?_eq_getElem (by omega)]; simp
    · rw [List.getElem?_eq_none (by omega), List.getElem?_eq_none (by omega)]; simp
  · simp

/-- **`sAt_smul`** — and homogeneous. -/
theorem sAt_smul (c : Cfg V) (spec : Spec Rat) (a : Rat) (x : List (List Rat)) (t : Int) :
    sAt c spec (smulX a x) t = a * sAt c spec x t := by
  unfold sAt
  split
  · rw [smulX_tail, TrackSpec.meaning_smul]
    simp only [List.getD_eq_getElem?_getD, List.getElem?_map]
    cases (TrackSpec.meaning c.sr c.n_in spec (x ++ tailFrames c))[t.toNat]? with
    | none => simp
    | some v => simp
  · simp

end

section
variable {V : Type} [RMod V] [LawfulRMod V]

theorem objAtTS_add (c : Cfg V) (objs : List (ObjItemTS V)) (x y : List (List Rat)) (h : SameShape c.n_in x y)
    (t : Int) : objAtTS c objs (addX x y) t = objAtTS c objs x t + objAtTS c objs y t := by
  unfold objAtTS
  rw [← sumV_map_add]
  congr 1
  apply List.map_congr_left
  intro it _
  rw [sAt_add c it.spec x y h, LawfulRMod.add_smul]

theorem objAtTS_smul (c : Cfg V) (a : Rat) (objs : List (ObjItemTS V)) (x : List (List Rat)) (t : Int) :
    objAtTS c objs (smulX a x) t = RMod.smul a (objAtTS c objs x t) := by
  unfold objAtTS
  rw [← sumV_map_smul]
  congr 1
  apply List.map_congr_left
  intro it _
  rw [sAt_smul, LawfulRMod.mul_smul]

/-- **`outAtTS_add`** — the specified output sample with track specs is additive in the input audio. -/
theorem outAtTS_add (c : Cfg V) (objs : List (ObjItemTS V)) (dss : List (DsItemTS V)) (hoas : List (HoaItemTS V))
    (x y : List (List Rat)) (h : SameShape c.n_in x y) (s : Nat) :
    outAtTS c objs dss hoas (addX x y) s = outAtTS c objs dss hoas x s + outAtTS c objs dss hoas y s := by
  unfold outAtTS
  have e1 : (objAtTS c objs (addX x y) s).1 = (objAtTS c objs x s).1 + (objAtTS c objs y s).1 := by
    rw [objAtTS_add c objs x y h]; rfl
  have e2 : diffuseAtTS c objs (addX x y) s = diffuseAtTS c objs x s + diffuseAtTS c objs y s := by
    unfold diffuseAtTS
    rw [← sumV_map_add]
    congr 1
    apply List.map_congr_left
    intro k _
    rw [objAtTS_add c objs x y h, ← LawfulRMod.pmul_add]; rfl
  have e3 : dsAtTS c dss (addX x y) s = dsAtTS c dss x s + dsAtTS c dss y s := by
    unfold dsAtTS
    rw [← sumV_map_add]
    congr 1
    apply List.map_congr_left
    intro it _
    rw [sAt_add c it.spec x y h, LawfulRMod.add_smul]
  have e4 : hoaAtTS c hoas (addX x y) s = hoaAtTS c hoas x s + hoaAtTS c hoas y s := by
    unfold hoaAtTS
    rw [← sumV_map_add]
    congr 1
    apply List.map_congr_left
    intro it _
    rw [← mat_add _ _ _ (by simp)]
    congr 1
    rw [List.zipWith_map_left, List.zipWith_map_right, List.zipWith_self]
    apply List.map_congr_left
    intro sp _
    exact sAt_add c sp x y h s
  rw [e1, e2, e3, e4]
  exact add8 _ _ _ _ _ _ _ _

/-- **`outAtTS_smul`** — and homogeneous. -/
theorem outAtTS_smul (c : Cfg V) (objs : List (ObjItemTS V)) (dss : List (DsItemTS V)) (hoas : List (HoaItemTS V))
    (a : Rat) (x : List (List Rat)) (s : Nat) :
    outAtTS c objs dss hoas (smulX a x) s = RMod.smul a (outAtTS c objs dss hoas x s) := by
  unfold outAtTS
  have e1 : (objAtTS c objs (smulX a x) s).1 = RMod.smul a (objAtTS c objs x s).1 := by
    rw [objAtTS_smul]; rfl
  have e2 : diffuseAtTS c objs (smulX a x) s = RMod.smul a (diffuseAtTS c objs x s) := by
    unfold diffuseAtTS
    rw [← sumV_map_smul]
    congr 1
    apply List.map_congr_left
    intro k _
    rw [objAtTS_smul, ← LawfulRMod.pmul_smul]; rfl
  have e3 : dsAtTS c dss (smulX a x) s = RMod.smul a (dsAtTS c dss x s) := by
    unfold dsAtTS
    rw [← sumV_map_smul]
    congr 1
    apply List.map_congr_left
    intro it _
    rw [sAt_smul, LawfulRMod.mul_smul]
  have e4 : hoaAtTS c hoas (smulX a x) s = RMod.smul a (hoaAtTS c hoas x s) := by
    unfold hoaAtTS
    rw [← sumV_map_smul]
    congr 1
    apply List.map_congr_left
    intro it _
    rw [← mat_smul]
    congr 1
    rw [List.map_map]
    apply List.map_congr_left
    intro sp _
    exact sAt_smul c sp a x s
  rw [e1, e2, e3, e4, ← LawfulRMod.smul_add, ← LawfulRMod.smul_add, ← LawfulRMod.smul_add]

theorem outTS_add (c : Cfg V) (objs : List (ObjItemTS V)) (dss : List (DsItemTS V)) (hoas : List (HoaItemTS V))
    (x y : List (List Rat)) (h : SameShape c.n_in x y) :
    outTS c objs dss hoas (addX x y) =
      List.zipWith (· + ·) (outTS c objs dss hoas x) (outTS c objs dss hoas y) := by
  have hl : (addX x y).length = x.length := by simp only [addX, List.length_zipWith]; have := h.len; omega
  simp only [outTS, hl, ← h.len]
  rw [List.zipWith_map_left, List.zipWith_map_right, List.zipWith_self]
  apply List.map_congr_left
  intro s _
  exact outAtTS_add c objs dss hoas x y h s

theorem outTS_smul (c : Cfg V) (objs : List (ObjItemTS V)) (dss : List (DsItemTS V)) (hoas : List (HoaItemTS V))
    (a : Rat) (x : List (List Rat)) :
    outTS c objs dss hoas (smulX a x) = (outTS c objs dss hoas x).map (RMod.smul a) := by
  simp only [outTS, smulX, List.length_map, List.map_map]
  apply List.map_congr_left
  intro s _
  exact outAtTS_smul c objs dss hoas a x s

end

end Earverif.RendererTS
