/-
C15 — the document-level repair (`Model/TimingFixDoc.lean`) acts on every audioChannelFormat as the
per-channel model (`Model/TimingFix.lean`) with `objs` = the audioObjects whose channel allocation
contains the channel (`objsFor`).  Core Lean only.
-/
import Earverif.Model.TimingFixDoc
import Earverif.Proofs.C15

set_option linter.unusedVariables false
set_option linter.unusedSimpArgs false

namespace Earverif.TimingFix

/-! ### tables -/

theorem Table.get_set_ne (t : Table) (c c' : Nat) (x : List Block) (h : c' ≠ c) :
    Table.get (t.set c' x) c = Table.get t c := by
  simp [Table.get, List.getD_eq_getElem?_getD, List.getElem?_set_ne h]

theorem Table.get_of_le (t : Table) (c : Nat) (h : t.length ≤ c) : Table.get t c = [] := by
  simp [Table.get, List.getD_eq_getElem?_getD, List.getElem?_eq_none h]

theorem Table.get_set_self_lt (t : Table) (c : Nat) (x : List Block) (h : c < t.length) :
    Table.get (t.set c x) c = x := by
  simp [Table.get, List.getD_eq_getElem?_getD, List.getElem?_set_self h]

theorem Table.set_get_self (t : Table) (c : Nat) : t.set c (Table.get t c) = t := by
  by_cases h : c < t.length
  · have : Table.get t c = t[c] := by simp [Table.get, List.getD_eq_getElem?_getD, List.getElem?_eq_getElem h]
    rw [this]; exact List.set_getElem_self h
  · exact List.set_eq_of_length_le (by omega)

theorem clampBlocks_nil (i : Nat) (D : Rat) : clampBlocks i D [] = .ok ([], []) := rfl

/-- after clamping channel `c` and storing the result, reading channel `c` gives the result (also
for an index outside the document: there are no blocks then) -/
theorem Table.get_set_clamp (t : Table) (c : Nat) (D : Rat) (r : List Block × List Warn)
    (h : clampBlocks 0 D (Table.get t c) = .ok r) : Table.get (t.set c r.1) c = r.1 := by
  by_cases hc : c < t.length
  · exact Table.get_set_self_lt t c r.1 hc
  · have h0 := Table.get_of_le t c (by omega)
    rw [h0, clampBlocks_nil] at h
    cases h
    rw [List.set_eq_of_length_le (by omega)]
    exact h0

theorem Table.get_map (g : List Block → List Block) (hg : g [] = []) (t : Table) (c : Nat) :
    Table.get (t.map g) c = g (Table.get t c) := by
  by_cases h : c < t.length
  · simp [Table.get, List.getD_eq_getElem?_getD, List.getElem?_map, List.getElem?_eq_getElem h]
  · rw [Table.get_of_le t c (by omega), Table.get_of_le (t.map g) c (by simp; omega), hg]

/-! ### the per-channel clamp over appended object lists -/

theorem cTFO_append : ∀ (a b : List Obj) (bs : List Block),
    checkTimesForObjects (a ++ b) bs =
      (match checkTimesForObjects a bs with
       | .error e => .error e
       | .ok r =>
         match checkTimesForObjects b r.1 with
         | .error e => .error e
         | .ok rs => .ok (rs.1, r.2 ++ rs.2))
  | [], b, bs => by
    simp only [List.nil_append, checkTimesForObjects]
    cases checkTimesForObjects b bs <;> simp
  | o :: a, b, bs => by
    simp only [List.cons_append, checkTimesForObjects]
    cases hd : o.duration with
    | none => simp only [cTFO_append a b bs]
    | some D =>
      simp only
      cases clampBlocks 0 D bs with
      | error e => rfl
      | ok r =>
        simp only [cTFO_append a b r.1]
        cases checkTimesForObjects a r.1 with
        | error e => rfl
        | ok r1 =>
          simp only
          cases checkTimesForObjects b r1.1 with
          | error e => rfl
          | ok r2 => simp [List.append_assoc]

/-- objects without a duration are skipped -/
theorem cTFO_skip : ∀ (a b : List Obj) (bs : List Block), (∀ o ∈ a, o.duration = none) →
    checkTimesForObjects (a ++ b) bs = checkTimesForObjects b bs
  | [], _, _, _ => rfl
  | o :: a, b, bs, h => by
    simp only [List.cons_append, checkTimesForObjects, h o (by simp)]
    exact cTFO_skip a b bs (fun o' ho' => h o' (by simp [ho']))

theorem cTFO_nil : ∀ (objs : List Obj), checkTimesForObjects objs [] = .ok ([], [])
  | [] => rfl
  | o :: os => by
    cases hd : o.duration <;> simp [checkTimesForObjects, hd, clampBlocks, cTFO_nil os]

/-- the copies of object `o` the channel list `cs` contributes to channel `c` -/
def copies (o : Obj) (cs : List Nat) (c : Nat) : List Obj := (cs.filter (· == c)).map (fun _ => o)

theorem copies_cons_self (o : Obj) (cs : List Nat) (c : Nat) : copies o (c :: cs) c = o :: copies o cs c := by
  simp [copies]

theorem copies_cons_ne (o : Obj) (cs : List Nat) (c c' : Nat) (h : c' ≠ c) :
    copies o (c' :: cs) c = copies o cs c := by
  simp [copies, h]

theorem objsFor_cons_some (o : Obj) (cs : List Nat) (rest : List (Obj × Option (List Nat))) (c : Nat) :
    objsFor ((o, some cs) :: rest) c = copies o cs c ++ objsFor rest c := rfl

theorem objsFor_cons_none (o : Obj) (rest : List (Obj × Option (List Nat))) (c : Nat) :
    objsFor ((o, none) :: rest) c = objsFor rest c := rfl

/-! ### pass 3, one audioObject -/

theorem clampChannels_length (D : Rat) : ∀ (cs : List Nat) (t : Table) (r : Table × List DWarn),
    clampChannels D cs t = .ok r → r.1.length = t.length
  | [], t, r, h => by simp only [clampChannels] at h; cases h; rfl
  | c :: cs, t, r, h => by
    simp only [clampChannels] at h
    cases h1 : clampBlocks 0 D (Table.get t c) with
    | error e => simp [h1] at h
    | ok r1 =>
      simp only [h1] at h
      cases h2 : clampChannels D cs (t.set c r1.1) with
      | error e => simp [h2] at h
      | ok r2 =>
        simp only [h2] at h; cases h
        rw [clampChannels_length D cs _ r2 h2]; simp

/-- what `clampChannels` does to channel `c`: the per-channel clamp, once per occurrence of `c` -/
theorem clampChannels_chan (D : Rat) (o : Obj) (ho : o.duration = some D) :
    ∀ (cs : List Nat) (t : Table) (r : Table × List DWarn), clampChannels D cs t = .ok r →
    ∀ c, ∃ ws, checkTimesForObjects (copies o cs c) (Table.get t c) = .ok (Table.get r.1 c, ws)
  | [], t, r, h, c => by simp only [clampChannels] at h; cases h; exact ⟨[], rfl⟩
  | c' :: cs, t, r, h, c => by
    simp only [clampChannels] at h
    cases h1 : clampBlocks 0 D (Table.get t c') with
    | error e => simp [h1] at h
    | ok r1 =>
      simp only [h1] at h
      cases h2 : clampChannels D cs (t.set c' r1.1) with
      | error e => simp [h2] at h
      | ok r2 =>
        simp only [h2] at h; cases h
        obtain ⟨ws, ih⟩ := clampChannels_chan D o ho cs _ r2 h2 c
        by_cases hc : c' = c
        · subst hc
          rw [Table.get_set_clamp t c' D r1 h1] at ih
          refine ⟨r1.2 ++ ws, ?_⟩
          simp only [copies_cons_self, checkTimesForObjects, ho, h1, ih]
        · rw [Table.get_set_ne t c c' r1.1 hc] at ih
          exact ⟨ws, by rw [copies_cons_ne o cs c c' hc]; exact ih⟩

/-- `clampChannels` succeeds when the per-channel clamp does on every channel -/
theorem clampChannels_ok (D : Rat) (o : Obj) (ho : o.duration = some D) :
    ∀ (cs : List Nat) (t : Table),
    (∀ c, ∃ r, checkTimesForObjects (copies o cs c) (Table.get t c) = .ok r) →
    ∃ r, clampChannels D cs t = .ok r
  | [], t, _ => ⟨(t, []), rfl⟩
  | c' :: cs, t, h => by
    obtain ⟨r0, h0⟩ := h c'
    simp only [copies_cons_self, checkTimesForObjects, ho] at h0
    cases h1 : clampBlocks 0 D (Table.get t c') with
    | error e => simp [h1] at h0
    | ok r1 =>
      simp only [h1] at h0
      have ih : ∃ r, clampChannels D cs (t.set c' r1.1) = .ok r := by
        apply clampChannels_ok D o ho cs
        intro c
        by_cases hc : c' = c
        · subst hc
          rw [Table.get_set_clamp t c' D r1 h1]
          cases h3 : checkTimesForObjects (copies o cs c') r1.1 with
          | error e => simp [h3] at h0
          | ok r3 => exact ⟨r3, rfl⟩
        · rw [Table.get_set_ne t c c' r1.1 hc]
          obtain ⟨r, hr⟩ := h c
          rw [copies_cons_ne o cs c c' hc] at hr
          exact ⟨r, hr⟩
      obtain ⟨r2, h2⟩ := ih
      exact ⟨(r2.1, r1.2.map (⟨c', ·⟩) ++ r2.2), by simp only [clampChannels, h1, h2]⟩

theorem clampChannels_stable (D : Rat) : ∀ (cs : List Nat) (t : Table),
    (∀ c ∈ cs, clampBlocks 0 D (Table.get t c) = .ok (Table.get t c, [])) →
    clampChannels D cs t = .ok (t, [])
  | [], t, _ => rfl
  | c :: cs, t, h => by
    simp only [clampChannels, h c (by simp), Table.set_get_self,
      clampChannels_stable D cs t (fun c' hc' => h c' (by simp [hc']))]
    simp

/-! ### pass 3, all audioObjects -/

theorem copies_noDuration (o : Obj) (cs : List Nat) (c : Nat) (h : o.duration = none) :
    ∀ o' ∈ copies o cs c, o'.duration = none := by
  intro o' ho'
  simp only [copies, List.mem_map] at ho'
  obtain ⟨_, _, rfl⟩ := ho'
  exact h

theorem docCheckTimes_length : ∀ (pairs : List (Obj × Option (List Nat))) (t : Table) (r : Table × List DWarn),
    docCheckTimes pairs t = .ok r → r.1.length = t.length
  | [], t, r, h => by simp only [docCheckTimes] at h; cases h; rfl
  | (o, chs) :: rest, t, r, h => by
    simp only [docCheckTimes] at h
    cases hd : o.duration with
    | none => simp only [hd] at h; exact docCheckTimes_length rest t r h
    | some D =>
      simp only [hd] at h
      cases chs with
      | none => simp at h
      | some cs =>
        simp only at h
        cases h1 : clampChannels D cs t with
        | error e => simp [h1] at h
        | ok r1 =>
          simp only [h1] at h
          cases h2 : docCheckTimes rest r1.1 with
          | error e => simp [h2] at h
          | ok r2 =>
            simp only [h2] at h; cases h
            rw [docCheckTimes_length rest _ r2 h2, clampChannels_length D cs t r1 h1]

/-- **The traversal acts per channel.**  If the document-level clamp succeeds, channel `c` ends up as
the per-channel clamp over the audioObjects whose channel list contains `c`. -/
theorem docCheckTimes_chan : ∀ (pairs : List (Obj × Option (List Nat))) (t : Table) (r : Table × List DWarn),
    docCheckTimes pairs t = .ok r →
    ∀ c, ∃ ws, checkTimesForObjects (objsFor pairs c) (Table.get t c) = .ok (Table.get r.1 c, ws)
  | [], t, r, h, c => by simp only [docCheckTimes] at h; cases h; exact ⟨[], rfl⟩
  | (o, chs) :: rest, t, r, h, c => by
    simp only [docCheckTimes] at h
    cases hd : o.duration with
    | none =>
      simp only [hd] at h
      obtain ⟨ws, ih⟩ := docCheckTimes_chan rest t r h c
      refine ⟨ws, ?_⟩
      cases chs with
      | none => rw [objsFor_cons_none]; exact ih
      | some cs => rw [objsFor_cons_some, cTFO_skip _ _ _ (copies_noDuration o cs c hd)]; exact ih
    | some D =>
      simp only [hd] at h
      cases chs with
      | none => simp at h
      | some cs =>
        simp only at h
        cases h1 : clampChannels D cs t with
        | error e => simp [h1] at h
        | ok r1 =>
          simp only [h1] at h
          cases h2 : docCheckTimes rest r1.1 with
          | error e => simp [h2] at h
          | ok r2 =>
            simp only [h2] at h; cases h
            obtain ⟨ws1, a1⟩ := clampChannels_chan D o hd cs t r1 h1 c
            obtain ⟨ws2, a2⟩ := docCheckTimes_chan rest r1.1 r2 h2 c
            exact ⟨ws1 ++ ws2, by rw [objsFor_cons_some, cTFO_append, a1]; simp only [a2]⟩

/-- the document-level clamp succeeds when the allocator does for every audioObject with a duration
and the per-channel clamp does on every channel -/
theorem docCheckTimes_ok : ∀ (pairs : List (Obj × Option (List Nat))) (t : Table),
    (∀ p ∈ pairs, p.1.duration.isSome = true → p.2.isSome = true) →
    (∀ c, ∃ r, checkTimesForObjects (objsFor pairs c) (Table.get t c) = .ok r) →
    ∃ r, docCheckTimes pairs t = .ok r
  | [], t, _, _ => ⟨(t, []), rfl⟩
  | (o, chs) :: rest, t, hm, h => by
    have hm' : ∀ p ∈ rest, p.1.duration.isSome = true → p.2.isSome = true :=
      fun p hp => hm p (by simp [hp])
    cases hd : o.duration with
    | none =>
      have : ∀ c, ∃ r, checkTimesForObjects (objsFor rest c) (Table.get t c) = .ok r := by
        intro c
        obtain ⟨r, hr⟩ := h c
        cases chs with
        | none => exact ⟨r, hr⟩
        | some cs =>
          rw [objsFor_cons_some, cTFO_skip _ _ _ (copies_noDuration o cs c hd)] at hr
          exact ⟨r, hr⟩
      obtain ⟨r, hr⟩ := docCheckTimes_ok rest t hm' this
      exact ⟨r, by simp only [docCheckTimes, hd, hr]⟩
    | some D =>
      cases chs with
      | none => have := hm (o, none) (by simp) (by simp [hd]); simp at this
      | some cs =>
        -- split every channel's run into this object's copies and the rest
        have split : ∀ c, ∃ r1, checkTimesForObjects (copies o cs c) (Table.get t c) = .ok r1 ∧
            ∃ r2, checkTimesForObjects (objsFor rest c) r1.1 = .ok r2 := by
          intro c
          obtain ⟨r, hr⟩ := h c
          rw [objsFor_cons_some, cTFO_append] at hr
          cases h1 : checkTimesForObjects (copies o cs c) (Table.get t c) with
          | error e => simp [h1] at hr
          | ok r1 =>
            simp only [h1] at hr
            cases h2 : checkTimesForObjects (objsFor rest c) r1.1 with
            | error e => simp [h2] at hr
            | ok r2 => exact ⟨r1, rfl, r2, h2⟩
        obtain ⟨r1, h1⟩ := clampChannels_ok D o hd cs t (fun c => ⟨(split c).choose, (split c).choose_spec.1⟩)
        have : ∀ c, ∃ r, checkTimesForObjects (objsFor rest c) (Table.get r1.1 c) = .ok r := by
          intro c
          obtain ⟨q1, e1, q2, e2⟩ := split c
          obtain ⟨ws, a1⟩ := clampChannels_chan D o hd cs t r1 h1 c
          rw [a1] at e1
          cases e1
          exact ⟨q2, e2⟩
        obtain ⟨r2, h2⟩ := docCheckTimes_ok rest r1.1 hm' this
        exact ⟨(r2.1, r1.2 ++ r2.2), by simp only [docCheckTimes, hd, h1, h2]⟩

theorem mem_objsFor : ∀ (pairs : List (Obj × Option (List Nat))) (o : Obj) (cs : List Nat) (c : Nat),
    (o, some cs) ∈ pairs → c ∈ cs → o ∈ objsFor pairs c
  | [], _, _, _, h, _ => by simp at h
  | (o', chs) :: rest, o, cs, c, h, hc => by
    simp only [List.mem_cons] at h
    rcases h with h | h
    · cases h
      rw [objsFor_cons_some]
      apply List.mem_append_left
      simp only [copies, List.mem_map, List.mem_filter]
      exact ⟨c, ⟨hc, by simp⟩, trivial⟩
    · have := mem_objsFor rest o cs c h hc
      cases chs with
      | none => rw [objsFor_cons_none]; exact this
      | some cs' => rw [objsFor_cons_some]; exact List.mem_append_right _ this

theorem docCheckTimes_stable : ∀ (pairs : List (Obj × Option (List Nat))) (t : Table),
    (∀ p ∈ pairs, p.1.duration.isSome = true → p.2.isSome = true) →
    (∀ o cs D c, (o, some cs) ∈ pairs → o.duration = some D → c ∈ cs →
      clampBlocks 0 D (Table.get t c) = .ok (Table.get t c, [])) →
    docCheckTimes pairs t = .ok (t, [])
  | [], t, _, _ => rfl
  | (o, chs) :: rest, t, hm, h => by
    have ih := docCheckTimes_stable rest t (fun p hp => hm p (by simp [hp]))
      (fun o' cs' D' c' hp hd hc => h o' cs' D' c' (by simp [hp]) hd hc)
    cases hd : o.duration with
    | none => simp only [docCheckTimes, hd, ih]
    | some D =>
      cases chs with
      | none => have := hm (o, none) (by simp) (by simp [hd]); simp at this
      | some cs =>
        have := clampChannels_stable D cs t (fun c hc => h o cs D c (by simp) hd hc)
        simp only [docCheckTimes, hd, this, ih]
        simp

/-! ### passes 1 and 2 -/

theorem docPass_fst (f : List Block → List Block × List Warn) : ∀ (t : Table) (c : Nat),
    (docPass f c t).1 = t.map fun bs => (f bs).1
  | [], _ => rfl
  | bs :: rest, c => by simp only [docPass, List.map_cons, docPass_fst f rest (c + 1)]

theorem docPass_stable (f : List Block → List Block × List Warn) : ∀ (t : Table) (c : Nat),
    (∀ bs ∈ t, f bs = (bs, [])) → docPass f c t = (t, [])
  | [], _, _ => rfl
  | bs :: rest, c, h => by
    simp only [docPass, h bs (by simp), docPass_stable f rest (c + 1) (fun b hb => h b (by simp [hb]))]
    simp

theorem mem_get (t : Table) (bs : List Block) (h : bs ∈ t) : ∃ c, c < t.length ∧ Table.get t c = bs := by
  obtain ⟨c, hc, e⟩ := List.getElem_of_mem h
  exact ⟨c, hc, by simp [Table.get, List.getD_eq_getElem?_getD, List.getElem?_eq_getElem hc, e]⟩

/-! ### the whole repair -/

theorem docFix_length (pairs : List (Obj × Option (List Nat))) (t : Table) (r : Table × List DWarn)
    (h : docFix pairs t = .ok r) : r.1.length = t.length := by
  simp only [docFix] at h
  cases h1 : docCheckTimes pairs (docPass (checkILs 0) 0 (docPass (checkDurations 0) 0 t).1).1 with
  | error e => simp [h1] at h
  | ok r1 =>
    simp only [h1] at h; cases h
    rw [docCheckTimes_length _ _ r1 h1, docPass_fst, docPass_fst]; simp

/-- **docFix_channel.**  A successful document-level repair leaves every audioChannelFormat `c` as
the per-channel model `fixTimings` leaves it, with `objs` = the audioObjects whose allocation
contains `c` (in document order). -/
theorem docFix_channel (pairs : List (Obj × Option (List Nat))) (t : Table) (r : Table × List DWarn)
    (h : docFix pairs t = .ok r) (c : Nat) :
    ∃ ws, fixTimings (objsFor pairs c) (Table.get t c) = .ok (Table.get r.1 c, ws) := by
  simp only [docFix] at h
  cases h1 : docCheckTimes pairs (docPass (checkILs 0) 0 (docPass (checkDurations 0) 0 t).1).1 with
  | error e => simp [h1] at h
  | ok r1 =>
    simp only [h1] at h; cases h
    obtain ⟨ws, a⟩ := docCheckTimes_chan pairs _ r1 h1 c
    rw [docPass_fst, docPass_fst, Table.get_map _ rfl, Table.get_map _ rfl] at a
    exact ⟨(checkDurations 0 (Table.get t c)).2 ++ (checkILs 0 (checkDurations 0 (Table.get t c)).1).2 ++ ws,
      by simp only [fixTimings, a]⟩

/-- the document-level repair succeeds when the allocator does for every audioObject with a
duration and the per-channel repair does on every channel of the document -/
theorem docFix_ok (pairs : List (Obj × Option (List Nat))) (t : Table)
    (hm : ∀ p ∈ pairs, p.1.duration.isSome = true → p.2.isSome = true)
    (h : ∀ c, c < t.length → ∃ r, fixTimings (objsFor pairs c) (Table.get t c) = .ok r) :
    ∃ r, docFix pairs t = .ok r := by
  have : ∀ c, ∃ r, checkTimesForObjects (objsFor pairs c)
      (Table.get (docPass (checkILs 0) 0 (docPass (checkDurations 0) 0 t).1).1 c) = .ok r := by
    intro c
    rw [docPass_fst, docPass_fst, Table.get_map _ rfl, Table.get_map _ rfl]
    by_cases hc : c < t.length
    · obtain ⟨r, hr⟩ := h c hc
      simp only [fixTimings] at hr
      cases h3 : checkTimesForObjects (objsFor pairs c) (checkILs 0 (checkDurations 0 (Table.get t c)).1).1 with
      | error e => simp [h3] at hr
      | ok r3 => exact ⟨r3, rfl⟩
    · rw [Table.get_of_le t c (by omega)]
      exact ⟨_, cTFO_nil _⟩
  obtain ⟨r, hr⟩ := docCheckTimes_ok pairs _ hm this
  exact ⟨(r.1, (docPass (checkDurations 0) 0 t).2 ++ (docPass (checkILs 0) 0 (docPass (checkDurations 0) 0 t).1).2 ++ r.2),
    by simp only [docFix, hr]⟩

/-- fixed points: a document all of whose channels are `Stable` is returned unchanged, silently -/
theorem docFix_stable (pairs : List (Obj × Option (List Nat))) (t : Table)
    (hm : ∀ p ∈ pairs, p.1.duration.isSome = true → p.2.isSome = true)
    (h : ∀ c, c < t.length → Stable (objsFor pairs c) (Table.get t c)) :
    docFix pairs t = .ok (t, []) := by
  have p1 : docPass (checkDurations 0) 0 t = (t, []) := by
    apply docPass_stable
    intro bs hbs
    obtain ⟨c, hc, rfl⟩ := mem_get t bs hbs
    obtain ⟨s1, s2, _, _⟩ := h c hc
    exact checkDurations_stable _ 0 s1 s2
  have p2 : docPass (checkILs 0) 0 t = (t, []) := by
    apply docPass_stable
    intro bs hbs
    obtain ⟨c, hc, rfl⟩ := mem_get t bs hbs
    obtain ⟨_, _, s3, _⟩ := h c hc
    exact checkILs_stable _ 0 s3
  have p3 : docCheckTimes pairs t = .ok (t, []) := by
    apply docCheckTimes_stable pairs t hm
    intro o cs D c hp hd hc
    by_cases hlt : c < t.length
    · obtain ⟨s1, _, _, s4⟩ := h c hlt
      have := s4 o (mem_objsFor pairs o cs c hp hc) D hd
      exact clampBlocks_stable D _ 0 s1 this.1 this.2
    · rw [Table.get_of_le t c (by omega)]; rfl
  simp only [docFix, p1, p2, p3]
  simp

end Earverif.TimingFix
