/- C01: `renderConcreteCart` — the sorted grid `_speaker_tree` builds (C13's `TreeS`) is well-formed in the sense of
   `allo_unit_power` (`TreeWF`), hence the Cartesian point path satisfies the invariant with no panner hypothesis. -/
import Earverif.Model.GainCalcConcrete
import Earverif.Proofs.C01Allo
import Earverif.Proofs.C01Pipe
import Earverif.Proofs.C13Tree
import Earverif.Proofs.C13Allo
import Earverif.Proofs.C13CartLock
import Earverif.Proofs.C13Real
import Earverif.Proofs.C19Real

namespace Earverif.GainCalc
open Earverif.C13 (TreeS PlaneS RowS rowKey planeKey leaves Distinct)

/-! ### from C13's sorted grid to `TreeWF` -/

theorem mem_leaves {st : Tree ℝ} {a : Leaf ℝ} : a ∈ leaves st ↔ ∃ pl ∈ st, ∃ row ∈ pl, a ∈ row := by
  simp only [leaves, List.mem_flatten]
  constructor
  · rintro ⟨row, ⟨pl, hpl, hrow⟩, ha⟩; exact ⟨pl, hpl, row, hrow, ha⟩
  · rintro ⟨pl, hpl, row, hrow, ha⟩; exact ⟨row, ⟨pl, hpl, hrow⟩, ha⟩

theorem pairwise_lt_getElem_ne {β : Type} (key : β → ℝ) (l : List β) (h : l.Pairwise fun a b => key a < key b)
    {i j : Nat} {a b : β} (hij : i ≠ j) (hi : l[i]? = some a) (hj : l[j]? = some b) : key a ≠ key b := by
  rw [List.pairwise_iff_getElem] at h
  obtain ⟨hi', rfl⟩ := List.getElem?_eq_some_iff.mp hi
  obtain ⟨hj', rfl⟩ := List.getElem?_eq_some_iff.mp hj
  rcases Nat.lt_or_gt_of_ne hij with hlt | hgt
  · exact (h i j hi' hj' hlt).ne
  · exact (h j i hj' hi' hgt).ne'

theorem nodup_map_of_pairwise_lt {β : Type} (key : β → ℝ) (l : List β) (h : l.Pairwise fun a b => key a < key b) :
    (l.map key).Nodup := by
  rw [List.Nodup, List.pairwise_map]
  exact h.imp (fun hab => hab.ne)

/-- the grid `_speaker_tree` builds from the positions `ps` (sorted, leaves = indexed positions) satisfies the
    well-formedness hypothesis of `allo_unit_power` -/
theorem treeWF_of_TreeS (ps : List (Zone.P3 ℝ)) (st : Tree ℝ) (hts : TreeS st)
    (hm : ∀ a, a ∈ leaves st ↔ ∃ k c, ps[k]? = some c ∧ a = ⟨k, c.x, c.y, c.z⟩) : TreeWF ps.length st := by
  -- a leaf is determined by its index, and indices are in range
  have hinj : ∀ a b, a ∈ leaves st → b ∈ leaves st → a.idx = b.idx → a = b := by
    intro a b ha hb hab
    obtain ⟨k, c, hk, rfl⟩ := (hm a).mp ha
    obtain ⟨k', c', hk', rfl⟩ := (hm b).mp hb
    simp only at hab
    subst hab
    rw [hk] at hk'
    cases hk'
    rfl
  have hlt : ∀ a, a ∈ leaves st → a.idx < ps.length := by
    intro a ha
    obtain ⟨k, c, hk, rfl⟩ := (hm a).mp ha
    exact (List.getElem?_eq_some_iff.mp hk).1
  have hrowS : ∀ pl ∈ st, ∀ row ∈ pl, RowS (rowKey row) (planeKey pl) row :=
    fun pl hpl row hrow => (hts.planes pl hpl).2.rows row hrow
  have hrowWF : ∀ pl ∈ st, ∀ row ∈ pl, RowWF ps.length row := by
    intro pl hpl row hrow
    have hr := hrowS pl hpl row hrow
    refine ⟨nodup_map_of_pairwise_lt (·.x) row hr.sorted, ?_, ?_⟩
    · rw [rowIdx, List.Nodup, List.pairwise_map]
      refine hr.sorted.imp_of_mem ?_
      intro a b ha hb hab he
      have := hinj a b (mem_leaves.mpr ⟨pl, hpl, row, hrow, ha⟩) (mem_leaves.mpr ⟨pl, hpl, row, hrow, hb⟩) he
      rw [this] at hab
      exact lt_irrefl _ hab
    · intro l hl
      exact hlt l (mem_leaves.mpr ⟨pl, hpl, row, hrow, hl⟩)
  have hplaneWF : ∀ pl ∈ st, PlaneWF ps.length pl := by
    intro pl hpl
    have hp := (hts.planes pl hpl).2
    refine ⟨hrowWF pl hpl, ?_, ?_⟩
    · intro yc h
      have := C13.mapM_option_map rowY rowKey pl (fun r hr => C13.rowY_of_RowS (hp.rows r hr))
      rw [this] at h
      cases h
      exact nodup_map_of_pairwise_lt rowKey pl hp.sorted
    · intro i j r0 r1 hij h0 h1 a ha ha'
      simp only [rowIdx, List.mem_map] at ha ha'
      obtain ⟨l0, hl0, rfl⟩ := ha
      obtain ⟨l1, hl1, he⟩ := ha'
      have hr0 := List.mem_of_getElem? h0
      have hr1 := List.mem_of_getElem? h1
      have := hinj l1 l0 (mem_leaves.mpr ⟨pl, hpl, r1, hr1, hl1⟩) (mem_leaves.mpr ⟨pl, hpl, r0, hr0, hl0⟩) he
      subst this
      have hy0 := ((hp.rows r0 hr0).yz l1 hl0).1
      have hy1 := ((hp.rows r1 hr1).yz l1 hl1).1
      exact pairwise_lt_getElem_ne rowKey pl hp.sorted hij h0 h1 (hy0.symm.trans hy1)
  refine ⟨hplaneWF, ?_, ?_⟩
  · intro zc h
    have := C13.mapM_option_map planeZ planeKey st
      (fun p hp => C13.planeZ_of_PlaneS (hts.planes p hp).1 (hts.planes p hp).2)
    rw [this] at h
    cases h
    exact nodup_map_of_pairwise_lt planeKey st hts.sorted
  · intro i j p0 p1 hij h0 h1 a ha ha'
    simp only [planeIdx, List.mem_map, List.mem_flatten] at ha ha'
    obtain ⟨l0, ⟨r0, hr0, hl0⟩, rfl⟩ := ha
    obtain ⟨l1, ⟨r1, hr1, hl1⟩, he⟩ := ha'
    have hp0 := List.mem_of_getElem? h0
    have hp1 := List.mem_of_getElem? h1
    have := hinj l1 l0 (mem_leaves.mpr ⟨p1, hp1, r1, hr1, hl1⟩) (mem_leaves.mpr ⟨p0, hp0, r0, hr0, hl0⟩) he
    subst this
    have hz0 := ((hrowS p0 hp0 r0 hr0).yz l1 hl0).2
    have hz1 := ((hrowS p1 hp1 r1 hr1).yz l1 hl1).2
    exact pairwise_lt_getElem_ne planeKey st hts.sorted hij h0 h1 (hz0.symm.trans hz1)

/-- **The allocentric panner on any set of pairwise distinct positions**: `_speaker_tree` succeeds, and for every
    position `handle` returns a non-negative vector of length `|ps|` with Σ² = 1 (whenever it returns: it does as soon
    as `ps` is non-empty, `alloHandle_total`). -/
theorem allo_unit_power_distinct (ps : List (Zone.P3 ℝ)) (hd : Distinct ps) (st : Tree ℝ)
    (hst : CartLock.speakerTree ps = some st) (px py pz : ℝ) (r : List ℝ)
    (h : alloHandle ps.length st px py pz = some r) : Nonneg r ∧ sumSq r = 1 ∧ r.length = ps.length := by
  obtain ⟨st', hst', hts, hm⟩ := C13.speakerTree_spec ps hd
  rw [hst] at hst'
  cases hst'
  have hw := treeWF_of_TreeS ps st hts hm
  refine ⟨(allo_unit_power ps.length st hw px py pz r h).1, (allo_unit_power ps.length st hw px py pz r h).2, ?_⟩
  simp only [alloHandle, Option.map_eq_some_iff] at h
  obtain ⟨ws, _, rfl⟩ := h
  simp [applyWrites, length_foldl_set]

/-! ### `renderConcreteCart` -/

theorem countF_eq_countFalse : ∀ m : List Bool, C13.countF m = countFalse m
  | [] => rfl
  | true :: m => by simp [C13.countF, countFalse, countF_eq_countFalse m]
  | false :: m => by simp [C13.countF, countFalse, countF_eq_countFalse m]

theorem mapM_length {β γ : Type} (f : β → Option γ) : ∀ (l : List β) (out : List γ), l.mapM f = some out →
    out.length = l.length
  | [], out, h => by simp at h; subst h; rfl
  | b :: l, out, h => by
    rw [List.mapM_cons] at h
    cases hb : f b with
    | none => simp [hb] at h
    | some c =>
      cases hl : l.mapM f with
      | none => simp [hb, hl] at h
      | some cs =>
        simp only [hb, hl, Option.bind_eq_bind, Option.bind_some, Option.pure_def, Option.some.injEq] at h
        subst h
        simp [mapM_length f l cs hl]

/-- what the theorem needs of the environment: shapes, and pairwise distinct allocentric positions
    (table obligations, `decide` on the regenerated tables) -/
structure EnvOk (E : LayoutEnv ℝ) : Prop where
  lfe : countFalse E.isLfe = E.n
  spks : E.spks.length = E.n
  allo : E.allo.length = E.n
  distinct : Distinct E.allo

/-! ### the environment read off the regenerated table, over ℝ -/

/-- a table row as exact rationals -/
def ratP3Row (r : List (Int × Nat)) : Zone.P3 Rat :=
  match r with
  | [x, y, z] => ⟨mkRat x.1 x.2, mkRat y.1 y.2, mkRat z.1 z.2⟩
  | _ => ⟨0, 0, 0⟩

theorem p3OfRow_real (r : List (Int × Nat)) : (p3OfRow r : Zone.P3 ℝ) = C13.castP3 (ratP3Row r) := by
  unfold p3OfRow ratP3Row
  split <;> simp [C13.castP3, qOf]

/-- decidable table obligations of `EnvOk` -/
def envOkB (T : LayoutTable) : Bool :=
  C13.distinctB (T.allo.map ratP3Row) && T.spk.length == T.n && T.allo.length == T.n && countFalse T.isLfe == T.n

theorem envOk_of_table (T : LayoutTable) (fuel : Nat) (h : envOkB T = true) : EnvOk (T.env fuel : LayoutEnv ℝ) := by
  simp only [envOkB, Bool.and_eq_true, beq_iff_eq] at h
  obtain ⟨⟨⟨hd, hs⟩, ha⟩, hl⟩ := h
  refine ⟨by simpa [LayoutTable.env] using hl, by simpa [LayoutTable.env] using hs, by simpa [LayoutTable.env] using ha, ?_⟩
  have : (T.env fuel : LayoutEnv ℝ).allo = (T.allo.map ratP3Row).map C13.castP3 := by
    simp only [LayoutTable.env, List.map_map]
    exact List.map_congr_left (fun r _ => p3OfRow_real r)
  rw [this]
  exact C13.distinct_cast _ hd

end Earverif.GainCalc
