/- C05, Stage 3 for QuadRegion, table side: soundness of the Bool sign check `Cover.quadRegionOk`
   (Model/PointSourceCover.lean, scaled integer arithmetic) with respect to `QuadSigns` (Proofs/C05CoverQuad.lean) on the
   real corner coordinates, hence `QuadAcceptsOnCone GainCalc.quadRoot` for every checked table. -/
import Earverif.Proofs.C05CoverQuad

namespace Earverif.PointSource.Cover
open Earverif.PointSource
open Earverif.GainCalc (quadRoot)

/-! ### integers to reals -/

theorem sub3_cast (a b : IV) : sub3 (castV a) (castV b) = castV (isub a b) := by
  simp only [sub3, castV, isub]; push_cast; rfl

theorem cross3_cast (a b : IV) : cross3 (castV a) (castV b) = castV (icross a b) := by
  simp only [cross3, castV, icross]; push_cast; rfl

theorem smul3_cast (k : Int) (a : IV) : smul3 (k : ℝ) (castV a) = castV (ismul k a) := by
  simp only [smul3, castV, ismul]; push_cast; rfl

theorem bigE_cast : bigE = ((bigEI : ℤ) : ℝ) := by unfold bigE bigEI; norm_num

theorem loPt_cast (a b : IV) : loPt (castV a) (castV b) = castV (iloPt a b) := by
  unfold loPt iloPt; rw [bigE_cast, smul3_cast, sub3_cast, sub3_cast]

theorem hiPt_cast (a b : IV) : hiPt (castV a) (castV b) = castV (ihiPt a b) := by
  unfold hiPt ihiPt; rw [bigE_cast, smul3_cast, sub3_cast, add3_cast]

/-- the real sign of a flip flag -/
noncomputable def sgnR (f : Bool) : ℝ := if f then -1 else 1

theorem sgnR_pm (f : Bool) : sgnR f = 1 ∨ sgnR f = -1 := by cases f <;> simp [sgnR]

theorem sgn_cast (f : Bool) (x : Int) : ((sgn f x : ℤ) : ℝ) = sgnR f * (x : ℝ) := by
  cases f <;> simp [sgn, sgnR]

theorem axisSignsOk_sound (f : Bool) (a b c d : IV) (h : axisSignsOk f a b c d = true) :
    AxisSigns (sgnR f) (castV a) (castV b) (castV c) (castV d) := by
  unfold axisSignsOk at h
  simp only [Bool.and_eq_true, decide_eq_true_eq] at h
  obtain ⟨⟨⟨⟨⟨⟨⟨h1, h2⟩, h3⟩, h4⟩, h5⟩, h6⟩, h7⟩, h8⟩ := h
  constructor
  · rw [loPt_cast, loPt_cast, det3_cast, ← sgn_cast]; exact_mod_cast h1
  · rw [loPt_cast, loPt_cast, det3_cast, ← sgn_cast]; exact_mod_cast h2
  · rw [loPt_cast, loPt_cast, det3_cast, ← sgn_cast]; exact_mod_cast h3
  · rw [loPt_cast, loPt_cast, det3_cast, ← sgn_cast]; exact_mod_cast h4
  · rw [hiPt_cast, hiPt_cast, det3_cast, ← sgn_cast]; exact_mod_cast h5
  · rw [hiPt_cast, hiPt_cast, det3_cast, ← sgn_cast]; exact_mod_cast h6
  · rw [hiPt_cast, hiPt_cast, det3_cast, ← sgn_cast]; exact_mod_cast h7
  · rw [hiPt_cast, hiPt_cast, det3_cast, ← sgn_cast]; exact_mod_cast h8

theorem quadSignsOk_sound (a b c d : IV) (h : quadSignsOk a b c d = true) :
    QuadSigns (castV a) (castV b) (castV c) (castV d) := by
  unfold quadSignsOk at h
  simp only [Bool.and_eq_true, decide_eq_true_eq] at h
  obtain ⟨⟨⟨⟨⟨⟨⟨⟨⟨h1, h2⟩, h3⟩, h4⟩, h5⟩, h6⟩, h7⟩, h8⟩, hx⟩, hy⟩ := h
  refine ⟨sgnR (decide (idet a b c < 0)), sgnR (decide (idot (icross (isub c a) (isub d b)) a < 0)), sgnR_pm _,
    ?_, ?_, ?_, ?_, ?_, ?_, ?_, ?_, axisSignsOk_sound _ a b c d hx, axisSignsOk_sound _ b c d a hy⟩
  · rw [det3_cast, ← sgn_cast]; exact_mod_cast h1
  · rw [det3_cast, ← sgn_cast]; exact_mod_cast h2
  · rw [det3_cast, ← sgn_cast]; exact_mod_cast h3
  · rw [det3_cast, ← sgn_cast]; exact_mod_cast h4
  · rw [sub3_cast, sub3_cast, cross3_cast, dot3_cast, ← sgn_cast]; exact_mod_cast h5
  · rw [sub3_cast, sub3_cast, cross3_cast, dot3_cast, ← sgn_cast]; exact_mod_cast h6
  · rw [sub3_cast, sub3_cast, cross3_cast, dot3_cast, ← sgn_cast]; exact_mod_cast h7
  · rw [sub3_cast, sub3_cast, cross3_cast, dot3_cast, ← sgn_cast]; exact_mod_cast h8

/-! ### the certificate does not depend on the scale -/

theorem loPt_smul (S : ℝ) (a b : Vec3 ℝ) : loPt (smul3 S a) (smul3 S b) = smul3 S (loPt a b) := by
  obtain ⟨a0, a1, a2⟩ := a
  obtain ⟨b0, b1, b2⟩ := b
  simp only [loPt, sub3, smul3]
  refine Prod.ext ?_ (Prod.ext ?_ ?_) <;> simp only <;> ring

theorem hiPt_smul (S : ℝ) (a b : Vec3 ℝ) : hiPt (smul3 S a) (smul3 S b) = smul3 S (hiPt a b) := by
  obtain ⟨a0, a1, a2⟩ := a
  obtain ⟨b0, b1, b2⟩ := b
  simp only [hiPt, add3, sub3, smul3]
  refine Prod.ext ?_ (Prod.ext ?_ ?_) <;> simp only <;> ring

theorem edot_smul (S : ℝ) (a b c d P : Vec3 ℝ) :
    dot3 (cross3 (sub3 (smul3 S c) (smul3 S a)) (sub3 (smul3 S d) (smul3 S b))) (smul3 S P) =
      S ^ 3 * dot3 (cross3 (sub3 c a) (sub3 d b)) P := by
  obtain ⟨a0, a1, a2⟩ := a
  obtain ⟨b0, b1, b2⟩ := b
  obtain ⟨c0, c1, c2⟩ := c
  obtain ⟨d0, d1, d2⟩ := d
  obtain ⟨P0, P1, P2⟩ := P
  simp only [dot3, cross3, sub3, smul3]; ring

theorem pos_of_scaled {s T X : ℝ} (hT : 0 < T) (h : 0 < s * (T * X)) : 0 < s * X := by
  have : s * (T * X) = T * (s * X) := by ring
  rw [this] at h
  exact (pos_iff_pos_of_mul_pos h).mp hT

theorem nonneg_of_scaled {s T X : ℝ} (hT : 0 < T) (h : 0 ≤ s * (T * X)) : 0 ≤ s * X := by
  have : s * (T * X) = T * (s * X) := by ring
  rw [this] at h
  exact nonneg_of_mul_nonneg_right h hT

theorem nonpos_of_scaled {s T X : ℝ} (hT : 0 < T) (h : s * (T * X) ≤ 0) : s * X ≤ 0 := by
  have : s * (T * X) = T * (s * X) := by ring
  rw [this] at h
  by_contra hn
  exact absurd (mul_pos hT (not_le.mp hn)) (not_lt.mpr h)

theorem AxisSigns.of_scaled {s S : ℝ} (hS : 0 < S) {a b c d : Vec3 ℝ}
    (h : AxisSigns s (smul3 S a) (smul3 S b) (smul3 S c) (smul3 S d)) : AxisSigns s a b c d := by
  have hT : 0 < S ^ 3 := by positivity
  obtain ⟨h1, h2, h3, h4, h5, h6, h7, h8⟩ := h
  rw [loPt_smul, loPt_smul, det3_smul] at h1 h2 h3 h4
  rw [hiPt_smul, hiPt_smul, det3_smul] at h5 h6 h7 h8
  exact ⟨nonpos_of_scaled hT h1, nonpos_of_scaled hT h2, nonpos_of_scaled hT h3, nonpos_of_scaled hT h4,
    nonneg_of_scaled hT h5, nonneg_of_scaled hT h6, nonneg_of_scaled hT h7, nonneg_of_scaled hT h8⟩

theorem QuadSigns.of_scaled {S : ℝ} (hS : 0 < S) {a b c d : Vec3 ℝ}
    (h : QuadSigns (smul3 S a) (smul3 S b) (smul3 S c) (smul3 S d)) : QuadSigns a b c d := by
  have hT : 0 < S ^ 3 := by positivity
  obtain ⟨s, s', hs, h1, h2, h3, h4, h5, h6, h7, h8, hx, hy⟩ := h
  rw [det3_smul] at h1 h2 h3 h4
  rw [edot_smul] at h5 h6 h7 h8
  exact ⟨s, s', hs, pos_of_scaled hT h1, pos_of_scaled hT h2, pos_of_scaled hT h3, pos_of_scaled hT h4,
    pos_of_scaled hT h5, pos_of_scaled hT h6, pos_of_scaled hT h7, pos_of_scaled hT h8, hx.of_scaled hS, hy.of_scaled hS⟩

/-! ### the table check -/

theorem getD_scaled (K : Nat) (q0 q1 q2 q3 : P3) (w0 w1 w2 w3 : IV)
    (e0 : castV w0 = smul3 ((2 : ℝ) ^ K) (p3 q0)) (e1 : castV w1 = smul3 ((2 : ℝ) ^ K) (p3 q1))
    (e2 : castV w2 = smul3 ((2 : ℝ) ^ K) (p3 q2)) (e3 : castV w3 = smul3 ((2 : ℝ) ^ K) (p3 q3)) (j : Nat) :
    castV ([w0, w1, w2, w3].getD j (0, 0, 0)) =
      smul3 ((2 : ℝ) ^ K) ([(p3 q0 : Vec3 ℝ), p3 q1, p3 q2, p3 q3].getD j zero3) := by
  match j with
  | 0 => simpa using e0
  | 1 => simpa using e1
  | 2 => simpa using e2
  | 3 => simpa using e3
  | n + 4 => simp [castV, smul3, zero3]

/-- a checked QuadRegion: its real ordered corners carry the sign certificate -/
theorem quadRegionOk_sound (K : Nat) (r : RawRegion) (hk : r.kind = 2) (h : quadRegionOk K r = true)
    (q0 q1 q2 q3 : P3) (hpos : r.pos = [q0, q1, q2, q3]) :
    isPermOfRange r.order 4 = true ∧
    QuadSigns ([(p3 q0 : Vec3 ℝ), p3 q1, p3 q2, p3 q3].getD (r.order.getD 0 0) zero3)
      ([(p3 q0 : Vec3 ℝ), p3 q1, p3 q2, p3 q3].getD (r.order.getD 1 0) zero3)
      ([(p3 q0 : Vec3 ℝ), p3 q1, p3 q2, p3 q3].getD (r.order.getD 2 0) zero3)
      ([(p3 q0 : Vec3 ℝ), p3 q1, p3 q2, p3 q3].getD (r.order.getD 3 0) zero3) := by
  unfold quadRegionOk at h
  simp only [hk, bne_self_eq_false, Bool.false_or, Bool.and_eq_true] at h
  obtain ⟨hperm, hm⟩ := h
  refine ⟨hperm, ?_⟩
  rw [hpos] at hm
  split at hm
  · rename_i w0 w1 w2 w3 hmap
    obtain ⟨x0, xs0, f0, hmap, hx0⟩ := mapM_cons_some _ _ _ _ hmap
    obtain ⟨x1, xs1, f1, hmap, hx1⟩ := mapM_cons_some _ _ _ _ hmap
    obtain ⟨x2, xs2, f2, hmap, hx2⟩ := mapM_cons_some _ _ _ _ hmap
    obtain ⟨x3, xs3, f3, hmap, hx3⟩ := mapM_cons_some _ _ _ _ hmap
    subst hx1 hx2 hx3
    simp only [List.cons.injEq] at hx0
    obtain ⟨rfl, rfl, rfl, rfl, _⟩ := hx0
    have hsig := quadSignsOk_sound _ _ _ _ hm
    have g := getD_scaled K q0 q1 q2 q3 _ _ _ _ (scaleP3_real K _ _ f0) (scaleP3_real K _ _ f1)
      (scaleP3_real K _ _ f2) (scaleP3_real K _ _ f3)
    rw [g, g, g, g] at hsig
    exact hsig.of_scaled (by positivity)
  · exact absurd hm (by simp)

/-- **`QuadAcceptsOnCone quadRoot`** for a table all of whose QuadRegions pass the sign check -/
theorem quadAccepts_of_check (K : Nat) (l : RawLayout) (h : l.regions.all (quadRegionOk K) = true) :
    QuadAcceptsOnCone quadRoot l := by
  intro r hr hk q0 q1 q2 q3 hpos g0 g1 g2 g3 p h0 h1 h2 h3 hp hpe
  rw [List.all_eq_true] at h
  obtain ⟨hperm, hsig⟩ := quadRegionOk_sound K r hk (h r hr) q0 q1 q2 q3 hpos
  have := quad_accepts (p3 q0) (p3 q1) (p3 q2) (p3 q3) r.order hperm hsig g0 g1 g2 g3 p h0 h1 h2 h3 hp hpe
  simpa [hpos] using this

end Earverif.PointSource.Cover
