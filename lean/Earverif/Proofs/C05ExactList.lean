/- C05 — exactness at a loudspeaker position: list plumbing over ℝ (unit vectors through `scatter`, `normalise`,
   `VirtualNgon.mix`, the first accepting region, the downmix matrix and the stereo wrapper). -/
import Earverif.Proofs.C05Exact

namespace Earverif.PointSource.Cover
open Earverif.PointSource

/-- the unit vector `e_k` of length `n` (all zeros if `k ≥ n`) -/
noncomputable def unitV (n k : Nat) : List ℝ := (List.replicate n (0 : ℝ)).set k 1

theorem zeros_eq (n : Nat) : (zeros n : List ℝ) = List.replicate n 0 := by simp [zeros]

theorem unitV_zero (n : Nat) : unitV (n + 1) 0 = 1 :: List.replicate n 0 := by
  simp [unitV, List.replicate_succ]

theorem unitV_succ (n k : Nat) : unitV (n + 1) (k + 1) = 0 :: unitV n k := by
  simp [unitV, List.replicate_succ]

theorem length_unitV (n k : Nat) : (unitV n k).length = n := by simp [unitV]

theorem sumsq_replicate_zero : ∀ n : Nat, sumsq (List.replicate n (0 : ℝ)) = 0
  | 0 => by simp [sumsq]
  | n + 1 => by simp [List.replicate_succ, sumsq, sumsq_replicate_zero n]

theorem sumsq_unitV : ∀ (n k : Nat), k < n → sumsq (unitV n k) = 1
  | 0, _, h => by omega
  | n + 1, 0, _ => by rw [unitV_zero]; simp [sumsq, sumsq_replicate_zero]
  | n + 1, k + 1, h => by rw [unitV_succ]; simp [sumsq, sumsq_unitV n k (by omega)]

/-- normalising a unit vector changes nothing -/
theorem normalise_unitV (n k : Nat) (h : k < n) : normalise (unitV n k) = unitV n k := by
  unfold normalise norm
  rw [sumsq_unitV n k h, sqrt_real, Real.sqrt_one]
  simp

/-! ### scatter -/

theorem scatter_nil_vals (out : List ℝ) (is : List Nat) : scatter out is [] = out := by
  cases is <;> rfl

/-- writing zeros where there are zeros already -/
theorem scatter_zeros_of_zero (n : Nat) : ∀ (is : List Nat) (m : Nat),
    scatter (List.replicate n (0 : ℝ)) is (List.replicate m 0) = List.replicate n 0
  | [], m => by cases m <;> rfl
  | i :: is, 0 => rfl
  | i :: is, m + 1 => by
    rw [List.replicate_succ, scatter, List.set_replicate_self]
    exact scatter_zeros_of_zero n is m

/-- writing zeros beside a one -/
theorem scatter_zeros_of_unit (n c : Nat) : ∀ (is : List Nat) (m : Nat), c ∉ is →
    scatter (unitV n c) is (List.replicate m 0) = unitV n c
  | [], m, _ => by cases m <;> rfl
  | i :: is, 0, _ => rfl
  | i :: is, m + 1, h => by
    have hic : c ≠ i := fun e => h (by simp [e])
    have his : c ∉ is := fun e => h (by simp [e])
    rw [List.replicate_succ, scatter]
    have : (unitV n c).set i 0 = unitV n c := by
      unfold unitV
      rw [List.set_comm _ _ hic, List.set_replicate_self]
    rw [this]
    exact scatter_zeros_of_unit n c is m his

theorem allDistinct_cons {x : Nat} {xs : List Nat} (h : allDistinct (x :: xs) = true) :
    x ∉ xs ∧ allDistinct xs = true := by
  simp only [allDistinct, Bool.and_eq_true, Bool.not_eq_true', List.contains_eq_mem, decide_eq_false_iff_not] at h
  exact h

/-- **numpy's `out[channels] = e_s`** for distinct channels is the unit vector of channel number `s` -/
theorem scatter_unit (n : Nat) : ∀ (is : List Nat) (s c : Nat), is[s]? = some c → allDistinct is = true →
    scatter (List.replicate n (0 : ℝ)) is (unitV is.length s) = unitV n c
  | [], s, c, h, _ => by simp at h
  | i :: is, 0, c, h, hd => by
    simp only [List.getElem?_cons_zero, Option.some.injEq] at h
    subst h
    obtain ⟨hni, _⟩ := allDistinct_cons hd
    rw [List.length_cons, unitV_zero, scatter]
    exact scatter_zeros_of_unit n i is is.length hni
  | i :: is, s + 1, c, h, hd => by
    simp only [List.getElem?_cons_succ] at h
    obtain ⟨_, hd'⟩ := allDistinct_cons hd
    rw [List.length_cons, unitV_succ, scatter, List.set_replicate_self]
    exact scatter_unit n is s c h hd'

theorem vecList_unit :
    vecList ((1 : ℝ), (0 : ℝ), (0 : ℝ)) = unitV 3 0 ∧ vecList ((0 : ℝ), (1 : ℝ), (0 : ℝ)) = unitV 3 1 ∧
      vecList ((0 : ℝ), (0 : ℝ), (1 : ℝ)) = unitV 3 2 := by
  simp [vecList, unitV, List.replicate]

/-! ### the first accepting candidate -/

theorem firstAccept_prefix {γ : Type} : ∀ (rs : List (Option γ)) (k : Nat) (g : γ),
    (∀ j, j < k → rs[j]? = some none) → rs[k]? = some (some g) → firstAccept rs = some g := by
  intro rs
  induction rs with
  | nil => intro k g _ h; simp at h
  | cons r rs ih =>
    intro k g hpre hk
    cases k with
    | zero =>
      simp only [List.getElem?_cons_zero, Option.some.injEq] at hk
      subst hk; rfl
    | succ k =>
      have h0 := hpre 0 (by omega)
      simp only [List.getElem?_cons_zero, Option.some.injEq] at h0
      subst h0
      simp only [firstAccept]
      apply ih k g
      · intro j hj
        have := hpre (j + 1) (by omega)
        simpa using this
      · simpa using hk

theorem results_getElem? (regions : List (Region ℝ)) (n : Nat) (roots : Nat → Option ℝ × Option ℝ) (p : Vec3 ℝ)
    (k : Nat) (hk : k < regions.length) :
    (PointSourcePanner.results regions n roots p)[k]? =
      some (remap regions[k].channels n (regions[k].handle (roots k) p)) := by
  unfold PointSourcePanner.results
  simp [hk]

/-- `PointSourcePanner.handle` returns the answer of region `k` when every earlier region answers `None` -/
theorem panner_first (regions : List (Region ℝ)) (n : Nat) (roots : Nat → Option ℝ × Option ℝ) (p : Vec3 ℝ)
    (k : Nat) (reg : Region ℝ) (hk : regions[k]? = some reg) (g : List ℝ)
    (hpre : ∀ j, j < k → ∀ rj, regions[j]? = some rj → rj.handle (roots j) p = none)
    (hacc : reg.handle (roots k) p = some g) :
    PointSourcePanner.handle regions n roots p = some (scatter (zeros n) reg.channels g) := by
  have hlt : k < regions.length := by
    by_contra hge
    rw [List.getElem?_eq_none (by omega)] at hk
    exact absurd hk (by simp)
  have hreg : regions[k] = reg := by
    rw [List.getElem?_eq_getElem hlt, Option.some.injEq] at hk
    exact hk
  unfold PointSourcePanner.handle
  apply firstAccept_prefix _ k
  · intro j hj
    have hjl : j < regions.length := by omega
    rw [results_getElem? regions n roots p j hjl, hpre j hj _ (List.getElem?_eq_getElem hjl)]
    rfl
  · rw [results_getElem? regions n roots p k hlt, hreg, hacc]
    rfl

/-! ### VirtualNgon at one of its loudspeakers -/

theorem take_unitV (n k : Nat) : (unitV (n + 1) k).take n = unitV n k := by
  unfold unitV
  rw [List.take_set, List.take_replicate]
  simp

theorem getD_unitV_last (n k : Nat) (hk : k < n) : (unitV (n + 1) k).getD n 0 = 0 := by
  unfold unitV
  rw [List.getD_eq_getElem?_getD, List.getElem?_set]
  have : k ≠ n := by omega
  simp [this]

theorem zipWith_add_zero : ∀ (v cd : List ℝ), v.length = cd.length →
    List.zipWith (fun x d => x + (0 : ℝ) * d) v cd = v
  | [], [], _ => rfl
  | [], _ :: _, h => by simp at h
  | _ :: _, [], h => by simp at h
  | x :: xs, d :: ds, h => by
    simp only [List.zipWith_cons_cons, zero_mul, add_zero, List.cons.injEq, true_and]
    have := zipWith_add_zero xs ds (by simpa using h)
    simpa using this

/-- the centre gets no gain ⇒ `mix` leaves the unit vector of a real loudspeaker alone -/
theorem mix_unitV (cd : List ℝ) (k : Nat) (hk : k < cd.length) :
    VirtualNgon.mix cd (unitV (cd.length + 1) k) = unitV cd.length k := by
  unfold VirtualNgon.mix
  simp only [zero_real]
  rw [getD_unitV_last _ _ hk, take_unitV, zipWith_add_zero _ _ (length_unitV _ _), normalise_unitV _ _ hk]

/-- the inner triplets of a VirtualNgon -/
theorem ngon_regions_getElem? (g : VirtualNgon ℝ) (i : Nat) (hi : i < g.positions.length) :
    g.regions[i]? = some ([g.order.getD i 0, g.order.getD ((i + 1) % g.positions.length) 0, g.positions.length],
      (g.positions.getD (g.order.getD i 0) zero3, g.positions.getD (g.order.getD ((i + 1) % g.positions.length) 0) zero3,
        g.centre)) := by
  unfold VirtualNgon.regions
  simp [hi]

theorem ngon_regions_length (g : VirtualNgon ℝ) : g.regions.length = g.positions.length := by
  simp [VirtualNgon.regions]

/-- every inner triplet rejects ⇒ the n-gon answers `None` -/
theorem ngon_none (g : VirtualNgon ℝ) (p : Vec3 ℝ)
    (h : ∀ i, i < g.positions.length →
      Triplet.handle (g.positions.getD (g.order.getD i 0) zero3,
        g.positions.getD (g.order.getD ((i + 1) % g.positions.length) 0) zero3, g.centre) p = none) :
    g.handle p = none := by
  unfold VirtualNgon.handle
  rw [firstAccept_eq_none]
  intro r hr
  obtain ⟨t, ht, rfl⟩ := List.mem_map.mp hr
  obtain ⟨i, hi, hget⟩ := List.mem_iff_getElem.mp ht
  have hi' : i < g.positions.length := by rw [← ngon_regions_length]; exact hi
  have := ngon_regions_getElem? g i hi'
  rw [List.getElem?_eq_getElem hi, Option.some.injEq, hget] at this
  subst this
  show Option.map _ (remap _ _ (Option.map vecList (Triplet.handle _ p))) = none
  rw [h i hi']; rfl

/-- **a VirtualNgon at its loudspeaker number `s`**: the inner triplets before number `j` reject, number `j` has `s` as its
    first or second vertex (independent positions) and the direction is that vertex ⇒ the answer is `e_s` -/
theorem ngon_exact (g : VirtualNgon ℝ) (p : Vec3 ℝ) (j s : Nat) (hj : j < g.positions.length)
    (hlen : g.centreDownmix.length = g.positions.length)
    (hpre : ∀ i, i < j →
      Triplet.handle (g.positions.getD (g.order.getD i 0) zero3,
        g.positions.getD (g.order.getD ((i + 1) % g.positions.length) 0) zero3, g.centre) p = none)
    (hdet : det3 (g.positions.getD (g.order.getD j 0) zero3,
      g.positions.getD (g.order.getD ((j + 1) % g.positions.length) 0) zero3, g.centre) ≠ 0)
    (h1 : g.order.getD j 0 < g.positions.length) (h2 : g.order.getD ((j + 1) % g.positions.length) 0 < g.positions.length)
    (hne : g.order.getD j 0 ≠ g.order.getD ((j + 1) % g.positions.length) 0)
    (hs : (g.order.getD j 0 = s ∧ p = g.positions.getD (g.order.getD j 0) zero3) ∨
      (g.order.getD ((j + 1) % g.positions.length) 0 = s ∧
        p = g.positions.getD (g.order.getD ((j + 1) % g.positions.length) 0) zero3)) :
    g.handle p = some (unitV g.positions.length s) := by
  set n := g.positions.length with hn
  set oi := g.order.getD j 0 with hoi
  set oj := g.order.getD ((j + 1) % n) 0 with hoj
  obtain ⟨e1, e2, _⟩ := triplet_at_vertex (g.positions.getD oi zero3) (g.positions.getD oj zero3) g.centre hdet
  obtain ⟨v1, v2, _⟩ := vecList_unit
  have hd3 : allDistinct [oi, oj, n] = true := by
    have a1 : oi ≠ n := by omega
    have a2 : oj ≠ n := by omega
    simp [allDistinct, hne, a1, a2]
  unfold VirtualNgon.handle
  apply firstAccept_prefix _ j
  · intro i hi
    have hi' : i < n := by omega
    rw [List.getElem?_map, ngon_regions_getElem? g i hi']
    show some (Option.map _ (remap _ _ (Option.map vecList (Triplet.handle _ p)))) = some none
    rw [hpre i hi]; rfl
  · rw [List.getElem?_map, ngon_regions_getElem? g j hj]
    simp only [Option.map_some, Option.some.injEq, hlen]
    rcases hs with ⟨rfl, rfl⟩ | ⟨rfl, rfl⟩
    · rw [e1, Option.map_some, v1, remap, Option.map_some, zeros_eq, Option.map_some]
      have := scatter_unit (n + 1) [oi, oj, n] 0 oi (by simp) hd3
      simp only [List.length_cons, List.length_nil] at this
      rw [this, ← hlen, mix_unitV _ _ (by rw [hlen]; exact h1)]
    · rw [e2, Option.map_some, v2, remap, Option.map_some, zeros_eq, Option.map_some]
      have := scatter_unit (n + 1) [oi, oj, n] 1 oj (by simp) hd3
      simp only [List.length_cons, List.length_nil] at this
      rw [this, ← hlen, mix_unitV _ _ (by rw [hlen]; exact h2)]

/-! ### downmix -/

theorem dot_unitV : ∀ (row : List ℝ) (n k : Nat), dot row (unitV n k) = if k < n then row.getD k 0 else 0
  | [], n, k => by
    cases h : unitV n k <;> simp [dot]
  | x :: xs, 0, k => by simp [unitV, dot]
  | x :: xs, n + 1, 0 => by
    rw [unitV_zero]
    simp only [dot, mul_one, Nat.zero_lt_succ, if_true, List.getD_cons_zero]
    have : ∀ (ys : List ℝ) (m : Nat), dot ys (List.replicate m (0 : ℝ)) = 0 := by
      intro ys
      induction ys with
      | nil => intro m; cases m <;> simp [dot]
      | cons y ys ih => intro m; cases m <;> simp [dot, List.replicate_succ, ih]
    rw [this]; simp
  | x :: xs, n + 1, k + 1 => by
    rw [unitV_succ]
    simp only [dot, mul_zero, zero_add, List.getD_cons_succ, Nat.add_lt_add_iff_right]
    exact dot_unitV xs n k

/-- a matrix whose column `k` is `e_k` maps `e_k` to `e_k` -/
theorem matVec_unitV (D : List (List ℝ)) (nIn k : Nat) (hk : k < nIn) (hkD : k < D.length)
    (hcol : ∀ i, i < D.length → (D.getD i []).getD k 0 = if i = k then 1 else 0) :
    matVec D (unitV nIn k) = unitV D.length k := by
  apply List.ext_getElem?
  intro i
  unfold matVec unitV
  rw [List.getElem?_map, List.getElem?_set, List.getElem?_replicate]
  by_cases hi : i < D.length
  · have hget : D[i]? = some (D.getD i []) := by
      rw [List.getD_eq_getElem?_getD, List.getElem?_eq_getElem hi]; rfl
    rw [hget, Option.map_some]
    have := dot_unitV (D.getD i []) nIn k
    unfold unitV at this
    rw [this, if_pos hk, hcol i hi]
    by_cases hik : i = k
    · subst hik; simp [hi]
    · have : ¬ k = i := fun e => hik e.symm
      simp [hik, this, hi]
  · rw [List.getElem?_eq_none (by omega)]
    have : ¬ (k = i) := by omega
    simp [this, hi]

/-! ### a QuadRegion at one of its corners -/

theorem perm4_parts {o : List Nat} (h : isPermOfRange o 4 = true) :
    o.length = 4 ∧ (∀ x ∈ o, x < 4) ∧ allDistinct o = true := by
  simp only [isPermOfRange, Bool.and_eq_true, beq_iff_eq, List.all_eq_true, decide_eq_true_eq] at h
  exact ⟨h.1.1, h.1.2, h.2⟩

theorem comb_unitV4 (q0 q1 q2 q3 : Vec3 ℝ) (j : Nat) (hj : j < 4) :
    comb (unitV 4 j) [q0, q1, q2, q3] = [q0, q1, q2, q3].getD j zero3 := by
  obtain ⟨x0, x1, x2⟩ := q0
  obtain ⟨y0, y1, y2⟩ := q1
  obtain ⟨z0, z1, z2⟩ := q2
  obtain ⟨w0, w1, w2⟩ := q3
  have hj' : j = 0 ∨ j = 1 ∨ j = 2 ∨ j = 3 := by omega
  rcases hj' with rfl | rfl | rfl | rfl <;>
    simp [unitV, List.replicate, comb, add3, smul3, zero3]

/-- **at its ordered corner number `kk`** a quad whose pan values are the corner's (0 or 1 each) answers the unit vector
    of the loudspeaker at that corner -/
theorem quad_handle_corner (q0 q1 q2 q3 : Vec3 ℝ) (o : List Nat) (ho : isPermOfRange o 4 = true) (kk : Nat) (x y : ℝ)
    (hk : (x, y, kk) ∈ [((0 : ℝ), (0 : ℝ), 0), (1, 0, 1), (1, 1, 2), (0, 1, 3)]) (p : Vec3 ℝ)
    (hp : p = [q0, q1, q2, q3].getD (o.getD kk 0) zero3) (hpp : 0 < dot3 p p) :
    (⟨[q0, q1, q2, q3], o⟩ : QuadRegion ℝ).handle (some x) (some y) p = some (unitV 4 (o.getD kk 0)) := by
  obtain ⟨hlen, hlt, hdist⟩ := perm4_parts ho
  have hkk : kk < 4 := by
    simp only [List.mem_cons, Prod.mk.injEq, List.mem_nil_iff, or_false] at hk
    rcases hk with ⟨_, _, rfl⟩ | ⟨_, _, rfl⟩ | ⟨_, _, rfl⟩ | ⟨_, _, rfl⟩ <;> omega
  have hget : o[kk]? = some (o.getD kk 0) := by
    rw [List.getD_eq_getElem?_getD, List.getElem?_eq_getElem (by omega)]; rfl
  have hol : o.getD kk 0 < 4 := by
    rw [List.getD_eq_getElem?_getD, List.getElem?_eq_getElem (by omega)]
    exact hlt _ (List.getElem_mem _)
  have hw : QuadRegion.weights x y = unitV 4 kk := by
    simp only [List.mem_cons, Prod.mk.injEq, List.mem_nil_iff, or_false] at hk
    rcases hk with ⟨rfl, rfl, rfl⟩ | ⟨rfl, rfl, rfl⟩ | ⟨rfl, rfl, rfl⟩ | ⟨rfl, rfl, rfl⟩ <;>
      simp [QuadRegion.weights, unitV, List.replicate]
  have hsc : scatter (zeros 4 : List ℝ) o (QuadRegion.weights x y) = unitV 4 (o.getD kk 0) := by
    rw [hw, zeros_eq]
    have := scatter_unit 4 o kk _ hget hdist
    rw [hlen] at this
    exact this
  simp only [QuadRegion.handle, hsc, zero_real]
  rw [comb_unitV4 _ _ _ _ _ hol, ← hp, if_neg (not_le.mpr hpp), normalise_unitV _ _ hol]

/-! ### the stereo wrapper at M+030 / M-030 -/

theorem stereo_unit0 : StereoPanDownmix.handle (some (unitV 5 0)) = some [(1 : ℝ), 0] := by
  have hu : unitV 5 0 = [1, 0, 0, 0, 0] := by simp [unitV, List.replicate]
  rw [hu]
  simp only [StereoPanDownmix.handle, matVec, stereoDownmix, List.map_cons, List.map_nil, dot, one_real, zero_real,
    sqrt_real, ofRat_real, max_real, powHalf_real, normalise, norm, sumsq]
  norm_num

theorem stereo_unit1 : StereoPanDownmix.handle (some (unitV 5 1)) = some [(0 : ℝ), 1] := by
  have hu : unitV 5 1 = [0, 1, 0, 0, 0] := by simp [unitV, List.replicate]
  rw [hu]
  simp only [StereoPanDownmix.handle, matVec, stereoDownmix, List.map_cons, List.map_nil, dot, one_real, zero_real,
    sqrt_real, ofRat_real, max_real, powHalf_real, normalise, norm, sumsq]
  norm_num

theorem scatter_pair (a b : Nat) (ha : a < 2) (hb : b < 2) (hab : a ≠ b) :
    scatter (zeros 2 : List ℝ) [a, b] [1, 0] = unitV 2 a ∧ scatter (zeros 2 : List ℝ) [a, b] [0, 1] = unitV 2 b := by
  have h : (a = 0 ∧ b = 1) ∨ (a = 1 ∧ b = 0) := by omega
  rcases h with ⟨rfl, rfl⟩ | ⟨rfl, rfl⟩ <;> simp [scatter, zeros, unitV, List.replicate]

end Earverif.PointSource.Cover
