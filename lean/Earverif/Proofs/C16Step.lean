/-
C16 / C09: encoding an arbitrary sample (not only a decoded code) and decoding it again stays
within one quantisation step; monotonicity of the rounding model w.r.t. integers; the bit-pattern
conversion of `Model/Ieee.lean` is faithful.
-/
import Earverif.Proofs.C16Pcm

namespace Earverif.Ieee

/-! ### `rn53` does not cross an integer below 2^53 -/

theorem ilog2_le_52 (y : ℚ) (h0 : 0 < y) (hy : y < (2 : ℚ) ^ (53 : ℤ)) : ilog2 y ≤ 52 := by
  obtain ⟨s1, -⟩ := ilog2_spec y h0
  have : (2 : ℚ) ^ ilog2 y < (2 : ℚ) ^ (53 : ℤ) := lt_of_le_of_lt s1 hy
  have := (zpow_lt_zpow_iff_right₀ (by norm_num : (1 : ℚ) < 2)).mp this
  omega

/-- an integer is a grid point of every binade `e ≤ 52` -/
theorem int_grid (n e : ℤ) (he : e ≤ 52) :
    ((n * (2 : ℤ) ^ (52 - e).toNat : ℤ) : ℚ) * (2 : ℚ) ^ (e - 52) = n := by
  push_cast
  rw [← zpow_natCast, Int.toNat_of_nonneg (by omega), mul_assoc, ← zpow_add₀ (by norm_num)]
  have : 52 - e + (e - 52) = 0 := by ring
  rw [this, zpow_zero, mul_one]

theorem rn53_le_int (y : ℚ) (n : ℤ) (h0 : 0 < y) (hy : y ≤ n) (hn : (n : ℚ) < (2 : ℚ) ^ (53 : ℤ)) :
    rn53 y ≤ n := by
  obtain ⟨s1, s2⟩ := ilog2_spec y h0
  have he := ilog2_le_52 y h0 (lt_of_le_of_lt hy hn)
  rw [rn53_pos y _ s1 s2]
  generalize ilog2 y = e at *
  have := rnAt_le e y (n * (2 : ℤ) ^ (52 - e).toNat) (by rw [int_grid n e he]; exact hy)
  rwa [int_grid n e he] at this

theorem rn53_ge_int (y : ℚ) (n : ℤ) (h0 : 0 < y) (hy : (n : ℚ) ≤ y) (hn : y < (2 : ℚ) ^ (53 : ℤ)) :
    (n : ℚ) ≤ rn53 y := by
  obtain ⟨s1, s2⟩ := ilog2_spec y h0
  have he := ilog2_le_52 y h0 hn
  rw [rn53_pos y _ s1 s2]
  generalize ilog2 y = e at *
  have := rnAt_ge e y (n * (2 : ℤ) ^ (52 - e).toNat) (by rw [int_grid n e he]; exact hy)
  rwa [int_grid n e he] at this

theorem rn53_one : rn53 1 = 1 := by
  have h53 : (1 : ℚ) < (2 : ℚ) ^ (53 : ℤ) := by norm_num
  have a := rn53_le_int 1 1 (by norm_num) (by norm_num) (by exact_mod_cast h53)
  have b := rn53_ge_int 1 1 (by norm_num) (by norm_num) h53
  push_cast at a b
  linarith

/-- inside `[-1, 1]` the rounding error is at most `2^-54` (half a unit in the last place of the
binade below 1; ±1 and 0 are exact) -/
theorem rn53_err_unit (q : ℚ) (h : |q| ≤ 1) : |rn53 q - q| ≤ (2 : ℚ) ^ (-54 : ℤ) := by
  have hpos : (0 : ℚ) ≤ (2 : ℚ) ^ (-54 : ℤ) := (two_zpow_pos _).le
  rcases eq_or_lt_of_le h with h1 | h1
  · -- |q| = 1
    rcases abs_eq (by norm_num : (0 : ℚ) ≤ 1) |>.mp h1 with rfl | rfl
    · rw [rn53_one]; simp
    · rw [rn53_neg, rn53_one]; simp
  · rcases eq_or_ne q 0 with rfl | h0
    · rw [rn53_zero]; simp
    · have hq : 0 < |q| := abs_pos.mpr h0
      obtain ⟨s1, s2⟩ := ilog2_spec |q| hq
      have he : ilog2 |q| ≤ -1 := by
        have : (2 : ℚ) ^ ilog2 |q| < (2 : ℚ) ^ (0 : ℤ) := by rw [zpow_zero]; exact lt_of_le_of_lt s1 h1
        have := (zpow_lt_zpow_iff_right₀ (by norm_num : (1 : ℚ) < 2)).mp this
        omega
      have herr : |rn53 q - q| ≤ (2 : ℚ) ^ (ilog2 |q| - 53) := by
        rcases le_or_gt 0 q with hq0 | hq0
        · rw [abs_of_nonneg hq0] at s1 s2 ⊢
          have hz : (2 : ℚ) ^ (ilog2 q - 53) = (2 : ℚ) ^ (ilog2 q - 52) / 2 := by
            have : ilog2 q - 53 = ilog2 q - 52 - 1 := by ring
            rw [this, zpow_sub_one₀ (by norm_num)]; rfl
          rw [hz, rn53_pos q _ s1 s2]; exact rnAt_err _ q
        · rw [abs_of_neg hq0] at s1 s2 ⊢
          have hz : (2 : ℚ) ^ (ilog2 (-q) - 53) = (2 : ℚ) ^ (ilog2 (-q) - 52) / 2 := by
            have : ilog2 (-q) - 53 = ilog2 (-q) - 52 - 1 := by ring
            rw [this, zpow_sub_one₀ (by norm_num)]; rfl
          have := rnAt_err (ilog2 (-q)) (-q)
          rw [← rn53_pos (-q) _ s1 s2, rn53_neg] at this
          have e2 : -rn53 q - -q = -(rn53 q - q) := by ring
          rw [e2, abs_neg] at this
          rw [hz]; exact this
      refine le_trans herr ?_
      exact (zpow_le_zpow_iff_right₀ (by norm_num : (1 : ℚ) < 2)).mpr (by omega)

/-! ### bit patterns -/

/-- `ofBits` on a pattern with a normal exponent field -/
theorem ofBits_normal (S E F : ℕ) (hS : S = 0 ∨ S = 1) (hE1 : 1 ≤ E) (hE2 : E ≤ 2046) (hF : F < 2 ^ 52) :
    ofBits (S * 2 ^ 63 + E * 2 ^ 52 + F) =
      some ((if S = 1 then -1 else 1) * (((2 ^ 52 + F : ℕ) : ℕ) : ℚ) * (2 : ℚ) ^ ((E : ℤ) - 1075)) := by
  generalize hw : S * 2 ^ 63 + E * 2 ^ 52 + F = w
  have h1 : w / 2 ^ 63 % 2 = S := by rcases hS with rfl | rfl <;> omega
  have h2 : w / 2 ^ 52 % 2048 = E := by rcases hS with rfl | rfl <;> omega
  have h3 : w % 2 ^ 52 = F := by rcases hS with rfl | rfl <;> omega
  have h4 : ¬ E = 2047 := by omega
  have h5 : ¬ E = 0 := by omega
  simp only [ofBits, h1, h2, h3, h4, h5, ↓reduceIte]

/-- **The printed bit pattern denotes the printed value**: whenever `toBits` produces a pattern for a
rational, `ofBits` of that pattern is that rational (so `toBits` is injective, and the hex digits
the driver prints for a double identify its exact value). -/
theorem ofBits_toBits (x : ℚ) (w : ℕ) (h : toBits x = some w) : ofBits w = some x := by
  unfold toBits at h
  by_cases hx0 : x = 0
  · rw [if_pos hx0] at h
    obtain rfl := Option.some.inj h
    subst hx0
    simp [ofBits]
  · rw [if_neg hx0] at h
    simp only at h
    set a : ℚ := if 0 < x then x else -x with ha
    have hapos : 0 < a := by
      rw [ha]; split_ifs with hp
      · exact hp
      · have : x < 0 := lt_of_le_of_ne (not_lt.mp hp) hx0
        linarith
    obtain ⟨s1, s2⟩ := ilog2_spec a hapos
    set e : ℤ := ilog2 a with he
    set m : ℚ := a / (2 : ℚ) ^ (e - 52) with hm
    have hP : (0 : ℚ) < (2 : ℚ) ^ (e - 52) := two_zpow_pos _
    by_cases hc : m.den = 1 ∧ -1022 ≤ e ∧ e ≤ 1023
    swap
    · rw [if_neg hc] at h; cases h
    rw [if_pos hc] at h
    obtain ⟨hden, hlo, hhi⟩ := hc
    -- the significand is an integer in [2^52, 2^53)
    have hmnum : m = (m.num : ℚ) := by
      have := Rat.num_div_den m
      rw [hden] at this; simpa using this.symm
    have hm1 : (2 : ℚ) ^ (52 : ℕ) ≤ m := by
      rw [hm, le_div_iff₀ hP, ← zpow_natCast, ← zpow_add₀ (by norm_num)]
      have : ((52 : ℕ) : ℤ) + (e - 52) = e := by push_cast; ring
      rw [this]; exact s1
    have hm2 : m < (2 : ℚ) ^ (53 : ℕ) := by
      rw [hm, div_lt_iff₀ hP, ← zpow_natCast, ← zpow_add₀ (by norm_num)]
      have : ((53 : ℕ) : ℤ) + (e - 52) = e + 1 := by push_cast; ring
      rw [this]; exact s2
    have hn1 : (2 : ℤ) ^ 52 ≤ m.num := by
      have : (((2 : ℤ) ^ 52 : ℤ) : ℚ) ≤ (m.num : ℚ) := by rw [← hmnum]; push_cast; exact hm1
      exact_mod_cast this
    have hn2 : m.num < (2 : ℤ) ^ 53 := by
      have : (m.num : ℚ) < (((2 : ℤ) ^ 53 : ℤ) : ℚ) := by rw [← hmnum]; push_cast; exact hm2
      exact_mod_cast this
    obtain ⟨F, hF⟩ : ∃ F : ℕ, m.num = (2 : ℤ) ^ 52 + F := ⟨(m.num - 2 ^ 52).toNat, by omega⟩
    have hFlt : F < 2 ^ 52 := by omega
    obtain ⟨E, hE⟩ : ∃ E : ℕ, e + 1023 = E := ⟨(e + 1023).toNat, by omega⟩
    have hE1 : 1 ≤ E := by omega
    have hE2 : E ≤ 2046 := by omega
    have hmt : m.num.toNat - 2 ^ 52 = F := by omega
    have hEt : (e + 1023).toNat = E := by omega
    rw [hmt, hEt] at h
    have hval : a = (((2 ^ 52 + F : ℕ) : ℕ) : ℚ) * (2 : ℚ) ^ ((E : ℤ) - 1075) := by
      have e1 : (E : ℤ) - 1075 = e - 52 := by omega
      have e2 : (((2 ^ 52 + F : ℕ) : ℕ) : ℚ) = m := by
        rw [hmnum, hF]; push_cast; ring
      rw [e1, e2, hm]; field_simp
    by_cases hp : 0 < x
    · rw [if_pos hp] at h ha
      obtain rfl := Option.some.inj h
      have := ofBits_normal 0 E F (Or.inl rfl) hE1 hE2 hFlt
      simp only [Nat.zero_mul, Nat.zero_add, Nat.zero_ne_one, ↓reduceIte, one_mul] at this
      rw [Nat.zero_add, this, ← hval, ha]
    · rw [if_neg hp] at h ha
      obtain rfl := Option.some.inj h
      have := ofBits_normal 1 E F (Or.inr rfl) hE1 hE2 hFlt
      simp only [Nat.one_mul, ↓reduceIte] at this
      rw [this, mul_assoc, ← hval, ha]; ring_nf

theorem toBits_injective (x y : ℚ) (w : ℕ) (hx : toBits x = some w) (hy : toBits y = some w) : x = y := by
  have a := ofBits_toBits x w hx
  have b := ofBits_toBits y w hy
  rw [a] at b; exact Option.some.inj b

end Earverif.Ieee

namespace Earverif.Pcm
open Earverif.Ieee

/-! ### encoding an arbitrary sample -/

theorem truncZ_nonneg (y : ℚ) (h : 0 ≤ y) : (truncZ y : ℚ) ≤ y ∧ y < (truncZ y : ℚ) + 1 ∧ 0 ≤ truncZ y := by
  unfold truncZ
  rw [if_pos h, floor_eq]
  exact ⟨Int.floor_le y, Int.lt_floor_add_one y, Int.floor_nonneg.mpr h⟩

/-- One positive in-range sample through clip → scale → round → truncate, for an integer scale
`M < 2^52`: the code lies in `[0, M]` and strictly within one unit of the exact product. -/
theorem encode_core (M : ℤ) (hM : 0 < M) (hM52 : M < (2 : ℤ) ^ 52) (x : ℚ) (h0 : 0 < x) (h1 : x ≤ 1) :
    0 ≤ truncZ (rn53 (x * (M : ℚ))) ∧ truncZ (rn53 (x * (M : ℚ))) ≤ M ∧
    (truncZ (rn53 (x * (M : ℚ))) : ℚ) - 1 < x * M ∧ x * M < (truncZ (rn53 (x * (M : ℚ))) : ℚ) + 1 := by
  have hMq : (0 : ℚ) < (M : ℚ) := by exact_mod_cast hM
  have hM53 : (M : ℚ) < (2 : ℚ) ^ (53 : ℤ) := by
    have : (M : ℚ) < (((2 : ℤ) ^ 52 : ℤ) : ℚ) := by exact_mod_cast hM52
    push_cast at this
    have h2 : (2 : ℚ) ^ (52 : ℕ) < (2 : ℚ) ^ (53 : ℤ) := by norm_num
    linarith
  set z : ℚ := x * (M : ℚ) with hz
  have hz0 : 0 < z := mul_pos h0 hMq
  have hzM : z ≤ M := by rw [hz]; nlinarith
  have hz53 : z < (2 : ℚ) ^ (53 : ℤ) := lt_of_le_of_lt hzM hM53
  set y : ℚ := rn53 z with hy
  have hy0 : 0 ≤ y := by
    have := rn53_ge_int z 0 hz0 (by push_cast; exact hz0.le) hz53
    simpa using this
  have hyM : y ≤ M := rn53_le_int z M hz0 hzM hM53
  obtain ⟨t1, t2, t3⟩ := truncZ_nonneg y hy0
  set c : ℤ := truncZ y with hc
  have hcM : c ≤ M := by
    have : (c : ℚ) ≤ (M : ℚ) := le_trans t1 hyM
    exact_mod_cast this
  refine ⟨t3, hcM, ?_, ?_⟩
  · -- c - 1 < z
    by_contra hcon
    rw [not_lt] at hcon
    have hc1 : 0 < c - 1 := by
      by_contra hh
      have : (c : ℚ) - 1 ≤ 0 := by
        have : c - 1 ≤ 0 := by omega
        exact_mod_cast this
      linarith
    have hle : z ≤ ((c - 1 : ℤ) : ℚ) := by push_cast; exact hcon
    have hlt53 : (((c - 1 : ℤ)) : ℚ) < (2 : ℚ) ^ (53 : ℤ) := by
      have : ((c - 1 : ℤ) : ℚ) ≤ (M : ℚ) := by
        have : c - 1 ≤ M := by omega
        exact_mod_cast this
      linarith
    have := rn53_le_int z (c - 1) hz0 hle hlt53
    push_cast at this
    linarith
  · -- z < c + 1
    by_contra hcon
    rw [not_lt] at hcon
    have hle : ((c + 1 : ℤ) : ℚ) ≤ z := by push_cast; exact hcon
    have := rn53_ge_int z (c + 1) hz0 hle hz53
    push_cast at this
    linarith

/-- the code of any sample lies within full scale -/
theorem encode_range_of (b : ℕ) (hM : 0 < scale b) (hM52 : scale b < (2 : ℤ) ^ 52) (x : ℚ) :
    -scale b ≤ encode b x ∧ encode b x ≤ scale b := by
  have pos : ∀ x : ℚ, 0 < x → 0 ≤ encode b x ∧ encode b x ≤ scale b := by
    intro x h0
    unfold encode
    by_cases h1 : x ≤ 1
    · rw [clip_id x (by linarith) h1]
      obtain ⟨a, b', -, -⟩ := encode_core (scale b) hM hM52 x h0 h1
      exact ⟨a, b'⟩
    · have hc : clip x = 1 := by unfold clip; rw [if_pos (by linarith)]
      rw [hc]
      obtain ⟨a, b', -, -⟩ := encode_core (scale b) hM hM52 1 (by norm_num) le_rfl
      exact ⟨a, b'⟩
  rcases lt_trichotomy x 0 with h | h | h
  · have := pos (-x) (by linarith)
    rw [encode_neg] at this
    omega
  · subst h
    have : encode b 0 = 0 := by
      unfold encode clip
      norm_num [rn53_zero, truncZ, floor_eq]
    rw [this]; omega
  · have := pos x h; omega

/-- **One quantisation step (C09/C16).**  For every sample `x ∈ [-1, 1]` (any rational, in particular
every binary64 value) the value read back differs from `x` by less than one step `1 / (2^(b-1) - 1)`
plus the rounding error `2^-54` of the final division. -/
theorem encode_within_step_of (b : ℕ) (hM : 0 < scale b) (hM52 : scale b < (2 : ℤ) ^ 52) (x : ℚ) (hx : |x| ≤ 1) :
    |decode b (encode b x) - x| < 1 / (scale b : ℚ) + (2 : ℚ) ^ (-54 : ℤ) := by
  have hMq : (0 : ℚ) < (scale b : ℚ) := by exact_mod_cast hM
  have hpos54 : (0 : ℚ) < (2 : ℚ) ^ (-54 : ℤ) := two_zpow_pos _
  have pos : ∀ x : ℚ, 0 < x → x ≤ 1 → |decode b (encode b x) - x| < 1 / (scale b : ℚ) + (2 : ℚ) ^ (-54 : ℤ) := by
    intro x h0 h1
    unfold encode
    rw [clip_id x (by linarith) h1]
    obtain ⟨c0, cM, lo, hi⟩ := encode_core (scale b) hM hM52 x h0 h1
    generalize truncZ (rn53 (x * (scale b : ℚ))) = c at *
    have hq : |(c : ℚ) / (scale b : ℚ)| ≤ 1 := by
      rw [abs_div, abs_of_pos hMq, div_le_one hMq, abs_le]
      constructor
      · have : -(scale b) ≤ c := by omega
        exact_mod_cast this
      · exact_mod_cast cM
    have e1 := rn53_err_unit _ hq
    have e2 : |(c : ℚ) / (scale b : ℚ) - x| < 1 / (scale b : ℚ) := by
      have : (c : ℚ) / (scale b : ℚ) - x = ((c : ℚ) - x * (scale b : ℚ)) / (scale b : ℚ) := by field_simp
      rw [this, abs_div, abs_of_pos hMq, div_lt_div_iff_of_pos_right hMq, abs_lt]
      constructor <;> linarith
    unfold decode
    calc |rn53 ((c : ℚ) / (scale b : ℚ)) - x|
        = |(rn53 ((c : ℚ) / (scale b : ℚ)) - (c : ℚ) / (scale b : ℚ)) + ((c : ℚ) / (scale b : ℚ) - x)| := by ring_nf
      _ ≤ |rn53 ((c : ℚ) / (scale b : ℚ)) - (c : ℚ) / (scale b : ℚ)| + |(c : ℚ) / (scale b : ℚ) - x| := abs_add_le _ _
      _ < 1 / (scale b : ℚ) + (2 : ℚ) ^ (-54 : ℤ) := by linarith
  obtain ⟨hl, hr⟩ := abs_le.mp hx
  rcases lt_trichotomy x 0 with h | h | h
  · have := pos (-x) (by linarith) (by linarith)
    rw [encode_neg, decode_neg] at this
    have e : -decode b (encode b x) - -x = -(decode b (encode b x) - x) := by ring
    rwa [e, abs_neg] at this
  · subst h
    have : encode b 0 = 0 := by
      unfold encode clip
      norm_num [rn53_zero, truncZ, floor_eq]
    rw [this]
    unfold decode
    simp only [Int.cast_zero, zero_div, rn53_zero, sub_zero, abs_zero]
    have : (0 : ℚ) < 1 / (scale b : ℚ) := by positivity
    linarith
  · exact pos x h hr

end Earverif.Pcm
