"""Registry of the scalar kernels that are regenerated from the Python source on every run (DESIGN.md
section 1, "T — translator") and tied to the hand-written models by kernel-checked equalities.

    extract()          regenerate lean/Earverif/Gen/Kernels.lean from `common.REPO`
    obligations(pid)   ("Earverif.Props.Kernels", [fully qualified theorem names]) or None
    ALL                [(pid, python file, qualname, lean def name, [theorem names])]
    status()           per-theorem result of elaborating Props/Kernels.lean (isolates which kernel broke)

`Gen/Kernels.lean` holds one `def Earverif.Gen.<name>` per kernel, translated by `harness/translate.py`
from the function's AST, with the SHA-256 of the function's source text in a comment above it.
`Props/Kernels.lean` (hand-written) proves `Gen.<name> = <model def>` for each.  An edit of such a
function changes the generated text; if the new text is no longer equal to the model the theorem
breaks, whether or not a test input exposes the difference.  A function that leaves the whitelisted
subset is *refused*: its def becomes a stub of type `Refused` (the reason is in the file) and the
equality theorem no longer type-checks — the obligation is reported broken, never skipped.

Floats are exact rationals/reals here, as in the models (binary64 rounding is the business of the
correspondence harnesses and of C16's `rn53`).
"""
import os
import re
import subprocess

from . import common
from .translate import KernelSpec, Optional_, Refuse, function_source, translate

GEN_PATH_REL = os.path.join("Earverif", "Gen", "Kernels.lean")
PROPS_MODULE = "Earverif.Props.Kernels"
THM_NS = "Earverif.Kernels."


class Kernel:
    def __init__(self, pid, spec, theorems):
        self.pid, self.spec, self.theorems = pid, spec, list(theorems)

    @property
    def lean_name(self):
        return self.spec.lean_name


_RC = "ear/core/renderer_common.py"
_GC = "ear/core/objectbased/gain_calc.py"
_RD = "ear/fileio/bw64/reader.py"
_CURSOR_EXPRS = {
    "self._formatInfo.blockAlignment": ("k.A", "int"),
    "self._chunks[b'data'].position.data": ("k.data", "int"),
    "self._chunks[b'data'].position.end": ("k.dend", "int"),
    "self._chunks[b'data'].size": ("k.size", "int"),
    "self._buffer.tell()": ("pos", "int"),
}
_PB_EXPRS = {
    "self.first_sample": ("first_sample", "int"),
    "self.last_sample": ("last_sample", "int"),
    "self.start_sample": ("start_sample", "rat"),
    "self.end_sample": ("end_sample", "rat"),
}

KERNELS = [
    # 1 — C10
    Kernel("C10", KernelSpec(
        _RC, "is_lfe", "is_lfe", "(lowPass highPass : Option Rat)", "Bool",
        optionals=[
            Optional_("frequency.lowPass", "lowPass", "lp", {"frequency.lowPass": ("lp", "rat")}),
            Optional_("frequency.highPass", "highPass", "hp", {"frequency.highPass": ("hp", "rat")}),
        ],
        notes="warnings.warn is not part of the value"), ["is_lfe_eq_model"]),
    # 2 — C01
    Kernel("C01", KernelSpec(
        _RC, "get_object_gain", "get_object_gain", "(mute : Bool) (objectGain : α)", "α", scalar="alpha",
        exprs={"type_metadata.extra_data.object_mute": ("mute", "bool"),
               "type_metadata.extra_data.object_gain": ("objectGain", "alpha")}), ["get_object_gain_eq_model"]),
    # 3 — C01
    Kernel("C01", KernelSpec(
        _GC, "direct_diffuse_split", "direct_diffuse_split", "(gains : List α) (diffuse : α)", "List α × List α",
        scalar="alpha", names={"gains": ("gains", "vec:alpha"), "diffuse": ("diffuse", "alpha")},
        ctors={"DirectDiffuseGains": ["direct", "diffuse"]}), ["direct_diffuse_split_eq_model"]),
    # 4 — C01: the three-way gain formula inside `diverge`, with the condition under which it is reached
    Kernel("C01", KernelSpec(
        _GC, "diverge", "diverge_gains", "(value : Option α)", "Option (α × α × α)", scalar="alpha",
        optionals=[Optional_("objectDivergence", "value", "v", {"objectDivergence.value": ("v", "alpha")})],
        ret_mode="option", select=dict(targets=["g_l", "g_c", "g_r"], guard=True),
        notes="slice: assignments to g_l, g_c, g_r and the branch condition; `none` = the early return"),
        ["diverge_gains_eq_model"]),
    # 5 — C18
    Kernel("C18", KernelSpec(
        _RD, "Bw64Reader.seek", "seek", "(k : Cfg) (pos offset whence : Int)", "Option Int",
        names={"offset": ("offset", "int"), "whence": ("whence", "int")}, exprs=_CURSOR_EXPRS,
        effects={"self._buffer.seek": "result"}, ret_mode="option",
        notes="result = the argument of self._buffer.seek (new buffer position); raise ValueError = none; "
              "the default whence=0 is the caller's business"), ["seek_eq_model"]),
    Kernel("C18", KernelSpec(
        _RD, "Bw64Reader.tell", "tell", "(k : Cfg) (pos : Int)", "Int", exprs=_CURSOR_EXPRS), ["tell_eq_model"]),
    Kernel("C18", KernelSpec(
        _RD, "Bw64Reader.__len__", "len", "(k : Cfg) (ds64 : Bool)", "Int",
        exprs=dict(_CURSOR_EXPRS, **{"self._ds64": ("ds64", "bool"), "self._ds64.dataSize": ("k.size", "int")}),
        notes="the model's Cfg.size is the ds64 dataSize for BW64 files, the data chunk size otherwise: both map to k.size"),
        ["len_eq_model"]),
    # 6 — C20
    Kernel("C20", KernelSpec(
        "ear/core/track_processor.py", "MatrixCoefficientProcessor.init_delay", "init_delay_samples",
        "(sample_rate : Int) (delay : Rat)", "Int", names={"sample_rate": ("sample_rate", "int")},
        exprs={"self.coefficient.delay": ("delay", "rat")}, select=dict(targets=["delay_samples"], guard=False),
        notes="slice: the ms -> samples formula only"), ["init_delay_samples_eq_model"]),
    # 7 — C03 (also used by C02)
    Kernel("C03", KernelSpec(
        _RC, "ceil", "ceil", "(x : Rat)", "Int", names={"x": ("x", "rat")}, exprs={"math.isinf(x)": ("false", "false")},
        notes="on a Fraction math.isinf is False (the model passes inf through in ceilE)"), ["ceil_eq_model"]),
    Kernel("C03", KernelSpec(
        _RC, "ProcessingBlock.overlap", "overlap", "(first_sample last_sample start_sample num_samples : Int)",
        "(Int × Int) × (Int × Int)", names={"start_sample": ("start_sample", "int"), "num_samples": ("num_samples", "int")},
        exprs=_PB_EXPRS, ctors={("slice", 2): "({0}, {1})", ("slice", 1): "((0 : Int), {0})"},
        notes="slice(a, b) = (a, b); slice(0) = (0, 0); a finite last_sample (inf: see overlap_inf_eq_model)"),
        ["overlap_eq_model", "overlap_inf_eq_model"]),
    Kernel("C03", KernelSpec(
        _RC, "InterpGains.init_interp_p", "interp_p", "(start_sample end_sample : Rat) (first_sample last_sample : Int)",
        "List Rat", exprs=_PB_EXPRS), ["interp_p_eq_model"]),
    Kernel("C03", KernelSpec(
        "ear/core/objectbased/renderer.py", "InterpretObjectMetadata.interp_length", "interp_length",
        "(jump : Bool) (interpLen : Option Rat) (duration : Ext Rat)", "Ext Rat",
        names={"duration": ("duration", "ext")}, exprs={"block_format.jumpPosition.flag": ("jump", "bool")},
        optionals=[Optional_("block_format.jumpPosition.interpolationLength", "interpLen", "l",
                             {"block_format.jumpPosition.interpolationLength": ("l", "rat")})],
        ret_wrap={"rat": "(Ext.fin {})"}), ["interp_length_eq_model"]),
    # 8 — C01
    Kernel("C01", KernelSpec(
        "ear/core/point_source.py", "AllocentricPanner._single_balance_pan", "single_balance_pan",
        "(minimum maximum value : α)", "α × α", scalar="alpha",
        names={"minimum": ("minimum", "alpha"), "maximum": ("maximum", "alpha"), "value": ("value", "alpha")}),
        ["single_balance_pan_eq_model"]),
    # 9 — C16 (scalar parts: clip + scale, before float64 rounding and astype/tobytes)
    Kernel("C16", KernelSpec(
        "ear/fileio/bw64/utils.py", "encode_pcm_samples", "pcm_encode_scaled", "(samples : List Rat) (bitdepth : Nat)",
        "List Rat", names={"samples": ("samples", "vec:rat"), "bitdepth": ("bitdepth", "nat")},
        select=dict(targets=["scaledSamples"], guard=False),
        notes="slice: scaledSamples (clip, then times 2**(bitdepth-1) - 1), exact"), ["pcm_encode_scaled_eq_model"]),
    Kernel("C16", KernelSpec(
        "ear/fileio/bw64/utils.py", "decode_pcm_samples", "pcm_decode_scaled", "(decodedSamples : List Int) (bitdepth : Nat)",
        "List Rat", names={"decodedSamples": ("decodedSamples", "vec:int"), "bitdepth": ("bitdepth", "nat")},
        select=dict(targets=["return"], guard=False, inputs=["decodedSamples"]),
        notes="slice: the returned quotient, decodedSamples (the integer codes) taken as input"),
        ["pcm_decode_scaled_eq_model"]),
    # 10 — C04
    Kernel("C04", KernelSpec(
        "ear/core/monitor.py", "PeakMonitor.has_overloaded", "has_overloaded", "(peak : List Rat)", "Bool",
        exprs={"self.peak_abs_linear": ("peak", "vec")}), ["has_overloaded_eq_model"]),
]

# Looked at and not registered: the translator refuses them on the unchanged tree (kept here so that the
# self-test shows the refusal message).
NOT_REGISTERED = [
    ("C04", KernelSpec("ear/cmdline/render_file.py", "OfflineRenderDriver.output_gain_linear", "output_gain_linear",
                       "(db : Rat)", "Rat", exprs={"self.output_gain_db": ("db", "rat")}),
     "10.0 ** (db / 20.0): exponentiation with a non-literal exponent is not rational arithmetic"),
]

ALL = [(k.pid, k.spec.file, k.spec.qualname, k.spec.lean_name, list(k.theorems)) for k in KERNELS]

HEADER = """/-
GENERATED on every run by harness/kernels.py (translator: harness/translate.py) from the Python SOURCE of the
functions named below, read from the repository checkout with `ast`.  DO NOT EDIT; not under version control.
Each def is what the source says *now*; Props/Kernels.lean proves each equal to the hand-written model def.
A def of type `Refused` means the function left the translator's whitelist (reason in the comment).
Floats are exact rationals/reals (as in the models).
-/
import Earverif.Model.GainCalc
import Earverif.Model.Bw64Cursor
import Earverif.Model.Timeline
set_option linter.unusedVariables false
namespace Earverif.Gen
open Earverif.GainCalc (Scalar)
open Earverif.Cursor (Cfg)
open Earverif.Timeline (Ext)

/-- Marker type of a kernel the translator refused. -/
inductive Refused where
  | refused

/-- `math.trunc` of a `Fraction` (rounds toward zero). -/
def pyTrunc (x : Rat) : Int := if 0 ≤ x then x.floor else -((-x).floor)

"""


def _comment_safe(s):
    return s.replace("-/", "- /").replace("/-", "/ -")


def _render_one(k, repo):
    """(lean text of this kernel's block, refused reason or None)"""
    sp = k.spec
    sha = None
    try:
        sha = function_source(os.path.join(repo, sp.file), sp.qualname)[2]
        text, sha = translate(sp, repo)
        reason = None
    except Refuse as e:
        text, reason = None, str(e)
    except (OSError, SyntaxError) as e:
        text, reason = None, "cannot read/parse %s: %s" % (sp.file, e)
    head = "/- %s :: %s   [%s]\n   source sha256: %s%s -/\n" % (
        sp.file, sp.qualname, k.pid, sha or "unavailable", ("\n   " + _comment_safe(sp.notes)) if sp.notes else "")
    if reason is not None:
        head += "/- REFUSED by the translator: %s -/\n" % _comment_safe(reason)
        text = "def %s : Refused := .refused\n" % sp.lean_name
    return head + text + "\n", reason


def render(repo=None, overrides=None):
    """Whole Gen/Kernels.lean text; `overrides` = {lean_name: reason} forces a stub (used by the type-check pass).
    Returns (text, {lean_name: refusal reason})."""
    repo = repo or common.REPO
    out, refused = [HEADER], {}
    for k in KERNELS:
        block, reason = _render_one(k, repo)
        if reason is None and overrides and k.lean_name in overrides:
            reason = overrides[k.lean_name]
            sp = k.spec
            block = "/- %s :: %s   [%s]\n   NOT WELL-TYPED after translation: %s -/\ndef %s : Refused := .refused\n\n" % (
                sp.file, sp.qualname, k.pid, _comment_safe(reason), sp.lean_name)
        if reason is not None:
            refused[k.lean_name] = reason
        out.append(block)
    out.append("end Earverif.Gen\n")
    return "".join(out), refused


def _lean_errors(relpath, text=None):
    """Elaborate one file of the Lean project with `lake env lean` (imports must be built).
    Returns (list of (line, message), raw output) or (None, raw) when the tool could not run."""
    path = os.path.join(common.LEAN, relpath) if relpath else None
    tmp = None
    if text is not None:
        tmp = os.path.join(common.LEAN, ".lake", "kernels_check_%d.lean" % os.getpid())
        os.makedirs(os.path.dirname(tmp), exist_ok=True)
        with open(tmp, "w") as f:
            f.write(text)
        path = tmp
    try:
        with common.LakeLock():
            p = subprocess.run(["lake", "env", "lean", path], cwd=common.LEAN, capture_output=True, text=True, timeout=900)
    except (OSError, subprocess.TimeoutExpired) as e:
        return None, str(e)
    finally:
        if tmp and os.path.exists(tmp):
            os.remove(tmp)
    out = p.stdout + p.stderr
    errs = []
    for m in re.finditer(r"^[^\n:]*:(\d+):(\d+): error:? ?(.*(?:\n(?![^\n:]*:\d+:\d+: ).*)*)", out, re.M):
        errs.append((int(m.group(1)), m.group(3).strip()))
    if p.returncode != 0 and not errs:
        return None, out
    return errs, out


def _def_ranges(text, names, keyword="def"):
    """{name: (first line, last line)} of the top-level `def name` blocks (up to the next block comment/def)."""
    lines = text.split("\n")
    starts = []
    for i, l in enumerate(lines, 1):
        m = re.match(r"(?:private\s+|protected\s+)?(?:%s)\s+([\w.']+)" % keyword, l)
        if m:
            starts.append((i, m.group(1)))
    res = {}
    for j, (i, n) in enumerate(starts):
        end = starts[j + 1][0] - 1 if j + 1 < len(starts) else len(lines)
        if n in names:
            res[n] = (i, end)
    return res


def extract(typecheck=True):
    """Regenerate Gen/Kernels.lean from `common.REPO`.  A kernel whose translation is not well-typed Lean (e.g. the
    edited function now returns a number where a boolean was returned) is turned into a `Refused` stub as well, so
    that the generated module always builds and exactly that kernel's theorem breaks."""
    text, refused = render()
    allbad = {}
    if typecheck:
        for _ in range(3):
            errs, raw = _lean_errors(None, text)
            if not errs:  # None (tool unavailable: leave as is, the build will tell) or no errors
                break
            ranges = _def_ranges(text, {k.lean_name for k in KERNELS})
            bad = {}
            for line, msg in errs:
                for n, (a, b) in ranges.items():
                    if a <= line <= b:
                        bad.setdefault(n, " ".join(x.strip() for x in msg.split("\n"))[:300])
            if not bad:
                break
            allbad.update(bad)
            text, refused = render(overrides=allbad)
    common.write_if_changed(os.path.join(common.LEAN, GEN_PATH_REL), text)
    return None


def refusals():
    """{lean def name: reason} for the current `common.REPO` (translator level only)."""
    return render()[1]


def obligations(pid):
    th = [THM_NS + t for k in KERNELS if k.pid == pid for t in k.theorems]
    return (PROPS_MODULE, th) if th else None


def status():
    """Elaborate Props/Kernels.lean against the built Gen/Kernels (build `Earverif.Gen.Kernels` first) and report
    per theorem: {theorem short name: None if it checks, else first error line}.  Unlike a failed `lake build` this
    says which kernels' equalities broke and which still hold.  Returns None if the file could not be elaborated."""
    rel = os.path.join("Earverif", "Props", "Kernels.lean")
    errs, raw = _lean_errors(rel)
    if errs is None:
        return None
    text = open(os.path.join(common.LEAN, rel)).read()
    names = {t for k in KERNELS for t in k.theorems}
    ranges = _def_ranges(text, names, keyword="theorem|def|lemma|example")
    res = {n: None for n in names}
    for n in names:
        if n not in ranges:
            res[n] = "theorem missing from Props/Kernels.lean"
    for line, msg in errs:
        owner = None
        for n, (a, b) in ranges.items():
            if a <= line <= b:
                owner = n
        if owner is None:
            owner = "<outside the registered theorems, line %d>" % line
        if res.get(owner) is None:
            res[owner] = msg.split("\n")[0][:300]
    return res


def check():
    """extract + build + per-theorem status, as a dict (used by tools/kernels_selftest.py and handy by hand:
    `EAR_REPO=<checkout> /venv/bin/python -m harness.kernels check`)."""
    import time

    t0 = time.time()
    extract()
    t1 = time.time()
    ok_gen, out_gen = common.lake_build(["Earverif.Gen.Kernels"])
    ok, out = common.lake_build([PROPS_MODULE])
    t2 = time.time()
    st = status() if ok_gen else None
    gen_text = open(os.path.join(common.LEAN, GEN_PATH_REL)).read()
    stubs = sorted(k.lean_name for k in KERNELS if re.search(r"^def %s : Refused" % re.escape(k.lean_name), gen_text, re.M))
    return {
        "repo": common.REPO,
        "gen_builds": ok_gen,
        "props_build": ok,
        "first_error": None if ok else common._first_error(out),
        "failing": None if st is None else sorted(t for t, e in st.items() if e is not None),
        "detail": None if st is None else {t: e for t, e in st.items() if e is not None},
        "refused": refusals(),
        "stubs": stubs,
        "extract_s": round(t1 - t0, 2),
        "build_s": round(t2 - t1, 2),
    }


if __name__ == "__main__":
    import json
    import sys

    if len(sys.argv) > 1 and sys.argv[1] == "print":
        sys.stdout.write(render()[0])
    elif len(sys.argv) > 1 and sys.argv[1] == "check":
        print(json.dumps(check(), indent=1))
    else:
        extract()
        for n, r in refusals().items():
            print("REFUSED %s: %s" % (n, r))
        print("wrote", os.path.join(common.LEAN, GEN_PATH_REL))
