/-
C20 — when does the binary64 evaluation of `int(math.ceil((sample_rate * delay) / 1000.0 - 0.5))`
(`delaySamplesF`) give the nearest sample of the exact value (`delaySamples`)?  Whenever
`x = sample_rate·delay/1000` keeps a relative distance of `2^-50` from every half-integer
(`delaySamplesF_eq_of_margin`).  Uses the `rn53` lemmas of `Proofs/C16Ieee.lean` (Mathlib).
This module imports `Props/C20.lean` and is the module the harness audits (`props_module`), so that
`Props/C20.lean` itself (imported by `Props/C02.lean`, `Props/C06.lean`) stays free of Mathlib.
Second part: the cases the margin theorem leaves out — delay 0 (`delaySamplesF_zero`), exact half samples
(`delaySamplesF_tie`) — and delays written with five decimals at 44.1/48/96 kHz (`five_decimal_delay_exact`).
-/
import Earverif.Proofs.C16Ieee
import Earverif.Props.C20
import Earverif.Proofs.C20Driver

namespace Earverif.TrackSpec
open Earverif.Ieee

/-- relative error of binary64 rounding: at most `2^-53` -/
theorem rn53_rel (x : ℚ) (hx : 0 < x) : |rn53 x - x| ≤ x * (2 : ℚ) ^ (-53 : ℤ) := by
  obtain ⟨s1, s2⟩ := ilog2_spec x hx
  rw [rn53_pos x _ s1 s2]
  have h := rnAt_err (ilog2 x) x
  have e : (2 : ℚ) ^ (ilog2 x - 52) / 2 = (2 : ℚ) ^ (ilog2 x) * (2 : ℚ) ^ (-53 : ℤ) := by
    rw [← zpow_add₀ (by norm_num : (2 : ℚ) ≠ 0)]
    have : ilog2 x - 52 = (ilog2 x + -53) + 1 := by ring
    rw [this, zpow_add_one₀ (by norm_num : (2 : ℚ) ≠ 0)]; ring
  rw [e] at h
  exact le_trans h (mul_le_mul_of_nonneg_right s1 (two_zpow_pos _).le)

theorem ilog2_le_52' (y : ℚ) (h0 : 0 < y) (hy : y < (2 : ℚ) ^ (53 : ℤ)) : ilog2 y ≤ 52 := by
  obtain ⟨s1, -⟩ := ilog2_spec y h0
  have : (2 : ℚ) ^ ilog2 y < (2 : ℚ) ^ (53 : ℤ) := lt_of_le_of_lt s1 hy
  have := (zpow_lt_zpow_iff_right₀ (by norm_num : (1 : ℚ) < 2)).mp this
  omega

/-- an integer is a grid point of every binade `e ≤ 52` -/
theorem int_grid' (n e : ℤ) (he : e ≤ 52) :
    ((n * (2 : ℤ) ^ (52 - e).toNat : ℤ) : ℚ) * (2 : ℚ) ^ (e - 52) = n := by
  push_cast
  rw [← zpow_natCast, Int.toNat_of_nonneg (by omega), mul_assoc, ← zpow_add₀ (by norm_num)]
  have : 52 - e + (e - 52) = 0 := by ring
  rw [this, zpow_zero, mul_one]

/-- `rn53` does not cross an integer below `2^53` -/
theorem rn53_le_int' (y : ℚ) (n : ℤ) (h0 : 0 < y) (hy : y ≤ n) (hn : (n : ℚ) < (2 : ℚ) ^ (53 : ℤ)) :
    rn53 y ≤ n := by
  obtain ⟨s1, s2⟩ := ilog2_spec y h0
  have he := ilog2_le_52' y h0 (lt_of_le_of_lt hy hn)
  rw [rn53_pos y _ s1 s2]
  generalize ilog2 y = e at *
  have := rnAt_le e y (n * (2 : ℤ) ^ (52 - e).toNat) (by rw [int_grid' n e he]; exact hy)
  rwa [int_grid' n e he] at this

theorem rn53_ge_int' (y : ℚ) (n : ℤ) (h0 : 0 < y) (hy : (n : ℚ) ≤ y) (hn : y < (2 : ℚ) ^ (53 : ℤ)) :
    (n : ℚ) ≤ rn53 y := by
  obtain ⟨s1, s2⟩ := ilog2_spec y h0
  have he := ilog2_le_52' y h0 hn
  rw [rn53_pos y _ s1 s2]
  generalize ilog2 y = e at *
  have := rnAt_ge e y (n * (2 : ℤ) ^ (52 - e).toNat) (by rw [int_grid' n e he]; exact hy)
  rwa [int_grid' n e he] at this

/-- a positive integer below `2^53` is a binary64 number -/
theorem rn53_int (n : ℤ) (h0 : 0 < n) (hn : (n : ℚ) < (2 : ℚ) ^ (53 : ℤ)) : rn53 (n : ℚ) = n := by
  have hp : (0 : ℚ) < n := by exact_mod_cast h0
  exact le_antisymm (rn53_le_int' _ n hp le_rfl hn) (rn53_ge_int' _ n hp le_rfl hn)

theorem ceil_eq_of (t : ℚ) (k : ℤ) (h1 : (k : ℚ) - 1 < t) (h2 : t ≤ k) : t.ceil = k := by
  have a : t.ceil ≤ k := Rat.ceil_le_iff.mpr h2
  have b : k - 1 < t.ceil := Rat.lt_ceil_iff.mpr (by push_cast; exact h1)
  omega

/-- **delaySamplesF_eq_of_margin.**  For a sample rate `0 < fs < 2^53`, a delay `ms > 0` with
`x = fs·ms/1000 < 2^52` samples: if `x` keeps a distance of more than `x·2^-50` from every
half-integer `m + 1/2`, the code's binary64 evaluation gives exactly the nearest sample
`ceil(x - 1/2)`.  (Within that distance it need not: `float_delay_counterexample`.) -/
theorem delaySamplesF_eq_of_margin (fs : ℤ) (ms : ℚ) (hfs : 0 < fs) (hfs' : (fs : ℚ) < (2 : ℚ) ^ (53 : ℤ))
    (hms : 0 < ms) (hx52 : (fs : ℚ) * ms / 1000 < (2 : ℚ) ^ (52 : ℤ))
    (hm : ∀ m : ℤ, (fs : ℚ) * ms / 1000 * (2 : ℚ) ^ (-50 : ℤ) < |(fs : ℚ) * ms / 1000 - ((m : ℚ) + 1 / 2)|) :
    delaySamplesF fs ms = delaySamples fs ms := by
  have hfsq : (0 : ℚ) < fs := by exact_mod_cast hfs
  unfold delaySamplesF delaySamples
  rw [rn53_int fs hfs hfs']
  -- numeric facts about u = 2^-53
  have hu0 : (0 : ℚ) < (2 : ℚ) ^ (-53 : ℤ) := two_zpow_pos _
  have hu1 : (2 : ℚ) ^ (-53 : ℤ) < 1 / 8 := by
    rw [show (-53 : ℤ) = -(53 : ℕ) by norm_num, zpow_neg, zpow_natCast]; norm_num
  have h50 : (2 : ℚ) ^ (-50 : ℤ) = 8 * (2 : ℚ) ^ (-53 : ℤ) := by
    rw [show (-50 : ℤ) = -(50 : ℕ) by norm_num, show (-53 : ℤ) = -(53 : ℕ) by norm_num, zpow_neg, zpow_neg,
      zpow_natCast, zpow_natCast]; norm_num
  have h53 : (2 : ℚ) ^ (53 : ℤ) = 2 * (2 : ℚ) ^ (52 : ℤ) := by
    rw [show (53 : ℤ) = 52 + 1 by norm_num, zpow_add_one₀ (by norm_num : (2 : ℚ) ≠ 0)]; ring
  have h52 : (1 : ℚ) ≤ (2 : ℚ) ^ (52 : ℤ) := by
    rw [show (52 : ℤ) = (52 : ℕ) by norm_num, zpow_natCast]; norm_num
  rw [h50] at hm
  have ha0 : 0 < (fs : ℚ) * ms := mul_pos hfsq hms
  have hp := rn53_rel _ ha0
  have hrel : ∀ y : ℚ, 0 < y → |rn53 y - y| ≤ y * (2 : ℚ) ^ (-53 : ℤ) := rn53_rel
  generalize (2 : ℚ) ^ (-53 : ℤ) = u at *
  generalize (2 : ℚ) ^ (52 : ℤ) = B at *
  generalize (fs : ℚ) * ms = a at *
  clear hfsq hms hfs' h50
  have hax : a = 1000 * (a / 1000) := by ring
  have hx0 : 0 < a / 1000 := by positivity
  generalize a / 1000 = x at *
  have hxu0 : 0 < x * u := mul_pos hx0 hu0
  have hau : a * u = 1000 * (x * u) := by rw [hax]; ring
  rw [hau, abs_le] at hp
  generalize rn53 a = p at *
  have hp0 : 0 < p := by
    have : x * u < x := mul_lt_of_lt_one_right hx0 (by linarith)
    linarith [hp.1]
  -- second rounding
  have hb0 : 0 < p / 1000 := by positivity
  have hq := hrel (p / 1000) hb0
  rw [abs_le] at hq
  have hbu : p / 1000 * u ≤ x * u + x * u * u := by
    have : p / 1000 ≤ x + x * u := by linarith [hp.2]
    calc p / 1000 * u ≤ (x + x * u) * u := mul_le_mul_of_nonneg_right this hu0.le
      _ = x * u + x * u * u := by ring
  have hxuu : x * u * u < x * u / 8 := by
    have := mul_lt_mul_of_pos_left hu1 hxu0; linarith
  have hxu8' : x * u < x / 8 := by
    have := mul_lt_mul_of_pos_left hu1 hx0; linarith
  generalize rn53 (p / 1000) = q at *
  have hqx1 : q - x ≤ 3 * (x * u) := by linarith [hq.2, hp.2]
  have hqx2 : x - q ≤ 3 * (x * u) := by linarith [hq.1, hp.1]
  have hq0 : 0 < q := by linarith
  clear hq hp hbu hb0 hp0 hau hax ha0
  -- the nearest sample
  have hk1 : x - 1 / 2 ≤ ((x - 1 / 2).ceil : ℚ) := Rat.le_ceil
  have hk2 : ((x - 1 / 2).ceil : ℚ) < x - 1 / 2 + 1 := Rat.ceil_lt
  generalize (x - 1 / 2).ceil = k at *
  have hm1 := hm (k - 1)
  have hm2 := hm k
  have e1 : x - (((k - 1 : ℤ) : ℚ) + 1 / 2) = x - ((k : ℚ) - 1 / 2) := by push_cast; ring
  rw [e1, abs_of_pos (by linarith)] at hm1
  have hm2' : x * (8 * u) < (k : ℚ) + 1 / 2 - x := by
    rcases lt_or_eq_of_le (show x ≤ (k : ℚ) + 1 / 2 by linarith) with h | h
    · rw [abs_of_neg (by linarith)] at hm2; linarith
    · rw [h, sub_self, abs_zero] at hm2
      have : 0 < ((k : ℚ) + 1 / 2) * (8 * u) := by rw [← h]; positivity
      linarith
  have hxu8 : x * (8 * u) = 8 * (x * u) := by ring
  rw [hxu8] at hm1 hm2'
  clear hm hm2 e1 hxu8
  -- the value fed to ceil
  have ht1 : (k : ℚ) - 1 + 5 * (x * u) < q - 1 / 2 := by linarith
  have ht2 : q - 1 / 2 < (k : ℚ) - 5 * (x * u) := by linarith
  have hk0 : 0 ≤ k := by
    have : (-1 : ℚ) < k := by linarith
    have : (-1 : ℤ) < k := by exact_mod_cast this
    omega
  apply ceil_eq_of _ k
  · -- k - 1 < rn53 (q - 1/2)
    rcases lt_or_ge 0 k with hkpos | hkz
    · -- k ≥ 1: the argument is positive
      have hk1' : (1 : ℚ) ≤ k := by exact_mod_cast hkpos
      have ht0 : 0 < q - 1 / 2 := by linarith
      have hz := hrel (q - 1 / 2) ht0
      rw [abs_le] at hz
      have hxhalf : 1 / 2 ≤ x := by linarith
      have hku : (q - 1 / 2) * u ≤ 2 * (x * u) := by
        have h1 : (q - 1 / 2) * u ≤ (k : ℚ) * u := mul_le_mul_of_nonneg_right (by linarith) hu0.le
        have h2 : (k : ℚ) * u ≤ (x + 1 / 2) * u := mul_le_mul_of_nonneg_right (by linarith) hu0.le
        have h3 : 1 / 2 * u ≤ x * u := mul_le_mul_of_nonneg_right hxhalf hu0.le
        have h4 : (x + 1 / 2) * u = x * u + 1 / 2 * u := by ring
        linarith
      linarith [hz.1]
    · -- k = 0: the argument is in (-1/2, 0)
      have hk : k = 0 := by omega
      subst hk
      push_cast at ht2 ⊢
      have hs0 : 0 < -(q - 1 / 2) := by linarith
      have hz := hrel (-(q - 1 / 2)) hs0
      rw [abs_le] at hz
      have e : rn53 (q - 1 / 2) = -rn53 (-(q - 1 / 2)) := by rw [rn53_neg, neg_neg]
      rw [e]
      have hs1 : -(q - 1 / 2) < 1 / 2 := by linarith
      have : -(q - 1 / 2) * u < 1 / 2 * (1 / 8) := mul_lt_mul'' hs1 hu1 hs0.le hu0.le
      linarith [hz.2]
  · -- rn53 (q - 1/2) ≤ k
    rcases lt_or_ge 0 k with hkpos | hkz
    · have hk1' : (1 : ℚ) ≤ k := by exact_mod_cast hkpos
      have ht0 : 0 < q - 1 / 2 := by linarith
      apply rn53_le_int' _ k ht0 (by linarith)
      rw [h53]; linarith
    · have hk : k = 0 := by omega
      subst hk
      push_cast at ht2 ⊢
      have hs0 : 0 < -(q - 1 / 2) := by linarith
      have hz := hrel (-(q - 1 / 2)) hs0
      rw [abs_le] at hz
      have e : rn53 (q - 1 / 2) = -rn53 (-(q - 1 / 2)) := by rw [rn53_neg, neg_neg]
      rw [e]
      have : -(q - 1 / 2) * u < -(q - 1 / 2) := mul_lt_of_lt_one_right hs0 (by linarith)
      linarith [hz.1]

/-- the margin theorem of `Proofs/C20FloatMargin.lean`, as a statement about specs: a coefficient
node whose delay keeps a relative distance `2^-50` from every half sample is float-exact -/
theorem floatExact_of_margin {α : Type} (fs : Int) (t : Spec α) (g : Option α) (ms : Rat)
    (ht : t.floatExact fs = true) (hfs : 0 < fs) (hfs' : (fs : Rat) < (2 : Rat) ^ (53 : Int)) (hms : 0 < ms)
    (hx52 : (fs : Rat) * ms / 1000 < (2 : Rat) ^ (52 : Int))
    (hm : ∀ m : Int, (fs : Rat) * ms / 1000 * (2 : Rat) ^ (-50 : Int) <
      |(fs : Rat) * ms / 1000 - ((m : Rat) + 1 / 2)|) :
    (Spec.matrix t g (some ms)).floatExact fs = true := by
  simp only [Spec.floatExact, ht, Bool.true_and, decide_eq_true_eq]
  exact delaySamplesF_eq_of_margin fs ms hfs hfs' hms hx52 hm

/-- non-vacuity of the margin: 1/32 ms at 48 kHz is 1.5 samples … an exact tie, so the margin
hypothesis fails there (distance 0) although the float evaluation is exact; 1/64 ms (0.75 samples)
meets it -/
example : ∀ m : Int, (48000 : Rat) * (1 / 64) / 1000 * (2 : Rat) ^ (-50 : Int) <
    |(48000 : Rat) * (1 / 64) / 1000 - ((m : Rat) + 1 / 2)| := by
  intro m
  have e : (48000 : Rat) * (1 / 64) / 1000 = 3 / 4 := by norm_num
  rw [e]
  have h50 : (2 : Rat) ^ (-50 : Int) < 1 / 8 := by
    rw [show (-50 : Int) = -(50 : Nat) by norm_num, zpow_neg, zpow_natCast]; norm_num
  have hc : (3 / 4 : Rat) * (2 : Rat) ^ (-50 : Int) < 1 / 8 := by nlinarith
  rcases le_or_gt m 0 with h | h
  · have : (m : Rat) ≤ 0 := by exact_mod_cast h
    rw [abs_of_pos (by linarith)]; linarith
  · have : (1 : Rat) ≤ m := by exact_mod_cast h
    rw [abs_of_neg (by linarith)]; linarith


/-! ## outside the margin theorem: delay 0, exact ties; five-decimal delays -/

/-- a dyadic rational `n·2^s` with `0 < n < 2^53` is a binary64 number (unbounded exponent) -/
theorem rn53_dyadic (n s : ℤ) (h0 : 0 < n) (hn : (n : ℚ) < (2 : ℚ) ^ (53 : ℤ)) :
    rn53 ((n : ℚ) * (2 : ℚ) ^ s) = (n : ℚ) * (2 : ℚ) ^ s := by
  have hp : (0 : ℚ) < (n : ℚ) * (2 : ℚ) ^ s := mul_pos (by exact_mod_cast h0) (two_zpow_pos s)
  obtain ⟨s1, s2⟩ := ilog2_spec _ hp
  have he : ilog2 ((n : ℚ) * (2 : ℚ) ^ s) ≤ 52 + s := by
    have h : (2 : ℚ) ^ ilog2 ((n : ℚ) * (2 : ℚ) ^ s) < (2 : ℚ) ^ (53 + s) := by
      rw [zpow_add₀ (by norm_num : (2 : ℚ) ≠ 0)]
      exact lt_of_le_of_lt s1 (mul_lt_mul_of_pos_right hn (two_zpow_pos s))
    have := (zpow_lt_zpow_iff_right₀ (by norm_num : (1 : ℚ) < 2)).mp h
    omega
  rw [rn53_pos _ _ s1 s2]
  generalize ilog2 ((n : ℚ) * (2 : ℚ) ^ s) = e at *
  have grid : ((n * (2 : ℤ) ^ (52 + s - e).toNat : ℤ) : ℚ) * (2 : ℚ) ^ (e - 52) = (n : ℚ) * (2 : ℚ) ^ s := by
    push_cast
    rw [← zpow_natCast, Int.toNat_of_nonneg (by omega), mul_assoc, ← zpow_add₀ (by norm_num)]
    congr 2; ring
  apply le_antisymm
  · have := rnAt_le e ((n : ℚ) * (2 : ℚ) ^ s) (n * (2 : ℤ) ^ (52 + s - e).toNat) (by rw [grid])
    rwa [grid] at this
  · have := rnAt_ge e ((n : ℚ) * (2 : ℚ) ^ s) (n * (2 : ℤ) ^ (52 + s - e).toNat) (by rw [grid])
    rwa [grid] at this

theorem rn53_neg_half : rn53 (-(1 / 2 : ℚ)) = -(1 / 2) := by
  rw [rn53_neg]
  have := rn53_dyadic 1 (-1) (by norm_num) (by norm_num)
  have e : ((1 : ℤ) : ℚ) * (2 : ℚ) ^ (-1 : ℤ) = 1 / 2 := by norm_num
  rw [e] at this; rw [this]

/-- **delaySamplesF_zero.**  A coefficient delay of 0 ms gives 0 samples, in binary64 and exactly, at every
sample rate (`delaySamplesF_eq_of_margin` needs `0 < ms`). -/
theorem delaySamplesF_zero (fs : ℤ) : delaySamplesF fs 0 = 0 ∧ delaySamples fs 0 = 0 := by
  have c : (-(1 / 2 : ℚ)).ceil = 0 := ceil_eq_of _ 0 (by norm_num) (by norm_num)
  constructor
  · unfold delaySamplesF
    rw [mul_zero, rn53_zero, zero_div, rn53_zero, zero_sub, rn53_neg_half, c]
  · unfold delaySamples
    rw [mul_zero, zero_div, zero_sub, c]

/-- **delaySamplesF_tie.**  An exact half sample `fs·ms/1000 = m + 1/2` (`m ≥ 0`, `500·(2m+1) < 2^53`,
`0 < fs < 2^53`) is converted exactly by the code: every intermediate result (`fs·ms = 500·(2m+1)`,
`m + 1/2`, `m`) is a binary64 number, and both conversions give the earlier sample `m`. -/
theorem delaySamplesF_tie (fs : ℤ) (ms : ℚ) (m : ℤ) (hfs : 0 < fs) (hfs' : (fs : ℚ) < (2 : ℚ) ^ (53 : ℤ))
    (hm0 : 0 ≤ m) (hm : ((500 * (2 * m + 1) : ℤ) : ℚ) < (2 : ℚ) ^ (53 : ℤ))
    (hx : (fs : ℚ) * ms / 1000 = (m : ℚ) + 1 / 2) :
    delaySamplesF fs ms = m ∧ delaySamples fs ms = m := by
  have hc : ((m : ℚ)).ceil = m := ceil_eq_of _ m (by linarith) le_rfl
  have hmq : (0 : ℚ) ≤ m := by exact_mod_cast hm0
  have hprod : (fs : ℚ) * ms = ((500 * (2 * m + 1) : ℤ) : ℚ) := by
    push_cast; linarith
  have hm' : ((2 * m + 1 : ℤ) : ℚ) < (2 : ℚ) ^ (53 : ℤ) := by
    push_cast at hm ⊢; linarith
  have hm'' : (m : ℚ) < (2 : ℚ) ^ (53 : ℤ) := by push_cast at hm'; linarith
  constructor
  · unfold delaySamplesF
    rw [rn53_int fs hfs hfs', hprod, rn53_int _ (by omega) hm]
    have e : ((500 * (2 * m + 1) : ℤ) : ℚ) / 1000 = ((2 * m + 1 : ℤ) : ℚ) * (2 : ℚ) ^ (-1 : ℤ) := by
      push_cast; norm_num; ring
    rw [e, rn53_dyadic _ _ (by omega) hm']
    have e2 : ((2 * m + 1 : ℤ) : ℚ) * (2 : ℚ) ^ (-1 : ℤ) - 1 / 2 = (m : ℚ) := by
      push_cast; norm_num; ring
    rw [e2]
    rcases Int.lt_or_eq_of_le hm0 with h | h
    · rw [rn53_int m h hm'', hc]
    · subst h; simp [rn53_zero]; exact ceil_eq_of _ 0 (by norm_num) (by norm_num)
  · unfold delaySamples
    rw [hx]
    have : (m : ℚ) + 1 / 2 - 1 / 2 = m := by ring
    rw [this, hc]

/-- 0.03125 ms at 48 kHz = 1.5 samples, 0.15625 ms = 7.5 samples, 5 ms at 44.1 kHz = 220.5 samples -/
example : (((48000 : ℤ) : ℚ) * (1 / 32) / 1000 = ((1 : ℤ) : ℚ) + 1 / 2) ∧
    (((48000 : ℤ) : ℚ) * (5 / 32) / 1000 = ((7 : ℤ) : ℚ) + 1 / 2) ∧
    (((44100 : ℤ) : ℚ) * 5 / 1000 = ((220 : ℤ) : ℚ) + 1 / 2) := by norm_num

theorem two_pow_53 : (2 : ℚ) ^ (53 : ℤ) = 9007199254740992 := by
  rw [show (53 : ℤ) = (53 : ℕ) by norm_num, zpow_natCast]; norm_num

theorem two_pow_52 : (2 : ℚ) ^ (52 : ℤ) = 4503599627370496 := by
  rw [show (52 : ℤ) = (52 : ℕ) by norm_num, zpow_natCast]; norm_num

/-- **delaySamplesF_decimal_nontie.**  A delay written with five decimals, `k/10^5` ms (`k > 0`), read as
the nearest binary64 number `ms = rn53 (k/10^5)`, at a sample rate with `fs·k ≤ 10^14` (at most `10^6`
samples of delay) whose exact value in samples `fs·k/10^8` is not a half-integer: the code's binary64
conversion gives the nearest sample of `ms`, which is also the nearest sample of the decimal `k/10^5`. -/
theorem delaySamplesF_decimal_nontie (fs : ℤ) (k : ℕ) (hfs : 0 < fs) (hk : 0 < k)
    (hb : fs * k ≤ 10 ^ 14) (hnt : ∀ m : ℤ, 2 * fs * k ≠ 10 ^ 8 * (2 * m + 1)) :
    delaySamplesF fs (rn53 ((k : ℚ) / 10 ^ 5)) = delaySamples fs (rn53 ((k : ℚ) / 10 ^ 5)) ∧
    delaySamples fs (rn53 ((k : ℚ) / 10 ^ 5)) = delaySamples fs ((k : ℚ) / 10 ^ 5) := by
  have hfsq : (0 : ℚ) < fs := by exact_mod_cast hfs
  have hkq : (0 : ℚ) < k := by exact_mod_cast hk
  have hbq : (fs : ℚ) * k ≤ 10 ^ 14 := by exact_mod_cast hb
  have hfs53 : (fs : ℚ) < (2 : ℚ) ^ (53 : ℤ) := by
    rw [two_pow_53]
    have : (1 : ℚ) ≤ k := by exact_mod_cast hk
    nlinarith
  have hd : (0 : ℚ) < (k : ℚ) / 10 ^ 5 := by positivity
  have hrel := rn53_rel _ hd
  -- distance of the exact decimal value from every half sample
  have hdist : ∀ m : ℤ, 1 / (2 * 10 ^ 8 : ℚ) ≤ |(fs : ℚ) * ((k : ℚ) / 10 ^ 5) / 1000 - ((m : ℚ) + 1 / 2)| := by
    intro m
    have hne : (2 * fs * k - 10 ^ 8 * (2 * m + 1) : ℤ) ≠ 0 := sub_ne_zero.mpr (hnt m)
    have h1 : (1 : ℚ) ≤ |((2 * fs * k - 10 ^ 8 * (2 * m + 1) : ℤ) : ℚ)| := by
      exact_mod_cast Int.one_le_abs hne
    have e : (fs : ℚ) * ((k : ℚ) / 10 ^ 5) / 1000 - ((m : ℚ) + 1 / 2) =
        ((2 * fs * k - 10 ^ 8 * (2 * m + 1) : ℤ) : ℚ) / (2 * 10 ^ 8) := by
      push_cast; ring
    rw [e, abs_div, abs_of_pos (by norm_num : (0 : ℚ) < 2 * 10 ^ 8)]
    exact div_le_div_of_nonneg_right h1 (by norm_num)
  have hu : (2 : ℚ) ^ (-53 : ℤ) < 12 / 10 ^ 17 := by
    rw [show (-53 : ℤ) = -(53 : ℕ) by norm_num, zpow_neg, zpow_natCast]; norm_num
  have hu0 : (0 : ℚ) < (2 : ℚ) ^ (-53 : ℤ) := two_zpow_pos _
  have h50 : (2 : ℚ) ^ (-50 : ℤ) = 8 * (2 : ℚ) ^ (-53 : ℤ) := by
    rw [show (-50 : ℤ) = -(50 : ℕ) by norm_num, show (-53 : ℤ) = -(53 : ℕ) by norm_num, zpow_neg, zpow_neg,
      zpow_natCast, zpow_natCast]; norm_num
  generalize (2 : ℚ) ^ (-53 : ℤ) = u at *
  generalize hms : rn53 ((k : ℚ) / 10 ^ 5) = ms at *
  -- x = exact samples of the decimal, x' = exact samples of the double
  have hxx : |(fs : ℚ) * ms / 1000 - (fs : ℚ) * ((k : ℚ) / 10 ^ 5) / 1000| ≤
      (fs : ℚ) * ((k : ℚ) / 10 ^ 5) / 1000 * u := by
    have e : (fs : ℚ) * ms / 1000 - (fs : ℚ) * ((k : ℚ) / 10 ^ 5) / 1000 =
        (fs : ℚ) / 1000 * (ms - (k : ℚ) / 10 ^ 5) := by ring
    rw [e, abs_mul, abs_of_pos (by positivity : (0 : ℚ) < (fs : ℚ) / 1000)]
    calc (fs : ℚ) / 1000 * |ms - (k : ℚ) / 10 ^ 5| ≤ (fs : ℚ) / 1000 * ((k : ℚ) / 10 ^ 5 * u) :=
          mul_le_mul_of_nonneg_left hrel (by positivity)
      _ = _ := by ring
  have hx0 : 0 < (fs : ℚ) * ((k : ℚ) / 10 ^ 5) / 1000 := by positivity
  have hx6 : (fs : ℚ) * ((k : ℚ) / 10 ^ 5) / 1000 ≤ 10 ^ 6 := by
    have e : (fs : ℚ) * ((k : ℚ) / 10 ^ 5) / 1000 = (fs : ℚ) * k / 10 ^ 8 := by ring
    rw [e, div_le_iff₀ (by norm_num)]; linarith
  have hms0 : 0 < ms := by
    rw [abs_le] at hrel
    have : (k : ℚ) / 10 ^ 5 * u < (k : ℚ) / 10 ^ 5 := mul_lt_of_lt_one_right hd (by linarith)
    linarith [hrel.1]
  generalize hxdef : (fs : ℚ) * ((k : ℚ) / 10 ^ 5) / 1000 = x at *
  have hw : x * u < 12 / 10 ^ 11 := by
    calc x * u ≤ 10 ^ 6 * u := mul_le_mul_of_nonneg_right hx6 hu0.le
      _ < 10 ^ 6 * (12 / 10 ^ 17) := mul_lt_mul_of_pos_left hu (by norm_num)
      _ = 12 / 10 ^ 11 := by norm_num
  have hwu : x * u * u < x * u / 8 := by
    have : u < 1 / 8 := by linarith
    have := mul_lt_mul_of_pos_left this (mul_pos hx0 hu0); linarith
  have hxw0 : 0 < x * u := mul_pos hx0 hu0
  have hxxu := abs_le.mp hxx
  have hfar : ∀ m : ℤ, 1 / (2 * 10 ^ 8 : ℚ) - x * u ≤ |(fs : ℚ) * ms / 1000 - ((m : ℚ) + 1 / 2)| := by
    intro m
    have t := abs_sub_le x ((fs : ℚ) * ms / 1000) ((m : ℚ) + 1 / 2)
    rw [abs_sub_comm x ((fs : ℚ) * ms / 1000)] at t
    linarith [hdist m]
  constructor
  · apply delaySamplesF_eq_of_margin fs ms hfs hfs53 hms0
    · rw [two_pow_52]; linarith [hxxu.2]
    · intro m
      rw [h50]
      have : (fs : ℚ) * ms / 1000 * (8 * u) ≤ 8 * (x * u) + 8 * (x * u * u) := by
        have : (fs : ℚ) * ms / 1000 ≤ x + x * u := by linarith [hxxu.2]
        calc (fs : ℚ) * ms / 1000 * (8 * u) ≤ (x + x * u) * (8 * u) :=
              mul_le_mul_of_nonneg_right this (by linarith)
          _ = _ := by ring
      have h5 : (1 : ℚ) / (2 * 10 ^ 8) = 5 / 10 ^ 9 := by norm_num
      linarith [hfar m]
  · apply delay_rounding_unique
    · rw [hxdef]
      obtain ⟨a, -⟩ := delay_rounding fs ms
      have a' : ((delaySamples fs ms : ℤ) : ℚ) - 1 / 2 < (fs : ℚ) * ms / 1000 := a
      by_contra hc
      have hc' := not_lt.mp hc
      have e : ((delaySamples fs ms : ℤ) : ℚ) - 1 / 2 = ((delaySamples fs ms - 1 : ℤ) : ℚ) + 1 / 2 := by
        push_cast; ring
      have t := hdist (delaySamples fs ms - 1)
      rw [← e, abs_of_nonpos (by linarith)] at t
      have h5 : (1 : ℚ) / (2 * 10 ^ 8) = 5 / 10 ^ 9 := by norm_num
      linarith [hxxu.2]
    · rw [hxdef]
      obtain ⟨-, b⟩ := delay_rounding fs ms
      have b' : (fs : ℚ) * ms / 1000 ≤ ((delaySamples fs ms : ℤ) : ℚ) + 1 / 2 := b
      by_contra hc
      have hc' := not_le.mp hc
      have t := hdist (delaySamples fs ms)
      rw [abs_of_pos (by linarith)] at t
      have h5 : (1 : ℚ) / (2 * 10 ^ 8) = 5 / 10 ^ 9 := by norm_num
      linarith [hxxu.1]

/-- at 48 kHz a five-decimal delay that is an exact half sample is a multiple of 1/32 ms -/
theorem tie48 (k : ℕ) (m : ℤ) (hm : 2 * 48000 * (k : ℤ) = 10 ^ 8 * (2 * m + 1)) : ∃ t : ℕ, k = 3125 * t := by
  have h3 : (3125 : ℤ) ∣ 3 * (k : ℤ) := ⟨2 * m + 1, by norm_num at hm; omega⟩
  obtain ⟨t, ht⟩ := Int.dvd_of_dvd_mul_right_of_gcd_one h3 (by decide)
  clear hm h3
  exact ⟨t.toNat, by omega⟩

/-- at 44.1 kHz a five-decimal delay that is an exact half sample is a multiple of 5 ms -/
theorem tie44 (k : ℕ) (m : ℤ) (hm : 2 * 44100 * (k : ℤ) = 10 ^ 8 * (2 * m + 1)) : ∃ t : ℕ, k = 500000 * t := by
  have h3 : (500000 : ℤ) ∣ 441 * (k : ℤ) := ⟨2 * m + 1, by norm_num at hm; omega⟩
  obtain ⟨t, ht⟩ := Int.dvd_of_dvd_mul_right_of_gcd_one h3 (by decide)
  clear hm h3
  exact ⟨t.toNat, by omega⟩

/-- at 96 kHz no five-decimal delay is an exact half sample -/
theorem tie96 (k : ℕ) (m : ℤ) (hm : 2 * 96000 * (k : ℤ) = 10 ^ 8 * (2 * m + 1)) : False := by
  norm_num at hm; omega

/-- the tie case of a five-decimal delay whose value is itself a binary64 number -/
theorem delaySamplesF_decimal_tie (fs : ℤ) (k : ℕ) (m : ℤ) (hfs : 0 < fs) (hk : 0 < k)
    (hb : fs * k ≤ 10 ^ 14) (htie : 2 * fs * k = 10 ^ 8 * (2 * m + 1))
    (hrep : rn53 ((k : ℚ) / 10 ^ 5) = (k : ℚ) / 10 ^ 5) :
    delaySamplesF fs (rn53 ((k : ℚ) / 10 ^ 5)) = delaySamples fs (rn53 ((k : ℚ) / 10 ^ 5)) ∧
    delaySamples fs (rn53 ((k : ℚ) / 10 ^ 5)) = delaySamples fs ((k : ℚ) / 10 ^ 5) := by
  rw [hrep]
  refine ⟨?_, rfl⟩
  have hbq : (fs : ℚ) * k ≤ 10 ^ 14 := by exact_mod_cast hb
  have hfs53 : (fs : ℚ) < (2 : ℚ) ^ (53 : ℤ) := by
    rw [two_pow_53]
    have : (1 : ℚ) ≤ k := by exact_mod_cast hk
    have : (0 : ℚ) < fs := by exact_mod_cast hfs
    nlinarith
  have hx : (fs : ℚ) * ((k : ℚ) / 10 ^ 5) / 1000 = (m : ℚ) + 1 / 2 := by
    have : ((2 * fs * k : ℤ) : ℚ) = ((10 ^ 8 * (2 * m + 1) : ℤ) : ℚ) := by rw [htie]
    push_cast at this
    field_simp
    linarith
  have hP0 : 0 < fs * (k : ℤ) := Int.mul_pos hfs (by exact_mod_cast hk)
  rw [show 2 * fs * (k : ℤ) = 2 * (fs * k) by ring] at htie
  generalize fs * (k : ℤ) = P at htie hb hP0
  norm_num at htie hb
  have hm0 : 0 ≤ m := by omega
  have hm2 : 500 * (2 * m + 1) ≤ 1000000000 := by omega
  have hm : ((500 * (2 * m + 1) : ℤ) : ℚ) < (2 : ℚ) ^ (53 : ℤ) := by
    rw [two_pow_53]
    have : ((500 * (2 * m + 1) : ℤ) : ℚ) ≤ ((1000000000 : ℤ) : ℚ) := by exact_mod_cast hm2
    push_cast at this ⊢; linarith
  obtain ⟨a, b⟩ := delaySamplesF_tie fs _ m hfs hfs53 hm0 hm hx
  rw [a, b]

/-- **five_decimal_delay_exact.**  DESIGN's "unreachable from five-decimal delays", as a theorem: at the
sample rates 44100, 48000 and 96000, for every delay written with five decimals up to 10 s
(`k/10^5` ms, `k ≤ 10^9`) and read as the nearest binary64 number `ms`, the code's binary64 conversion
gives the nearest sample of `ms` (so the deviation of `float_delay_counterexample` cannot occur), and
that is also the nearest sample of the decimal number `k/10^5` itself.  (Exact ties do occur among
five-decimal delays — `k = 3125·t` at 48 kHz, `k = 500000·t` at 44.1 kHz, none at 96 kHz — but
then `k/10^5` is a binary64 number and everything is computed exactly.) -/
theorem five_decimal_delay_exact (fs : ℤ) (hfs : fs = 44100 ∨ fs = 48000 ∨ fs = 96000) (k : ℕ)
    (hk : k ≤ 10 ^ 9) :
    delaySamplesF fs (rn53 ((k : ℚ) / 10 ^ 5)) = delaySamples fs (rn53 ((k : ℚ) / 10 ^ 5)) ∧
    delaySamples fs (rn53 ((k : ℚ) / 10 ^ 5)) = delaySamples fs ((k : ℚ) / 10 ^ 5) := by
  rcases Nat.eq_zero_or_pos k with rfl | hk0
  · simp only [Nat.cast_zero, zero_div, rn53_zero, (delaySamplesF_zero fs).1, (delaySamplesF_zero fs).2,
      and_self]
  have hkz : (k : ℤ) ≤ 1000000000 := by exact_mod_cast hk
  have hb : fs * k ≤ 10 ^ 14 := by
    rcases hfs with rfl | rfl | rfl <;> norm_num <;> linarith
  have hfs0 : 0 < fs := by rcases hfs with rfl | rfl | rfl <;> norm_num
  have hk53 : ∀ t : ℕ, t ≤ k → ((t : ℤ) : ℚ) < (2 : ℚ) ^ (53 : ℤ) := by
    intro t ht
    rw [two_pow_53]
    have : ((t : ℤ) : ℚ) ≤ ((1000000000 : ℤ) : ℚ) := by
      have : (t : ℤ) ≤ 1000000000 := by omega
      exact_mod_cast this
    push_cast at this ⊢; linarith
  by_cases htie : ∃ m : ℤ, 2 * fs * k = 10 ^ 8 * (2 * m + 1)
  · obtain ⟨m, hm⟩ := htie
    apply delaySamplesF_decimal_tie fs k m hfs0 hk0 hb hm
    clear hb hkz hk
    rcases hfs with rfl | rfl | rfl
    · -- 44100: k = 500000·t, the delay is the integer 5·t ms
      obtain ⟨t, ht⟩ := tie44 k m hm
      clear hm
      have e : (k : ℚ) / 10 ^ 5 = (((5 * t : ℕ) : ℤ) : ℚ) := by rw [ht]; push_cast; ring
      rw [e]
      exact rn53_int _ (by omega) (hk53 _ (by omega))
    · -- 48000: k = 3125·t, the delay is t/32 ms
      obtain ⟨t, ht⟩ := tie48 k m hm
      clear hm
      have e : (k : ℚ) / 10 ^ 5 = ((t : ℤ) : ℚ) * (2 : ℚ) ^ (-5 : ℤ) := by
        rw [ht, show (-5 : ℤ) = -(5 : ℕ) by norm_num, zpow_neg, zpow_natCast]; push_cast; ring
      rw [e]
      exact rn53_dyadic _ _ (by omega) (hk53 _ (by omega))
    · -- 96000: 6·k = 3125·(2m+1) is impossible
      exact (tie96 k m hm).elim
  · exact delaySamplesF_decimal_nontie fs k hfs0 hk0 hb (fun m h => htie ⟨m, h⟩)

/-- `five_decimal_delay_exact` as a statement about specs: a coefficient node whose delay is a five-decimal
number of ms (≤ 10 s, read as a double) is float-exact at 44.1/48/96 kHz, so
`processorF_eq_meaningStrict` / `driver_eq_meaningStrict` apply to every spec built from such nodes -/
theorem floatExact_of_five_decimal {α : Type} (fs : Int) (hfs : fs = 44100 ∨ fs = 48000 ∨ fs = 96000)
    (t : Spec α) (g : Option α) (k : Nat) (hk : k ≤ 10 ^ 9) (ht : t.floatExact fs = true) :
    (Spec.matrix t g (some (rn53 ((k : Rat) / 10 ^ 5)))).floatExact fs = true := by
  simp only [Spec.floatExact, ht, Bool.true_and, decide_eq_true_eq]
  exact (five_decimal_delay_exact fs hfs k hk).1

/-- non-vacuity of `delaySamplesF_decimal_nontie`: 0.00001 ms and 0.05208 ms (2.49984 samples, the
five-decimal neighbour of the counterexample delay) at 48 kHz are not half samples -/
example : (0 : ℤ) < 48000 ∧ 0 < 5208 ∧ (48000 : ℤ) * (5208 : ℕ) ≤ 10 ^ 14 ∧
    ∀ m : ℤ, 2 * (48000 : ℤ) * (5208 : ℕ) ≠ 10 ^ 8 * (2 * m + 1) := by
  refine ⟨by norm_num, by norm_num, by norm_num, fun m h => ?_⟩
  norm_num at h; omega
/-- instances of `five_decimal_delay_exact`: 0.03125 ms at 48 kHz (an exact tie, 1.5 samples) and
0.05208 ms (no tie); the statement then says the code converts them like exact arithmetic -/
example : delaySamplesF 48000 (rn53 ((3125 : ℕ) / 10 ^ 5)) = delaySamples 48000 ((3125 : ℕ) / 10 ^ 5) := by
  have := five_decimal_delay_exact 48000 (Or.inr (Or.inl rfl)) 3125 (by norm_num)
  rw [this.1, this.2]
example : delaySamplesF 48000 (rn53 ((5208 : ℕ) / 10 ^ 5)) = 2 ∧ delaySamples 48000 ((5208 : ℕ) / 10 ^ 5) = 2 := by
  decide +kernel

end Earverif.TrackSpec
