/- C05, Stage 2 — soundness of the Bool certificate checker `Cover.coverCertOk` (Model/PointSourceCover.lean):
   if it answers `true` for a layout table and a certificate, every non-zero direction lies in the cone of the
   vertices (as reals, `m·2^e` exactly) of one of the certificate's cells, i.e. of three vertices of one region of
   the table (`cover_of_cert`).

   The checker computes with the coordinates times `2^K` as integers; `castV` takes those to ℝ, where the hypotheses
   of `cover_of_cells` (Stage 1) are read off the Bool conjunctions; cones do not change under scaling. -/
import Earverif.Proofs.C05Cover
import Earverif.Model.PointSourceCover
import Mathlib.Tactic.Push
import Mathlib.Data.Int.Cast.Lemmas
import Mathlib.Data.Rat.Cast.Defs
import Mathlib.Data.List.Forall2

namespace Earverif.PointSource.Cover
open Earverif.PointSource

/-- binary64 table literals `m · 2^e` as reals (the same function as C01's instance; low priority so that it never
    competes) -/
noncomputable instance (priority := low) instOfF2RealCover : OfF2 ℝ := ⟨fun x => ((f2Rat x : ℚ) : ℝ)⟩

def castV (a : IV) : Vec3 ℝ := ((a.1 : ℝ), (a.2.1 : ℝ), (a.2.2 : ℝ))

theorem dot3_cast (a b : IV) : dot3 (castV a) (castV b) = ((idot a b : ℤ) : ℝ) := by
  simp only [dot3, castV, idot]; push_cast; ring

theorem det3_cast (a b c : IV) : det3 (castV a, castV b, castV c) = ((idet a b c : ℤ) : ℝ) := by
  simp only [det3, castV, idet]; push_cast; ring

theorem add3_cast (a b : IV) : add3 (castV a) (castV b) = castV (iadd a b) := by
  simp only [add3, castV, iadd]; push_cast; rfl

noncomputable def toG (k : RCell) : GCell := ⟨castV k.n, (k.c : ℝ), k.vs.map castV⟩

/-! ### the checker's conjunctions over ℝ -/

theorem edgeOk_sound (rs : List RCell) (j : Nat) (w1 w2 w3 : IV) (h : edgeOk rs j w1 w2 w3 = true) :
    EdgeOk (rs.map toG) (castV w1) (castV w2) (castV w3) := by
  unfold edgeOk at h
  split at h
  · rename_i J hJ
    simp only [Bool.and_eq_true, beq_iff_eq, decide_eq_true_eq] at h
    obtain ⟨⟨h1, h2⟩, h3⟩ := h
    refine ⟨toG J, List.mem_map.mpr ⟨J, List.mem_of_getElem? hJ, rfl⟩, ?_, ?_, ?_⟩
    · simp only [toG, dot3_cast]; exact_mod_cast h1
    · simp only [toG, dot3_cast]; exact_mod_cast h2
    · simp only [toG, dot3_cast]; exact_mod_cast h3
  · exact absurd h (by simp)

theorem cellOk_sound (rs : List RCell) (k : RCell) (h : cellOk rs k = true) :
    0 < (toG k).c ∧ (toG k).LocalOk (rs.map toG) := by
  unfold cellOk at h
  rw [Bool.and_eq_true, decide_eq_true_eq] at h
  obtain ⟨hc, hm⟩ := h
  refine ⟨by simp only [toG]; exact_mod_cast hc, ?_⟩
  split at hm
  · rename_i a b c j1 j2 j3 hv hn
    simp only [Bool.and_eq_true, beq_iff_eq, bne_iff_ne, ne_eq] at hm
    obtain ⟨⟨⟨⟨⟨⟨ha, hb⟩, hcc⟩, hD⟩, e1⟩, e2⟩, e3⟩ := hm
    have hvs : (toG k).vs = [castV a, castV b, castV c] := by simp [toG, hv]
    unfold GCell.LocalOk
    rw [hvs]
    refine ⟨?_, ?_, ?_, ?_, edgeOk_sound rs j1 a b c e1, edgeOk_sound rs j2 b c a e2, edgeOk_sound rs j3 c a b e3⟩
    · simp only [toG, dot3_cast]; exact_mod_cast ha
    · simp only [toG, dot3_cast]; exact_mod_cast hb
    · simp only [toG, dot3_cast]; exact_mod_cast hcc
    · rw [det3_cast]; exact_mod_cast hD
  · rename_i a b c d j1 j2 j3 j4 hv hn
    simp only [Bool.and_eq_true, beq_iff_eq, decide_eq_true_eq] at hm
    obtain ⟨⟨⟨⟨⟨⟨⟨⟨ha, hb⟩, hcc⟩, hd⟩, hDD⟩, e1⟩, e2⟩, e3⟩, e4⟩ := hm
    have hvs : (toG k).vs = [castV a, castV b, castV c, castV d] := by simp [toG, hv]
    unfold GCell.LocalOk
    rw [hvs]
    refine ⟨?_, ?_, ?_, ?_, ?_, edgeOk_sound rs j1 a b c e1, edgeOk_sound rs j2 b c a e2, edgeOk_sound rs j3 c d a e3,
      edgeOk_sound rs j4 d a c e4⟩
    · simp only [toG, dot3_cast]; exact_mod_cast ha
    · simp only [toG, dot3_cast]; exact_mod_cast hb
    · simp only [toG, dot3_cast]; exact_mod_cast hcc
    · simp only [toG, dot3_cast]; exact_mod_cast hd
    · rw [det3_cast, det3_cast]; exact_mod_cast hDD
  · exact absurd hm (by simp)

theorem sumN_cast : ∀ rs : List RCell, sumN (rs.map toG) = castV (sumNormals rs)
  | [] => by simp [sumN, sumNormals, castV]
  | k :: ks => by
    simp only [List.map_cons, sumN, sumNormals, sumN_cast ks, ← add3_cast]
    rfl

theorem spanOk_sound (rs : List RCell) (s : Nat × Nat × Nat) (h : spanOk rs s = true) :
    ∃ a ∈ rs.map toG, ∃ b ∈ rs.map toG, ∃ c ∈ rs.map toG, det3 (a.n, b.n, c.n) ≠ 0 := by
  unfold spanOk at h
  split at h
  · rename_i a b c ha hb hc
    refine ⟨toG a, List.mem_map.mpr ⟨a, List.mem_of_getElem? ha, rfl⟩, toG b,
      List.mem_map.mpr ⟨b, List.mem_of_getElem? hb, rfl⟩, toG c, List.mem_map.mpr ⟨c, List.mem_of_getElem? hc, rfl⟩, ?_⟩
    simp only [bne_iff_ne, ne_eq] at h
    simp only [toG, det3_cast]
    exact_mod_cast h
  · exact absurd h (by simp)

/-- the integer check implies the covering by the cones of the scaled integer vertices -/
theorem cellsOk_cover (rs : List RCell) (s : Nat × Nat × Nat) (h : cellsOk rs s = true) (p : Vec3 ℝ)
    (hp : p ≠ (0, 0, 0)) : ∃ k ∈ rs, (toG k).LocalOk (rs.map toG) ∧ (toG k).Covers p := by
  unfold cellsOk at h
  simp only [Bool.and_eq_true, List.all_eq_true, beq_iff_eq] at h
  obtain ⟨⟨hall, hsum⟩, hspan⟩ := h
  have hcells : ∀ g ∈ rs.map toG, 0 < g.c ∧ g.LocalOk (rs.map toG) := by
    intro g hg
    obtain ⟨k, hk, rfl⟩ := List.mem_map.mp hg
    exact cellOk_sound rs k (hall k hk)
  have hs : sumN (rs.map toG) = (0, 0, 0) := by
    rw [sumN_cast, hsum]; simp [castV]
  obtain ⟨g, hg, hcov⟩ := cover_of_cells (rs.map toG) (fun g hg => (hcells g hg).1) (fun g hg => (hcells g hg).2) hs
    (spanOk_sound rs s hspan) p hp
  obtain ⟨k, hk, rfl⟩ := List.mem_map.mp hg
  exact ⟨k, hk, (hcells _ hg).2, hcov⟩

/-! ### scaling -/

theorem scaleF2_real (K : Nat) (x : F2) (z : Int) (h : scaleF2 K x = some z) :
    ((f2Rat x : ℚ) : ℝ) * 2 ^ K = (z : ℝ) := by
  obtain ⟨m, e⟩ := x
  unfold scaleF2 at h
  simp only at h
  split at h
  · rename_i hK
    simp only [Option.some.injEq] at h
    subst h
    unfold f2Rat
    simp only
    by_cases he : e ≥ 0
    · rw [if_pos he]
      obtain ⟨n, rfl⟩ := Int.eq_ofNat_of_zero_le he
      have h1 : ((n : Int) + (K : Int)).toNat = n + K := by omega
      rw [h1, Int.toNat_natCast]
      push_cast
      rw [pow_add]; ring
    · rw [if_neg he]
      have hneg : 0 ≤ -e := by omega
      obtain ⟨f, hf⟩ := Int.eq_ofNat_of_zero_le hneg
      have h1 : (e + (K : Int)).toNat + f = K := by omega
      rw [hf, Int.toNat_natCast, Rat.mkRat_eq_div]
      generalize (e + (K : Int)).toNat = n at h1 ⊢
      subst h1
      push_cast
      rw [pow_add]
      have : (2 : ℝ) ^ f ≠ 0 := by positivity
      field_simp
  · exact absurd h (by simp)

theorem scaleP3_real (K : Nat) (v : P3) (w : IV) (h : scaleP3 K v = some w) :
    castV w = smul3 ((2 : ℝ) ^ K) (p3 v) := by
  unfold scaleP3 at h
  split at h
  · rename_i x y z hx hy hz
    simp only [Option.some.injEq] at h
    subst h
    have e1 := scaleF2_real K _ _ hx
    have e2 := scaleF2_real K _ _ hy
    have e3 := scaleF2_real K _ _ hz
    simp only [castV, smul3, p3, OfF2.ofF2]
    refine Prod.ext ?_ (Prod.ext ?_ ?_) <;> simp only
    · rw [← e1]; ring
    · rw [← e2]; ring
    · rw [← e3]; ring
  · exact absurd h (by simp)

theorem InCone3.of_scaled {a b c p : Vec3 ℝ} {S : ℝ} (hS : 0 ≤ S)
    (h : InCone3 (smul3 S a) (smul3 S b) (smul3 S c) p) : InCone3 a b c p := by
  obtain ⟨s, t, u, hs, ht, hu, rfl⟩ := h
  refine ⟨s * S, t * S, u * S, mul_nonneg hs hS, mul_nonneg ht hS, mul_nonneg hu hS, ?_⟩
  obtain ⟨a0, a1, a2⟩ := a
  obtain ⟨b0, b1, b2⟩ := b
  obtain ⟨c0, c1, c2⟩ := c
  simp only [comb3, add3, smul3]
  refine Prod.ext ?_ (Prod.ext ?_ ?_) <;> simp only <;> ring

theorem det3_smul (S : ℝ) (a b c : Vec3 ℝ) : det3 (smul3 S a, smul3 S b, smul3 S c) = S ^ 3 * det3 (a, b, c) := by
  obtain ⟨a0, a1, a2⟩ := a
  obtain ⟨b0, b1, b2⟩ := b
  obtain ⟨c0, c1, c2⟩ := c
  simp only [det3, smul3]; ring

/-! ### what a cell says about the table -/

/-- `p` is a non-negative combination of the vertices in slots `i1 i2 i3` of region `r`, which are linearly independent -/
def RegionCone3 (r : RawRegion) (i1 i2 i3 : Nat) (p : Vec3 ℝ) : Prop :=
  ∃ a b c, (verts r)[i1]? = some a ∧ (verts r)[i2]? = some b ∧ (verts r)[i3]? = some c ∧
    det3 ((p3 a : Vec3 ℝ), p3 b, p3 c) ≠ 0 ∧ InCone3 (p3 a) (p3 b) (p3 c) p

/-- `p` is covered by the cell `c` of a certificate for the layout table `l`: the cell names a region of the table,
    its slots are admissible for the region's kind (`slotsOk`) and `p` is in the cone of the three named vertices
    (of one of the two triangles `123`, `134` of a four-vertex cell). -/
def CellCovers (l : RawLayout) (c : Cell) (p : Vec3 ℝ) : Prop :=
  ∃ r, l.regions[c.region]? = some r ∧ slotsOk r c = true ∧
    match c.vs with
    | [i1, i2, i3] => RegionCone3 r i1 i2 i3 p
    | [i1, i2, i3, i4] => RegionCone3 r i1 i2 i3 p ∨ RegionCone3 r i1 i3 i4 p
    | _ => False

theorem mapM_some_mem' {β γ : Type} (f : β → Option γ) : ∀ (l : List β) (out : List γ), l.mapM f = some out →
    ∀ r ∈ out, ∃ b ∈ l, f b = some r
  | [], out, h, r, hr => by
    simp only [List.mapM_nil, Option.pure_def, Option.some.injEq] at h
    subst h; simp at hr
  | b :: l, out, h, r, hr => by
    rw [List.mapM_cons] at h
    cases hb : f b with
    | none => simp [hb] at h
    | some c =>
      cases hl : l.mapM f with
      | none => simp [hb, hl] at h
      | some cs =>
        simp only [hb, hl, Option.bind_eq_bind, Option.bind_some, Option.pure_def, Option.some.injEq] at h
        subst h
        simp only [List.mem_cons] at hr
        rcases hr with rfl | hr
        · exact ⟨b, by simp, hb⟩
        · obtain ⟨b', hb', hf⟩ := mapM_some_mem' f l cs hl r hr
          exact ⟨b', by simp [hb'], hf⟩

/-- `mapM` over an explicit list -/
theorem mapM_cons_some {β γ : Type} (f : β → Option γ) (b : β) (l : List β) (out : List γ)
    (h : (b :: l).mapM f = some out) : ∃ x xs, f b = some x ∧ l.mapM f = some xs ∧ out = x :: xs := by
  rw [List.mapM_cons] at h
  cases hb : f b with
  | none => simp [hb] at h
  | some c =>
    cases hl : l.mapM f with
    | none => simp [hb, hl] at h
    | some cs =>
      simp only [hb, hl, Option.bind_eq_bind, Option.bind_some, Option.pure_def, Option.some.injEq] at h
      exact ⟨c, cs, rfl, rfl, h.symm⟩

theorem mapM_forall₂ {β γ : Type} (f : β → Option γ) : ∀ (l : List β) (out : List γ), l.mapM f = some out →
    List.Forall₂ (fun i w => f i = some w) l out
  | [], out, h => by
    simp only [List.mapM_nil, Option.pure_def, Option.some.injEq] at h
    subst h; exact List.Forall₂.nil
  | b :: l, out, h => by
    obtain ⟨x, xs, hx, hxs, rfl⟩ := mapM_cons_some f b l out h
    exact List.Forall₂.cons hx (mapM_forall₂ f l xs hxs)

theorem vert_lookup (K : Nat) (r : RawRegion) (i : Nat) (w : IV) (h : (verts r)[i]?.bind (scaleP3 K) = some w) :
    ∃ v, (verts r)[i]? = some v ∧ castV w = smul3 ((2 : ℝ) ^ K) (p3 v) := by
  cases hv : (verts r)[i]? with
  | none => simp [hv] at h
  | some v =>
    simp only [hv, Option.bind_some] at h
    exact ⟨v, rfl, scaleP3_real K v w h⟩

theorem regionCone3_of (K : Nat) (r : RawRegion) (i1 i2 i3 : Nat) (w1 w2 w3 : IV) (p : Vec3 ℝ)
    (h1 : (verts r)[i1]?.bind (scaleP3 K) = some w1) (h2 : (verts r)[i2]?.bind (scaleP3 K) = some w2)
    (h3 : (verts r)[i3]?.bind (scaleP3 K) = some w3) (hd : det3 (castV w1, castV w2, castV w3) ≠ 0)
    (hc : InCone3 (castV w1) (castV w2) (castV w3) p) : RegionCone3 r i1 i2 i3 p := by
  obtain ⟨a, ha, ea⟩ := vert_lookup K r i1 w1 h1
  obtain ⟨b, hb, eb⟩ := vert_lookup K r i2 w2 h2
  obtain ⟨c, hcc, ec⟩ := vert_lookup K r i3 w3 h3
  rw [ea, eb, ec] at hc hd
  refine ⟨a, b, c, ha, hb, hcc, ?_, hc.of_scaled (by positivity)⟩
  intro h0
  exact hd (by rw [det3_smul, h0, mul_zero])

/-- a resolved cell that covers `p` (scaled integer vertices) covers it in the table's own terms -/
theorem resolve_covers (K : Nat) (l : RawLayout) (c : Cell) (k : RCell) (h : resolve K l c = some k) (p : Vec3 ℝ)
    (cs : List GCell) (hloc : (toG k).LocalOk cs) (hcov : (toG k).Covers p) : CellCovers l c p := by
  unfold resolve at h
  split at h
  · exact absurd h (by simp)
  · rename_i r hr
    split at h
    · rename_i hslots
      split at h
      · exact absurd h (by simp)
      · rename_i ps hps
        simp only [Option.some.injEq] at h
        subst h
        refine ⟨r, hr, hslots, ?_⟩
        unfold GCell.Covers at hcov
        unfold GCell.LocalOk at hloc
        simp only [toG] at hcov hloc
        -- the shape of `ps` (decided by `hcov`) decides the shape of `c.vs`
        have hf2 := mapM_forall₂ _ _ _ hps
        match ps, hcov, hloc, hf2 with
        | [w1, w2, w3], hcov, hloc, hf2 =>
          obtain ⟨i1, u1, e1, hf2, hu1⟩ := List.forall₂_cons_right_iff.mp hf2
          obtain ⟨i2, u2, e2, hf2, hu2⟩ := List.forall₂_cons_right_iff.mp hf2
          obtain ⟨i3, u3, e3, hf2, hu3⟩ := List.forall₂_cons_right_iff.mp hf2
          have hu4 := List.forall₂_nil_right_iff.mp hf2
          subst hu4 hu3 hu2
          rw [hu1]
          simp only [List.map_cons, List.map_nil] at hcov hloc
          exact regionCone3_of K r i1 i2 i3 w1 w2 w3 p e1 e2 e3 hloc.2.2.2.1 hcov
        | [w1, w2, w3, w4], hcov, hloc, hf2 =>
          obtain ⟨i1, u1, e1, hf2, hu1⟩ := List.forall₂_cons_right_iff.mp hf2
          obtain ⟨i2, u2, e2, hf2, hu2⟩ := List.forall₂_cons_right_iff.mp hf2
          obtain ⟨i3, u3, e3, hf2, hu3⟩ := List.forall₂_cons_right_iff.mp hf2
          obtain ⟨i4, u4, e4, hf2, hu4⟩ := List.forall₂_cons_right_iff.mp hf2
          have hu5 := List.forall₂_nil_right_iff.mp hf2
          subst hu5 hu4 hu3 hu2
          rw [hu1]
          simp only [List.map_cons, List.map_nil] at hcov hloc
          have hDD := hloc.2.2.2.2.1
          have hD : det3 (castV w1, castV w2, castV w3) ≠ 0 := fun h => by rw [h, zero_mul] at hDD; exact lt_irrefl _ hDD
          have hD' : det3 (castV w1, castV w3, castV w4) ≠ 0 := fun h => by rw [h, mul_zero] at hDD; exact lt_irrefl _ hDD
          exact hcov.imp (regionCone3_of K r i1 i2 i3 w1 w2 w3 p e1 e2 e3 hD)
            (regionCone3_of K r i1 i3 i4 w1 w3 w4 p e1 e3 e4 hD')
        | [], hcov, _, _ => simp at hcov
        | [_], hcov, _, _ => simp at hcov
        | [_, _], hcov, _, _ => simp at hcov
        | _ :: _ :: _ :: _ :: _ :: _, hcov, _, _ => simp at hcov
    · exact absurd h (by simp)

/-- **Stage 2.**  A certificate accepted by the checker: every non-zero direction is covered by one of its cells. -/
theorem cover_of_cert (K : Nat) (l : RawLayout) (cert : CoverCert) (h : coverCertOk K l cert = true) (p : Vec3 ℝ)
    (hp : p ≠ (0, 0, 0)) : ∃ c ∈ cert.cells, CellCovers l c p := by
  unfold coverCertOk at h
  split at h
  · exact absurd h (by simp)
  · rename_i rs hrs
    obtain ⟨k, hk, hloc, hcov⟩ := cellsOk_cover rs cert.span h p hp
    obtain ⟨c, hc, hres⟩ := mapM_some_mem' _ _ _ hrs k hk
    exact ⟨c, hc, resolve_covers K l c k hres p _ hloc hcov⟩

/-- every table of a checked list has an accepted certificate -/
theorem cert_of_tables (K : Nat) (ls : List RawLayout) (cs : List CoverCert) (h : coverTablesOk K ls cs = true)
    (l : RawLayout) (hl : l ∈ ls) : ∃ cert ∈ cs, coverCertOk K l cert = true := by
  unfold coverTablesOk at h
  simp only [Bool.and_eq_true, beq_iff_eq, List.all_eq_true] at h
  obtain ⟨i, hi, rfl⟩ := List.mem_iff_getElem.mp hl
  have hi' : i < cs.length := h.1 ▸ hi
  refine ⟨cs[i], List.getElem_mem hi', h.2 (ls[i], cs[i]) ?_⟩
  rw [List.mem_iff_getElem]
  exact ⟨i, by simp [hi, hi'], by simp⟩

/-- the same for a list of tables with their certificates -/
theorem cover_of_tables (K : Nat) (ls : List RawLayout) (cs : List CoverCert) (h : coverTablesOk K ls cs = true)
    (l : RawLayout) (hl : l ∈ ls) (p : Vec3 ℝ) (hp : p ≠ (0, 0, 0)) :
    ∃ cert ∈ cs, ∃ c ∈ cert.cells, CellCovers l c p := by
  obtain ⟨cert, hc, hok⟩ := cert_of_tables K ls cs h l hl
  exact ⟨cert, hc, cover_of_cert K l cert hok p hp⟩

end Earverif.PointSource.Cover
