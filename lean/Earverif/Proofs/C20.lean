/-
C20 — lemmas for Props/C20.lean (core Lean only).
-/
import Earverif.Model.TrackSpec
set_option linter.unusedSimpArgs false
namespace Earverif.TrackSpec
variable {α : Type} [Sample α]

@[simp] theorem zeros_length (n : Nat) : (zeros n : List α).length = n := by simp [zeros]
@[simp] theorem zeros_zero : (zeros 0 : List α) = [] := rfl
theorem zeros_take (n k : Nat) : (zeros n : List α).take k = zeros (min k n) := by simp [zeros, List.take_replicate]
theorem zeros_drop (n k : Nat) : (zeros n : List α).drop k = zeros (n - k) := by simp [zeros, List.drop_replicate]
theorem zeros_append (a b : Nat) : (zeros a ++ zeros b : List α) = zeros (a + b) := by simp [zeros, List.replicate_append_replicate]

theorem delay_process_eq (mem inp : List α) :
    delayProcess mem inp = ((mem ++ inp).take inp.length, (mem ++ inp).drop inp.length) := by
  unfold delayProcess setSlice
  rcases Nat.lt_trichotomy mem.length inp.length with h | h | h
  · have h1 : ¬ mem.length > inp.length := by omega
    have h2 : min mem.length inp.length = mem.length := by omega
    have h3 : min inp.length mem.length = mem.length := by omega
    have h4 : inp.length - (inp.length - mem.length) = mem.length := by omega
    have h5 : mem.length + (inp.length - mem.length) = inp.length := by omega
    simp only [h1, h, h2, h3, h4, ↓reduceIte]
    by_cases hm : mem.length = 0
    · have : mem = [] := List.eq_nil_of_length_eq_zero hm
      subst this
      simp [zeros]
    · simp [hm, zeros_drop, zeros_take, h5, List.take_append, List.drop_append, List.take_of_length_le (Nat.le_of_lt h), List.drop_of_length_le (Nat.le_of_lt h)]
      omega
  · have h1 : ¬ mem.length < inp.length := by omega
    have h0 : ¬ mem.length > inp.length := by omega
    have h2 : min mem.length inp.length = inp.length := by omega
    have h3 : min inp.length mem.length = inp.length := by omega
    simp only [h1, h0, h2, h3, ↓reduceIte]
    by_cases hm : inp.length = 0
    · have : inp = [] := List.eq_nil_of_length_eq_zero hm
      subst this
      have : mem = [] := List.eq_nil_of_length_eq_zero (by simpa using h)
      subst this
      simp [zeros]
    · simp [hm, zeros_drop, zeros_take, List.take_append, List.drop_append, h]
      exact List.take_of_length_le (by omega)
  · have h1 : ¬ mem.length < inp.length := by omega
    have h2 : min mem.length inp.length = inp.length := by omega
    have h3 : min inp.length mem.length = inp.length := by omega
    have h4 : mem.length - (mem.length - inp.length) = inp.length := by omega
    have h5 : inp.length - mem.length = 0 := by omega
    have h6 : mem.length - inp.length + inp.length = mem.length := by omega
    simp only [h1, h, h2, h3, h4, ↓reduceIte]
    by_cases hm : inp.length = 0
    · have : inp = [] := List.eq_nil_of_length_eq_zero hm
      subst this
      simp [zeros]
    · simp [hm, zeros_drop, zeros_take, List.take_append, List.drop_append, h, h5, h6]
      simp [h3]

theorem delayRun_eq (parts : List (List α)) : ∀ mem : List α,
    (delayRun mem parts).1 = chunks (parts.map List.length) ((mem ++ parts.flatten).take parts.flatten.length) ∧
    (delayRun mem parts).2 = (mem ++ parts.flatten).drop parts.flatten.length := by
  induction parts with
  | nil => intro mem; simp [delayRun, chunks]
  | cons b rest ih =>
    intro mem
    simp only [delayRun, delay_process_eq, List.map_cons, chunks, List.flatten_cons, List.length_append]
    obtain ⟨i1, i2⟩ := ih (List.drop b.length (mem ++ b))
    rw [i1, i2]
    have hle : b.length ≤ (mem ++ b).length := by simp
    have e : List.drop b.length (mem ++ b) ++ rest.flatten = List.drop b.length (mem ++ (b ++ rest.flatten)) := by
      rw [← List.append_assoc]
      exact (List.drop_append_of_le_length hle).symm
    rw [e]
    refine ⟨?_, ?_⟩
    · congr 1
      · rw [List.take_take, ← List.append_assoc, Nat.min_eq_left (Nat.le_add_right _ _),
          List.take_append_of_le_length hle]
      · congr 1
        rw [List.drop_take]; congr 1; omega
    · rw [List.drop_drop]

/-! ### element-wise sums -/

theorem vadd_length (a b : List α) : (vadd a b).length = min a.length b.length := by
  simp [vadd]

theorem vadd_zeros (a : List α) (n : Nat) (h : a.length = n) : vadd a (zeros n) = a := by
  subst h
  induction a with
  | nil => simp [vadd]
  | cons x xs ih =>
    simp only [vadd, zeros, List.length_cons, List.replicate_succ, List.zipWith_cons_cons, Sample.add_zero]
    congr 1

theorem zeros_vadd (a : List α) (n : Nat) (h : a.length = n) : vadd (zeros n) a = a := by
  subst h
  induction a with
  | nil => simp [vadd]
  | cons x xs ih =>
    simp only [vadd, zeros, List.length_cons, List.replicate_succ, List.zipWith_cons_cons, Sample.zero_add]
    congr 1

theorem foldl_vadd_length (n : Nat) (ls : List (List α)) (hl : ∀ l ∈ ls, l.length = n) :
    ∀ acc : List α, acc.length = n → (ls.foldl vadd acc).length = n := by
  induction ls with
  | nil => intro acc h; simpa using h
  | cons l ls ih =>
    intro acc h
    simp only [List.foldl_cons]
    apply ih (fun l' hl' => hl l' (by simp [hl']))
    rw [vadd_length, h, hl l (by simp)]; simp

theorem foldl_vadd_take (k : Nat) (ls : List (List α)) :
    ∀ acc : List α, (ls.foldl vadd acc).take k = (ls.map (List.take k)).foldl vadd (acc.take k) := by
  induction ls with
  | nil => intro acc; rfl
  | cons l ls ih =>
    intro acc
    simp only [List.foldl_cons, List.map_cons]
    rw [ih]; congr 1
    simp [vadd, List.take_zipWith]

theorem foldl_vadd_drop (k : Nat) (ls : List (List α)) :
    ∀ acc : List α, (ls.foldl vadd acc).drop k = (ls.map (List.drop k)).foldl vadd (acc.drop k) := by
  induction ls with
  | nil => intro acc; rfl
  | cons l ls ih =>
    intro acc
    simp only [List.foldl_cons, List.map_cons]
    rw [ih]; congr 1
    simp [vadd, List.drop_zipWith]

theorem scaleOpt_length (g : Option α) (l : List α) : (scaleOpt g l).length = l.length := by
  cases g <;> simp [scaleOpt]

theorem scaleOpt_take (g : Option α) (l : List α) (k : Nat) : (scaleOpt g l).take k = scaleOpt g (l.take k) := by
  cases g <;> simp [scaleOpt, List.map_take]

theorem scaleOpt_drop (g : Option α) (l : List α) (k : Nat) : (scaleOpt g l).drop k = scaleOpt g (l.drop k) := by
  cases g <;> simp [scaleOpt, List.map_drop]

theorem scaleOpt_zeros (g : Option α) (n : Nat) : scaleOpt g (zeros n : List α) = zeros n := by
  cases g <;> simp [scaleOpt, zeros, Sample.zero_mul]

theorem delayBy_length (k : Nat) (l : List α) : (delayBy k l).length = l.length := by
  simp [delayBy]

theorem delayBy_zeros (k n : Nat) : delayBy k (zeros n : List α) = zeros n := by
  simp [delayBy, zeros_append, zeros_take]

/-! ### the literal meaning: length and causality -/

mutual
theorem meaning_length (fs : Int) (nch : Nat) : ∀ (s : Spec α) (x : List (List α)),
    (meaning fs nch s x).length = x.length
  | .direct i, x => by
    simp only [meaning]; split <;> simp
  | .silent, x => by simp [meaning]
  | .mix ts, x => by
    simp only [meaning, vsum]
    exact foldl_vadd_length x.length _ (meaningList_length fs nch ts x) _ (by simp)
  | .gain t g, x => by simp [meaning, meaning_length fs nch t x]
  | .matrix t g d, x => by
    simp only [meaning]
    split
    · rw [scaleOpt_length, meaning_length fs nch t x]
    · rw [delayBy_length, scaleOpt_length, meaning_length fs nch t x]
theorem meaningList_length (fs : Int) (nch : Nat) : ∀ (ts : List (Spec α)) (x : List (List α)),
    ∀ l ∈ meaningList fs nch ts x, l.length = x.length
  | [], x => by simp [meaningList]
  | t :: ts, x => by
    intro l hl
    simp only [meaningList, List.mem_cons] at hl
    rcases hl with rfl | hl
    · exact meaning_length fs nch t x
    · exact meaningList_length fs nch ts x l hl
end

theorem delayBy_take_append (k : Nat) (a b : List α) :
    (delayBy k (a ++ b)).take a.length = delayBy k a := by
  simp only [delayBy, List.take_take, List.length_append]
  rw [Nat.min_eq_left (Nat.le_add_right _ _), ← List.append_assoc,
    List.take_append_of_le_length (by simp)]

mutual
/-- causality: the meaning on a prefix of the input is the prefix of the meaning -/
theorem meaning_take (fs : Int) (nch : Nat) : ∀ (s : Spec α) (x y : List (List α)),
    (meaning fs nch s (x ++ y)).take x.length = meaning fs nch s x
  | .direct i, x, y => by
    simp only [meaning]; split <;> simp [zeros_take]
  | .silent, x, y => by simp [meaning, zeros_take]
  | .mix ts, x, y => by
    simp only [meaning, vsum]
    rw [foldl_vadd_take, meaningList_take fs nch ts x y]
    simp [zeros_take]
  | .gain t g, x, y => by
    simp only [meaning, ← List.map_take, meaning_take fs nch t x y]
  | .matrix t g d, x, y => by
    have ih := meaning_take fs nch t x y
    have hl := meaning_length fs nch t x
    simp only [meaning]
    split
    · rw [scaleOpt_take, ih]
    · have e : scaleOpt g (meaning fs nch t (x ++ y)) =
          scaleOpt g (meaning fs nch t x) ++ (scaleOpt g (meaning fs nch t (x ++ y))).drop x.length := by
        conv => lhs; rw [← List.take_append_drop x.length (scaleOpt g (meaning fs nch t (x ++ y)))]
        rw [scaleOpt_take, ih]
      rw [e]
      have := delayBy_take_append (delaySamples fs ‹Rat›).toNat (scaleOpt g (meaning fs nch t x))
        ((scaleOpt g (meaning fs nch t (x ++ y))).drop x.length)
      rw [scaleOpt_length, hl] at this
      exact this
theorem meaningList_take (fs : Int) (nch : Nat) : ∀ (ts : List (Spec α)) (x y : List (List α)),
    (meaningList fs nch ts (x ++ y)).map (List.take x.length) = meaningList fs nch ts x
  | [], x, y => by simp [meaningList]
  | t :: ts, x, y => by
    simp only [meaningList, List.map_cons, meaning_take fs nch t x y, meaningList_take fs nch ts x y]
end

theorem meaning_append (fs : Int) (nch : Nat) (s : Spec α) (x y : List (List α)) :
    meaning fs nch s (x ++ y) = meaning fs nch s x ++ (meaning fs nch s (x ++ y)).drop x.length := by
  conv => lhs; rw [← List.take_append_drop x.length (meaning fs nch s (x ++ y))]
  rw [meaning_take]

/-! ### `_simplify_track_spec` preserves the meaning -/

omit [Sample α] in
theorem isSilent_eq {s : Spec α} (h : s.isSilent = true) : s = .silent := by
  cases s <;> simp_all [Spec.isSilent]

/-- dropping silent inputs does not change the running sum -/
theorem foldl_filter_silent (fs : Int) (nch : Nat) (x : List (List α)) (ts : List (Spec α)) :
    ∀ acc : List α, acc.length = x.length →
      (meaningList fs nch (ts.filter (fun t => !t.isSilent)) x).foldl vadd acc =
      (meaningList fs nch ts x).foldl vadd acc := by
  induction ts with
  | nil => intro acc _; rfl
  | cons t ts ih =>
    intro acc hacc
    by_cases ht : t.isSilent = true
    · have := isSilent_eq ht; subst this
      simp only [Spec.isSilent, Bool.not_true, Bool.false_eq_true, not_false_eq_true, List.filter_cons_of_neg,
        meaningList, meaning, List.foldl_cons]
      rw [vadd_zeros acc _ hacc]
      exact ih acc hacc
    · simp only [ht, Bool.not_false, List.filter_cons_of_pos, meaningList, List.foldl_cons]
      apply ih
      rw [vadd_length, hacc, meaning_length]; simp

variable [DecidableEq α]

mutual
theorem simplify_meaning (fs : Int) (nch : Nat) : ∀ (s : Spec α) (x : List (List α)),
    meaning fs nch (simplify s) x = meaning fs nch s x
  | .direct i, x => by simp [simplify]
  | .silent, x => by simp [simplify]
  | .mix ts, x => by
    have ih := simplifyList_meaning fs nch ts x
    have key := foldl_filter_silent fs nch x (simplifyList ts) (zeros x.length) (by simp)
    rw [ih] at key
    simp only [simplify]
    generalize (simplifyList ts).filter (fun t => !t.isSilent) = L at key
    match L with
    | [] =>
      simp only [meaning, vsum, ← key, meaningList, List.foldl_nil]
    | [t] =>
      simp only [meaning, vsum, ← key, meaningList, List.foldl_cons, List.foldl_nil]
      rw [zeros_vadd _ _ (meaning_length fs nch t x)]
    | t :: u :: r =>
      simp only [meaning, vsum, ← key]
  | .gain t g, x => by
    have ih := simplify_meaning fs nch t x
    simp only [simplify]
    split
    · rename_i h; subst h
      simp [meaning, ih, Sample.mul_one]
    · simp only [meaning, ih]
  | .matrix t g d, x => by
    have ih := simplify_meaning fs nch t x
    simp only [simplify]
    split
    · rename_i h
      rw [isSilent_eq h] at ih
      simp only [meaning] at ih ⊢
      rw [← ih, scaleOpt_zeros]
      split
      · rfl
      · rw [delayBy_zeros]
    · simp only [meaning, ih]
theorem simplifyList_meaning (fs : Int) (nch : Nat) : ∀ (ts : List (Spec α)) (x : List (List α)),
    meaningList fs nch (simplifyList ts) x = meaningList fs nch ts x
  | [], x => by simp [simplifyList]
  | t :: ts, x => by
    simp only [simplifyList, meaningList, simplify_meaning fs nch t x, simplifyList_meaning fs nch ts x]
end

/-! ### simplification keeps specs inside the quantifier and makes them buildable -/

omit [Sample α] [DecidableEq α] in
theorem wfList_filter (fs : Int) (nch : Nat) (p : Spec α → Bool) (ts : List (Spec α))
    (h : Spec.wfList fs nch ts = true) : Spec.wfList fs nch (ts.filter p) = true := by
  induction ts with
  | nil => simp [Spec.wfList]
  | cons t ts ih =>
    simp only [Spec.wfList, Bool.and_eq_true] at h
    by_cases hp : p t = true
    · simp [List.filter_cons_of_pos hp, Spec.wfList, h.1, ih h.2]
    · simp [List.filter_cons_of_neg hp, ih h.2]

omit [Sample α] [DecidableEq α] in
theorem buildableList_filter (p : Spec α → Bool) (ts : List (Spec α))
    (h : Spec.buildableList ts = true) : Spec.buildableList (ts.filter p) = true := by
  induction ts with
  | nil => simp [Spec.buildableList]
  | cons t ts ih =>
    simp only [Spec.buildableList, Bool.and_eq_true] at h
    by_cases hp : p t = true
    · simp [List.filter_cons_of_pos hp, Spec.buildableList, h.1, ih h.2]
    · simp [List.filter_cons_of_neg hp, ih h.2]

mutual
theorem simplify_wf (fs : Int) (nch : Nat) : ∀ (s : Spec α), s.wf fs nch = true → (simplify s).wf fs nch = true
  | .direct i, h => by simpa [simplify] using h
  | .silent, h => by simp [simplify, Spec.wf]
  | .mix ts, h => by
    simp only [Spec.wf] at h
    have key := wfList_filter fs nch (fun t => !t.isSilent) _ (simplifyList_wf fs nch ts h)
    simp only [simplify]
    generalize (simplifyList ts).filter (fun t => !t.isSilent) = L at key
    match L with
    | [] => simp [Spec.wf]
    | [t] => simp only [Spec.wfList, Bool.and_true] at key; exact key
    | t :: u :: r => simpa [Spec.wf] using key
  | .gain t g, h => by
    simp only [Spec.wf] at h
    have ih := simplify_wf fs nch t h
    simp only [simplify]
    split
    · exact ih
    · simpa [Spec.wf] using ih
  | .matrix t g d, h => by
    simp only [Spec.wf, Bool.and_eq_true] at h
    have ih := simplify_wf fs nch t h.1
    simp only [simplify]
    split
    · simp [Spec.wf]
    · simp only [Spec.wf, Bool.and_eq_true]; exact ⟨ih, h.2⟩
theorem simplifyList_wf (fs : Int) (nch : Nat) : ∀ (ts : List (Spec α)),
    Spec.wfList fs nch ts = true → Spec.wfList fs nch (simplifyList ts) = true
  | [], _ => by simp [simplifyList, Spec.wfList]
  | t :: ts, h => by
    simp only [Spec.wfList, Bool.and_eq_true] at h
    simp only [simplifyList, Spec.wfList, Bool.and_eq_true]
    exact ⟨simplify_wf fs nch t h.1, simplifyList_wf fs nch ts h.2⟩
end

mutual
theorem simplify_buildable' : ∀ (s : Spec α), (simplify s).buildable = true
  | .direct i => by simp [simplify, Spec.buildable]
  | .silent => by simp [simplify, Spec.buildable]
  | .mix ts => by
    have key := buildableList_filter (fun t => !t.isSilent) _ (simplifyList_buildable ts)
    simp only [simplify]
    generalize (simplifyList ts).filter (fun t => !t.isSilent) = L at key
    match L with
    | [] => simp [Spec.buildable]
    | [t] => simp only [Spec.buildableList, Bool.and_true] at key; exact key
    | t :: u :: r => simpa [Spec.buildable] using key
  | .gain t g => by
    have ih := simplify_buildable' t
    simp only [simplify]
    split
    · exact ih
    · simpa [Spec.buildable] using ih
  | .matrix t g d => by
    have ih := simplify_buildable' t
    simp only [simplify]
    split
    · simp [Spec.buildable]
    · simpa [Spec.buildable] using ih
theorem simplifyList_buildable : ∀ (ts : List (Spec α)), Spec.buildableList (simplifyList ts) = true
  | [] => by simp [simplifyList, Spec.buildableList]
  | t :: ts => by
    simp only [simplifyList, Spec.buildableList, Bool.and_eq_true]
    exact ⟨simplify_buildable' t, simplifyList_buildable ts⟩
end

/-! ### the processor state after consuming a prefix of the input -/

mutual
/-- The processor for `s` after it has consumed the frames `x` (`started = true`), or freshly built
(`started = false`, no `Delay` object yet; only used with `x = []`). The delay memory of a coefficient
node holds the last `d` samples of `zeros d ++ (scaled input signal on x)`. -/
def after (fs : Int) (nch : Nat) (started : Bool) : Spec α → List (List α) → Proc α
  | .silent, _ => .silent
  | .direct i, _ => .direct i
  | .mix ts, x => .mix (afterList fs nch started ts x)
  | .gain t g, x => .gain (after fs nch started t x) g
  | .matrix t g d, x =>
    .matrix (after fs nch started t x) g d
      (match d with
       | none => none
       | some ms =>
         if started then
           some (fs, (zeros (delaySamples fs ms).toNat ++ scaleOpt g (meaning fs nch t x)).drop x.length)
         else none)
def afterList (fs : Int) (nch : Nat) (started : Bool) : List (Spec α) → List (List α) → List (Proc α)
  | [], _ => []
  | t :: ts, x => after fs nch started t x :: afterList fs nch started ts x
end

omit [DecidableEq α] in
mutual
theorem build_eq_after (fs : Int) (nch : Nat) : ∀ (s : Spec α), s.buildable = true →
    build s = .ok (after fs nch false s [])
  | .silent, _ => by simp [build, after]
  | .direct i, _ => by simp [build, after]
  | .mix ts, h => by
    simp only [Spec.buildable, Bool.and_eq_true, Bool.not_eq_true'] at h
    simp only [build, h.1, Bool.false_eq_true, ↓reduceIte, buildList_eq_afterList fs nch ts h.2, after]
  | .gain t g, h => by
    simp only [Spec.buildable] at h
    simp only [build, build_eq_after fs nch t h, after]
  | .matrix t g d, h => by
    simp only [Spec.buildable] at h
    simp only [build, build_eq_after fs nch t h, after]
    cases d <;> rfl
theorem buildList_eq_afterList (fs : Int) (nch : Nat) : ∀ (ts : List (Spec α)), Spec.buildableList ts = true →
    buildList ts = .ok (afterList fs nch false ts [])
  | [], _ => by simp [buildList, afterList]
  | t :: ts, h => by
    simp only [Spec.buildableList, Bool.and_eq_true] at h
    simp only [buildList, build_eq_after fs nch t h.1, buildList_eq_afterList fs nch ts h.2, afterList]
end

omit [DecidableEq α] in
/-- one `Delay.process` call on the memory reached after the prefix `A`, fed the continuation `T` -/
theorem delay_step (k : Nat) (A T : List α) :
    delayProcess ((zeros k ++ A).drop A.length) T =
      (((delayBy k (A ++ T))).drop A.length, (zeros k ++ (A ++ T)).drop (A ++ T).length) := by
  rw [delay_process_eq]
  have hle : A.length ≤ (zeros k ++ A : List α).length := by simp
  have e : (zeros k ++ A : List α).drop A.length ++ T = (zeros k ++ (A ++ T)).drop A.length := by
    rw [← List.append_assoc]; exact (List.drop_append_of_le_length hle).symm
  rw [e]
  refine Prod.ext ?_ ?_
  · simp only [delayBy, List.length_append, List.drop_take]
    congr 1; omega
  · simp only [List.drop_drop, List.length_append]

omit [DecidableEq α] in
mutual
/-- One `process` call: from the state after the prefix `pre`, block `blk` yields the state after
`pre ++ blk` and exactly the part of the meaning that belongs to `blk`. -/
theorem step_after (fs : Int) (nch : Nat) : ∀ (s : Spec α), s.wf fs nch = true →
    ∀ (started : Bool) (pre blk : List (List α)), (started = false → pre = []) →
    step fs nch (after fs nch started s pre) blk =
      .ok (after fs nch true s (pre ++ blk), (meaning fs nch s (pre ++ blk)).drop pre.length)
  | .silent, _, started, pre, blk, _ => by
    simp [after, step, meaning, zeros_drop]
  | .direct i, h, started, pre, blk, _ => by
    simp only [Spec.wf, Option.isSome_iff_exists] at h
    obtain ⟨k, hk⟩ := h
    simp [after, step, meaning, hk]
  | .mix ts, h, started, pre, blk, hs => by
    simp only [Spec.wf] at h
    simp only [after, step, stepList_after fs nch ts h started pre blk hs, meaning, vsum]
    rw [foldl_vadd_drop]
    simp [zeros_drop]
  | .gain t g, h, started, pre, blk, hs => by
    simp only [Spec.wf] at h
    simp only [after, step, step_after fs nch t h started pre blk hs, meaning, List.map_drop]
  | .matrix t g d, h, started, pre, blk, hs => by
    simp only [Spec.wf, Bool.and_eq_true] at h
    simp only [after, step, step_after fs nch t h.1 started pre blk hs, meaning]
    cases d with
    | none => simp only [scaleOpt_drop]
    | some ms =>
      have hk : ¬ delaySamples fs ms < 0 := by
        have := h.2; simp only [decide_eq_true_eq] at this; omega
      simp only
      -- the delay memory on entry, whether or not `init_delay` has run before
      have hinit : initDelay fs ms
          (if started = true then
            some (fs, (zeros (delaySamples fs ms).toNat ++ scaleOpt g (meaning fs nch t pre)).drop pre.length)
          else none) =
          .ok (fs, (zeros (delaySamples fs ms).toNat ++ scaleOpt g (meaning fs nch t pre)).drop
            (scaleOpt g (meaning fs nch t pre)).length) := by
        rw [scaleOpt_length, meaning_length]
        cases started with
        | true => simp [initDelay]
        | false =>
          have := hs rfl; subst this
          have e : meaning fs nch t ([] : List (List α)) = [] :=
            List.eq_nil_of_length_eq_zero (meaning_length fs nch t [])
          simp only [Bool.false_eq_true, ↓reduceIte, initDelay, hk, e]
          cases g <;> simp [scaleOpt]
      rw [hinit]
      simp only
      have e : scaleOpt g (meaning fs nch t (pre ++ blk)) =
          scaleOpt g (meaning fs nch t pre) ++ scaleOpt g ((meaning fs nch t (pre ++ blk)).drop pre.length) := by
        conv => lhs; rw [meaning_append, ]
        cases g <;> simp [scaleOpt]
      rw [delay_step, ← e]
      simp only [scaleOpt_length, meaning_length, ↓reduceIte]
theorem stepList_after (fs : Int) (nch : Nat) : ∀ (ts : List (Spec α)), Spec.wfList fs nch ts = true →
    ∀ (started : Bool) (pre blk : List (List α)), (started = false → pre = []) →
    stepList fs nch (afterList fs nch started ts pre) blk =
      .ok (afterList fs nch true ts (pre ++ blk), (meaningList fs nch ts (pre ++ blk)).map (List.drop pre.length))
  | [], _, started, pre, blk, _ => by simp [afterList, stepList, meaningList]
  | t :: ts, h, started, pre, blk, hs => by
    simp only [Spec.wfList, Bool.and_eq_true] at h
    simp only [afterList, stepList, step_after fs nch t h.1 started pre blk hs,
      stepList_after fs nch ts h.2 started pre blk hs, meaningList, List.map_cons]
end

omit [DecidableEq α] in
/-- successive `process` calls from the state after `pre`: the outputs are the pieces of the meaning -/
theorem run_after (fs : Int) (nch : Nat) (s : Spec α) (hwf : s.wf fs nch = true) :
    ∀ (parts : List (List (List α))) (started : Bool) (pre : List (List α)), (started = false → pre = []) →
    run fs nch (after fs nch started s pre) parts =
      .ok (chunks (parts.map List.length) ((meaning fs nch s (pre ++ parts.flatten)).drop pre.length)) := by
  intro parts
  induction parts with
  | nil => intro started pre _; simp [run, chunks]
  | cons b rest ih =>
    intro started pre hs
    simp only [run, step_after fs nch s hwf started pre b hs, ih true (pre ++ b) (by simp),
      List.map_cons, chunks, List.flatten_cons]
    congr 2
    · have := meaning_take fs nch s (pre ++ b) rest.flatten
      rw [List.append_assoc] at this
      rw [← this, List.drop_take]
      congr 1; simp
    · rw [List.drop_drop, List.append_assoc, List.length_append]

omit [Sample α] [DecidableEq α] in
theorem chunks_flatten {β : Type} (parts : List (List β)) : ∀ (l : List α), l.length = parts.flatten.length →
    (chunks (parts.map List.length) l).flatten = l := by
  induction parts with
  | nil => intro l h; simp at h; simp [chunks, h]
  | cons b rest ih =>
    intro l h
    simp only [List.map_cons, chunks, List.flatten_cons]
    rw [ih (l.drop b.length) (by simp at h ⊢; omega), List.take_append_drop]

/-! ### `MultiTrackProcessor` -/

omit [DecidableEq α] in
theorem meaningList_eq_map (fs : Int) (nch : Nat) (x : List (List α)) : ∀ ts : List (Spec α),
    meaningList fs nch ts x = ts.map (fun s => meaning fs nch s x)
  | [] => rfl
  | t :: ts => by simp only [meaningList, List.map_cons, meaningList_eq_map fs nch x ts]

theorem simplifyList_eq_map : ∀ ts : List (Spec α), simplifyList ts = ts.map simplify
  | [] => rfl
  | t :: ts => by simp only [simplifyList, List.map_cons, simplifyList_eq_map ts]

theorem buildMulti_eq (fs : Int) (nch : Nat) : ∀ ss : List (Spec α),
    buildMulti ss = .ok (afterList fs nch false (simplifyList ss) [])
  | [] => rfl
  | t :: ts => by
    simp only [buildMulti, trackProcessor, build_eq_after fs nch _ (simplify_buildable' t),
      buildMulti_eq fs nch ts, simplifyList, afterList]

omit [DecidableEq α] in
/-- the piece of the meaning that belongs to block `b` does not depend on what follows -/
theorem piece_eq (fs : Int) (nch : Nat) (s : Spec α) (pre b r : List (List α)) :
    ((meaning fs nch s (pre ++ (b ++ r))).drop pre.length).take b.length =
      (meaning fs nch s (pre ++ b)).drop pre.length := by
  have := meaning_take fs nch s (pre ++ b) r
  rw [List.append_assoc] at this
  rw [← this, List.drop_take]
  congr 1; simp

omit [DecidableEq α] in
theorem runMulti_after (fs : Int) (nch : Nat) (ts : List (Spec α)) (hwf : Spec.wfList fs nch ts = true)
    (hne : ts ≠ []) :
    ∀ (parts : List (List (List α))) (started : Bool) (pre : List (List α)), (started = false → pre = []) →
    runMulti fs nch (afterList fs nch started ts pre) parts =
      .ok (stackRuns (parts.map List.length) (ts.map fun s =>
        chunks (parts.map List.length) ((meaning fs nch s (pre ++ parts.flatten)).drop pre.length))) := by
  intro parts
  induction parts with
  | nil => intro started pre _; simp [runMulti, stackRuns]
  | cons b rest ih =>
    intro started pre hs
    have hcols : ((meaningList fs nch ts (pre ++ b)).map (List.drop pre.length)).isEmpty = false := by
      cases ts with
      | nil => exact absurd rfl hne
      | cons t ts => simp [meaningList]
    simp only [runMulti, stepMulti, stepList_after fs nch ts hwf started pre b hs, hcols,
      Bool.false_eq_true, ↓reduceIte, ih true (pre ++ b) (by simp), List.map_cons, stackRuns,
      List.flatten_cons, List.map_map]
    congr 3
    · rw [meaningList_eq_map, List.map_map]
      apply List.map_congr_left
      intro s _
      simp only [Function.comp, chunks, List.headD_cons]
      exact (piece_eq fs nch s pre b rest.flatten).symm
    · apply List.map_congr_left
      intro s _
      simp only [Function.comp, chunks, List.tail_cons]
      rw [List.drop_drop, List.append_assoc, List.length_append]
end Earverif.TrackSpec
