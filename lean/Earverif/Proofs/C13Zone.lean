/-
C13 — helper lemmas about the zone-exclusion model (core Lean only).
-/
import Earverif.Model.Zone

namespace Earverif.C13
open Earverif.Zone Earverif.Zone.Scalar Earverif.Zone.ScalarSqrt

/-! ### the `Rat` instance, unfolded -/

@[simp] theorem rat_zero : (Scalar.zero : Rat) = 0 := rfl
@[simp] theorem rat_one : (Scalar.one : Rat) = 1 := rfl
@[simp] theorem rat_ofNat (n : Nat) : (Scalar.ofNat n : Rat) = (n : Rat) := rfl
@[simp] theorem rat_add (a b : Rat) : Scalar.add a b = a + b := rfl
@[simp] theorem rat_sub (a b : Rat) : Scalar.sub a b = a - b := rfl
@[simp] theorem rat_mul (a b : Rat) : Scalar.mul a b = a * b := rfl
@[simp] theorem rat_div (a b : Rat) : Scalar.div a b = a / b := rfl
@[simp] theorem rat_lt (a b : Rat) : Scalar.lt a b = decide (a < b) := rfl
@[simp] theorem rat_le (a b : Rat) : Scalar.le a b = decide (a ≤ b) := rfl
@[simp] theorem rat_eq (a b : Rat) : Scalar.eq a b = (a == b) := rfl

/-! ### sums over `Rat` -/

theorem foldl_add_rat (l : List Rat) (a : Rat) : l.foldl (· + ·) a = a + l.foldl (· + ·) 0 := by
  induction l generalizing a with
  | nil => simp [Rat.add_zero]
  | cons x xs ih =>
    simp only [List.foldl_cons]
    rw [ih (a + x), ih (0 + x)]
    grind

theorem sumList_rat_nil : sumList ([] : List Rat) = 0 := rfl

theorem sumList_rat_cons (x : Rat) (xs : List Rat) : sumList (x :: xs) = x + sumList xs := by
  show List.foldl Scalar.add Scalar.zero (x :: xs) = x + List.foldl Scalar.add Scalar.zero xs
  have h : (Scalar.add : Rat → Rat → Rat) = (· + ·) := rfl
  simp only [h, rat_zero, List.foldl_cons]
  rw [foldl_add_rat]
  grind

theorem sumList_rat_append (l1 l2 : List Rat) : sumList (l1 ++ l2) = sumList l1 + sumList l2 := by
  induction l1 with
  | nil => simp [sumList_rat_nil, Rat.zero_add]
  | cons x xs ih => simp only [List.cons_append, sumList_rat_cons, ih]; grind

theorem sum_map_add (l : List Nat) (f g : Nat → Rat) :
    sumList (l.map fun j => f j + g j) = sumList (l.map f) + sumList (l.map g) := by
  induction l with
  | nil => simp [sumList_rat_nil, Rat.zero_add]
  | cons x xs ih => simp only [List.map_cons, sumList_rat_cons, ih]; grind

theorem sum_map_mul (l : List Nat) (c : Rat) (f : Nat → Rat) :
    sumList (l.map fun j => c * f j) = c * sumList (l.map f) := by
  induction l with
  | nil => simp [sumList_rat_nil, Rat.mul_zero]
  | cons x xs ih => simp only [List.map_cons, sumList_rat_cons, ih]; grind

/-- `Σ_{j<n} [a = j] = [a < n]`. -/
theorem sum_indicator (a n : Nat) :
    sumList ((List.range n).map fun j => if a = j then (1 : Rat) else 0) = if a < n then 1 else 0 := by
  induction n with
  | zero => simp [sumList_rat_nil]
  | succ n ih =>
    rw [List.range_succ, List.map_append, sumList_rat_append, ih]
    simp only [List.map_cons, List.map_nil, sumList_rat_cons, sumList_rat_nil]
    by_cases h1 : a < n
    · have : a ≠ n := by omega
      have : a < n + 1 := by omega
      simp [*, Rat.add_zero]
    · by_cases h2 : a = n
      · subst h2; simp [Rat.add_zero, Rat.zero_add]
      · have : ¬ a < n + 1 := by omega
        simp [*, Rat.add_zero]

/-- `Σ_{j<n} count j ne = |ne|` when every member of `ne` is below `n`. -/
theorem sum_count (n : Nat) (ne : List Nat) (h : ∀ x ∈ ne, x < n) :
    sumList ((List.range n).map fun j => ((ne.count j : Nat) : Rat)) = (ne.length : Rat) := by
  induction ne with
  | nil =>
    simp only [List.count_nil, List.length_nil]
    have := sum_map_mul (List.range n) 0 (fun _ => 0)
    simp at this
    simpa using this
  | cons a ne ih =>
    have ha : a < n := h a (by simp)
    have hne : ∀ x ∈ ne, x < n := fun x hx => h x (by simp [hx])
    have e : (fun j => (((a :: ne).count j : Nat) : Rat)) =
        fun j => ((ne.count j : Nat) : Rat) + (if a = j then (1 : Rat) else 0) := by
      funext j
      rw [List.count_cons]
      by_cases haj : a = j
      · subst haj; simp [Rat.natCast_add]
      · have : (a == j) = false := by simp [haj]
        simp [this, haj, Rat.add_zero]
    rw [e, sum_map_add, ih hne, sum_indicator, if_pos ha]
    simp [Rat.natCast_add]

/-! ### duplicate-free lists (Bool, so that tables can be checked by `decide`) -/

def nodupB : List Nat → Bool
  | [] => true
  | a :: l => !l.contains a && nodupB l

theorem count_le_one_of_nodupB (l : List Nat) (h : nodupB l = true) (j : Nat) : l.count j ≤ 1 := by
  induction l with
  | nil => simp
  | cons a l ih =>
    simp only [nodupB, Bool.and_eq_true, Bool.not_eq_true', List.contains_eq_mem, decide_eq_false_iff_not] at h
    rw [List.count_cons]
    by_cases haj : a = j
    · subst haj
      have : l.count a = 0 := List.count_eq_zero_of_not_mem h.1
      simp [this]
    · have : (a == j) = false := by simp [haj]
      simp only [this]
      have := ih h.2
      simpa using this

theorem nodupB_filter (l : List Nat) (p : Nat → Bool) (h : nodupB l = true) : nodupB (l.filter p) = true := by
  induction l with
  | nil => rfl
  | cons a l ih =>
    simp only [nodupB, Bool.and_eq_true, Bool.not_eq_true', List.contains_eq_mem, decide_eq_false_iff_not] at h
    by_cases hp : p a = true
    · simp only [List.filter_cons, hp, ↓reduceIte, nodupB, Bool.and_eq_true, Bool.not_eq_true',
        List.contains_eq_mem, decide_eq_false_iff_not, List.mem_filter, not_and]
      exact ⟨fun hm => absurd hm h.1, ih h.2⟩
    · simp only [List.filter_cons, hp]
      exact ih h.2

/-- The indicator of a duplicate-free list is its count. -/
theorem indicator_eq_count (ne : List Nat) (h : nodupB ne = true) (c : Rat) (j : Nat) :
    (if ne.contains j then c else 0) = c * ((ne.count j : Nat) : Rat) := by
  have hle := count_le_one_of_nodupB ne h j
  by_cases hm : j ∈ ne
  · have hpos : 0 < ne.count j := List.count_pos_iff.mpr hm
    have : ne.count j = 1 := by omega
    simp [hm, this]
  · have : ne.count j = 0 := List.count_eq_zero_of_not_mem hm
    simp [hm, this]

/-! ### `mapOpt` -/

theorem mapOpt_mem {β γ : Type} (f : β → Option γ) :
    ∀ (l : List β) (out : List γ), mapOpt f l = some out →
      ∀ y ∈ out, ∃ x ∈ l, f x = some y := by
  intro l
  induction l with
  | nil => intro out h y hy; simp [mapOpt] at h; subst h; simp at hy
  | cons x xs ih =>
    intro out h y hy
    simp only [mapOpt] at h
    cases hfx : f x with
    | none => simp [hfx] at h
    | some y0 =>
      cases hxs : mapOpt f xs with
      | none => simp [hfx, hxs] at h
      | some ys =>
        simp [hfx, hxs] at h
        subst h
        simp only [List.mem_cons] at hy
        rcases hy with rfl | hy
        · exact ⟨x, by simp, hfx⟩
        · obtain ⟨x', hx', hf⟩ := ih ys hxs y hy
          exact ⟨x', by simp [hx'], hf⟩

theorem mapOpt_some_of_forall {β γ : Type} (f : β → Option γ) :
    ∀ (l : List β), (∀ x ∈ l, (f x).isSome) → ∃ out, mapOpt f l = some out ∧ out.length = l.length := by
  intro l
  induction l with
  | nil => intro _; exact ⟨[], rfl, rfl⟩
  | cons x xs ih =>
    intro h
    obtain ⟨ys, hys, hl⟩ := ih (fun x' hx' => h x' (by simp [hx']))
    have hx := h x (by simp)
    cases hfx : f x with
    | none => simp [hfx] at hx
    | some y => exact ⟨y :: ys, by simp [mapOpt, hfx, hys], by simp [hl]⟩

/-! ### `downmixRow` -/

/-- What a defined row looks like. -/
theorem downmixRow_some {α : Type} [Scalar α] (n : Nat) (mask : List Bool) :
    ∀ (gs : List (List Nat)) (row : List α), downmixRow n mask gs = some row →
      ∃ g ∈ gs, g.all (isExcl mask) = false ∧
        row = (List.range n).map fun j =>
          if (notExcluded mask g).contains j then div one (ofNat (notExcluded mask g).length) else zero := by
  intro gs
  induction gs with
  | nil => intro row h; simp [downmixRow] at h
  | cons g rest ih =>
    intro row h
    simp only [downmixRow] at h
    by_cases hall : g.all (isExcl mask) = true
    · simp only [hall, ↓reduceIte] at h
      obtain ⟨g', hg', h1, h2⟩ := ih row h
      exact ⟨g', by simp [hg'], h1, h2⟩
    · simp only [hall] at h
      simp only [Bool.false_eq_true, ↓reduceIte, Option.some.injEq] at h
      exact ⟨g, by simp, by simpa using hall, h.symm⟩

theorem getD_map_range {α : Type} (n j : Nat) (f : Nat → α) (d : α) :
    ((List.range n).map f).getD j d = if j < n then f j else d := by
  by_cases h : j < n
  · simp [List.getD, h]
  · simp [List.getD, h]

theorem not_mem_notExcluded (mask : List Bool) (g : List Nat) (j : Nat) (h : isExcl mask j = true) :
    j ∉ notExcluded mask g := by
  simp [notExcluded, h]

/-- The chosen group has at least one non-excluded member. -/
theorem notExcluded_pos (mask : List Bool) (g : List Nat) (h : g.all (isExcl mask) = false) :
    0 < (notExcluded mask g).length := by
  have : ∃ x ∈ g, isExcl mask x = false := by
    by_cases hh : ∃ x ∈ g, isExcl mask x = false
    · exact hh
    · exfalso
      have : g.all (isExcl mask) = true := by
        rw [List.all_eq_true]
        intro x hx
        by_cases hx' : isExcl mask x = true
        · exact hx'
        · exact absurd ⟨x, hx, by simpa using hx'⟩ hh
      rw [this] at h; exact Bool.noConfusion h
  obtain ⟨x, hx, hxe⟩ := this
  apply List.length_pos_of_mem (a := x)
  simp [notExcluded, hx, hxe]

/-! ### zeros survive the power-domain operations -/

/-- The only facts about the scalar operations that the zero-gain theorems use.  They hold in
every ordered field with a square root (instance for `ℝ` in `Props/C13.lean`) and, for
finite `x`, in IEEE-754 binary64 with `zero` read as `±0` (`x·±0 = ±0`, `±0 + ±0 = ±0`,
`sqrt ±0 = ±0`, `nan_to_num ±0 = ±0`; numpy compares `-0.0 == 0.0`).  A non-finite `x`
gives `x·0 = nan`, which `nan_to_num` maps back to `0.0` before the gains leave `render`. -/
structure ZeroLaws (α : Type) [ScalarSqrt α] : Prop where
  mul_zero : ∀ x : α, mul x zero = zero
  zero_mul : ∀ x : α, mul zero x = zero
  add_zero_zero : add (zero : α) zero = zero
  sqrt_zero : sqrt (zero : α) = zero
  nan_zero : nanToNum (zero : α) = zero

theorem foldl_add_zero {α : Type} [ScalarSqrt α] (h : ZeroLaws α) (l : List α)
    (hz : ∀ x ∈ l, x = zero) : l.foldl add zero = zero := by
  induction l with
  | nil => rfl
  | cons x xs ih =>
    have hx : x = zero := hz x (by simp)
    subst hx
    simp only [List.foldl_cons, h.add_zero_zero]
    exact ih (fun y hy => hz y (by simp [hy]))

theorem sumList_zero {α : Type} [ScalarSqrt α] (h : ZeroLaws α) (l : List α)
    (hz : ∀ x ∈ l, x = zero) : sumList l = zero := foldl_add_zero h l hz

theorem zipWith_forall {β γ δ : Type} (f : β → γ → δ) (P : δ → Prop) :
    ∀ (l1 : List β) (l2 : List γ), (∀ a, ∀ b ∈ l2, P (f a b)) → ∀ x ∈ List.zipWith f l1 l2, P x := by
  intro l1
  induction l1 with
  | nil => intro l2 _ x hx; simp at hx
  | cons a as ih =>
    intro l2 hP x hx
    cases l2 with
    | nil => simp at hx
    | cons b bs =>
      simp only [List.zipWith_cons_cons, List.mem_cons] at hx
      rcases hx with rfl | hx
      · exact hP a b (by simp)
      · exact ih bs (fun a' b' hb' => hP a' b' (by simp [hb'])) x hx

theorem getElem?_map_range {α : Type} (n j : Nat) (f : Nat → α) (hj : j < n) :
    ((List.range n).map f)[j]? = some (f j) := by
  simp [hj]

/-- A column of the downmix matrix that is zero gives a zero output gain. -/
theorem applyDownmix_zero {α : Type} [ScalarSqrt α] (h : ZeroLaws α) (n : Nat) (gains : List α)
    (D : List (List α)) (j : Nat) (hj : j < n) (hcol : ∀ row ∈ D, row.getD j zero = zero) :
    (applyDownmix n gains D)[j]? = some zero := by
  unfold applyDownmix
  rw [getElem?_map_range n j _ hj]
  congr 1
  unfold dotCol
  rw [sumList_zero h, h.sqrt_zero]
  apply zipWith_forall _ (fun x => x = zero)
  intro a row hrow
  rw [hcol row hrow, h.mul_zero]

/-- If every per-position gain vector is zero at `j`, so is the power sum. -/
theorem powerSum_zero {α : Type} [ScalarSqrt α] (h : ZeroLaws α) (n : Nat) (dg : List α)
    (G : List (List α)) (j : Nat) (hj : j < n) (hG : ∀ row ∈ G, row.getD j zero = zero) :
    (powerSum n dg G)[j]? = some zero := by
  unfold powerSum
  rw [getElem?_map_range n j _ hj]
  congr 1
  rw [sumList_zero h, h.sqrt_zero]
  apply zipWith_forall _ (fun x => x = zero)
  intro d row hrow
  rw [hG row hrow, h.zero_mul, h.mul_zero]

/-- `nan_to_num`, the gain factor and the direct/diffuse split keep a zero. -/
theorem finishGains_zero {α : Type} [ScalarSqrt α] (h : ZeroLaws α) (gains : List α) (gain diffuse : α)
    (j : Nat) (hz : gains[j]? = some zero) :
    (finishGains gains gain diffuse).1[j]? = some zero ∧ (finishGains gains gain diffuse).2[j]? = some zero := by
  unfold finishGains
  simp only [List.getElem?_map, hz, Option.map_some, h.nan_zero, h.zero_mul, and_self]

theorem scatter_length {α : Type} [Scalar α] : ∀ (m : List Bool) (g : List α), (scatter m g).length = m.length := by
  intro m
  induction m with
  | nil => intro g; rfl
  | cons b m ih =>
    intro g
    cases b with
    | true => simp [scatter, ih]
    | false => cases g <;> simp [scatter, ih]

/-- `gains_full[excluded]` stays at the `np.zeros` value. -/
theorem scatter_getD {α : Type} [Scalar α] :
    ∀ (m : List Bool) (g : List α) (j : Nat), m[j]? = some true → (scatter m g).getD j zero = zero := by
  intro m
  induction m with
  | nil => intro g j h; simp at h
  | cons b m ih =>
    intro g j h
    cases j with
    | zero =>
      simp only [List.getElem?_cons_zero, Option.some.injEq] at h
      subst h
      simp [scatter]
    | succ j =>
      simp only [List.getElem?_cons_succ] at h
      cases b with
      | true => simpa [scatter] using ih g j h
      | false =>
        cases g with
        | nil => simpa [scatter] using ih [] j h
        | cons a g => simpa [scatter] using ih g j h

/-! ### `allocentric.get_excluded` -/

theorem extendStep_length {α : Type} [Scalar α] (pos : List (P3 α)) (m : List Bool) (i : Nat) (c : P3 α)
    (h : pos.length = m.length) : (extendStep pos m i c).length = m.length := by
  unfold extendStep
  split
  · simp [h]
  · rfl

/-- The row extension only ever marks more loudspeakers. -/
theorem extendStep_mono {α : Type} [Scalar α] (pos : List (P3 α)) (m : List Bool) (i : Nat) (c : P3 α)
    (h : pos.length = m.length) (j : Nat) (hj : isExcl m j = true) : isExcl (extendStep pos m i c) j = true := by
  unfold extendStep
  split
  · unfold isExcl at hj ⊢
    have hjlt : j < m.length := by
      by_cases hlt : j < m.length
      · exact hlt
      · simp [List.getD, List.getElem?_eq_none (Nat.le_of_not_lt hlt)] at hj
    have hjp : j < pos.length := by omega
    simp only [List.getD, List.getElem?_zipWith]
    simp [List.getD, List.getElem?_eq_getElem hjlt] at hj
    simp [List.getElem?_eq_getElem hjlt, List.getElem?_eq_getElem hjp, hj]
  · exact hj

theorem alloExtendFrom_length {α : Type} [Scalar α] (pos : List (P3 α)) :
    ∀ (cs : List (P3 α)) (i : Nat) (m : List Bool), pos.length = m.length →
      (alloExtendFrom pos cs i m).length = m.length := by
  intro cs
  induction cs with
  | nil => intro i m _; rfl
  | cons c cs ih =>
    intro i m h
    simp only [alloExtendFrom]
    rw [ih (i + 1) _ (by rw [extendStep_length pos m i c h]; exact h), extendStep_length pos m i c h]

theorem alloExtendFrom_mono {α : Type} [Scalar α] (pos : List (P3 α)) :
    ∀ (cs : List (P3 α)) (i : Nat) (m : List Bool), pos.length = m.length →
      ∀ j, isExcl m j = true → isExcl (alloExtendFrom pos cs i m) j = true := by
  intro cs
  induction cs with
  | nil => intro i m _ j hj; exact hj
  | cons c cs ih =>
    intro i m h j hj
    simp only [alloExtendFrom]
    exact ih (i + 1) _ (by rw [extendStep_length pos m i c h]; exact h) j (extendStep_mono pos m i c h j hj)

theorem isExcl_map_false (m : List Bool) (j : Nat) : isExcl (m.map fun _ => false) j = false := by
  unfold isExcl
  simp only [List.getD, List.getElem?_map]
  cases m[j]? <;> rfl

theorem all_id_isExcl (m : List Bool) (h : m.all id = true) (j : Nat) (hj : j < m.length) : isExcl m j = true := by
  rw [List.all_eq_true] at h
  unfold isExcl
  simp only [List.getD, List.getElem?_eq_getElem hj, Option.getD_some]
  exact h _ (List.getElem_mem hj)

end Earverif.C13
