/- C05, Stage 3 — from cone membership (Stage 2) to acceptance by the modelled region handlers, hence totality of the
   modelled panner `RawLayout.handle` on a table with an accepted certificate.

   * Triplet: `p = s a + t b + u c`, `s t u ≥ 0`, `det ≠ 0`  ⇒  `Triplet.handle` accepts (`pv_comb3`).
   * VirtualNgon: the cell is the fan triangle number `f`; its inner triplet accepts, so the first accepting inner
     triplet exists.
   * QuadRegion: `p` is a non-negative combination of the four corners; that the quad then accepts with the roots
     chosen by the selection function `sel` is the hypothesis `QuadAcceptsOnCone sel` (see Proofs/C05CoverQuad.lean
     for what is proved about it).
   The root selection is a parameter `sel` (coefficients of the quadratic ↦ selected pan value), exactly as in
   `GainCalc.pspHandle` (Model/GainCalcConcrete.lean), where `sel = quadRoot`. -/
import Earverif.Proofs.C05CoverCert

namespace Earverif.PointSource.Cover
open Earverif.PointSource

/-- the roots handed to region number `i`: `sel` of the two quadratics for a quad, irrelevant otherwise
    (the same function as in `GainCalc.pspHandle`) -/
noncomputable def rootsOf (sel : ℝ × ℝ × ℝ → Option ℝ) (regions : List (Region ℝ)) (p : Vec3 ℝ) :
    Nat → Option ℝ × Option ℝ := fun i =>
  match regions[i]? with
  | some (.quad _ q) => let py := q.polys p; (sel py.1, sel py.2)
  | _ => (none, none)

/-- `configure(layout).handle(p)` over the table with the quad roots selected by `sel` -/
noncomputable def handleSel (sel : ℝ × ℝ × ℝ → Option ℝ) (l : RawLayout) (p : Vec3 ℝ) : Option (List ℝ) :=
  match l.regions.mapM (RawRegion.toRegion (α := ℝ)) with
  | none => none
  | some regions => l.handle (rootsOf sel regions p) p

/-- **The step that is a hypothesis of `panner_total_of_cert`.**  For every QuadRegion of the table: a non-zero
    direction that is a non-negative combination of its four corners is accepted (both pan values are found by `sel`
    and the final sign test passes). -/
def QuadAcceptsOnCone (sel : ℝ × ℝ × ℝ → Option ℝ) (l : RawLayout) : Prop :=
  ∀ r ∈ l.regions, r.kind = 2 → ∀ (q0 q1 q2 q3 : P3), r.pos = [q0, q1, q2, q3] →
    ∀ (g0 g1 g2 g3 : ℝ) (p : Vec3 ℝ), 0 ≤ g0 → 0 ≤ g1 → 0 ≤ g2 → 0 ≤ g3 → p ≠ (0, 0, 0) →
      p = add3 (add3 (smul3 g0 (p3 q0)) (smul3 g1 (p3 q1))) (add3 (smul3 g2 (p3 q2)) (smul3 g3 (p3 q3))) →
      let q : QuadRegion ℝ := ⟨r.pos.map p3, r.order⟩
      q.handle (sel (q.polys p).1) (sel (q.polys p).2) p ≠ none

/-! ### Triplet and VirtualNgon -/

theorem triplet_accepts_of_cone (a b c p : Vec3 ℝ) (hd : det3 (a, b, c) ≠ 0) (h : InCone3 a b c p) :
    Triplet.handle (a, b, c) p ≠ none := by
  obtain ⟨s, t, u, hs, ht, hu, rfl⟩ := h
  have hpv := pv_comb3 (a, b, c) hd s t u
  have heps := tripletEps_neg
  have hacc : Triplet.accepts (a, b, c) (comb3 s t u (a, b, c)) := by
    simp only [Triplet.accepts, hpv]
    exact ⟨by linarith, by linarith, by linarith⟩
  simp [Triplet.handle, hacc]

theorem firstAccept_ne_none {γ : Type} {rs : List (Option γ)} {x : γ} (h : some x ∈ rs) : firstAccept rs ≠ none := by
  intro h0
  have := firstAccept_eq_none.mp h0 _ h
  exact absurd this (by simp)

theorem ngon_accepts (g : VirtualNgon ℝ) (f : Nat) (hf : f < g.positions.length) (p : Vec3 ℝ)
    (h : Triplet.handle (g.positions.getD (g.order.getD f 0) zero3,
      g.positions.getD (g.order.getD ((f + 1) % g.positions.length) 0) zero3, g.centre) p ≠ none) :
    g.handle p ≠ none := by
  obtain ⟨gv, hgv⟩ := Option.ne_none_iff_exists'.mp h
  unfold VirtualNgon.handle
  refine firstAccept_ne_none (x := VirtualNgon.mix g.centreDownmix
    (scatter (zeros (g.centreDownmix.length + 1))
      [g.order.getD f 0, g.order.getD ((f + 1) % g.positions.length) 0, g.positions.length] (vecList gv))) ?_
  rw [List.mem_map]
  refine ⟨([g.order.getD f 0, g.order.getD ((f + 1) % g.positions.length) 0, g.positions.length],
    (g.positions.getD (g.order.getD f 0) zero3,
      g.positions.getD (g.order.getD ((f + 1) % g.positions.length) 0) zero3, g.centre)), ?_, ?_⟩
  · unfold VirtualNgon.regions
    rw [List.mem_map]
    exact ⟨f, List.mem_range.mpr hf, rfl⟩
  · simp only [hgv, Option.map_some, remap]

/-! ### list plumbing -/

theorem mapM_getElem? {β γ : Type} (f : β → Option γ) : ∀ (l : List β) (out : List γ), l.mapM f = some out →
    ∀ (i : Nat) (b : β), l[i]? = some b → ∃ c, out[i]? = some c ∧ f b = some c
  | [], out, _, i, b, hb => by simp at hb
  | x :: l, out, h, i, b, hb => by
    obtain ⟨y, ys, hy, hys, rfl⟩ := mapM_cons_some f x l out h
    cases i with
    | zero =>
      simp only [List.getElem?_cons_zero, Option.some.injEq] at hb
      subst hb
      exact ⟨y, by simp, hy⟩
    | succ i =>
      simp only [List.getElem?_cons_succ] at hb ⊢
      exact mapM_getElem? f l ys hys i b hb

theorem getElem?_append_one {β : Type} (l : List β) (x : β) (i : Nat) (hi : i < l.length) :
    (l ++ [x])[i]? = l[i]? := by
  rw [List.getElem?_append_left hi]

theorem getD_map_p3 (pos : List P3) (i : Nat) (a : P3) (h : pos[i]? = some a) :
    (pos.map (p3 (α := ℝ))).getD i zero3 = p3 a := by
  rw [List.getD_eq_getElem?_getD, List.getElem?_map, h]; rfl

/-- four selectors into a list of four vectors: the combination with coefficient `s` at slot `i` -/
theorem slot4 (q0 q1 q2 q3 a : Vec3 ℝ) (i : Nat) (h : [q0, q1, q2, q3][i]? = some a) (s : ℝ) (hs : 0 ≤ s) :
    ∃ g0 g1 g2 g3 : ℝ, 0 ≤ g0 ∧ 0 ≤ g1 ∧ 0 ≤ g2 ∧ 0 ≤ g3 ∧
      smul3 s a = add3 (add3 (smul3 g0 q0) (smul3 g1 q1)) (add3 (smul3 g2 q2) (smul3 g3 q3)) := by
  obtain ⟨x0, x1, x2⟩ := q0
  obtain ⟨y0, y1, y2⟩ := q1
  obtain ⟨z0, z1, z2⟩ := q2
  obtain ⟨w0, w1, w2⟩ := q3
  match i, h with
  | 0, h =>
    simp only [List.getElem?_cons_zero, Option.some.injEq] at h; subst h
    exact ⟨s, 0, 0, 0, hs, le_refl _, le_refl _, le_refl _, by simp [add3, smul3]⟩
  | 1, h =>
    simp only [List.getElem?_cons_succ, List.getElem?_cons_zero, Option.some.injEq] at h; subst h
    exact ⟨0, s, 0, 0, le_refl _, hs, le_refl _, le_refl _, by simp [add3, smul3]⟩
  | 2, h =>
    simp only [List.getElem?_cons_succ, List.getElem?_cons_zero, Option.some.injEq] at h; subst h
    exact ⟨0, 0, s, 0, le_refl _, le_refl _, hs, le_refl _, by simp [add3, smul3]⟩
  | 3, h =>
    simp only [List.getElem?_cons_succ, List.getElem?_cons_zero, Option.some.injEq] at h; subst h
    exact ⟨0, 0, 0, s, le_refl _, le_refl _, le_refl _, hs, by simp [add3, smul3]⟩
  | n + 4, h => simp at h

theorem add4 (q0 q1 q2 q3 : Vec3 ℝ) (g0 g1 g2 g3 h0 h1 h2 h3 : ℝ) :
    add3 (add3 (add3 (smul3 g0 q0) (smul3 g1 q1)) (add3 (smul3 g2 q2) (smul3 g3 q3)))
      (add3 (add3 (smul3 h0 q0) (smul3 h1 q1)) (add3 (smul3 h2 q2) (smul3 h3 q3))) =
    add3 (add3 (smul3 (g0 + h0) q0) (smul3 (g1 + h1) q1)) (add3 (smul3 (g2 + h2) q2) (smul3 (g3 + h3) q3)) := by
  obtain ⟨x0, x1, x2⟩ := q0
  obtain ⟨y0, y1, y2⟩ := q1
  obtain ⟨z0, z1, z2⟩ := q2
  obtain ⟨w0, w1, w2⟩ := q3
  simp only [add3, smul3]
  refine Prod.ext ?_ (Prod.ext ?_ ?_) <;> simp only <;> ring

/-- a cone of three of the four corners is inside the cone of all four -/
theorem cone3_in_quad (q0 q1 q2 q3 a b c p : Vec3 ℝ) (i1 i2 i3 : Nat) (h1 : [q0, q1, q2, q3][i1]? = some a)
    (h2 : [q0, q1, q2, q3][i2]? = some b) (h3 : [q0, q1, q2, q3][i3]? = some c) (h : InCone3 a b c p) :
    ∃ g0 g1 g2 g3 : ℝ, 0 ≤ g0 ∧ 0 ≤ g1 ∧ 0 ≤ g2 ∧ 0 ≤ g3 ∧
      p = add3 (add3 (smul3 g0 q0) (smul3 g1 q1)) (add3 (smul3 g2 q2) (smul3 g3 q3)) := by
  obtain ⟨s, t, u, hs, ht, hu, rfl⟩ := h
  obtain ⟨a0, a1, a2, a3, ha0, ha1, ha2, ha3, ea⟩ := slot4 q0 q1 q2 q3 a i1 h1 s hs
  obtain ⟨b0, b1, b2, b3, hb0, hb1, hb2, hb3, eb⟩ := slot4 q0 q1 q2 q3 b i2 h2 t ht
  obtain ⟨c0, c1, c2, c3, hc0, hc1, hc2, hc3, ec⟩ := slot4 q0 q1 q2 q3 c i3 h3 u hu
  refine ⟨a0 + b0 + c0, a1 + b1 + c1, a2 + b2 + c2, a3 + b3 + c3, by linarith, by linarith, by linarith, by linarith, ?_⟩
  simp only [comb3]
  rw [ea, eb, ec, add4, add4]

/-! ### one covered cell ⇒ its region accepts -/

theorem region_accepts (sel : ℝ × ℝ × ℝ → Option ℝ) (l : RawLayout) (hwf : l.wellFormed = true)
    (hq : QuadAcceptsOnCone sel l) (regions : List (Region ℝ))
    (hregs : l.regions.mapM (RawRegion.toRegion (α := ℝ)) = some regions) (c : Cell) (p : Vec3 ℝ) (hp : p ≠ (0, 0, 0))
    (hcov : CellCovers l c p) :
    ∃ reg, regions[c.region]? = some reg ∧ reg.handle (rootsOf sel regions p c.region) p ≠ none := by
  obtain ⟨r, hr, hslots, hcone⟩ := hcov
  obtain ⟨reg, hreg, hto⟩ := mapM_getElem? _ _ _ hregs _ _ hr
  refine ⟨reg, hreg, ?_⟩
  have hrmem : r ∈ l.regions := List.mem_of_getElem? hr
  have hrw : r.wellFormed l.nInner = true := by
    simp only [RawLayout.wellFormed, Bool.and_eq_true, List.all_eq_true] at hwf
    exact hwf.1.1.1 r hrmem
  obtain ⟨kind, ch, pos, centre, cdm, order⟩ := r
  simp only [RawRegion.wellFormed, Bool.and_eq_true, beq_iff_eq] at hrw
  obtain ⟨⟨⟨_, _⟩, hposlen⟩, hk⟩ := hrw
  unfold slotsOk at hslots
  simp only at hslots
  rcases kind with _ | _ | _ | kind
  · -- Triplet
    simp only [beq_iff_eq] at hslots hk
    rw [hslots] at hcone
    simp only at hcone
    obtain ⟨a, b, d, ha, hb, hd, hdet, hin⟩ := hcone
    have hv : verts ⟨0, ch, pos, centre, cdm, order⟩ = pos := by simp [verts]
    rw [hv] at ha hb hd
    match pos, ha, hb, hd, hto with
    | [a', b', d'], ha, hb, hd, hto =>
      simp only [List.getElem?_cons_zero, List.getElem?_cons_succ, Option.some.injEq] at ha hb hd
      subst ha hb hd
      simp only [RawRegion.toRegion, Option.some.injEq] at hto
      subst hto
      simp only [Region.handle, ne_eq, Option.map_eq_none_iff]
      exact triplet_accepts_of_cone _ _ _ p hdet hin
    | [], ha, _, _, _ => simp at ha
    | [_], _, hb, _, _ => simp at hb
    | [_, _], _, _, hd, _ => simp at hd
    | _ :: _ :: _ :: _ :: _, _, _, _, hto => simp [RawRegion.toRegion] at hto
  · -- VirtualNgon
    simp only [Bool.and_eq_true, decide_eq_true_eq, beq_iff_eq] at hslots
    obtain ⟨⟨⟨hf, ho1⟩, ho2⟩, hvs⟩ := hslots
    rw [hvs] at hcone
    simp only at hcone
    obtain ⟨a, b, d, ha, hb, hd, hdet, hin⟩ := hcone
    have hv : verts ⟨1, ch, pos, centre, cdm, order⟩ = pos ++ [centre] := by simp [verts]
    rw [hv] at ha hb hd
    rw [getElem?_append_one _ _ _ ho1] at ha
    rw [getElem?_append_one _ _ _ ho2] at hb
    have hd' : d = centre := by
      rw [List.getElem?_append_right (le_refl _)] at hd
      simpa using hd.symm
    subst hd'
    simp only [RawRegion.toRegion, Option.some.injEq] at hto
    subst hto
    simp only [Region.handle]
    apply ngon_accepts _ c.fan (by simpa using hf)
    simp only [List.length_map]
    rw [getD_map_p3 pos _ a ha, getD_map_p3 pos _ b hb]
    exact triplet_accepts_of_cone _ _ _ p hdet hin
  · -- QuadRegion
    simp only [Bool.and_eq_true, List.all_eq_true, decide_eq_true_eq] at hslots hk
    have hv : verts ⟨2, ch, pos, centre, cdm, order⟩ = pos := by simp [verts]
    have hlen : pos.length = 4 := by rw [hposlen]; simpa using hk.1
    match pos, hlen, hv, hrmem, hr with
    | [q0, q1, q2, q3], _, hv, hrmem, hr =>
      have hquad : ∃ g0 g1 g2 g3 : ℝ, 0 ≤ g0 ∧ 0 ≤ g1 ∧ 0 ≤ g2 ∧ 0 ≤ g3 ∧
          p = add3 (add3 (smul3 g0 (p3 q0)) (smul3 g1 (p3 q1))) (add3 (smul3 g2 (p3 q2)) (smul3 g3 (p3 q3))) := by
        have lift : ∀ (i : Nat) (a : P3), [q0, q1, q2, q3][i]? = some a →
            [(p3 q0 : Vec3 ℝ), p3 q1, p3 q2, p3 q3][i]? = some (p3 a) := by
          intro i a h
          have := congrArg (Option.map (p3 (α := ℝ))) h
          simpa [← List.getElem?_map] using this
        have one : ∀ i1 i2 i3, RegionCone3 ⟨2, ch, [q0, q1, q2, q3], centre, cdm, order⟩ i1 i2 i3 p →
            ∃ g0 g1 g2 g3 : ℝ, 0 ≤ g0 ∧ 0 ≤ g1 ∧ 0 ≤ g2 ∧ 0 ≤ g3 ∧
              p = add3 (add3 (smul3 g0 (p3 q0)) (smul3 g1 (p3 q1))) (add3 (smul3 g2 (p3 q2)) (smul3 g3 (p3 q3))) := by
          rintro i1 i2 i3 ⟨a, b, d, ha, hb, hd, _, hin⟩
          rw [hv] at ha hb hd
          exact cone3_in_quad _ _ _ _ _ _ _ p i1 i2 i3 (lift _ _ ha) (lift _ _ hb) (lift _ _ hd) hin
        split at hcone
        · exact one _ _ _ hcone
        · rcases hcone with h | h
          · exact one _ _ _ h
          · exact one _ _ _ h
        · exact hcone.elim
      obtain ⟨g0, g1, g2, g3, h0, h1, h2, h3, hpe⟩ := hquad
      simp only [RawRegion.toRegion, Option.some.injEq] at hto
      subst hto
      have := hq _ hrmem rfl q0 q1 q2 q3 rfl g0 g1 g2 g3 p h0 h1 h2 h3 hp hpe
      simp only [Region.handle, rootsOf, hreg]
      exact this
  · simp at hslots

/-! ### the whole panner -/

/-- if region number `k` accepts, the panner (first accepting region) returns a result -/
theorem panner_ne_none_of_region (regions : List (Region ℝ)) (n : Nat) (roots : Nat → Option ℝ × Option ℝ)
    (p : Vec3 ℝ) (k : Nat) (hk : k < regions.length) (h : regions[k].handle (roots k) p ≠ none) :
    PointSourcePanner.handle regions n roots p ≠ none := by
  obtain ⟨g, hg⟩ := Option.ne_none_iff_exists'.mp h
  unfold PointSourcePanner.handle PointSourcePanner.results
  refine firstAccept_ne_none (x := scatter (zeros n) regions[k].channels g) ?_
  rw [List.mem_iff_getElem]
  refine ⟨k, by simpa using hk, ?_⟩
  simp [remap, hg]

theorem length_normalise (v : List ℝ) : (normalise v).length = v.length := by simp [normalise]

theorem length_matVec (D : List (List ℝ)) (v : List ℝ) : (matVec D v).length = D.length := by simp [matVec]

theorem length_downmixRows (l : RawLayout) : (l.downmixRows (α := ℝ)).length = l.nReal := by
  simp [RawLayout.downmixRows]

/-- **Stage 3.**  A well-formed table with an accepted certificate: under `QuadAcceptsOnCone`, the modelled panner
    returns a result for every non-zero direction. -/
theorem panner_total_of_cert (sel : ℝ × ℝ × ℝ → Option ℝ) (K : Nat) (l : RawLayout) (cert : CoverCert)
    (hwf : l.wellFormed = true) (hcert : coverCertOk K l cert = true) (hq : QuadAcceptsOnCone sel l) (p : Vec3 ℝ)
    (hp : p ≠ (0, 0, 0)) : handleSel sel l p ≠ none := by
  obtain ⟨c, _, hcov⟩ := cover_of_cert K l cert hcert p hp
  unfold handleSel
  cases hregs : l.regions.mapM (RawRegion.toRegion (α := ℝ)) with
  | none =>
    -- impossible: the covered cell's region converts
    exfalso
    obtain ⟨r, hr, _, _⟩ := hcov
    have hrmem : r ∈ l.regions := List.mem_of_getElem? hr
    -- every well-formed region converts
    have hall : ∀ rs : List RawRegion, (∀ x ∈ rs, x.wellFormed l.nInner = true) →
        rs.mapM (RawRegion.toRegion (α := ℝ)) ≠ none := by
      intro rs
      induction rs with
      | nil => intro _; simp
      | cons x xs ih =>
        intro hx
        have hxw := hx x (by simp)
        have hxs := ih fun y hy => hx y (by simp [hy])
        obtain ⟨ys, hys⟩ := Option.ne_none_iff_exists'.mp hxs
        obtain ⟨kind, ch, pos, centre, cdm, order⟩ := x
        simp only [RawRegion.wellFormed, Bool.and_eq_true, beq_iff_eq] at hxw
        obtain ⟨⟨⟨_, _⟩, hposlen⟩, hk⟩ := hxw
        rw [List.mapM_cons, hys]
        rcases kind with _ | _ | _ | kind
        · simp only [beq_iff_eq] at hk
          match pos, hposlen with
          | [a, b, d], _ => simp [RawRegion.toRegion]
          | [], h => simp [hk] at h
          | [_], h => simp [hk] at h
          | [_, _], h => simp [hk] at h
          | _ :: _ :: _ :: _ :: _, h => simp [hk] at h
        · simp [RawRegion.toRegion]
        · simp [RawRegion.toRegion]
        · simp at hk
    simp only [RawLayout.wellFormed, Bool.and_eq_true, List.all_eq_true] at hwf
    exact hall l.regions hwf.1.1.1 hregs
  | some regions =>
    simp only
    obtain ⟨reg, hreg, hacc⟩ := region_accepts sel l hwf hq regions hregs c p hp hcov
    have hlt : c.region < regions.length := by
      by_contra hge
      rw [List.getElem?_eq_none (by omega)] at hreg
      exact absurd hreg (by simp)
    have hinner : PointSourcePanner.handle regions l.nInner (rootsOf sel regions p) p ≠ none := by
      rw [List.getElem?_eq_getElem hlt, Option.some.injEq] at hreg
      exact panner_ne_none_of_region regions l.nInner _ p c.region hlt (by rw [hreg]; exact hacc)
    obtain ⟨pv, hpv⟩ := Option.ne_none_iff_exists'.mp hinner
    unfold RawLayout.handle
    rw [hregs]
    simp only [hpv, PointSourcePannerDownmix.handle, Option.map_some]
    cases hst : l.stereo with
    | none => simp
    | some lr =>
      obtain ⟨left, right⟩ := lr
      simp only
      -- the stereo wrapper needs exactly five inner gains
      have h5 : l.nReal = 5 := by
        simp only [RawLayout.wellFormed, Bool.and_eq_true, hst, beq_iff_eq] at hwf
        exact hwf.2.2
      have hlen : (normalise (matVec (l.downmixRows (α := ℝ)) pv)).length = 5 := by
        rw [length_normalise, length_matVec, length_downmixRows, h5]
      match hv : normalise (matVec (l.downmixRows (α := ℝ)) pv), hlen with
      | [g0, g1, g2, g3, g4], _ => simp [StereoPanDownmix.handle, remap]

end Earverif.PointSource.Cover
