#!/venv/bin/python
"""Self-test of the kernel translator tie (harness/translate.py, harness/kernels.py, Props/Kernels.lean).

  /venv/bin/python tools/kernels_selftest.py [-j N] [kernel ...]

(a) unchanged tree: extraction + `./lk Earverif.Props.Kernels Earverif.Props.KernelsSel Earverif.Props.KernelsAdm`
    succeed, every theorem checks;
(b) per kernel, in a scratch worktree of /repo (EAR_REPO mode: private copy of the Lean project), one small
    semantic mutation of that kernel's source: the build of Props/Kernels must FAIL and the failing theorems
    must be that kernel's (and, where one Python function feeds several kernels, only theirs);
(c) per kernel, one behaviour-preserving textual edit: reports whether the equality still checks;
    extra cases show preserving edits that are known to break the equality (a broken equality without a
    failing input is reported by the framework as `no-failing-input-found`);
(d) the translator refuses (with a message naming the construct) what is outside the whitelist: functions of the
    unchanged tree (kernels.NOT_REGISTERED: enumerate / first-match loops / any() over two clauses / ambiguous `raises` /
    str.join, Decimal ...) and, in the extra cases, one edit per new construct that leaves it (lower-case hex format,
    `!r`, a counter that can go negative, `==` on identity tokens, `return` inside a loop, an unmapped `raise`, a `raise` of
    another exception class, `assert` in place of `raise`, a message that reads through a value that may be None, a store to
    a sliced name after the slice, an unlisted decorator, a changed parameter default, ...).
Only the kernel's own group (generated + proof module) is built in each trial.
All worktrees are removed.  Exit status 0 iff (a), (b) and (d) behave as stated and every (c) case has the
outcome recorded in its `expect` field.
"""
import json
import os
import subprocess
import sys
import time
from concurrent.futures import ThreadPoolExecutor

VERIF = os.path.dirname(os.path.dirname(os.path.abspath(__file__)))
sys.path.insert(0, VERIF)
PY = "/venv/bin/python"

RC = "ear/core/renderer_common.py"
GC = "ear/core/objectbased/gain_calc.py"
RD = "ear/fileio/bw64/reader.py"
TP = "ear/core/track_processor.py"
OR = "ear/core/objectbased/renderer.py"
PS = "ear/core/point_source.py"
UT = "ear/fileio/bw64/utils.py"
MO = "ear/core/monitor.py"

# kernel lean name -> dict(file, mutation=[(old, new)], preserving=[(old, new)], expect='holds'|'breaks', why)
CASES = {
    "is_lfe": dict(
        file=RC,
        mutation=[("frequency.lowPass <= 200 and", "frequency.lowPass < 200 and")],
        preserving=[("    if (frequency.lowPass is not None and\n            frequency.lowPass <= 200 and\n            frequency.highPass is None):",
                     "    if (frequency.highPass is None and\n            frequency.lowPass is not None and\n            200 >= frequency.lowPass):")],
        expect="holds", why="operands of `and` reordered, comparison flipped"),
    "get_object_gain": dict(
        file=RC,
        mutation=[("return 0.0 if extra_data.object_mute else extra_data.object_gain",
                   "return extra_data.object_gain if extra_data.object_mute else 0.0")],
        preserving=[("    extra_data = type_metadata.extra_data\n\n    return 0.0 if extra_data.object_mute else extra_data.object_gain",
                     "    ed = type_metadata.extra_data\n    if ed.object_mute:\n        return 0.0\n    return ed.object_gain")],
        expect="holds", why="local renamed, conditional expression -> if statement with early return"),
    "direct_diffuse_split": dict(
        file=GC,
        mutation=[("direct=gains * np.sqrt(1.0 - diffuse),", "direct=gains * (1.0 - diffuse),")],
        preserving=[("    return DirectDiffuseGains(\n        direct=gains * np.sqrt(1.0 - diffuse),\n        diffuse=gains * np.sqrt(diffuse)",
                     "    a = np.sqrt(1.0 - diffuse)\n    b = np.sqrt(diffuse)\n    return DirectDiffuseGains(\n        diffuse=gains * b,\n        direct=gains * a")],
        expect="holds", why="factors named by locals, keyword arguments reordered"),
    "diverge_gains": dict(
        file=GC,
        mutation=[("g_c = (1 - value) / (value + 1)", "g_c = (1 - value) / (value + 2)")],
        preserving=[("        value = objectDivergence.value\n        g_l = g_r = value / (value + 1)\n        g_c = (1 - value) / (value + 1)",
                     "        x = objectDivergence.value\n        g_l = x / (x + 1)\n        g_c = (1 - x) / (x + 1)\n        g_r = g_l")],
        expect="holds", why="local renamed, chained assignment split"),
    "seek": dict(
        file=RD,
        mutation=[("        elif(whence == 2):\n            dataChunkOffset = chunkIndex.position.end",
                   "        elif(whence == 2):\n            dataChunkOffset = chunkIndex.position.data")],
        preserving=[("frameOffset", "fo"), ("dataChunkOffset + fo > chunkIndex.position.end", "dataChunkOffset + fo >= chunkIndex.position.end")],
        expect="holds", why="local renamed everywhere; `>` -> `>=` on the upper clamp (same result at equality)"),
    "tell": dict(
        file=RD,
        mutation=[("return ((self._buffer.tell() - self._chunks[b'data'].position.data) //",
                   "return ((self._buffer.tell() + self._chunks[b'data'].position.data) //")],
        preserving=[("        return ((self._buffer.tell() - self._chunks[b'data'].position.data) //\n                self._formatInfo.blockAlignment)",
                     "        p = self._buffer.tell()\n        d = self._chunks[b'data']\n        return (p - d.position.data) // self._formatInfo.blockAlignment")],
        expect="holds", why="locals introduced (one of them an object alias)"),
    "len": dict(
        file=RD,
        mutation=[("return self._chunks[b'data'].size // self._formatInfo.blockAlignment",
                   "return (self._chunks[b'data'].size + 1) // self._formatInfo.blockAlignment")],
        preserving=[("        if (self._ds64):\n            return self._ds64.dataSize // self._formatInfo.blockAlignment\n        else:\n            return self._chunks[b'data'].size // self._formatInfo.blockAlignment",
                     "        if not self._ds64:\n            return self._chunks[b'data'].size // self._formatInfo.blockAlignment\n        return self._ds64.dataSize // self._formatInfo.blockAlignment")],
        expect="holds", why="branches swapped under `not`, else dropped"),
    "init_delay_samples": dict(
        file=TP,
        mutation=[("/ 1000.0 - 0.5))", "/ 1000.0 + 0.5))")],
        preserving=[("(sample_rate * self.coefficient.delay) / 1000.0 - 0.5", "self.coefficient.delay * sample_rate / 1000.0 - 0.5")],
        expect="holds", why="commuted product over Rat (re-proved by grind)"),
    "ceil": dict(
        file=RC,
        mutation=[("    if y < x:\n        y += 1", "    if y <= x:\n        y += 1")],
        preserving=[("    y = math.trunc(x)\n    if y < x:\n        y += 1\n    return y",
                     "    t = math.trunc(x)\n    if x > t:\n        return t + 1\n    return t")],
        expect="holds", why="local renamed, augmented assignment -> early return, comparison flipped"),
    "overlap": dict(
        file=RC,
        mutation=[("overlap_start_sample = max(start_sample, self.first_sample)", "overlap_start_sample = min(start_sample, self.first_sample)")],
        preserving=[("        end_sample = start_sample + num_samples\n\n        overlap_start_sample = max(start_sample, self.first_sample)\n        overlap_end_sample = min(end_sample, self.last_sample)",
                     "        stop = num_samples + start_sample\n\n        overlap_start_sample = max(self.first_sample, start_sample)\n        overlap_end_sample = min(self.last_sample, stop)")],
        expect="holds", why="local renamed, operands of +, max, min commuted (re-proved by grind)"),
    "interp_p": dict(
        file=RC,
        mutation=[("return start + np.arange(n) * ((end - start) / n)", "return start + np.arange(n) * ((end - start) / (n + 1))")],
        preserving=[("return start + np.arange(n) * ((end - start) / n)", "step = (end - start) / n\n        return np.arange(n) * step + start")],
        expect="holds", why="local introduced, sum commuted (re-proved by grind)"),
    "interp_length": dict(
        file=OR,
        mutation=[("                return Fraction(0)", "                return Fraction(1)")],
        preserving=[("            if block_format.jumpPosition.interpolationLength is not None:\n                return block_format.jumpPosition.interpolationLength\n            else:\n                return Fraction(0)",
                     "            if block_format.jumpPosition.interpolationLength is None:\n                return Fraction(0)\n            return block_format.jumpPosition.interpolationLength")],
        expect="holds", why="None test inverted, branches swapped"),
    "single_balance_pan": dict(
        file=PS,
        mutation=[("aa = a * np.pi / 2.0", "aa = a * np.pi / 4.0")],
        preserving=[("        elif value >= maximum:", "        elif maximum <= value:"),
                    ("            a = (value - minimum) / (maximum - minimum)\n            aa = a * np.pi / 2.0\n            return (np.cos(aa), np.sin(aa))",
                     "            frac = (value - minimum) / (maximum - minimum)\n            ang = frac * np.pi / 2.0\n            return (np.cos(ang), np.sin(ang))")],
        expect="holds", why="comparison flipped, locals renamed"),
    "pcm_encode_scaled": dict(
        file=UT,
        mutation=[("scaledSamples = samples * (2**(bitdepth - 1) - 1)", "scaledSamples = samples * (2**(bitdepth - 1))")],
        preserving=[("    samples[samples > 1.0] = 1.0\n    samples[samples < -1.0] = -1.0\n    scaledSamples = samples * (2**(bitdepth - 1) - 1)",
                     "    samples[samples < -1.0] = -1.0\n    samples[samples > 1.0] = 1.0\n    scaledSamples = (2**(bitdepth - 1) - 1) * samples")],
        expect="holds", why="the two clips reordered, product commuted (re-proved by grind)"),
    "pcm_decode_scaled": dict(
        file=UT,
        mutation=[("return decodedSamples / float((2**(bitdepth - 1) - 1))", "return decodedSamples / float((2**(bitdepth - 1)))")],
        preserving=[("return decodedSamples / float((2**(bitdepth - 1) - 1))", "scale = 2**(bitdepth - 1) - 1\n    return decodedSamples / scale")],
        expect="holds", why="local introduced, float() dropped (true division of ints is exact here)"),
    "has_overloaded": dict(
        file=MO,
        mutation=[("return np.any(self.peak_abs_linear > 1)", "return np.any(self.peak_abs_linear >= 1)")],
        preserving=[("return np.any(self.peak_abs_linear > 1)", "return np.any(1.0 < self.peak_abs_linear)")],
        expect="holds", why="comparison flipped, int literal -> float literal"),
}

# ---- round 2
WR = "ear/fileio/bw64/writer.py"
HOA = "ear/core/hoa.py"
OBR = "ear/core/objectbased/renderer.py"
CONVOLVER = "ear/core/convolver.py"
CV = "ear/core/objectbased/conversion.py"
GEOM = "ear/core/geom.py"
TF = "ear/fileio/adm/timing_fixes.py"
AE = "ear/core/objectbased/allo_extent.py"
IAR = ["inside_angle_range", "inside_angle_range_rat", "inside_angle_range_ds"]
HASIL = ["has_interpolationLength", "check_duration", "clamp_end"]
CASES.update({
    "read_chunks_step": dict(
        file=RD,
        # the seeded rewrite: differs only for the 0xFFFFFFFF placeholder (and sizes >= 2**32)
        mutation=[("self._buffer.seek(chunkSize + (chunkSize & 1), 1)", "self._buffer.seek((chunkSize + 1) & 0xFFFFFFFE, 1)")],
        preserving=[("self._buffer.seek(chunkSize + (chunkSize & 1), 1)", "self._buffer.seek((chunkSize % 2) + chunkSize, 1)"),
                    ("            if chunk_end > self._file_len:", "            if self._file_len < chunk_end:")],
        expect="holds", why="`& 1` -> `% 2`, sum commuted, comparison flipped"),
    "close_pad_test": dict(
        file=WR,
        mutation=[("if self._dataBytesWritten & 1:", "if self._dataBytesWritten & 2:")],
        preserving=[("if self._dataBytesWritten & 1:", "if self._dataBytesWritten % 2 == 1:")],
        expect="holds", why="`x & 1` (truth value) -> `x % 2 == 1`"),
    "close_bw64_test": dict(
        file=WR,
        mutation=[("if(riffChunkSize >= 2**32) or self._forceBw64:", "if(riffChunkSize > 2**32) or self._forceBw64:")],
        preserving=[("if(riffChunkSize >= 2**32) or self._forceBw64:", "if self._forceBw64 or 0x100000000 <= riffChunkSize:")],
        expect="holds", why="operands of `or` swapped, comparison flipped, hex literal"),
    "calc_riff_chunk_size": dict(
        file=WR,
        mutation=[("riffChunkSize = self._buffer.tell() - 8", "riffChunkSize = self._buffer.tell() - 4")],
        preserving=[("        last_position = self._buffer.tell()\n        self._buffer.seek(0, 2)\n        riffChunkSize = self._buffer.tell() - 8\n        self._buffer.seek(last_position)\n        return riffChunkSize",
                     "        saved = self._buffer.tell()\n        self._buffer.seek(0, 2)\n        size = self._buffer.tell()\n        self._buffer.seek(saved)\n        return size - 8")],
        expect="holds", why="locals renamed, subtraction moved after the seek back"),
    "to_acn": dict(
        file=HOA, mutation=[("return n*n + n + m", "return n*n + n - m")],
        preserving=[("return n*n + n + m", "return m + n * (n + 1)")], expect="holds", why="factored (re-proved by grind)"),
    "from_acn": dict(
        file=HOA, mutation=[("m = acn - n*n - n", "m = acn - n*n + n")],
        preserving=[("m = acn - n*n - n", "m = acn - (n*n + n)")], expect="holds", why="re-associated (re-proved by grind)"),
    "decorrelator_delay": dict(
        file=OBR, mutation=[("decorrelator_delay = (decorrelation_filters.shape[0] - 1) // 2", "decorrelator_delay = decorrelation_filters.shape[0] // 2")],
        preserving=[("        decorrelator_delay = (decorrelation_filters.shape[0] - 1) // 2",
                     "        n_taps = decorrelation_filters.shape[0]\n        decorrelator_delay = (n_taps - 1) // 2")],
        expect="holds", why="local introduced"),
    "vbs_delay": dict(
        file=CONVOLVER, mutation=[("return self.block_size + process_delay", "return self.block_size + process_delay + 1")],
        preserving=[("return self.block_size + process_delay", "return process_delay + self.block_size")],
        expect="holds", why="sum commuted (re-proved by grind)"),
    "stereo_level": dict(
        file=PS, mutation=[("pv_dmix *= 0.5 ** (0.5 * back / (front + back))", "pv_dmix *= 0.5 ** (0.5 * front / (front + back))")],
        preserving=[("pv_dmix *= 0.5 ** (0.5 * back / (front + back))", "pv_dmix *= 0.5 ** ((0.5 * back) / (front + back))")],
        expect="holds", why="redundant parentheses (same AST)"),
    "map_az_to_linear": dict(
        file=CV, mutation=[("gain_r = 0.5 + 0.5 * np.tan(", "gain_r = 0.5 - 0.5 * np.tan(")],
        preserving=[("        rel_az = azimuth - mid_az\n\n        gain_r = 0.5 + 0.5 * np.tan(np.radians(rel_az)) /",
                     "        ra = azimuth - mid_az\n\n        gain_r = 0.5 + 0.5 * np.tan(np.radians(ra)) /")],
        expect="holds", why="local renamed"),
    "map_linear_to_az": dict(
        file=CV, mutation=[("rel_az = np.degrees(np.arctan(2 * (gain_r - 0.5) *", "rel_az = np.degrees(np.arctan(2 * (gain_r + 0.5) *")],
        preserving=[("        gain_l_, gain_r_ = np.cos(x * (np.pi / 2)), np.sin(x * (np.pi / 2))",
                     "        gain_l_ = np.cos(x * (np.pi / 2))\n        gain_r_ = np.sin(x * (np.pi / 2))")],
        expect="holds", why="tuple assignment split"),
    "el_to_cart": dict(
        file=CV, mutation=[("            z = d * np.sign(el)", "            z = d")],
        preserving=[("        if np.abs(el) > self.el_top:", "        if self.el_top < np.abs(el):")],
        expect="holds", why="comparison flipped"),
    "el_to_polar": dict(
        file=CV, mutation=[("            d = np.abs(z)", "            d = z")],
        preserving=[("        if np.abs(el_tilde) > self.el_top_tilde:", "        if self.el_top_tilde < np.abs(el_tilde):")],
        expect="holds", why="comparison flipped"),
    "relative_angle": dict(
        file=GEOM, mutation=[("    while y - 360.0 >= x:", "    while y - 360.0 > x:")],
        preserving=[("    while y - 360.0 >= x:\n        y -= 360.0", "    while x <= y - 360.0:\n        y = y - 360.0")],
        expect="holds", why="comparison flipped, augmented assignment expanded"),
    "inside_angle_range": dict(
        file=GEOM, also=IAR, mutation=[("    return x <= end + tol", "    return x < end + tol")],
        preserving=[("    while end < start:", "    while start > end:")], expect="holds", why="comparison flipped"),
    "inside_angle_range_rat": dict(
        file=GEOM, also=IAR, mutation=[("    while end - 360.0 > start:", "    while end - 360.0 >= start:")],
        preserving=[("    start_tol = start - tol\n    while x - 360.0 >= start_tol:", "    start_tol = start - tol\n    while start_tol <= x - 360.0:")],
        expect="holds", why="comparison flipped"),
    "inside_angle_range_ds": dict(
        file=GEOM, also=IAR, mutation=[("    start_tol = start - tol", "    start_tol = start + tol")],
        preserving=[("    while x < start_tol:\n        x += 360.0", "    while x < start_tol:\n        x = x + 360.0")],
        expect="holds", why="augmented assignment expanded"),
    "has_interpolationLength": dict(
        file=TF, also=HASIL, mutation=[("        and blockFormat.jumpPosition.flag", "        or blockFormat.jumpPosition.flag")],
        preserving=[("        isinstance(blockFormat, AudioBlockFormatObjects)\n        and blockFormat.jumpPosition.flag\n        and blockFormat.jumpPosition.interpolationLength is not None",
                     "        isinstance(blockFormat, AudioBlockFormatObjects)\n        and blockFormat.jumpPosition.interpolationLength is not None\n        and blockFormat.jumpPosition.flag")],
        expect="holds", why="conjuncts reordered (the helper is inlined into check_duration/clamp_end too)"),
    "check_duration": dict(
        file=TF, mutation=[("                and old_duration >= bf_a.jumpPosition.interpolationLength", "                and old_duration > bf_a.jumpPosition.interpolationLength")],
        preserving=[("    if old_duration != new_duration:", "    if new_duration != old_duration:")],
        expect="holds", why="operands of != swapped"),
    "clamp_end": dict(
        file=TF, mutation=[("            if shift >= blockFormat.duration:", "            if shift > blockFormat.duration:")],
        preserving=[("                blockFormat.duration -= shift", "                blockFormat.duration = blockFormat.duration - shift")],
        expect="holds", why="augmented assignment to the attribute expanded"),
    "extent_mod": dict(
        file=GC, mutation=[("        min_size = 0.2", "        min_size = 0.25")],
        preserving=[("        extent_1 = 4 * np.degrees(np.arctan2(size, 1.0))\n        return np.interp(4 * np.degrees(np.arctan2(size, distance)),\n                         [0, extent_1, 360.0],",
                     "        e1 = 4 * np.degrees(np.arctan2(size, 1.0))\n        return np.interp(4 * np.degrees(np.arctan2(size, distance)),\n                         [0, e1, 360.0],")],
        expect="holds", why="local renamed"),
    "fade_gains": dict(
        file=AE, mutation=[("        alpha = 0.0\n        beta = 1.0", "        alpha = 0.5\n        beta = 1.0")],
        preserving=[("    if s_eff < s_fade:", "    if s_fade > s_eff:")], expect="holds", why="comparison flipped"),
    "lock_tol": dict(
        file=GC, mutation=[("        tol = 1e-5", "        tol = 1e-6")],
        preserving=[("        tol = 1e-5", "        tol = 0.00001")], expect="holds", why="same double, written differently"),
    "lock_possible_test": dict(
        file=GC, mutation=[("possible = (distances < channelLock.maxDistance + tol", "possible = (distances <= channelLock.maxDistance + tol")],
        preserving=[("possible = (distances < channelLock.maxDistance + tol", "possible = (tol + channelLock.maxDistance > distances")],
        expect="holds", why="sum commuted, comparison flipped (re-proved by grind)"),
    "lock_closest_test": dict(
        file=GC, mutation=[("all_closest = np.where(distances_w < min_dist + tol)[0]", "all_closest = np.where(distances_w <= min_dist + tol)[0]")],
        preserving=[("all_closest = np.where(distances_w < min_dist + tol)[0]", "all_closest = np.where(tol + min_dist > distances_w)[0]")],
        expect="holds", why="sum commuted, comparison flipped (re-proved by grind)"),
    "zone_epsilon": dict(
        file=GC, mutation=[("        epsilon = 1e-6", "        epsilon = 1e-5")],
        preserving=[("        epsilon = 1e-6", "        epsilon = 0.000001")], expect="holds", why="same double, written differently"),
    "zone_cart_test": dict(
        file=GC, mutation=[("(self.positions[:, 0] + epsilon > zone.minX) &", "(self.positions[:, 0] + epsilon >= zone.minX) &")],
        preserving=[("                    (self.positions[:, 0] - epsilon < zone.maxX) &\n                    (self.positions[:, 1] - epsilon < zone.maxY) &",
                     "                    (self.positions[:, 1] - epsilon < zone.maxY) &\n                    (zone.maxX > self.positions[:, 0] - epsilon) &")],
        expect="holds", why="conjuncts swapped, comparison flipped"),
    "zone_polar_test": dict(
        file=GC, mutation=[("(np.abs(self.elevations) > 90.0 - epsilon) |", "(np.abs(self.elevations) > 90.0 + epsilon) |")],
        preserving=[("                    (self.elevations - epsilon < zone.maxElevation) &\n                    (self.elevations + epsilon > zone.minElevation) &",
                     "                    (self.elevations + epsilon > zone.minElevation) &\n                    (self.elevations - epsilon < zone.maxElevation) &")],
        expect="holds", why="conjuncts swapped"),
})


# ---- round 3: fileio/adm (C08), item selection (C06, C07, C14)
TFM = "ear/fileio/adm/time_format.py"
GI = "ear/fileio/adm/generate_ids.py"
PA = "ear/core/select_items/pack_allocation.py"
SU = "ear/core/select_items/utils.py"
SI = "ear/core/select_items/select_items.py"
HO = "ear/core/select_items/hoa.py"
VA = "ear/core/select_items/validate.py"
MX = "ear/core/select_items/matrix.py"
PTF = ["parse_time_frac", "from_fraction"]
INBY = ["in_by_id", "is_compatible", "could_possibly_allocate", "only_selected_test"]
CASES.update({
    "unparse_whole_part": dict(
        file=TFM, mutation=[("    hours, minutes = divmod(minutes, 60)", "    hours, minutes = divmod(minutes, 24)")],
        preserving=[("    minutes, seconds = divmod(seconds, 60)\n    hours, minutes = divmod(minutes, 60)",
                     "    minutes, seconds = seconds // 60, seconds % 60\n    hours, minutes = minutes // 60, minutes % 60")],
        expect="holds", why="divmod written as // and %"),
    "unparse_fractional_fmt": dict(
        file=TFM, mutation=[('return f"{whole_part}.{numerator}S{denominator}"', 'return f"{whole_part}.{denominator}S{numerator}"')],
        preserving=[('return f"{whole_part}.{numerator}S{denominator}"', 'return whole_part + f".{numerator}S{denominator}"')],
        expect="holds", why="f-string split into a concatenation"),
    "parse_time_frac": dict(
        file=TFM, also=PTF, mutation=[("        if not numerator < denominator:", "        if not numerator <= denominator:")],
        preserving=[("        if not numerator < denominator:", "        if numerator >= denominator:")],
        expect="holds", why="`not a < b` -> `a >= b`"),
    "parse_time_dec": dict(
        file=TFM, mutation=[("        return ((hour * 60) + minute) * 60 + second", "        return ((hour * 24) + minute) * 60 + second")],
        preserving=[("        return ((hour * 60) + minute) * 60 + second", "        return (hour * 60 + minute) * 60 + second")],
        expect="holds", why="redundant parentheses (same AST)"),
    "from_fraction": dict(
        file=TFM, also=PTF, mutation=[("return cls(fraction * format_denominator, format_denominator)", "return cls(fraction, format_denominator)")],
        preserving=[("return cls(fraction * format_denominator, format_denominator)", "return cls(format_denominator * fraction, format_denominator)")],
        expect="holds", why="commuted product over Rat"),
})
_ID_CASES = [  # kernel, mutation, preserving
    ("id_apr", ('"APR_{id:04X}".format(id=id)', '"APR_{id:08X}".format(id=id)'), ('"APR_{id:04X}".format(id=id)', '"APR_{:04X}".format(id)')),
    ("id_aco", ('"ACO_{id:04X}".format(id=id)', '"ACO_{id:04d}".format(id=id)'), ('"ACO_{id:04X}".format(id=id)', '"ACO_{0:04X}".format(id)')),
    ("id_ao", ('"AO_{id:04X}".format(id=id)', '"AO_{id:05X}".format(id=id)'), ('"AO_{id:04X}".format(id=id)', '"AO_{n:04X}".format(n=id)')),
    ("id_avs", ('"AVS_{id:04X}_{avs_id:04X}".format(id=id, avs_id=avs_id)', '"AVS_{avs_id:04X}_{id:04X}".format(id=id, avs_id=avs_id)'),
     ('"AVS_{id:04X}_{avs_id:04X}".format(id=id, avs_id=avs_id)', 'f"AVS_{id:04X}_{avs_id:04X}"')),
    ("id_ap", ('"AP_{type.value:04X}{id:04X}".format(id=id, type=element.type)', '"AP_{id:04X}{type.value:04X}".format(id=id, type=element.type)'),
     ('"AP_{type.value:04X}{id:04X}".format(id=id, type=element.type)', '"AP_{t:04X}{id:04X}".format(id=id, t=element.type.value)')),
    ("id_ac", ('"AC_{type.value:04X}{id:04X}".format(id=id, type=element.type)', '"AC_{type.value:04X}{id:08X}".format(id=id, type=element.type)'),
     ('"AC_{type.value:04X}{id:04X}".format(id=id, type=element.type)', '"AC_{t:04X}{id:04X}".format(id=id, t=element.type.value)')),
    ("id_ab", ("_{block_id:08X}", "_{block_id:04X}"), ('.format(id=id, type=element.type, block_id=block_id)', '.format(block_id=block_id, type=element.type, id=id)')),
    ("id_as", ('"AS_{type_id:04X}{id:04X}".format(id=id, type_id=type_id)', '"AS_{type_id:04X}{id:04X}".format(id=type_id, type_id=id)'),
     ('"AS_{type_id:04X}{id:04X}".format(id=id, type_id=type_id)', '"AS_{:04X}{:04X}".format(type_id, id)')),
    ("id_at", ("_{track_id:02X}", "_{track_id:04X}"), ('"AT_{type_id:04X}{id:04X}_{track_id:02X}".format(\n                id=id, type_id=type_id, track_id=track_id\n            )',
                                                     '"AT_{type_id:04X}{id:04X}_{track_id:02X}".format(type_id=type_id, id=id, track_id=track_id)')),
    ("id_atu", ('"ATU_{id:08X}".format(id=id)', '"ATU_{id:04X}".format(id=id)'), ('"ATU_{id:08X}".format(id=id)', 'f"ATU_{id:08X}"')),
]
for _n, _m, _p in _ID_CASES:
    CASES[_n] = dict(file=GI, mutation=[_m], preserving=[_p], expect="holds", why="same fields, written differently (positional / renamed / f-string)")
_START_CASES = [  # kernel, the enumerate text up to the start value, start literal
    ("ids_start_apr", "enumerate(adm.audioProgrammes, ", "0x1001"), ("ids_start_aco", "enumerate(adm.audioContents, ", "0x1001"),
    ("ids_start_ao", "enumerate(adm.audioObjects, ", "0x1001"), ("ids_start_avs", "enumerate(element.alternativeValueSets, ", "0x1"),
    ("ids_start_ap", "enumerate(non_common(adm.audioPackFormats), ", "0x1001"),
    ("ids_start_ac", "enumerate(non_common(adm.audioChannelFormats), ", "0x1001"),
    ("ids_start_ab", "enumerate(element.audioBlockFormats, ", "0x1"), ("ids_start_as", "enumerate(non_common(adm.audioStreamFormats), ", "0x1001"),
    ("ids_start_at", "enumerate(_stream_track_formats(adm, element), ", "0x1"), ("ids_start_atu", "enumerate(adm.audioTrackUIDs, ", "0x1"),
]
for _n, _t, _v in _START_CASES:
    CASES[_n] = dict(file=GI, mutation=[(_t + _v + ")", _t + ("0x1000" if _v == "0x1001" else "0x0") + ")")],
                     preserving=[(_t + _v + ")", _t + str(int(_v, 16)) + ")")], expect="holds", why="hex literal written in decimal")
CASES.update({
    "in_by_id": dict(
        file=SU, also=INBY, mutation=[("return any(element is item for item in collection)", "return all(element is item for item in collection)")],
        preserving=[("return any(element is item for item in collection)", "return any(x is element for x in collection)")],
        expect="holds", why="operands of `is` swapped, loop variable renamed"),
    "is_compatible": dict(
        file=PA, mutation=[("(track.channel_format is alloc_channel.channel_format and", "(track.channel_format is alloc_channel.channel_format or")],
        preserving=[("            (track.channel_format is alloc_channel.channel_format and\n             in_by_id(track.pack_format, alloc_channel.pack_formats)))",
                     "            (in_by_id(track.pack_format, alloc_channel.pack_formats) and\n             track.channel_format is alloc_channel.channel_format))")],
        expect="holds", why="conjuncts swapped"),
    "could_possibly_allocate": dict(
        file=PA, mutation=[("        return n_found >= len(pack.channels)", "        return n_found > len(pack.channels)")],
        preserving=[("        if len(pack.channels) > len(tracks) - remaining_in_partial:", "        if len(tracks) - remaining_in_partial < len(pack.channels):"),
                    ("        return n_found >= len(pack.channels)", "        return len(pack.channels) <= n_found")],
        expect="holds", why="comparisons flipped"),
    "fail_early_test": dict(
        file=PA, mutation=[("    if len(tracks) < remaining_in_partial:", "    if len(tracks) <= remaining_in_partial:")],
        preserving=[("    if len(tracks) < remaining_in_partial:", "    if remaining_in_partial > len(tracks):")],
        expect="holds", why="comparison flipped"),
    "get_nfcRefDist": dict(
        file=HO, mutation=[("return None if nfcRefDist == 0.0 else nfcRefDist", "return None if nfcRefDist == 1.0 else nfcRefDist")],
        preserving=[("return None if nfcRefDist == 0.0 else nfcRefDist", "return nfcRefDist if nfcRefDist != 0.0 else None")],
        expect="holds", why="conditional inverted"),
    "get_track_spec": dict(
        file=SI, mutation=[("DirectTrackSpec(allocation_track_uid.track_uid.trackIndex - 1)", "DirectTrackSpec(allocation_track_uid.track_uid.trackIndex)")],
        preserving=[("        if allocation_track_uid is not None:\n            return DirectTrackSpec(allocation_track_uid.track_uid.trackIndex - 1)\n        else:\n            return SilentTrackSpec()",
                     "        if allocation_track_uid is None:\n            return SilentTrackSpec()\n        return DirectTrackSpec(allocation_track_uid.track_uid.trackIndex - 1)")],
        expect="holds", why="None test inverted, branches swapped"),
    "silent_tracks": dict(
        file=SI, mutation=[("silent_tracks = len(obj.audioTrackUIDs) - len(real_track_uids)", "silent_tracks = len(obj.audioTrackUIDs) - len(real_track_uids) + 1")],
        preserving=[("            silent_tracks = len(obj.audioTrackUIDs) - len(real_track_uids)",
                     "            n_all = len(obj.audioTrackUIDs)\n            silent_tracks = n_all - len(real_track_uids)")],
        expect="holds", why="local introduced"),
    "select_programme": dict(
        file=SI, mutation=[("        if len(state.adm.audioProgrammes) > 1:", "        if len(state.adm.audioProgrammes) > 2:")],
        preserving=[("        elif len(state.adm.audioProgrammes) == 1:", "        elif 1 == len(state.adm.audioProgrammes):")],
        expect="holds", why="operands of == swapped"),
    "only_selected_test": dict(
        file=SI, mutation=[("    if (state.audioObjects is None or\n            not any(in_by_id(", "    if (state.audioObjects is None or\n            any(in_by_id(")],
        preserving=[("            not any(in_by_id(audio_object, objects_to_ignore)\n                    for audio_object in state.audioObjects)):",
                     "            not any(in_by_id(ao, objects_to_ignore)\n                    for ao in state.audioObjects)):")],
        expect="holds", why="loop variable renamed"),
    "matrix_type_of": dict(
        file=MX, mutation=[("    elif apf.inputPackFormat is not None:\n        return Type.ENCODE", "    elif apf.inputPackFormat is not None:\n        return Type.DECODE")],
        preserving=[("    if apf.inputPackFormat is not None and apf.outputPackFormat is not None:", "    if apf.outputPackFormat is not None and apf.inputPackFormat is not None:")],
        expect="holds", why="conjuncts swapped"),
    "validate_non_matrix_pack": dict(
        file=VA, mutation=[("    if apf.outputPackFormat is not None:\n        raise AdmError(\"non-matrix", "    if apf.outputPackFormat is None:\n        raise AdmError(\"non-matrix")],
        preserving=[("    if apf.encodePackFormats:\n        raise AdmError(\"non-matrix", "    if len(apf.encodePackFormats) > 0:\n        raise AdmError(\"non-matrix")],
        expect="holds", why="truth value of a list -> len() > 0"),
    "validate_track_or_channel": dict(
        file=VA, mutation=[("        if atu.audioTrackFormat is None and atu.audioChannelFormat is None:", "        if atu.audioTrackFormat is None or atu.audioChannelFormat is None:")],
        preserving=[("        if atu.audioTrackFormat is not None and atu.audioChannelFormat is not None:", "        if atu.audioChannelFormat is not None and atu.audioTrackFormat is not None:")],
        expect="holds", why="conjuncts swapped"),
    "validate_hoa_channels": dict(
        file=VA, mutation=[("            if len(audioChannelFormat.audioBlockFormats) != 1:", "            if len(audioChannelFormat.audioBlockFormats) > 1:")],
        preserving=[("            if len(audioChannelFormat.audioBlockFormats) != 1:", "            if not len(audioChannelFormat.audioBlockFormats) == 1:")],
        expect="holds", why="`!=` -> `not ==`"),
    "validate_objects_channels": dict(
        file=VA, mutation=[("        if audioChannelFormat.type == TypeDefinition.Objects:", "        if audioChannelFormat.type == TypeDefinition.DirectSpeakers:")],
        preserving=[("        if audioChannelFormat.type == TypeDefinition.Objects:", "        if TypeDefinition.Objects == audioChannelFormat.type:")],
        expect="holds", why="operands of == swapped"),
    "validate_pack_channel_types": dict(
        file=VA, mutation=[("            if audioChannelFormat.type != audioPackFormat.type:", "            if audioChannelFormat.type == audioPackFormat.type:")],
        preserving=[("            if audioChannelFormat.type != audioPackFormat.type:", "            if audioPackFormat.type != audioChannelFormat.type:")],
        expect="holds", why="operands of != swapped"),
    "validate_pack_subpack_types": dict(
        file=VA, mutation=[("            if sub_audioPackFormat.type != audioPackFormat.type:", "            if sub_audioPackFormat.type == audioPackFormat.type:")],
        preserving=[("            if sub_audioPackFormat.type != audioPackFormat.type:", "            if not sub_audioPackFormat.type == audioPackFormat.type:")],
        expect="holds", why="`!=` -> `not ==`"),
    "validate_v2_refs": dict(
        file=VA, mutation=[("    if not v2_allowed and any(", "    if v2_allowed and any(")],
        preserving=[("v2_allowed", "allowed_v2")], expect="holds", why="local renamed"),
    "matrix_channel_blocks_test": dict(
        file=VA, mutation=[("    if len(acf.audioBlockFormats) != 1:", "    if len(acf.audioBlockFormats) < 1:")],
        preserving=[("    if len(acf.audioBlockFormats) != 1:", "    if not len(acf.audioBlockFormats) == 1:")],
        expect="holds", why="`!=` -> `not ==`"),
    "selected_track_checks": dict(
        file=VA, mutation=[("    if audioTrackUID.audioPackFormat is None:", "    if audioTrackUID.audioPackFormat is not None:")],
        preserving=[("    if audioTrackUID.trackIndex is None:", "    if not (audioTrackUID.trackIndex is not None):")],
        expect="holds", why="`is None` -> `not (is not None)`"),
})

# ---- rounds 4 / 5: bw64 reader cursor/format/offset kernels, the sites of fixes 61d37f4 / 1404dee, C04 / C02 / C15 / C11
CH = "ear/fileio/bw64/chunks.py"
DSP = "ear/core/direct_speakers/panner.py"
LY = "ear/core/layout.py"
SBR = "ear/core/scenebased/renderer.py"
READ = ["read_clamp", "read_nbytes"]
UPMIX = ["upmix_unmapped_test", "upmix_multi_out_test", "upmix_row_multi_test"]
VBS = ["vbs_to_xfer", "vbs_full_test", "vbs_loop_test"]
CASES.update({
    "read_clamp": dict(
        file=RD, also=READ, mutation=[("            numberOfFrames = len(self) - self.tell()", "            numberOfFrames = len(self) - self.tell() - 1")],
        preserving=[("        if(self.tell() + numberOfFrames > len(self)):", "        if len(self) < numberOfFrames + self.tell():")],
        expect="holds", why="comparison flipped, sum commuted"),
    "read_nbytes": dict(
        file=RD, also=READ, mutation=[("            numberOfFrames * self._formatInfo.blockAlignment)", "            numberOfFrames * self._formatInfo.blockAlignment + 1)")],
        preserving=[("            numberOfFrames * self._formatInfo.blockAlignment)", "            self._formatInfo.blockAlignment * numberOfFrames)")],
        expect="holds", why="product commuted (Int, re-proved by grind)"),
    "block_alignment": dict(
        file=CH, also=["block_alignment", "bytes_per_second"],
        mutation=[("return int(self.channelCount * self.bitsPerSample / 8)", "return int(self.channelCount * self.bitsPerSample / 4)")],
        preserving=[("return int(self.channelCount * self.bitsPerSample / 8)", "return int(self.bitsPerSample * self.channelCount / 8)")],
        expect="holds", why="product commuted (bytes_per_second is stated through block_alignment)"),
    "bytes_per_second": dict(
        file=CH, mutation=[("return self.sampleRate * self.blockAlignment", "return self.sampleRate * self.blockAlignment * 2")],
        preserving=[("return self.sampleRate * self.blockAlignment", "return self.blockAlignment * self.sampleRate")],
        expect="holds", why="product commuted"),
    "chunk_position": dict(
        file=CH, mutation=[("                                       position + 8 + size)", "                                       position + 4 + size)")],
        preserving=[("                                       position + 8 + size)", "                                       size + position + 8)")],
        expect="holds", why="sum re-associated"),
    "chunk_index_args": dict(
        file=RD, mutation=[("                chunkSize, self._buffer.tell() - 8)", "                chunkSize, self._buffer.tell() - 4)")],
        preserving=[("                chunkSize, self._buffer.tell() - 8)", "                chunkSize, -8 + self._buffer.tell())")],
        expect="holds", why="difference written as a sum"),
    "read_chunk_header_size": dict(
        file=RD, mutation=[("        elif chunkId == b'data' and chunkSize == 0xFFFFFFFF:", "        elif chunkId == b'data' and chunkSize >= 0xFFFFFFFF:")],
        preserving=[("        elif chunkId == b'data' and chunkSize == 0xFFFFFFFF:", "        elif chunkSize == 4294967295 and chunkId == b'data':")],
        expect="holds", why="conjuncts swapped, hex literal written in decimal"),
    "ds_pan_position": dict(
        file=DSP, mutation=[("shifted_position.elevation, 1.0)", "shifted_position.elevation, shifted_position.distance)")],
        preserving=[("            if isinstance(shifted_position, DirectSpeakerPolarPosition):\n                # the point source panner only uses the direction; pan at unit\n                # distance so that a distance of 0 does not result in NaN gains\n                position = cart(shifted_position.azimuth, shifted_position.elevation, 1.0)\n            else:\n                position = shifted_position.as_cartesian_array()",
                     "            if not isinstance(shifted_position, DirectSpeakerPolarPosition):\n                position = shifted_position.as_cartesian_array()\n            else:\n                position = cart(shifted_position.azimuth, shifted_position.elevation, 1.0)")],
        expect="holds", why="branches swapped under `not`"),
    "out_channels": dict(
        file=LY, mutation=[("out_channels = max(speaker.channel for speaker in speakers) + 1", "out_channels = max(speaker.channel for speaker in speakers) + 2")],
        preserving=[("out_channels = max(speaker.channel for speaker in speakers) + 1", "out_channels = 1 + max(speaker.channel for speaker in speakers)")],
        expect="holds", why="sum commuted"),
    "el_range_test": dict(
        file=LY, mutation=[("if not self.el_range[0] <= self.polar_position.elevation <= self.el_range[1]:", "if not self.el_range[0] < self.polar_position.elevation <= self.el_range[1]:")],
        preserving=[("if not self.el_range[0] <= self.polar_position.elevation <= self.el_range[1]:",
                     "if self.polar_position.elevation < self.el_range[0] or self.polar_position.elevation > self.el_range[1]:")],
        expect="holds", why="negated chain written as a disjunction"),
    "upmix_unmapped_test": dict(
        file=LY, also=UPMIX, mutation=[("            if num_outputs == 0:", "            if num_outputs == 1:")],
        preserving=[("            if num_outputs == 0:", "            if 0 == num_outputs:")], expect="holds", why="operands of == swapped"),
    "upmix_multi_out_test": dict(
        file=LY, also=UPMIX, mutation=[("            if num_outputs > 1:", "            if num_outputs > 2:")],
        preserving=[("            if num_outputs > 1:", "            if 1 < num_outputs:")], expect="holds", why="comparison flipped"),
    "upmix_row_multi_test": dict(
        file=LY, also=UPMIX, mutation=[("            if num_channels > 1:", "            if num_channels >= 1:")],
        preserving=[("            if num_channels > 1:", "            if num_channels >= 2:")], expect="holds", why="`> 1` -> `>= 2` on a natural number"),
    "os_block_end": dict(
        file=CONVOLVER, mutation=[("end = min(len(f), start + self.block_size)", "end = min(len(f), start + self.block_size - 1)")],
        preserving=[("end = min(len(f), start + self.block_size)", "end = min(self.block_size + start, len(f))")],
        expect="holds", why="operands of min and + commuted"),
    "os_range": dict(
        file=CONVOLVER, mutation=[("for start in range(0, len(f), self.block_size):", "for start in range(1, len(f), self.block_size):")],
        preserving=[("for start in range(0, len(f), self.block_size):", "for start in range(0x0, len(f), self.block_size):")],
        expect="holds", why="literal written in hex"),
    "vbs_to_xfer": dict(
        file=CONVOLVER, also=VBS, mutation=[("to_xfer = min(n_input - n_done, self.block_size - self.buffer_input)", "to_xfer = min(n_input - n_done, self.block_size + self.buffer_input)")],
        preserving=[("to_xfer = min(n_input - n_done, self.block_size - self.buffer_input)", "to_xfer = min(self.block_size - self.buffer_input, n_input - n_done)")],
        expect="holds", why="operands of min swapped (omega)"),
    "vbs_full_test": dict(
        file=CONVOLVER, also=VBS, mutation=[("            if self.buffer_input == self.block_size:", "            if self.buffer_input >= self.block_size - 1:")],
        preserving=[("            if self.buffer_input == self.block_size:", "            if self.block_size == self.buffer_input:")],
        expect="holds", why="operands of == swapped"),
    "vbs_loop_test": dict(
        file=CONVOLVER, also=VBS, mutation=[("        while n_done < n_input:", "        while n_done <= n_input:")],
        preserving=[("        while n_done < n_input:", "        while n_input > n_done:")], expect="holds", why="comparison flipped"),
    "clamp_il": dict(
        file=TF, mutation=[("        and blockFormat.jumpPosition.interpolationLength > audioObject.duration", "        and blockFormat.jumpPosition.interpolationLength >= audioObject.duration + 1")],
        preserving=[("        and blockFormat.jumpPosition.interpolationLength > audioObject.duration", "        and audioObject.duration < blockFormat.jumpPosition.interpolationLength")],
        expect="holds", why="comparison flipped"),
    "il_gt_duration_test": dict(
        file=TF, mutation=[("            if blockFormat.jumpPosition.interpolationLength > blockFormat.duration:", "            if blockFormat.jumpPosition.interpolationLength < blockFormat.duration:")],
        preserving=[("            if blockFormat.jumpPosition.interpolationLength > blockFormat.duration:", "            if blockFormat.duration < blockFormat.jumpPosition.interpolationLength:")],
        expect="holds", why="comparison flipped"),
    "hoa_output_channels": dict(
        file=SBR, mutation=[("        self._output_channels = ~layout.is_lfe", "        self._output_channels = layout.is_lfe")],
        preserving=[("        self._output_channels = ~layout.is_lfe", "        self._output_channels = ~(layout.is_lfe)")],
        expect="holds", why="redundant parentheses (same AST)"),
})

# extra behaviour-preserving (over the reals) edits that are EXPECTED to break the equality, with the reason
EXTRA = [
    dict(kernel="direct_diffuse_split", file=GC, kind="preserving",
         edits=[("direct=gains * np.sqrt(1.0 - diffuse),", "direct=np.sqrt(1.0 - diffuse) * gains,")],
         expect="breaks",
         why="commuted product over the abstract Scalar class: no commutativity law there (it is instantiated by Float, "
             "where it does hold; the models deliberately assume no float algebra)"),
    dict(kernel="init_delay_samples", file=TP, kind="preserving",
         edits=[("            delay_samples = int(math.ceil((sample_rate * self.coefficient.delay) / 1000.0 - 0.5))\n            self.delay = Delay(1, delay_samples)",
                 "            n_delay = int(math.ceil((sample_rate * self.coefficient.delay) / 1000.0 - 0.5))\n            self.delay = Delay(1, n_delay)")],
         expect="breaks",
         why="the slice is selected by the NAME of the assigned local (delay_samples); renaming it leaves nothing to select -> refused"),
    dict(kernel="has_overloaded", file=MO, kind="preserving",
         edits=[("return np.any(self.peak_abs_linear > 1)", "return bool((self.peak_abs_linear > 1).any())")],
         expect="breaks", why="method call `.any()` / bool() are outside the whitelist -> refused"),
    dict(kernel="tell", file=RD, kind="mutation",
         edits=[("return ((self._buffer.tell() - self._chunks[b'data'].position.data) //",
                 "return int((self._buffer.tell() - self._chunks[b'data'].position.data) /")],
         expect="breaks", why="`//` -> int(a / b): int() of a rational is refused (differs from floor for negatives)"),
    dict(kernel="pcm_encode_scaled", file=UT, kind="mutation",
         edits=[("    scaledSamples = samples * (2**(bitdepth - 1) - 1)", "    samples.sort()\n    scaledSamples = samples * (2**(bitdepth - 1) - 1)")],
         expect="breaks", why="a call statement on a name the slice depends on (possible in-place change) -> refused"),
    dict(kernel="relative_angle", file="ear/core/geom.py", kind="mutation",
         edits=[("    while y - 360.0 >= x:\n        y -= 360.0", "    while y - 360.0 >= x:\n        y -= 360.0\n        if y < -1e6:\n            break")],
         expect="breaks", why="a `while` body with anything but assignments to names (here if/break) -> refused"),
    dict(kernel="read_chunks_step", file=RD, kind="mutation",
         edits=[("            if chunk_end > self._file_len:", "            if chunk_end ^ 1 > self._file_len:")],
         expect="breaks", why="`^` (xor) is not in the whitelist -> refused"),
    dict(kernel="is_lfe", file=RC, kind="mutation",
         edits=[("            frequency.highPass is None):\n        return True", "            frequency.highPass is None):\n        return 1.0")],
         expect="breaks", why="translates, but the Lean def is ill-typed (number where a Bool is returned): stubbed by the type-check pass"),
    # ---- round 3: one edit per new construct that leaves the whitelist
    dict(kernel="id_apr", file=GI, kind="mutation", edits=[('"APR_{id:04X}".format(id=id)', '"APR_{id:04x}".format(id=id)')],
         expect="breaks", why="format spec `04x` (lower-case hex): only 0<w>d and 0<w>X go through the Digits model -> refused"),
    dict(kernel="unparse_whole_part", file=TFM, kind="mutation", edits=[("{hours:02d}", "{hours!r}")],
         expect="breaks", why="`!r` conversion in an f-string field -> refused"),
    dict(kernel="could_possibly_allocate", file=PA, kind="mutation", edits=[("                n_found += 1", "                n_found -= 1")],
         expect="breaks", why="the counter is declared natural: `-` gives an Int, which cannot be assigned back -> refused"),
    dict(kernel="is_compatible", file=PA, kind="mutation",
         edits=[("(track.channel_format is alloc_channel.channel_format and", "(track.channel_format == alloc_channel.channel_format and")],
         also=["could_possibly_allocate"],
         expect="breaks", why="`==` on identity tokens (attrs classes compare by value): only `is` is whitelisted there -> refused "
                              "(could_possibly_allocate calls the stubbed def, so its theorem cannot be stated either)"),
    dict(kernel="validate_track_or_channel", file=VA, kind="mutation",
         edits=[("        if atu.audioTrackFormat is not None and atu.audioChannelFormat is not None:\n            raise AdmError(",
                 "        if atu.audioTrackFormat is not None and atu.audioChannelFormat is not None:\n            return\n            raise AdmError(")],
         expect="breaks", why="`return` inside a `for` loop (would end the whole validation) -> refused"),
    dict(kernel="validate_non_matrix_pack", file=VA, kind="preserving",
         edits=[("non-matrix audioPackFormat {apf.id} has inputPackFormat reference", "non-matrix audioPackFormat {apf.id} has an input pack reference")],
         expect="breaks", why="the error kind of a `raise` is chosen by its message text: no entry of `raises` matches the new text -> refused"),
    dict(kernel="ids_start_apr", file=GI, kind="mutation",
         edits=[("enumerate(adm.audioProgrammes, 0x1001)", "enumerate(adm.audioProgrammes, len(adm.audioContents))")],
         expect="breaks", why="a start value that is not a constant -> refused (unmapped attribute)"),
    dict(kernel="get_nfcRefDist", file=HO, kind="mutation",
         edits=[("return None if nfcRefDist == 0.0 else nfcRefDist", "return 0.0 if nfcRefDist is None else nfcRefDist")],
         expect="breaks", why="branches of different kinds (number / Option) -> refused"),
    dict(kernel="in_by_id", file=SU, kind="mutation",
         edits=[("return any(element is item for item in collection)", "return any(element is item for item in collection if item is not None)")],
         also=INBY, expect="breaks", why="filtered comprehension under any() -> refused (its callers' theorems go with it)"),
    # ---- round 4: the other one-token edits of the two repaired sites
    dict(kernel="read_chunk_header_size", file=RD, kind="mutation",
         edits=[("        elif chunkId == b'data' and chunkSize == 0xFFFFFFFF:", "        elif chunkId == b'data' or chunkSize == 0xFFFFFFFF:")],
         expect="breaks", why="`and` -> `or` in the placeholder test of fix 61d37f4"),
    dict(kernel="read_chunk_header_size", file=RD, kind="mutation",
         edits=[("        if self.fileFormat in [b'RF64', b'BW64']:\n            if chunkId == b'data':", "        if chunkId == b'data' and chunkSize == 0xFFFFFFFF:\n            raise ValueError(\"placeholder\")\n        elif self.fileFormat in [b'RF64', b'BW64']:\n            if chunkId == b'data':"),
                ("        elif chunkId == b'data' and chunkSize == 0xFFFFFFFF:\n", "        elif False:\n")],
         expect="breaks", why="the placeholder test moved before the RF64/BW64 test (every BW64 file would be rejected)"),
    dict(kernel="ds_pan_position", file=DSP, kind="mutation",
         edits=[("position = cart(shifted_position.azimuth, shifted_position.elevation, 1.0)", "position = cart(shifted_position.elevation, shifted_position.azimuth, 1.0)")],
         expect="breaks", why="azimuth and elevation swapped in the call of cart"),
    dict(kernel="block_alignment", file=CH, kind="mutation", also=["bytes_per_second"],
         edits=[("return int(self.channelCount * self.bitsPerSample / 8)", "return int(self.channelCount * self.bitsPerSample / 8.0 + 0.5)")],
         expect="breaks", why="int() of a rational that is not `natural / positive literal` -> refused"),
    # ---- second audit (M9): the exception CLASS of a raise, assert vs raise, messages that can raise themselves
    dict(kernel="validate_non_matrix_pack", file=VA, kind="mutation",
         edits=[("        raise AdmError(\"non-matrix audioPackFormat {apf.id} has outputPackFormat reference\"",
                 "        raise ValueError(\"non-matrix audioPackFormat {apf.id} has outputPackFormat reference\"")],
         expect="breaks", why="AdmError -> ValueError with the same text: no `raises` entry has that class -> refused"),
    dict(kernel="validate_non_matrix_pack", file=VA, kind="mutation",
         edits=[("        raise AdmError(\"non-matrix audioPackFormat {apf.id} has encodePackFormat references\".format(apf=apf))",
                 "        assert False, \"non-matrix audioPackFormat {apf.id} has encodePackFormat references\".format(apf=apf)")],
         expect="breaks", why="raise -> `assert False, <same text>` (AssertionError): an assert needs an entry of kind 'assert' -> refused"),
    dict(kernel="validate_non_matrix_pack", file=VA, kind="mutation",
         edits=[("        raise AdmError(\"non-matrix audioPackFormat {apf.id} has inputPackFormat reference\".format(apf=apf))",
                 "        raise AdmError(\"non-matrix audioPackFormat {apf.outputPackFormat.id} has inputPackFormat reference\".format(apf=apf))")],
         expect="breaks", why="the message reads `.id` through apf.outputPackFormat, which may be None (AttributeError instead of "
                              "AdmError) -> refused"),
    dict(kernel="matrix_type_of", file=MX, kind="mutation",
         edits=[("        assert False, \"matrix types have either input or output pack format refs\"",
                 "        raise ValueError(\"assert False: matrix types have either input or output pack format refs\")")],
         expect="breaks", why="assert -> raise ValueError with the entry's text in the message: the entry is of kind 'assert' -> refused"),
    dict(kernel="parse_time_frac", file=TFM, kind="mutation", also=PTF,
         edits=[("            raise ValueError(\n                f\"in time {time_string!r}: numerator must be less than denominator\"",
                 "            raise KeyError(\n                f\"in time {time_string!r}: numerator must be less than denominator\"")],
         expect="breaks", why="ret_mode option: ValueError -> KeyError (still `none` in the old translation) -> refused"),
    dict(kernel="clamp_end", file=TF, kind="mutation",
         edits=[("        fmt_args = dict(bf_id=blockFormat.id, obj_id=audioObject.id, shift=shift)",
                 "        fmt_args = dict(bf_id=blockFormat.id, obj_id=audioObject.parent.id, shift=shift)")],
         expect="breaks", why="a message dict that reads through an unmapped attribute (may be None) -> refused"),
    # ---- (M10) the two sizes of __len__ are separate parameters
    dict(kernel="len", file=RD, kind="mutation",
         edits=[("        if (self._ds64):\n            return self._ds64.dataSize //", "        if (not self._ds64):\n            return self._ds64.dataSize //")],
         expect="breaks", why="inverted `if self._ds64` test: the branches read different sizes now"),
    # ---- (M11) what a statement slice / the body does not show
    dict(kernel="init_delay_samples", file=TP, kind="mutation",
         edits=[("            self.delay = Delay(1, delay_samples)", "            for _i in range(1):\n                delay_samples += 1\n            self.delay = Delay(1, delay_samples)")],
         expect="breaks", why="a loop after the slice that bumps the selected name -> refused"),
    dict(kernel="pcm_encode_scaled", file=UT, kind="mutation",
         edits=[("    scaledSamples = samples * (2**(bitdepth - 1) - 1)\n", "    scaledSamples = samples * (2**(bitdepth - 1) - 1)\n    if bitdepth > 0:\n        with np.errstate(all='ignore'):\n            scaledSamples = scaledSamples / 2\n")],
         expect="breaks", why="a later store to the selected name inside if/with -> refused"),
    dict(kernel="validate_non_matrix_pack", file=VA, kind="mutation",
         edits=[("def _validate_non_matrix_pack(apf):", "@_skip_validation\ndef _validate_non_matrix_pack(apf):")],
         expect="breaks", why="a decorator that the spec does not list (it could replace the function) -> refused"),
    dict(kernel="block_alignment", file=CH, kind="mutation", also=["bytes_per_second"],
         edits=[("    @property\n    def blockAlignment(self):", "    @property\n    @functools.lru_cache()\n    def blockAlignment(self):")],
         expect="breaks", why="a second decorator next to the pinned `property` -> refused"),
    dict(kernel="seek", file=RD, kind="mutation",
         edits=[("    def seek(self, offset, whence=0):", "    def seek(self, offset, whence=1):")],
         expect="breaks", why="parameter default changed (pinned in the spec: `whence=0`) -> refused"),
    dict(kernel="inside_angle_range", file=GEOM, kind="mutation", also=IAR,
         edits=[("def inside_angle_range(x, start, end, tol=0.0):", "def inside_angle_range(x, start, end, tol=1e-6):")],
         expect="breaks", why="parameter default changed (pinned: `tol=0.0`) -> refused for the three kernels of this function"),
]


def sh(cmd, **kw):
    return subprocess.run(cmd, capture_output=True, text=True, **kw)


def apply_edits(root, file, edits):
    path = os.path.join(root, file)
    s = open(path).read()
    for old, new in edits:
        n = s.count(old)
        if n == 0:
            raise RuntimeError("edit does not apply to %s: %r" % (file, old[:60]))
        s = s.replace(old, new)
    open(path, "w").write(s)


def run_check(root, group):
    env = dict(os.environ, EAR_REPO=root)
    p = sh([PY, "-m", "harness.kernels", "check", group], cwd=VERIF, env=env)
    try:
        return json.loads(p.stdout[p.stdout.index("{"):])
    except Exception:
        return {"error": (p.stdout + p.stderr)[-2000:]}


def sanity_python(root, file):
    """the edited file must still be valid Python"""
    p = sh([PY, "-c", "import ast,sys; ast.parse(open(sys.argv[1]).read())", os.path.join(root, file)])
    return p.returncode == 0


GROUP = {}  # kernel lean name -> group (filled in main)


def trial(tag, kernel, file, edits_list):
    """edits_list: [(label, edits)], run one after the other in one worktree (file restored in between)"""

    wt = "/tmp/wt_kern_%s" % tag
    sh(["git", "-C", "/repo", "worktree", "remove", "--force", wt])
    p = sh(["git", "-C", "/repo", "worktree", "add", "--detach", wt, "HEAD"])
    if p.returncode != 0:
        return [(label, {"error": p.stderr}) for label, _ in edits_list]
    res = []
    try:
        for label, edits in edits_list:
            sh(["git", "-C", wt, "checkout", "--", "."])
            apply_edits(wt, file, edits)
            if not sanity_python(wt, file):
                res.append((label, {"error": "edited file is not valid Python"}))
                continue
            res.append((label, run_check(wt, GROUP[kernel])))
    finally:
        sh(["git", "-C", "/repo", "worktree", "remove", "--force", wt])
        sh(["git", "-C", "/repo", "worktree", "prune"])
    return res


def main():
    from harness import kernels, translate

    args = sys.argv[1:]
    jobs = 4
    if "-j" in args:
        i = args.index("-j")
        jobs = int(args[i + 1])
        del args[i:i + 2]
    only = set(args)
    thm = {k.lean_name: sorted(k.theorems) for k in kernels.KERNELS}
    GROUP.update({k.lean_name: k.group for k in kernels.KERNELS})
    props = [g["props"] for g in kernels.GROUPS.values()]
    bad = 0

    # (a) unchanged tree
    print("== (a) unchanged tree (%s)" % kernels.common.REPO)
    t0 = time.time()
    kernels.extract()
    p = sh(["./lk"] + props, cwd=VERIF)
    dt = time.time() - t0
    st = kernels.status()
    ok = p.returncode == 0 and st is not None and not any(st.values()) and not kernels.refusals()
    print("   extract + ./lk %s: %s in %.1fs; %d kernels (%s), %d theorems, refused: %s"
          % (" ".join(props), "OK" if ok else "FAILED", dt, len(kernels.KERNELS),
             ", ".join("%s %d" % (g, sum(1 for k in kernels.KERNELS if k.group == g)) for g in kernels.GROUPS),
             len({t for v in thm.values() for t in v}), kernels.refusals() or "none"))
    if not ok:
        print((p.stdout + p.stderr)[-1500:])
        bad += 1
    # forced rebuild time of the generated + proof module of each group
    for gname, g in kernels.GROUPS.items():
        gen = os.path.join(kernels.common.LEAN, g["gen"])
        txt = open(gen).read()
        open(gen, "w").write(txt + "\n-- touch\n")
        t0 = time.time()
        sh(["./lk", g["props"]], cwd=VERIF)
        print("   forced rebuild of Gen.%s + Props.%s: %.1fs" % (gname, gname, time.time() - t0))
        open(gen, "w").write(txt)
        sh(["./lk", g["props"]], cwd=VERIF)

    # (d) refusals
    print("== (d) refused by the translator on the unchanged tree (not registered)")
    for pid, spec, why in kernels.NOT_REGISTERED:
        try:
            translate.translate(spec, kernels.common.REPO)
            print("   %s %s: TRANSLATED (unexpected)" % (pid, spec.qualname))
            bad += 1
        except translate.Refuse as e:
            print("   %s %s: refused: %s" % (pid, spec.qualname, e))

    # (b), (c)
    names = [n for n in CASES if not only or n in only]
    missing = [k.lean_name for k in kernels.KERNELS if k.lean_name not in CASES]
    if missing:
        print("NO SELF-TEST CASE for kernels: %s" % missing)
        bad += 1
    work = []
    for i, n in enumerate(names):
        c = CASES[n]
        work.append((n, c["file"], [("mutation", c["mutation"]), ("preserving", c["preserving"])], "%d" % i))
    for j, x in enumerate(EXTRA):
        if only and x["kernel"] not in only:
            continue
        work.append((x["kernel"], x["file"], [("extra-" + x["kind"], x["edits"])], "x%d" % j))
    with ThreadPoolExecutor(jobs) as ex:
        futs = [(w, ex.submit(trial, w[3], w[0], w[1], w[2])) for w in work]
        results = [(w, f.result()) for w, f in futs]

    print("== (b) semantic mutation per kernel: must fail at exactly that kernel's theorems")
    for (n, file, _, tag), res in results:
        for label, r in res:
            if label != "mutation":
                continue
            if "error" in r:
                print("   %-22s ERROR %s" % (n, r["error"][-300:]))
                bad += 1
                continue
            allowed = set(t for m in CASES[n].get("also", [n]) for t in thm[m]) | set(thm[n])
            good = (not r["props_build"]) and bool(set(r["failing"]) & set(thm[n])) and set(r["failing"]) <= allowed
            if not good:
                bad += 1
            print("   %-22s %s  build=%s failing=%s%s  (extract %.1fs build %.1fs)" % (
                n, "CAUGHT" if good else "NOT-AS-EXPECTED", "ok" if r["props_build"] else "FAILS", r["failing"],
                (" stub: " + str(r["refused"].get(n) or "ill-typed")) if n in r["stubs"] else "", r["extract_s"], r["build_s"]))
            print("   %22s   edit: %s" % ("", "; ".join("%r -> %r" % (a[-50:], b[-50:]) for a, b in CASES[n]["mutation"])))
    print("== (c) behaviour-preserving edit per kernel")
    for (n, file, _, tag), res in results:
        for label, r in res:
            if label != "preserving":
                continue
            if "error" in r:
                print("   %-22s ERROR %s" % (n, r["error"][-300:]))
                bad += 1
                continue
            outcome = "holds" if r["props_build"] and not r["failing"] else "breaks"
            exp = CASES[n]["expect"]
            if outcome != exp:
                bad += 1
            print("   %-22s equality %s (expected %s)%s — %s" % (
                n, outcome.upper(), exp, "" if outcome == "holds" else " failing=%s %s" % (r["failing"], r["refused"].get(n, "")),
                CASES[n]["why"]))
    print("== extra cases")
    for (n, file, _, tag), res in results:
        for label, r in res:
            if not label.startswith("extra-"):
                continue
            x = EXTRA[int(tag[1:])]
            if "error" in r:
                print("   %-22s ERROR %s" % (n, r["error"][-300:]))
                bad += 1
                continue
            outcome = "holds" if r["props_build"] and not r["failing"] else "breaks"
            only_own = set(r["failing"]) <= set(thm[n]) | set(t for m in x.get("also", []) for t in thm[m])
            if outcome != x["expect"] or not only_own:
                bad += 1
            print("   %-22s [%s] equality %s (expected %s) failing=%s%s\n   %22s   %s" % (
                n, x["kind"], outcome.upper(), x["expect"], r["failing"],
                (" reason: " + (r["refused"].get(n) or "ill-typed Lean, stubbed by the type-check pass")) if n in r["stubs"] else "",
                "", x["why"]))
    left = sh(["git", "-C", "/repo", "worktree", "list"]).stdout
    kern = [l for l in left.split("\n") if "wt_kern_" in l]
    print("== worktrees left: %s" % (kern or "none"))
    print("SELFTEST %s" % ("OK" if not bad else "FAILED (%d)" % bad))
    return 1 if bad else 0


if __name__ == "__main__":
    sys.exit(main())
