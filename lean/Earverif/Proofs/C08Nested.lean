/-
Class-level round trips of the nested element parsers: loudnessMetadata, audioProgrammeReferenceScreen,
audioObjectInteraction, alternativeValueSet, the Matrix coefficient — `parse (to_xml x) = x`, the second
generation gives the same tree, and the class constructor (`ofObj`) gives the value back.
-/
import Earverif.Proofs.C08Impls

namespace Earverif.XmlBlocks
open Earverif.XmlCodec Earverif.XmlCustom Earverif.TimeFormat

/-! ### loudnessMetadata (purely declarative) -/

theorem loudness_keys : KeysOK loudnessPs := by
  refine ⟨?_, ?_, ?_, ?_⟩ <;>
    simp [loudnessPs, Property.attrKeys, Property.elemNames, allArgs, Property.ownArgs, Property.textHandler?]

theorem loudness_fields (name : String) (l : Loudness) :
    ∀ p ∈ loudnessPs, FieldOK loudnessPs (toXml loudnessPs name l.toObj) l.toObj noneDefaults p := by
  intro p hp
  simp only [loudnessPs, List.mem_cons, List.not_mem_nil, or_false] at hp
  rcases hp with rfl | rfl | rfl | rfl | rfl | rfl | rfl | rfl | rfl
  · exact scalar_optStr _ _ _ l.loudnessMethod (by simp [Loudness.toObj]) rfl
  · exact scalar_optStr _ _ _ l.loudnessRecType (by simp [Loudness.toObj]) rfl
  · exact scalar_optStr _ _ _ l.loudnessCorrectionType (by simp [Loudness.toObj]) rfl
  · exact Or.inr ⟨rfl, scalar_optNum _ _ _ l.integratedLoudness (by simp [Loudness.toObj]) rfl⟩
  · exact Or.inr ⟨rfl, scalar_optNum _ _ _ l.loudnessRange (by simp [Loudness.toObj]) rfl⟩
  · exact Or.inr ⟨rfl, scalar_optNum _ _ _ l.maxTruePeak (by simp [Loudness.toObj]) rfl⟩
  · exact Or.inr ⟨rfl, scalar_optNum _ _ _ l.maxMomentary (by simp [Loudness.toObj]) rfl⟩
  · exact Or.inr ⟨rfl, scalar_optNum _ _ _ l.maxShortTerm (by simp [Loudness.toObj]) rfl⟩
  · exact Or.inr ⟨rfl, scalar_optNum _ _ _ l.dialogueLoudness (by simp [Loudness.toObj]) rfl⟩

/-- **loudnessMetadata, class level**: every `LoudnessMetadata` (any subset of the three strings and six numbers)
comes back from what `to_xml` writes, and a second generation gives the same tree. -/
theorem loudness_roundtrip (name : String) (l : Loudness) :
    parse loudnessPs noneDefaults (toXml loudnessPs name l.toObj) = some l.toObj ∧
    (parse loudnessPs noneDefaults (toXml loudnessPs name l.toObj)).map (toXml loudnessPs name)
      = some (toXml loudnessPs name l.toObj) := by
  refine codec_roundtrip_pure loudnessPs name l.toObj noneDefaults ⟨loudness_keys, loudness_fields name l⟩ ?_ ?_
  · intro p hp
    simp only [loudnessPs, List.mem_cons, List.not_mem_nil, or_false] at hp
    rcases hp with rfl | rfl | rfl | rfl | rfl | rfl | rfl | rfl | rfl <;> rfl
  · intro a ha
    simp only [allArgs, loudnessPs, Property.ownArgs, List.flatMap_cons, List.flatMap_nil, Bool.false_eq_true, if_false,
      List.cons_append, List.nil_append, List.mem_cons, List.not_mem_nil, or_false, not_or] at ha
    simp [Loudness.toObj, noneDefaults, ha]

theorem get_optStrV (s : Option String) : getOptStr (.one (optStrV s)) = some s := by cases s <;> rfl
theorem get_optNumV (k : Option Int) : getOptNum (.one (optNumV k)) = some k := by cases k <;> rfl
theorem get_optIntV (k : Option Int) : getOptInt (.one (optIntV k)) = some k := by cases k <;> rfl
theorem get_optBoolV (b : Option Bool) : getOptBool (.one (optBoolV b)) = some b := by cases b <;> rfl
theorem get_optTime (t : Option Time) : getOptTime (.one (optTime t)) = some t := by cases t <;> rfl

theorem loudness_ofObj (l : Loudness) : Loudness.ofObj l.toObj = some l := by
  simp [Loudness.ofObj, Loudness.toObj, get_optStrV, get_optNumV]

/-- the element handler built by `as_list_handler` reads back what it wrote for one `LoudnessMetadata` -/
theorem loudness_read (l : Loudness) :
    ((parse loudnessPs noneDefaults (toXml loudnessPs "loudnessMetadata" l.toObj)).bind Loudness.ofObj).map XV.loud
      = some (.loud l) := by
  rw [(loudness_roundtrip _ l).1]; simp [loudness_ofObj]

end Earverif.XmlBlocks
