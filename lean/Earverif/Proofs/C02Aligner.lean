/-
`BlockAligner.add/get` as used by `Renderer.render`: three streams with constant offsets (−D, 0, 0) and equal block
lengths per round ⇒ no assertion fails and the concatenated `get`s are the prefix of the shifted sum.
Cells of the buffer are read with `getD · 0`, which makes the zero-filled tail (`resize`, the shift in `get`) transparent.
-/
import Earverif.Proofs.C02Compose
import Earverif.Proofs.C02Vbs
namespace Earverif.Stream

variable {V : Type} [RMod V]

theorem getD_append_zeros (l : List V) (k i : Nat) : (l ++ List.replicate k 0).getD i 0 = l.getD i 0 := by
  simp only [List.getD_eq_getElem?_getD, List.getElem?_append]
  split
  · rfl
  · rename_i h
    rw [List.getElem?_eq_none (by omega : l.length ≤ i)]
    simp only [List.getElem?_replicate]
    split <;> rfl

theorem addSlice_length (l : List V) (a : Nat) (vals : List V) (h : a + vals.length ≤ l.length) :
    (addSlice l a vals).length = l.length := by
  unfold addSlice
  rw [setSlice_length]
  simp only [List.length_zipWith, slice_length l a (a + vals.length) h]
  omega

theorem getD_addSlice (l : List V) (a : Nat) (vals : List V) (h : a + vals.length ≤ l.length) (i : Nat) :
    (addSlice l a vals).getD i 0 =
      if a ≤ i ∧ i < a + vals.length then l.getD i 0 + vals.getD (i - a) 0 else l.getD i 0 := by
  have hz : (List.zipWith (· + ·) (slice l a (a + vals.length)) vals).length = vals.length := by
    simp only [List.length_zipWith, slice_length l a (a + vals.length) h]; omega
  unfold addSlice
  simp only [List.getD_eq_getElem?_getD]
  rw [getElem?_setSlice _ _ _ (by rw [hz]; exact h), hz]
  by_cases h1 : i < a
  · rw [if_pos h1, if_neg (by omega)]
  · rw [if_neg h1]
    by_cases h2 : i < a + vals.length
    · rw [if_pos h2, if_pos ⟨by omega, h2⟩]
      rw [List.getElem?_zipWith, getElem?_slice]
      have e1 : a + (i - a) = i := by omega
      rw [if_pos (by omega), e1]
      have hi : i < l.length := by omega
      have hv : i - a < vals.length := by omega
      rw [List.getElem?_eq_getElem hi, List.getElem?_eq_getElem hv]
      rfl
    · rw [if_neg h2, if_neg (fun hh => h2 hh.2)]

/-- `first_end` after an `add` ending at `e`. -/
def feUpd (fe : Option Int) (e : Int) : Option Int :=
  match fe with
  | none => some e
  | some f => if f > e then some e else some f

/-- `add` of a block that starts at or after `buf_start` (nothing stripped). -/
theorem add_cells (a : Aligner V) (start : Int) (samples : List V) (hs : a.buf_start ≤ start) :
    ∃ a', a.add start samples = .ok a' ∧ a'.buf_start = a.buf_start ∧
      a'.first_end = feUpd a.first_end (start + samples.length) ∧
      (∀ i, a'.buf.getD i 0 =
        if (start - a.buf_start).toNat ≤ i ∧ i < (start - a.buf_start).toNat + samples.length then
          a.buf.getD i 0 + samples.getD (i - (start - a.buf_start).toNat) 0
        else a.buf.getD i 0) ∧
      (start - a.buf_start).toNat + samples.length ≤ a'.buf.length ∧ a.buf.length ≤ a'.buf.length := by
  have hstrip : a.strip start samples = .ok (start, samples) := by
    unfold Aligner.strip; rw [if_neg (by omega)]
  unfold Aligner.add
  rw [hstrip]
  simp only
  rw [if_neg (by omega)]
  generalize hsb : (start - a.buf_start).toNat = sb
  have hsb' : start - a.buf_start = (sb : Int) := by omega
  have heb : start + ↑samples.length - a.buf_start = ((sb + samples.length : Nat) : Int) := by
    push_cast; omega
  rw [heb]
  -- the resized buffer
  generalize hbuf : (if ((sb + samples.length : Nat) : Int) > ↑a.buf.length then
      a.buf ++ List.replicate (((sb + samples.length : Nat) : Int).toNat - a.buf.length) 0 else a.buf) = buf
  have hlen : sb + samples.length ≤ buf.length ∧ a.buf.length ≤ buf.length := by
    rw [← hbuf]; split
    · simp only [List.length_append, List.length_replicate, Int.toNat_natCast]; omega
    · omega
  have hget : ∀ i, buf.getD i 0 = a.buf.getD i 0 := by
    intro i; rw [← hbuf]; split
    · exact getD_append_zeros _ _ _
    · rfl
  refine ⟨_, rfl, rfl, rfl, ?_, ?_, ?_⟩
  · intro i
    simp only
    by_cases hn : samples.length ≠ 0
    · rw [if_pos hn, getD_addSlice _ _ _ hlen.1, hget]
    · rw [if_neg hn, hget, if_neg (by omega)]
  · simp only
    split
    · rw [addSlice_length _ _ _ hlen.1]; exact hlen.1
    · exact hlen.1
  · simp only
    split
    · rw [addSlice_length _ _ _ hlen.1]; exact hlen.2
    · exact hlen.2

end Earverif.Stream
