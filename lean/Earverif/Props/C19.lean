/-
C19 — Polar/Cartesian position conversion is invertible.

Theorems about the model `Earverif.Conv` (Model/Conversion.lean) instantiated
with the regenerated table `Earverif.Gen.C19`.
-/
import Earverif.Model.Conversion
import Earverif.Gen.C19_Tables
import Earverif.Proofs.C19Real

namespace Earverif.Conv

open Earverif.Gen.C19 (mapping elTop elTopTilde)

/-! ## Table obligations (re-checked against the regenerated table on every run) -/

/-- Clockwise step (decreasing azimuth) from azimuth `a` to azimuth `b`, both
in `[-180, 180]`: a value in `(0, 360]`. -/
def cwStep (a b : Rat) : Rat := if a - b ≤ 0 then a - b + 360 else a - b

/-- Consecutive pairs of a cyclic list: `(l[i], l[(i+1) % n])`. -/
def cyc {β : Type} (l : List β) : List (β × β) := l.zip (l.rotateLeft 1)

/-- A cyclic list of azimuths is a clockwise ring of sectors that covers the
full circle exactly once: every azimuth in `[-180, 180]`, every step clockwise
with width strictly between 0 and 180 degrees (half-width < 90, so the `tan`
warp is defined on it), widths summing to 360. Consecutive sectors share their
boundary by construction (`cyc`). -/
def ringOK (azs : List Rat) : Bool :=
  azs.all (fun a => -180 ≤ a && a ≤ 180) &&
  (cyc azs).all (fun p => 0 < cwStep p.1 p.2 && cwStep p.1 p.2 < 180) &&
  ((cyc azs).map (fun p => cwStep p.1 p.2)).sum == 360

/-- Azimuth (ADM convention, `-atan2(x, y)` in degrees) of the eight points of
the unit square with coordinates in `{-1, 0, 1}`; justified over `ℝ` by
`cartAz_octant` below. -/
def octAz (x y : Rat) : Option Rat :=
  if x = 0 ∧ y = 1 then some 0 else if x = 1 ∧ y = 1 then some (-45)
  else if x = 1 ∧ y = 0 then some (-90) else if x = 1 ∧ y = -1 then some (-135)
  else if x = 0 ∧ y = -1 then some 180 else if x = -1 ∧ y = -1 then some 135
  else if x = -1 ∧ y = 0 then some 90 else if x = -1 ∧ y = 1 then some 45
  else none

/-- Azimuths of the Cartesian ends of the rows (`none` if a row is not one of
the eight square points, or is off the horizontal plane). -/
def cartRing (rows : List (Rat × Rat × Rat × Rat)) : Option (List Rat) :=
  rows.mapM fun (_, x, y, z) => if z = 0 then octAz x y else none

/-- The reference loudspeaker directions and the cube corners / front edge
midpoint they stand for (property text; BS.2127-0 section 10): `(az, x, y)`. -/
def referenceRows : List (Rat × Rat × Rat × Rat) :=
  [(0, 0, 1, 0), (-30, 1, 1, 0), (30, -1, 1, 0), (-110, 1, -1, 0), (110, -1, -1, 0)]

/-- **sector_boundaries_match** (table obligation).  For the regenerated table:
the polar ends of the rows form a clockwise ring covering the full circle once
with sector half-widths `< 90°`; the Cartesian ends of the same rows are square
points in the horizontal plane whose azimuths form such a ring too (so sector
`i` of `_find_sector` and sector `i` of `_find_cart_sector` are spanned by the
same two rows, consecutive sectors share a row, and both lookups cover every
direction); the elevation split constants satisfy `0 < el_top < 90`,
`0 < el_top_tilde < 90`. -/
theorem sector_boundaries_match :
    ringOK (mapping.map (·.1)) = true ∧
    (∃ ring, cartRing mapping = some ring ∧ ringOK ring = true) ∧
    (0 < elTop ∧ elTop < 90 ∧ 0 < elTopTilde ∧ elTopTilde < 90) := by
  refine ⟨by decide +kernel, ⟨_, rfl, by decide +kernel⟩, by decide +kernel⟩

/-- **corners_exact, table part**: the table is exactly the set of reference
directions with their cube corners / edge midpoint, and the elevation split maps
elevation 30 to `el_tilde = 45` (`tan 45° = 1`, i.e. `z = d`). -/
theorem table_is_reference :
    (mapping.all (referenceRows.contains ·) && referenceRows.all (mapping.contains ·)) = true ∧
    mapping.length = referenceRows.length ∧ elTop = 30 ∧ elTopTilde = 45 := by
  decide +kernel

/-! ## Block level: decision logic of `to_polar` / `to_cartesian` (any scalar type) -/

section block
variable {α : Type} [Scalar α] {L R : Type}

/-- The coordinates a block uses. -/
def Block.isPolar (b : Block α L R) : Bool :=
  match b.position with
  | .polar .. => true
  | .cartesian .. => false

/-- `screenEdgeLock` of the position. -/
def Block.lock (b : Block α L R) : L :=
  match b.position with
  | .polar _ _ _ l => l
  | .cartesian _ _ _ l => l

/-- `to_polar` on a block with a polar position only sets the flag (it is the
identity if the flag was consistent); it never fails. -/
theorem toPolar_of_polar (P : Params α) (b : Block α L R) (h : b.isPolar = true) :
    toPolar P b = some { b with cartesian := false } := by
  unfold toPolar fixCartesianFlag
  cases b with
  | mk position width height depth cartesian rest =>
    cases position <;> simp_all [Block.isPolar]

/-- `to_cartesian` on a block with a Cartesian position only sets the flag. -/
theorem toCartesian_of_cartesian (P : Params α) (b : Block α L R) (h : b.isPolar = false) :
    toCartesian P b = some { b with cartesian := true } := by
  unfold toCartesian fixCartesianFlag
  cases b with
  | mk position width height depth cartesian rest =>
    cases position <;> simp_all [Block.isPolar]

/-- The result of `to_polar` uses polar coordinates and has `cartesian = False`. -/
theorem toPolar_result (P : Params α) (b b' : Block α L R) (h : toPolar P b = some b') :
    b'.isPolar = true ∧ b'.cartesian = false := by
  unfold toPolar fixCartesianFlag at h
  cases b with
  | mk position width height depth cartesian rest =>
    cases position with
    | polar az el d lock => simp at h; subst h; simp [Block.isPolar]
    | cartesian x y z lock =>
      simp at h
      split at h
      · simp at h
      · simp at h; subst h; simp [Block.isPolar]

/-- The result of `to_cartesian` uses Cartesian coordinates and has `cartesian = True`. -/
theorem toCartesian_result (P : Params α) (b b' : Block α L R) (h : toCartesian P b = some b') :
    b'.isPolar = false ∧ b'.cartesian = true := by
  unfold toCartesian fixCartesianFlag at h
  cases b with
  | mk position width height depth cartesian rest =>
    cases position with
    | cartesian x y z lock => simp at h; subst h; simp [Block.isPolar]
    | polar az el d lock =>
      simp at h
      split at h
      · simp at h
      · simp at h; subst h; simp [Block.isPolar]

/-- **block_conversion_idempotent**: converting a converted block again is the
identity (both directions), and a block that already uses the target
coordinates with a consistent flag is returned unchanged. -/
theorem block_conversion_idempotent (P : Params α) (b b' : Block α L R) :
    (toPolar P b = some b' → toPolar P b' = some b') ∧
    (toCartesian P b = some b' → toCartesian P b' = some b') ∧
    (b.isPolar = true → b.cartesian = false → toPolar P b = some b) ∧
    (b.isPolar = false → b.cartesian = true → toCartesian P b = some b) := by
  refine ⟨fun h => ?_, fun h => ?_, fun hp hf => ?_, fun hp hf => ?_⟩
  · have ⟨hp, hf⟩ := toPolar_result P b b' h
    rw [toPolar_of_polar P b' hp]; cases b'; simp_all
  · have ⟨hp, hf⟩ := toCartesian_result P b b' h
    rw [toCartesian_of_cartesian P b' hp]; cases b'; simp_all
  · rw [toPolar_of_polar P b hp]; cases b; simp_all
  · rw [toCartesian_of_cartesian P b hp]; cases b; simp_all

/-- **block_conversion_touches_only**: whatever the conversion returns differs
from its argument at most in position coordinates, width/height/depth and the
cartesian flag: every other attribute (`rest`) and the position's
`screenEdgeLock` are unchanged. -/
theorem block_conversion_touches_only (P : Params α) (b b' : Block α L R) :
    (toPolar P b = some b' → b'.rest = b.rest ∧ b'.lock = b.lock) ∧
    (toCartesian P b = some b' → b'.rest = b.rest ∧ b'.lock = b.lock) := by
  constructor
  · intro h
    unfold toPolar fixCartesianFlag at h
    cases b with
    | mk position width height depth cartesian rest =>
      cases position with
      | polar az el d lock => simp at h; subst h; simp [Block.lock]
      | cartesian x y z lock =>
        simp at h
        split at h
        · simp at h
        · simp at h; subst h; simp [Block.lock]
  · intro h
    unfold toCartesian fixCartesianFlag at h
    cases b with
    | mk position width height depth cartesian rest =>
      cases position with
      | cartesian x y z lock => simp at h; subst h; simp [Block.lock]
      | polar az el d lock =>
        simp at h
        split at h
        · simp at h
        · simp at h; subst h; simp [Block.lock]

end block

/-! ## Over ℝ: the warps are mutually inverse

The analytic theorems are proved in `Proofs/C19Real.lean` (same namespace) for an arbitrary sector / arbitrary
elevation constants:
`az_warp_left_inv`, `az_warp_right_inv`, `el_warp_inv_low`, `el_warp_inv_high`, `el_warp_inv_cart`,
`mapAzToLinear_left/right`, `mapLinearToAz_zero/one` (warp ends), `polar_range_partial`,
`polar_cart_polar_in_sector_partial`, `cart_polar_cart_in_sector_partial`, and the azimuths of the eight
square points (`at2_*`).  Below they are instantiated with the regenerated table. -/

section real
open Real

/-- The model over ℝ with the regenerated table. -/
noncomputable def RP (fuel : Nat) : Params ℝ := Params.ofTable mapping elTop elTopTilde fuel

theorem RP_consts (n : Nat) :
    (RP n).elTop = 30 ∧ (RP n).elTopTilde = 45 ∧ (RP n).fuel = n ∧
    ∀ r ∈ (RP n).rows, -180 ≤ r.az ∧ r.az ≤ 180 := by
  refine ⟨by simp [RP, Params.ofTable, elTop, k, Scalar.ofRat],
          by simp [RP, Params.ofTable, elTopTilde, k, Scalar.ofRat], rfl, ?_⟩
  intro r hr
  simp [RP, Params.ofTable, mapping, k, Scalar.ofRat] at hr
  rcases hr with rfl | rfl | rfl | rfl | rfl <;> norm_num

/-- **polar_range** (partial) for the regenerated table: whatever `point_cart_to_polar` returns has azimuth
in `[-180, 180)` and `|elevation| ≤ 90`; the distance is `≥ 0` on the two on-axis branches and in the high
elevation regime, and in the low regime provided the gains of the point in the sector found sum to `≥ 0`.
Missing for the full `polar_range`: that the sector found by the `atan2` lookup always has non-negative gains
(sector geometry of `_find_cart_sector`; exercised by the correspondence and the search). -/
theorem polar_range_table_partial (n : Nat) (hn : 1 ≤ n) (x y z az el d : ℝ) (i : Option Nat)
    (h : pointCartToPolar (RP n) x y z = some ((az, el, d), i)) :
    (-180 ≤ az ∧ az < 180) ∧ |el| ≤ 90 ∧
    ((∀ s, findCartSector (RP n) (cartAz x y) = some s → 0 ≤ (gains s x y).1 + (gains s x y).2) → 0 ≤ d) := by
  obtain ⟨h1, h2, h3, h4⟩ := RP_consts n
  exact polar_range_partial (RP n) (by rw [h3]; exact hn) h4 (by rw [h1]; norm_num) (by rw [h1]; norm_num)
    (by rw [h2]; norm_num) (by rw [h2]; norm_num) x y z az el d i h

/-- Elevation warp round trip (both regimes) for the regenerated constants `el_top = 30`, `el_top_tilde = 45`. -/
theorem el_warp_inv_table (n : Nat) (el d : ℝ) (hd : 0 < d) (hel : |el| < 90) :
    elToPolar (RP n) (elToCart (RP n) el d).1 (elToCart (RP n) el d).2 = (el, d) := by
  obtain ⟨h1, h2, -, -⟩ := RP_consts n
  exact el_warp_inv (RP n) (by rw [h1]; norm_num) (by rw [h1]; norm_num)
    (by rw [h2]; norm_num) (by rw [h2]; norm_num) el d hd hel

/-- **corners_exact** (elevation part, regenerated constants): elevations 0 / ±30 map exactly to `z = 0 / ±d`
with `r_xy = d` (`tan 45° = 1`), and back. -/
theorem corners_exact_el (n : Nat) (d : ℝ) (hd : 0 < d) :
    elToCart (RP n) 0 d = (0, d) ∧ elToCart (RP n) 30 d = (d, d) ∧ elToCart (RP n) (-30) d = (-d, d) ∧
    elToPolar (RP n) 0 d = (0, d) ∧ elToPolar (RP n) d d = (30, d) ∧ elToPolar (RP n) (-d) d = (-30, d) := by
  obtain ⟨h1, h2, -, -⟩ := RP_consts n
  have e45 : (45 : ℝ) * (π / 180) = π / 4 := by ring
  have hdd : d / d = 1 := div_self hd.ne'
  have hndd : -d / d = -1 := by rw [neg_div, hdd]
  have a45 : π / 4 * (180 / π) = 45 := by field_simp; ring
  refine ⟨?_, ?_, ?_, ?_, ?_, ?_⟩
  · rw [elToCart_real, h1, h2]; norm_num
  · rw [elToCart_real, h1, h2]; norm_num [e45]
  · rw [elToCart_real, h1, h2]; norm_num [e45]
  · rw [elToPolar_real, h1, h2]; norm_num
  · rw [elToPolar_real, h1, h2, hdd, arctan_one, a45]; norm_num
  · rw [elToPolar_real, h1, h2, hndd, arctan_neg, arctan_one, neg_mul, a45]; norm_num


/-- **corners_exact** (azimuth part, any sector of half-width < 90°): the azimuth warp maps the sector's ends
exactly onto the ends of the linear coordinate (`p = 0` at the left row, `p = 1` at the right row — the point
`r_xy * (left_pos + (right_pos - left_pos) * p)` is then exactly `r_xy * left_pos` / `r_xy * right_pos`), and
back. Together with `table_is_reference` (rows = reference directions with their square points) and
`corners_exact_el` this is the exactness of the reference directions at the level of table + warp formulas. -/
theorem corners_exact_az (l r : ℝ) (hr0 : r - (l + r) / 2 ≠ 0) (hr : |r - (l + r) / 2| < 90) :
    mapAzToLinear l r l = 0 ∧ mapAzToLinear l r r = 1 ∧ mapLinearToAz l r 0 = l ∧ mapLinearToAz l r 1 = r :=
  ⟨mapAzToLinear_left l r hr0 hr, mapAzToLinear_right l r hr0 hr, mapLinearToAz_zero l r hr,
   mapLinearToAz_one l r hr⟩

/-- `octAz` is the azimuth the model computes (`cartAz`, i.e. `-degrees(atan2(x, y))`) for the eight square
points: ties the rational table check `sector_boundaries_match` to `_find_cart_sector`'s sector ends. -/
theorem cartAz_octant :
    cartAz (0:ℝ) 1 = 0 ∧ cartAz (1:ℝ) 1 = -45 ∧ cartAz (1:ℝ) 0 = -90 ∧ cartAz (1:ℝ) (-1) = -135 ∧
    cartAz (0:ℝ) (-1) = -180 ∧ cartAz (-1:ℝ) (-1) = 135 ∧ cartAz (-1:ℝ) 0 = 90 ∧ cartAz (-1:ℝ) 1 = 45 := by
  have hp : π ≠ 0 := pi_ne_zero
  refine ⟨?_, ?_, ?_, ?_, ?_, ?_, ?_, ?_⟩ <;> rw [cartAz_real]
  · rw [at2_zero_one]; simp
  · rw [at2_one_one]; field_simp; ring
  · rw [at2_one_zero]; field_simp; ring
  · rw [at2_one_neg_one]; field_simp; ring
  · rw [at2_zero_neg_one]; field_simp
  · rw [at2_neg_one_neg_one]; field_simp; ring
  · rw [at2_neg_one_zero]; field_simp; ring
  · rw [at2_neg_one_one]; field_simp; ring

/-! ### Evaluating the loops and the sector lookup on the table -/

theorem downGe_id (x y : ℝ) (n : Nat) (h : y < x + 360) : downGe x n y = y := by
  cases n with
  | zero => rfl
  | succ n => rw [downGe_succ, if_neg (by linarith)]

theorem upLt_id (x y : ℝ) (n : Nat) (h : x ≤ y) : upLt x n y = y := by
  cases n with
  | zero => rfl
  | succ n => rw [upLt_succ, if_neg (by linarith)]

theorem downGt_id (x y : ℝ) (n : Nat) (h : y ≤ x + 360) : downGt x n y = y := by
  cases n with
  | zero => rfl
  | succ n =>
    have : downGt x (n + 1) y = if x < y - 360 then downGt x n (y - 360) else y := by
      simp [downGt, k, Scalar.ofRat]
    rw [this, if_neg (by linarith)]

theorem relativeAngle_of_mem (n : Nat) (x y : ℝ) (h1 : x ≤ y) (h2 : y < x + 360) :
    relativeAngle n x y = y := by
  unfold relativeAngle
  rw [downGe_id x y n h2, upLt_id x y n h1]

/-- `inside_angle_range(x, start, end)` when no normalisation step is needed. -/
theorem insideAngleRange_plain (n : Nat) (x start stop : ℝ) (h1 : start ≤ stop) (h2 : stop ≤ start + 360)
    (h3 : start ≤ x) (h4 : x < start + 360) :
    insideAngleRange n x start stop (k 0) = decide (x ≤ stop) := by
  unfold insideAngleRange
  simp only [k, Scalar.ofRat, Rat.cast_zero, sub_zero, add_zero]
  rw [downGt_id start stop n h2, upLt_id start stop n h1, downGe_id start x n h4, upLt_id start x n h3]

/-- **corners_exact** on the full model for one reference direction (through `_find_sector`, `relative_angle`,
both warps, any fuel): U-030 (az = -30, el = 30) at distance `d` maps exactly to the cube corner `(d, d, d)`,
using sector 0.  The other reference directions follow the same pattern (not spelled out; they are covered at the
level of table + warp formulas by `table_is_reference`, `corners_exact_az`, `corners_exact_el`). -/
theorem corners_exact_point_m30_u30 (n : Nat) (d : ℝ) (hd : 0 < d) :
    pointPolarToCart (RP n) (-30) 30 d = some ((d, d, d), 0) := by
  rw [pointPolarToCart_eq]
  have hs : findSector (RP n) (-30) = some ⟨0, ⟨k 0, k 0, k 1, k 0⟩, ⟨k (-30), k 1, k 1, k 0⟩⟩ := by
    unfold findSector
    have : sectors (RP n) = ⟨0, ⟨k 0, k 0, k 1, k 0⟩, ⟨k (-30), k 1, k 1, k 0⟩⟩ :: (sectors (RP n)).tail := by
      rfl
    rw [this, List.find?_cons_of_pos]
    have : (RP n).fuel = n := rfl
    rw [this]
    simp only [k, Scalar.ofRat]
    rw [show (((-30 : ℚ)) : ℝ) = -30 by norm_num, show (((0 : ℚ)) : ℝ) = 0 by norm_num]
    have := insideAngleRange_plain n (-30) (-30) 0 (by norm_num) (by norm_num) (by norm_num) (by norm_num)
    simp only [k, Scalar.ofRat, Rat.cast_zero] at this
    rw [this]; simp
  rw [hs]
  simp only [Option.map_some, polarToCartIn]
  have hel := (corners_exact_el n d hd).2.1
  rw [hel]
  have hp : azToP (RP n) ⟨0, ⟨k 0, k 0, k 1, k 0⟩, ⟨k (-30), k 1, k 1, k 0⟩⟩ (-30) = 1 := by
    dsimp only [azToP]
    have : (RP n).fuel = n := rfl
    rw [this]
    simp only [k, Scalar.ofRat]
    rw [show (((-30 : ℚ)) : ℝ) = -30 by norm_num, show (((0 : ℚ)) : ℝ) = 0 by norm_num]
    rw [relativeAngle_of_mem n (-30) (-30) (by norm_num) (by norm_num),
        relativeAngle_of_mem n (-30) 0 (by norm_num) (by norm_num)]
    exact mapAzToLinear_right 0 (-30) (by norm_num) (by norm_num [abs_lt])
  rw [hp]
  simp [k, Scalar.ofRat]


/-! ### Non-vacuity: concrete inputs satisfying the hypotheses -/

/-- the sector `(rel_left_az, right_az) = (0, -30)` and azimuth `-10` satisfy the hypotheses of the azimuth
warp theorems -/
example : mapLinearToAz (0:ℝ) (-30) (mapAzToLinear 0 (-30) (-10)) = -10 :=
  az_warp_left_inv 0 (-30) (-10) (by norm_num) (by norm_num [abs_lt]) (by norm_num [abs_lt])

/-- the widest sector `(250, 110)` (half-width 70°) and `p = 1/4` -/
example : mapAzToLinear (250:ℝ) 110 (mapLinearToAz 250 110 (1/4)) = 1/4 :=
  az_warp_right_inv 250 110 (1/4) (by norm_num) (by norm_num [abs_lt]) (by norm_num) (by norm_num)

/-- elevation 60, distance 1/2 (high regime) and elevation -10 (low regime) with the regenerated constants -/
example : elToPolar (RP 8) (elToCart (RP 8) 60 (1/2)).1 (elToCart (RP 8) 60 (1/2)).2 = (60, 1/2) :=
  el_warp_inv_table 8 60 (1/2) (by norm_num) (by norm_num [abs_lt])

example : elToPolar (RP 8) (elToCart (RP 8) (-10) 1).1 (elToCart (RP 8) (-10) 1).2 = (-10, 1) :=
  el_warp_inv_table 8 (-10) 1 (by norm_num) (by norm_num [abs_lt])

/-- one `+= 360` step -/
theorem relativeAngle_up (n : Nat) (x y : ℝ) (h1 : x - 360 ≤ y) (h2 : y < x) :
    relativeAngle (n + 1) x y = y + 360 := by
  unfold relativeAngle
  rw [downGe_id x y (n + 1) (by linarith), upLt_succ, if_pos h2, upLt_id x (y + 360) n (by linarith)]

/-- sector 0 of the reference table: left row (0, (0,1)), right row (-30, (1,1)) -/
noncomputable def sector0 : Sector ℝ := ⟨0, ⟨0, 0, 1, 0⟩, ⟨-30, 1, 1, 0⟩⟩

/-- Non-vacuity of `polar_cart_polar_in_sector_partial`: az = -10, el = 20, d = 1 in sector 0 of the table. -/
example :
    cartToPolarIn (RP 8) sector0 (polarToCartIn (RP 8) sector0 (-10) 20 1).1
        (polarToCartIn (RP 8) sector0 (-10) 20 1).2.1 (polarToCartIn (RP 8) sector0 (-10) 20 1).2.2 =
      (relativeAngle (RP 8).fuel (k (-180)) (relativeAngle (RP 8).fuel sector0.right.az (-10)), 20, 1) := by
  obtain ⟨h1, h2, h3, -⟩ := RP_consts 8
  have hL : relativeAngle (RP 8).fuel sector0.right.az sector0.left.az = 0 := by
    rw [h3]; exact relativeAngle_of_mem 8 (-30) 0 (by norm_num) (by norm_num)
  have hA : relativeAngle (RP 8).fuel sector0.right.az (-10) = -10 := by
    rw [h3]; exact relativeAngle_of_mem 8 (-30) (-10) (by norm_num) (by norm_num)
  apply polar_cart_polar_in_sector_partial (RP 8) (by rw [h1]; norm_num) (by rw [h1]; norm_num)
    (by rw [h2]; norm_num) (by rw [h2]; norm_num) sector0 (by norm_num [Sector.det, sector0])
    (-10) 20 1 (by norm_num) (by norm_num [abs_lt])
  · rw [hL]; norm_num [sector0]
  · rw [hL]; norm_num [sector0, abs_lt]
  · rw [hA, hL]; norm_num [sector0, abs_lt]


end real

end Earverif.Conv
