/-
C01 model — `ear.core.objectbased.gain_calc.GainCalc.render` from the point where the sub-panners
have answered, and the small numeric sub-models its power invariant rests on.

Core Lean only; written once over a scalar type `α` (class `Scalar`): the driver runs it over
`Float` against numpy, `Props/C01.lean` proves the theorems over `ℝ`.  Vectors are `List α`,
matrices are lists of rows.

Transliteration notes (what is *not* a literal copy of the Python):
* numpy raises on shape mismatches (`gains_full[~mask] = gains` with the wrong number of values,
  `np.dot` of incompatible shapes).  The model is total: `zipWith`/`dot` truncate to the shorter
  operand and `scatter` pads with 0.  The theorems carry the shape hypotheses explicitly and the
  driver refuses (`bad-shape`) inputs on which numpy would raise.
* `np.dot` summation order is BLAS' business; the model sums right-to-left (structural recursion).
  The correspondence tolerance (1e-12 absolute) covers the reassociation.
* `np.nan_to_num` is the `Scalar.nanToNum` field: numpy's definition over `Float`
  (NaN -> 0, +-inf -> +-largest finite), the identity over `ℝ` (no NaN there; finiteness under
  float arithmetic is searched, not proved).
* `value == x` comparisons are `x ≤ y ∧ y ≤ x` (same truth table as IEEE `==`, incl. NaN and -0).
-/
namespace Earverif.GainCalc

/-- Scalars the numeric kernels run over. -/
class Scalar (α : Type) extends Add α, Sub α, Mul α, Div α, Neg α, LT α, LE α where
  ofRat : Rat → α
  sqrt : α → α
  cos : α → α
  sin : α → α
  pi : α
  /-- `np.power(x, y)` -/
  pow : α → α → α
  /-- `np.arctan2(y, x)` -/
  atan2 : α → α → α
  tan : α → α
  /-- `np.nan_to_num` on one element -/
  nanToNum : α → α
  decLt : (a b : α) → Decidable (a < b)
  decLe : (a b : α) → Decidable (a ≤ b)

instance {α : Type} [Scalar α] (a b : α) : Decidable (a < b) := Scalar.decLt a b
instance {α : Type} [Scalar α] (a b : α) : Decidable (a ≤ b) := Scalar.decLe a b

/-- binary64 with the C library's functions (`ofRat` is exact for binary64-representable
rationals and correctly rounded for the decimal constants used here). -/
instance : Scalar Float where
  ofRat q := Float.ofInt q.num / Float.ofNat q.den
  sqrt := Float.sqrt
  cos := Float.cos
  sin := Float.sin
  pi := 3.141592653589793
  pow := Float.pow
  atan2 := Float.atan2
  tan := Float.tan
  nanToNum x :=
    if x.isNaN then 0.0
    else if x.isInf then (if x > 0.0 then 1.7976931348623157e308 else -1.7976931348623157e308)
    else x
  decLt := fun a b => Float.decLt a b
  decLe := fun a b => Float.decLe a b

section
variable {α : Type} [Scalar α]
open Scalar (sqrt)

/-- numeric constant -/
@[inline] def k (q : Rat) : α := Scalar.ofRat q

/-- `0.0` -/
@[inline] def zero : α := k 0
/-- `1.0` -/
@[inline] def one : α := k 1

/-- IEEE `==` -/
@[inline] def eqS (x y : α) : Bool := decide (x ≤ y) && decide (y ≤ x)

/-- `np.sum` of a vector -/
def sum : List α → α
  | [] => zero
  | x :: xs => x + sum xs

/-- `x ** 2` elementwise -/
def sq (v : List α) : List α := v.map fun x => x * x

/-- `np.sum(v ** 2)` -/
def sumSq (v : List α) : α := sum (sq v)

/-- `np.dot(a, b)` of two vectors -/
def dot : List α → List α → α
  | a :: as, b :: bs => a * b + dot as bs
  | _, _ => zero

/-- `np.zeros(n)` -/
def zeros (n : Nat) : List α := List.replicate n zero

/-- `a + b` elementwise -/
def vadd (a b : List α) : List α := List.zipWith (· + ·) a b

/-- `np.dot(w, M)` for a vector `w` (length K) and a matrix `M` given as K rows of length `n`:
    `out[j] = Σ_k w[k] * M[k][j]`. -/
def vecMat (n : Nat) : List α → List (List α) → List α
  | w :: ws, r :: rs => vadd (r.map fun x => w * x) (vecMat n ws rs)
  | _, _ => zeros n

/-- `np.sqrt` elementwise -/
def vsqrt (v : List α) : List α := v.map sqrt

/-- `full = np.zeros(len(mask)); full[~mask] = v`: the entries of `v` go, in order, to the slots where
    `mask` is false; the masked slots hold the literal `0.0`.  (numpy raises unless `v` has exactly as many
    entries as there are unmasked slots; the model pads with 0 / drops the rest.) -/
def scatter : List Bool → List α → List α
  | [], _ => []
  | true :: m, v => zero :: scatter m v
  | false :: m, x :: v => x :: scatter m v
  | false :: m, [] => zero :: scatter m []

/-- number of unmasked slots -/
def countFalse : List Bool → Nat
  | [] => 0
  | true :: m => countFalse m
  | false :: m => countFalse m + 1

/-! ### `diverge`: the three-way gain formula -/

/-- `gain_calc.diverge`, gains only.  `none` = no `objectDivergence` element. -/
def divergeGains (value : Option α) : List α :=
  match value with
  | none => [one]
  | some v =>
    if eqS v zero then [one]
    else
      let gl := v / (v + one)
      let gc := (one - v) / (v + one)
      [gl, gc, gl]

/-! ### `direct_diffuse_split`, `get_object_gain` -/

/-- `gain_calc.direct_diffuse_split` -/
def directDiffuseSplit (gains : List α) (diffuse : α) : List α × List α :=
  (gains.map fun g => g * sqrt (one - diffuse), gains.map fun g => g * sqrt diffuse)

/-- `renderer_common.get_object_gain` -/
def getObjectGain (mute : Bool) (objectGain : α) : α := if mute then zero else objectGain

/-! ### `GainCalc.render` after the sub-panners -/

/-- What the zone handling contributed.  Polar path: the matrix returned by
    `ZoneExclusionDownmix.downmix_for_excluded` (`D[i][j]` = coefficient from channel i to channel j; the
    identity when nothing or everything is excluded).  Cartesian path: the mask returned by
    `allocentric.get_excluded`, with which `extent_pan` scatters the allocentric panner's answer. -/
inductive ZonePath (α : Type) where
  | polar (D : List (List α))
  | cartesian (excluded : List Bool)

/-- `ZoneExclusionHandler.handle` after `downmix_for_excluded`: `np.sqrt(np.dot(gains**2, downmix))` -/
def zoneHandle (n : Nat) (gains : List α) (D : List (List α)) : List α :=
  vsqrt (vecMat n (sq gains) D)

/-- The per-position gain rows as `np.apply_along_axis(extent_pan, 1, diverged_positions, ...)` sees them:
    polar path = what `PolarExtentHandler.handle` returned; Cartesian path = the closure `extent_pan`
    scattering what `allocentric_extent_pan` returned into the non-excluded slots. -/
def gainsForEachPos (path : ZonePath α) (g : List (List α)) : List (List α) :=
  match path with
  | .polar _ => g
  | .cartesian excluded => g.map (scatter excluded)

/-- `GainCalc.render` from `gains = np.sqrt(np.dot(diverged_gains, gains_for_each_pos**2))` to the end.
    `n` = number of non-LFE channels; `d` = diverged gains; `g` = one vector per diverged position;
    `blockGain` = `block_format.gain`; `objectGain`, `mute` = `extra_data.object_gain/_mute`;
    `isLfe` = `layout.is_lfe`; `diffuse` = `block_format.diffuse`.  Returns (direct, diffuse). -/
def render (n : Nat) (path : ZonePath α) (d : List α) (g : List (List α))
    (blockGain objectGain : α) (mute : Bool) (isLfe : List Bool) (diffuse : α) : List α × List α :=
  let rows := gainsForEachPos path g
  -- gains = np.sqrt(np.dot(diverged_gains, gains_for_each_pos**2))
  let gains := vsqrt (vecMat n d (rows.map sq))
  -- if not block_format.cartesian: gains = self.zone_exclusion_handler.handle(gains, zoneExclusion)
  let gains := match path with
    | .polar D => zoneHandle n gains D
    | .cartesian _ => gains
  -- gains = np.nan_to_num(gains)
  let gains := gains.map Scalar.nanToNum
  -- gains *= block_format.gain * get_object_gain(object_meta)
  let a := blockGain * getObjectGain mute objectGain
  let gains := gains.map fun x => x * a
  -- gains_full = np.zeros(len(self.is_lfe)); gains_full[~self.is_lfe] = gains
  let gainsFull := scatter isLfe gains
  directDiffuseSplit gainsFull diffuse

/-- The shapes on which numpy does not raise inside `render`. -/
def shapesOk (n : Nat) (path : ZonePath α) (d : List α) (g : List (List α)) (isLfe : List Bool) : Bool :=
  d.length == g.length && countFalse isLfe == n &&
  match path with
  | .polar D => g.all (·.length == n) && D.length == n && D.all (·.length == n)
  | .cartesian ex => ex.length == n && g.all (·.length == countFalse ex)

/-! ### `ZoneExclusionDownmix.downmix_for_excluded` (own copy; the decision logic that produces
    `excluded` belongs to another check) -/

/-- `excluded[group]` all true (`np.all(excluded[group])`; an index past the end raises in numpy: `none`) -/
def allExcluded (excluded : List Bool) : List Nat → Option Bool
  | [] => some true
  | j :: js => do
    let e ← excluded[j]?
    let r ← allExcluded excluded js
    pure (e && r)

/-- `group[~excluded[group]]` -/
def notExcluded (excluded : List Bool) (group : List Nat) : List Nat :=
  group.filter fun j => !(excluded.getD j true)

/-- one row: `downmix[i, not_excluded] = 1.0 / len(not_excluded)` on a row of zeros -/
def downmixRow (n : Nat) (ne : List Nat) : List α :=
  (List.range n).map fun j => if ne.contains j then one / k (mkRat ne.length 1) else zero

/-- first group with a non-excluded member; `none` = the `assert False` after the loop -/
def firstUsable (excluded : List Bool) : List (List Nat) → Option (List Nat)
  | [] => none
  | grp :: rest =>
    match allExcluded excluded grp with
    | none => none
    | some true => firstUsable excluded rest
    | some false => some (notExcluded excluded grp)

/-- `np.eye(n)` -/
def eye (n : Nat) : List (List α) :=
  (List.range n).map fun i => (List.range n).map fun j => if i == j then one else zero

/-- `ZoneExclusionDownmix.downmix_for_excluded`; `groups[i]` = `self.channel_groups[i]` (priority-ordered
    groups of channel indices for channel i).  `none` where the Python raises (shape assert, index error,
    `assert False`). -/
def downmixForExcluded (groups : List (List (List Nat))) (excluded : List Bool) : Option (List (List α)) :=
  let n := groups.length
  if excluded.length != n then none
  else if excluded.all id || excluded.all (!·) then some (eye n)
  else groups.mapM fun grps => (firstUsable excluded grps).map (downmixRow n)

/-! ### Polar extent: `PolarExtentHandler.handle` depth combination, `calc_pv_spread` skeleton,
    `SpreadingPanner.panning_values_for_weight` normalisation -/

/-- `np.sqrt(np.mean(np.square(pvs), axis=0))` for the two distances -/
def depthCombine (p1 p2 : List α) : List α :=
  List.zipWith (fun a b => sqrt ((a * a + b * b) / k 2)) p1 p2

/-- `PolarExtentPanner.calc_pv_spread` with the panner calls replaced by their results:
    `aSpread` = `np.interp(max(width, height), [0, fade_width], [0, 1])`, `p` = `panning_func(position)`,
    `s` = `spreading_panner.panning_values_for_weight(weight_f)`, `n` their length.
    (`pv = 0.0` is broadcast against the first array added; if neither branch runs the Python returns the
    scalar `0.0`, here a vector of zeros — unreachable since the two amounts sum to 1.) -/
def calcPvSpread (n : Nat) (aSpread : α) (p s : List α) : List α :=
  let aPoint := one - aSpread
  let pv : List α := zeros n
  let pv := if k (1 / 10000000000) < aPoint then vadd pv (p.map fun x => aPoint * (x * x)) else pv
  let pv := if k (1 / 10000000000) < aSpread then vadd pv (s.map fun x => aSpread * (x * x)) else pv
  vsqrt pv

/-- `np.linalg.norm` of a vector -/
def norm (v : List α) : α := sqrt (sumSq v)

/-- `total_pv / np.linalg.norm(total_pv)` (last line of `panning_values_for_weight`) -/
def normalise (v : List α) : List α :=
  let l := norm v
  v.map fun x => x / l

/-! ### `allo_extent.get_gains`: the final `safe_norm` -/

/-- `safe_norm` inside `allo_extent.get_gains` -/
def safeNorm (v : List α) : List α :=
  let l := norm v
  if k (1 / 10000000000000000) < l then v.map fun x => x / l else zeros v.length

/-! ### geometry helpers (`ear.common.cart/azimuth/elevation`, `geom.local_coordinate_system`, `np.interp`) -/

abbrev V3 (α : Type) := α × α × α

/-- Python `max(a, b)` -/
def maxS (a b : α) : α := if a < b then b else a

/-- `np.clip(x, lo, hi)` -/
def clip (x lo hi : α) : α := if x < lo then lo else if hi < x then hi else x

/-- `np.radians`, `np.degrees` (numpy: multiplication by the rounded constant) -/
def radians (x : α) : α := x * (Scalar.pi / k 180)
def degrees (x : α) : α := x * (k 180 / Scalar.pi)

/-- `ear.common.cart(az, el, dist)` -/
def cart (az el dist : α) : V3 α :=
  (Scalar.sin (radians (-az)) * Scalar.cos (radians el) * dist,
   Scalar.cos (radians (-az)) * Scalar.cos (radians el) * dist,
   Scalar.sin (radians el) * dist)

/-- `ear.common.azimuth`, `elevation` (`np.hypot` as `sqrt(x² + y²)`), `np.linalg.norm` of a position -/
def azimuthOf (p : V3 α) : α := -(degrees (Scalar.atan2 p.1 p.2.1))
def elevationOf (p : V3 α) : α := degrees (Scalar.atan2 p.2.2 (sqrt (p.1 * p.1 + p.2.1 * p.2.1)))
def norm3 (p : V3 α) : α := sqrt (p.1 * p.1 + p.2.1 * p.2.1 + p.2.2 * p.2.2)

/-- `np.interp(x, xp, fp)` for ascending `xp` (numpy's C loop: left/right clamp, exact hit, else
    `slope * (x - xp[j]) + fp[j]`) -/
def interp (x : α) : List α → List α → α
  | x0 :: xs, f0 :: fs =>
    if x ≤ x0 then f0
    else
      let rec go (xa fa : α) : List α → List α → α
        | xb :: xs', fb :: fs' =>
          if eqS x xb then fb
          else if x < xb then (fb - fa) / (xb - xa) * (x - xa) + fa
          else go xb fb xs' fs'
        | _, _ => fa
      go x0 f0 xs fs
  | _, _ => zero

/-! ### `PolarExtentHandler`: `extent_mod` and the distance/depth logic of `handle` -/

/-- `PolarExtentHandler.extent_mod` -/
def extentMod (extent distance : α) : α :=
  let minSize := k (1 / 5)
  let size := interp extent [zero, k 360] [minSize, one]
  let extent1 := k 4 * degrees (Scalar.atan2 size one)
  interp (k 4 * degrees (Scalar.atan2 size distance)) [zero, extent1, k 360] [zero, extent, k 360]

/-- the end distances `handle` evaluates: `[distance]` for `depth == 0`, else
    `[distance + depth/2, distance - depth/2]` with negative values set to 0 -/
def polarDistances (distance depth : α) : List α :=
  if eqS depth zero then [distance]
  else
    let f (d : α) : α := if d < zero then zero else d
    [f (distance + depth / k 2), f (distance - depth / k 2)]

/-- the (width, height) arguments of the `calc_pv_spread` calls, one per end distance -/
def polarExtents (distance width height depth : α) : List (α × α) :=
  (polarDistances distance depth).map fun d => (extentMod width d, extentMod height d)

/-- `pvs[0]` for one distance, RMS for two -/
def polarCombine : List (List α) → List α
  | [p] => p
  | [p1, p2] => depthCombine p1 p2
  | _ => []

/-- `ammount_spread = np.interp(max(width, height), [0, fade_width], [0, 1])` -/
def amountSpread (width height : α) : α := interp (maxS width height) [zero, k 10] [zero, one]

/-- `PolarExtentHandler.handle(position, width, height, depth)` with the two panners as parameters:
    `p` = `point_source_panner.handle(position)`, `s w h` = the normalised spread panning values for the
    (already clamped) width/height. -/
def polarHandle (n : Nat) (p : List α) (s : α → α → List α) (position : V3 α) (width height depth : α) : List α :=
  polarCombine ((polarExtents (norm3 position) width height depth).map fun (w, h) =>
    calcPvSpread n (amountSpread w h) p (s (maxS w (k 5)) (maxS h (k 5))))

/-! ### `diverge`: positions -/

/-- `gain_calc.diverge`, positions only.  `value = none`: no `objectDivergence` element;
    `v2` = `version_at_least(document_version, 2)`. -/
def divergePositions (cartesian : Bool) (position : V3 α) (value azimuthRange positionRange : Option α) (v2 : Bool) :
    List (V3 α) :=
  match value with
  | none => [position]
  | some v =>
    if eqS v zero then [position]
    else if cartesian then
      let pr := positionRange.getD zero
      let c (x : α) : α := clip x (-one) one
      let cl (q : V3 α) : V3 α := (c q.1, c q.2.1, c q.2.2)
      [cl (position.1 + pr, position.2.1 + zero, position.2.2 + zero), cl position,
       cl (position.1 - pr, position.2.1 - zero, position.2.2 - zero)]
    else
      let ar := azimuthRange.getD (if v2 then zero else k 45)
      let dist := norm3 position
      let az := azimuthOf position
      let el := elevationOf position
      -- rows of local_coordinate_system(az, el); M = rows.T, so M·p = p.x·row0 + p.y·row1 + p.z·row2
      let r0 := cart (az - k 90) zero one
      let r1 := cart az el one
      let r2 := cart az (el + k 90) one
      let rot (q : V3 α) : V3 α :=
        (r0.1 * q.1 + r1.1 * q.2.1 + r2.1 * q.2.2,
         r0.2.1 * q.1 + r1.2.1 * q.2.1 + r2.2.1 * q.2.2,
         r0.2.2 * q.1 + r1.2.2 * q.2.1 + r2.2.2 * q.2.2)
      [rot (cart ar zero dist), position, rot (cart (-ar) zero dist)]

/-! ### the whole of `GainCalc.render`, position pipeline included -/

/-- the parts of the block and of `ExtraData` that `render` reads -/
structure Block (α : Type) where
  cartesian : Bool
  /-- azimuth, elevation, distance or X, Y, Z -/
  coords : V3 α
  /-- `object_positionOffset` (same coordinate system as the position) -/
  offset : Option (V3 α)
  divValue : Option α
  azimuthRange : Option α
  positionRange : Option α
  v2 : Bool
  gain : α
  diffuse : α
  objectGain : α
  mute : Bool

/-- the position transforms and panners that stay parameters (their interiors belong to other checks):
    `ScreenScaleHandler.handle`, `ScreenEdgeLockHandler.handle_vector`, the channel-lock handler of the path,
    and the extent panner of the path (polar: `PolarExtentHandler.handle`; Cartesian: `allocentric_extent_pan`
    on the non-excluded loudspeakers), each already applied to the block's other parameters. -/
structure Oracles (α : Type) where
  screenScale : V3 α → V3 α
  edgeLock : V3 α → V3 α
  channelLock : V3 α → V3 α
  extentPan : V3 α → List α

/-- `PositionOffset.apply`; `none` = the re-validation of the evolved polar position raises ValueError -/
def applyOffset (cartesian : Bool) (c : V3 α) (offset : Option (V3 α)) : Option (V3 α) :=
  match offset with
  | none => some c
  | some o =>
    let r : V3 α := (c.1 + o.1, c.2.1 + o.2.1, c.2.2 + o.2.2)
    if cartesian then some r
    else if k (-180) ≤ r.1 ∧ r.1 ≤ k 180 ∧ k (-90) ≤ r.2.1 ∧ r.2.1 ≤ k 90 ∧ zero ≤ r.2.2 then some r
    else none

/-- `gain_calc.coord_trans` -/
def coordTrans (cartesian : Bool) (c : V3 α) : V3 α :=
  if cartesian then (clip c.1 (-one) one, clip c.2.1 (-one) one, clip c.2.2 (-one) one)
  else cart c.1 c.2.1 c.2.2

/-- `GainCalc.render` in full: positionOffset → coord_trans → screen scale → screen edge lock → channel lock →
    diverge → extent pan per diverged position → (the rest is `render`). -/
def renderFull (n : Nat) (o : Oracles α) (path : ZonePath α) (isLfe : List Bool) (b : Block α) :
    Option (List α × List α) :=
  match applyOffset b.cartesian b.coords b.offset with
  | none => none
  | some c =>
    let position := coordTrans b.cartesian c
    let position := o.screenScale position
    let position := o.edgeLock position
    let position := o.channelLock position
    let d := divergeGains b.divValue
    let ps := divergePositions b.cartesian position b.divValue b.azimuthRange b.positionRange b.v2
    let g := ps.map o.extentPan
    some (render n path d g b.gain b.objectGain b.mute isLfe b.diffuse)

/-! ### `allo_extent.get_gains` skeleton: everything after the per-axis weights -/

/-- per-channel inputs of the skeleton: `fx, fy, fz` = `_calc_f` per axis; `b*` = the six boundary terms
    `np.power(g_point_axis[:, 0 or -1] * w_axis[0 or -1], p)`; `gPoint` = product of the separated point gains -/
structure ExtCh (α : Type) where
  fx : α
  fy : α
  fz : α
  bLeft : α
  bRight : α
  bFront : α
  bBack : α
  bCeil : α
  bFloor : α
  gPoint : α

/-- `alpha, beta` of `get_gains` (`s_fade = 0.2`) -/
def fadeGains (sEff : α) : α × α :=
  if sEff < k (1 / 5) then
    (Scalar.cos ((sEff * Scalar.pi) / (k (1 / 5) * k 2)), Scalar.sin ((sEff * Scalar.pi) / (k (1 / 5) * k 2)))
  else (zero, one)

/-- `g_size` before normalisation -/
def extGSize (p mu : α) (chs : List (ExtCh α)) : List α :=
  let gInside := chs.map fun c => c.fx * c.fy * c.fz
  let gInsideNorm := safeNorm gInside
  List.zipWith (fun c gi =>
    let gBound := c.bLeft * c.fy * c.fz + c.bRight * c.fy * c.fz + c.fx * c.bFront * c.fz + c.fx * c.bBack * c.fz
                  + c.fx * c.fy * c.bCeil + c.fx * c.fy * c.bFloor
    Scalar.pow (gBound + mu * gi) (one / p)) chs gInsideNorm

/-- `g_total` before the last `safe_norm` -/
def extGTotal (p mu sEff : α) (chs : List (ExtCh α)) : List α :=
  let gSizeNorm := safeNorm (extGSize p mu chs)
  let ab := fadeGains sEff
  List.zipWith (fun c gs => ab.1 * c.gPoint + ab.2 * gs) chs gSizeNorm

/-- `allo_extent.get_gains` from `g_inside = fx * fy * fz` to the returned `g_total_norm` -/
def alloExtentSkeleton (p mu sEff : α) (chs : List (ExtCh α)) : List α :=
  safeNorm (extGTotal p mu sEff chs)

/-! ### `point_source.AllocentricPanner` over an arbitrary speaker grid -/

/-- One leaf of the speaker tree: channel index and allocentric position. -/
structure Leaf (α : Type) where
  idx : Nat
  x : α
  y : α
  z : α

/-- `AllocentricPanner.st`: planes (ascending z) of rows (ascending y) of leaves (ascending x). -/
abbrev Tree (α : Type) := List (List (List (Leaf α)))

/-- `_single_balance_pan` -/
def singleBalancePan (minimum maximum value : α) : α × α :=
  if eqS minimum maximum then (one, one)
  else if value ≤ minimum then (zero, one)
  else if maximum ≤ value then (one, zero)
  else
    let a := (value - minimum) / (maximum - minimum)
    let aa := a * Scalar.pi / k 2
    (Scalar.cos aa, Scalar.sin aa)

/-- the `for i, zz in enumerate(...)` loop shared by `_find_planes/_find_rows/_find_columns`:
    `coords` = the key coordinate of each entry, `i` = index of the head of `coords`, `len` = total. -/
def findLoop (len : Nat) (v : α) : Nat → List α → Nat × Nat
  | _, [] => (len - 1, len - 1)
  | i, c :: cs =>
    if eqS c v then (i, i)
    else if v < c then (i - 1, i)
    else findLoop len v (i + 1) cs

/-- `_find_planes` / `_find_rows` / `_find_columns` on the list of key coordinates (non-empty) -/
def findPair (coords : List α) (v : α) : Nat × Nat :=
  match coords with
  | [] => (0, 0)
  | c0 :: _ => if v ≤ c0 then (0, 0) else findLoop coords.length v 0 coords

/-- key coordinate of a plane / row: that of its first leaf (`st[zz][0][0][1][2]`, `stz[yy][0][1][1]`);
    an empty plane/row raises IndexError in Python: `none` -/
def planeZ (pl : List (List (Leaf α))) : Option α := do (← (← pl.head?).head?).z
def rowY (row : List (Leaf α)) : Option α := do (← row.head?).y

/-- innermost loop of `AllocentricPanner.handle` for one row: the two assignments
    `ret[idx] = zgain * ygain * xgain` (`c` = `zgain * ygain`), in loop order.  `none` = IndexError. -/
def rowWrites (row : List (Leaf α)) (px c : α) : Option (List (Nat × α)) :=
  let xc := row.map (·.x)
  let i := findPair xc px
  match xc[i.1]?, xc[i.2]?, row[i.1]?, row[i.2]? with
  | some a, some b, some l0, some l1 =>
    let g := singleBalancePan a b px
    some [(l0.idx, c * g.1), (l1.idx, c * g.2)]
  | _, _, _, _ => none

/-- middle loop (`for ygain, yy in zip(yGains, yRows)`, two iterations) for one plane -/
def planeWrites (pl : List (List (Leaf α))) (px py gz : α) : Option (List (Nat × α)) :=
  match pl.mapM rowY with
  | none => none
  | some yc =>
    let i := findPair yc py
    match yc[i.1]?, yc[i.2]?, pl[i.1]?, pl[i.2]? with
    | some a, some b, some r0, some r1 =>
      let g := singleBalancePan a b py
      match rowWrites r0 px (gz * g.1), rowWrites r1 px (gz * g.2) with
      | some w0, some w1 => some (w0 ++ w1)
      | _, _ => none
    | _, _, _, _ => none

/-- `AllocentricPanner.handle`: the assignments `ret[idx] = zgain * ygain * xgain` in loop order
    (outer loop `for zgain, zz in zip(zGains, zPlanes)`, two iterations). -/
def alloWrites (st : Tree α) (px py pz : α) : Option (List (Nat × α)) :=
  match st.mapM planeZ with
  | none => none
  | some zc =>
    let i := findPair zc pz
    match zc[i.1]?, zc[i.2]?, st[i.1]?, st[i.2]? with
    | some a, some b, some p0, some p1 =>
      let g := singleBalancePan a b pz
      match planeWrites p0 px py g.1, planeWrites p1 px py g.2 with
      | some w0, some w1 => some (w0 ++ w1)
      | _, _ => none
    | _, _, _, _ => none

/-- apply the assignments to `np.zeros(n)` -/
def applyWrites (n : Nat) (ws : List (Nat × α)) : List α :=
  ws.foldl (fun ret (w : Nat × α) => ret.set w.1 w.2) (zeros n)

/-- `AllocentricPanner.handle` -/
def alloHandle (n : Nat) (st : Tree α) (px py pz : α) : Option (List α) :=
  (alloWrites st px py pz).map (applyWrites n)

end
/-! ### regenerated per-layout tables (`Gen/C01_Tables.lean`) and their decidable well-formedness checks -/

/-- leaf as extracted: channel index, x, y, z as (numerator, denominator) of the exact float64 -/
abbrev RawLeaf := Nat × (Int × Nat) × (Int × Nat) × (Int × Nat)

/-- what `harness/c01.py` extracts per layout (LFE removed as `GainCalc.__init__` does) -/
structure LayoutTable where
  name : String
  /-- number of non-LFE channels -/
  n : Nat
  /-- `layout.is_lfe` -/
  isLfe : List Bool
  /-- `ZoneExclusionDownmix(layout.without_lfe).channel_groups` -/
  groups : List (List (List Nat))
  /-- `AllocentricPanner(positions_for_layout(layout.without_lfe)).st` -/
  tree : List (List (List RawLeaf))
  /-- per channel: nominal x, y, z, azimuth, elevation (`ZoneExclusionHandler`) as exact float64 rationals -/
  spk : List (List (Int × Nat)) := []
  /-- per channel: `allocentric.positions_for_layout` x, y, z -/
  allo : List (List (Int × Nat)) := []
  /-- per channel: `layout.norm_positions` x, y, z -/
  normPos : List (List (Int × Nat)) := []
  /-- `channel_priority` of the channel-lock handlers -/
  prio : List Nat := []
  /-- `"U+045" in layout.channel_names` (`compensate_position`) -/
  hasU045 : Bool := false
  /-- `layout.screen`: (is polar, [aspectRatio, centre a, centre b, centre c, width]) -/
  screen : Option (Bool × List (Int × Nat)) := none

def ratLeaf (r : RawLeaf) : Leaf Rat := ⟨r.1, mkRat r.2.1.1 r.2.1.2, mkRat r.2.2.1.1 r.2.2.1.2, mkRat r.2.2.2.1 r.2.2.2.2⟩

def ratTree (t : List (List (List RawLeaf))) : Tree Rat := t.map fun pl => pl.map fun row => row.map ratLeaf

/-- duplicate-free (Bool) -/
def nodupB {β : Type} [BEq β] : List β → Bool
  | [] => true
  | x :: xs => !(xs.contains x) && nodupB xs

/-- the priority groups of every channel are duplicate-free and together list every channel exactly once -/
def groupsOk (n : Nat) (groups : List (List (List Nat))) : Bool :=
  groups.length == n &&
  groups.all fun grps => grps.all nodupB && nodupB grps.flatten && grps.flatten.length == n && grps.flatten.all (· < n)

/-- decidable form of the grid well-formedness `TreeWF` (Props): no empty plane/row, distinct z keys of the
    planes, distinct y keys of the rows of a plane, distinct x in a row, every channel index `< n` exactly once -/
def treeOk (n : Nat) (st : Tree Rat) : Bool :=
  st.all (fun pl => !pl.isEmpty && pl.all (fun row => !row.isEmpty)) &&
  nodupB (st.filterMap planeZ) &&
  st.all (fun pl => nodupB (pl.filterMap rowY) && pl.all (fun row => nodupB (row.map (·.x)) && row.all (·.idx < n))) &&
  nodupB ((st.map fun pl => pl.flatten.map (·.idx)).flatten) &&
  st.all (fun pl => nodupB ((pl.map fun row => row.map (·.idx)).flatten)) &&
  st.all (fun pl => pl.all fun row => nodupB (row.map (·.idx)))

/-- no empty tree / plane / row (then `AllocentricPanner.handle` raises no IndexError: `alloHandle_total`) -/
def treeNonempty {α : Type} (st : Tree α) : Bool :=
  !st.isEmpty && st.all (fun pl => !pl.isEmpty && pl.all (fun row => !row.isEmpty))

end Earverif.GainCalc
