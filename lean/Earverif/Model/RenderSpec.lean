/-
Specification of the rendered audio (C02/C03), sample by sample, written from the property text
(DESIGN.md C02/C03 "Spec"), independent of the block structure of the implementation.

For a timeline accepted by the interpreters, `gainAt` selects the block `i` with
`⌈start_i·fs⌉ ≤ s < ⌈end_i·fs⌉`; the gain is the constant `g_i` for `s ≥ ⌈target_i·fs⌉` and otherwise
`(1−p)·g_{i−1} + p·g_i` with `p = (s − start_i·fs)/((target_i − start_i)·fs)`, where
`target_i = start_i + interp_i` if block `i` starts exactly where block `i−1` ended and
`target_i = start_i` otherwise; no block ⇒ silence.

`out(s) = Σ_obj direct_obj(s)·x_obj(s) + Σ_k f[k]·diffuse(s + (N−1)//2 − k) + Σ_ds g·x + Σ_hoa M·x`,
`0 ≤ s < T`.  Core Lean only.
-/
import Earverif.Model.Renderer
namespace Earverif.RenderSpec
open Earverif.Stream Earverif.Timeline Earverif.Renderer

/-- Exact ceiling (smallest integer `≥ x`), written independently of `Timeline.ceil`. -/
def ceilQ (x : Rat) : Int := -((-x).floor)

/-- One block of a timeline in absolute time. -/
structure SpecBlock (G : Type) where
  start : Rat
  end_ : Ext Rat
  target : Rat
  prev : Option G     -- gains of the previous block when contiguous with it
  cur : G

/-- Absolute times of a metadata block: object start + rtime, duration; a block without timing
spans the whole object. -/
def blockTimes {G : Type} (m : MetaBlock G) : Rat × Ext Rat :=
  let os := m.object_start.getD 0
  match m.rtime, m.duration with
  | some r, some d => (os + r, .fin (os + r + d))
  | _, _ => (os, match m.object_duration with | some d => .fin (os + d) | none => .inf)

/-- Interpolation length of an Objects block: `interpolationLength` (0 if absent) with
`jumpPosition`, else the whole block duration. -/
def interpOf {G : Type} (m : MetaBlock G) (start : Rat) (end_ : Ext Rat) : Ext Rat :=
  if m.jump then .fin (m.interpLen.getD 0) else end_.subFin start

/-- Timeline of an Objects item; `prev = (end, gains)` of the previous block. -/
def objTimeline {G : Type} : Option (Ext Rat × G) → List (MetaBlock G) → List (SpecBlock G)
  | _, [] => []
  | prev, m :: ms =>
    let (s, e) := blockTimes m
    let b : SpecBlock G :=
      match prev with
      | some (pe, pg) =>
        if pe = .fin s then
          match interpOf m s e with
          | .fin l => ⟨s, e, s + l, some pg, m.gains⟩
          | .inf => ⟨s, e, s, none, m.gains⟩   -- not accepted by the interpreter (see `Accepted`)
        else ⟨s, e, s, none, m.gains⟩
      | none => ⟨s, e, s, none, m.gains⟩
    b :: objTimeline (some (e, m.gains)) ms

/-- Timeline of a DirectSpeakers / HOA item: no interpolation. -/
def fixedTimeline {G : Type} (ms : List (MetaBlock G)) : List (SpecBlock G) :=
  ms.map fun m => let (s, e) := blockTimes m; ⟨s, e, s, none, m.gains⟩

/-- What applies at a sample. -/
inductive GainSpec (G : Type) where
  | silent
  | const (g : G)
  | ramp (p : Rat) (g0 g1 : G)

def SpecBlock.covers {G : Type} (sr : Nat) (b : SpecBlock G) (s : Int) : Bool :=
  decide (ceilQ (b.start * sr) ≤ s) && (match b.end_ with | .fin e => decide (s < ceilQ (e * sr)) | .inf => true)

/-- The gain specification at integer sample `s`. -/
def gainAt {G : Type} (sr : Nat) (tl : List (SpecBlock G)) (s : Int) : GainSpec G :=
  match tl.find? (·.covers sr s) with
  | none => .silent
  | some b =>
    if ceilQ (b.target * sr) ≤ s then .const b.cur
    else
      match b.prev with
      | some g0 => .ramp (((s : Rat) - b.start * sr) / ((b.target - b.start) * sr)) g0 b.cur
      | none => .const b.cur   -- unreachable: target = start when prev = none

/-- Gain row at a sample (Objects/DirectSpeakers): interpolate. -/
def GainSpec.row {V : Type} [RMod V] : GainSpec V → V
  | .silent => 0
  | .const g => g
  | .ramp p g0 g1 => RMod.smul (1 - p) g0 + RMod.smul p g1

/-- `Σ_j x_j · col_j`. -/
def matApply {V : Type} [RMod V] (cols : List V) (xs : List Rat) : V :=
  (List.zipWith RMod.smul xs cols).foldl (· + ·) 0

def GainSpec.mat {V : Type} [RMod V] : GainSpec (List V) → List Rat → V
  | .const cols, xs => matApply cols xs
  | _, _ => 0

def sumV {V : Type} [RMod V] (l : List V) : V := l.foldl (· + ·) 0

/-- Sample `t` of track `tr` of the input `x` (frames), 0 outside `0 ≤ t < T`. -/
def xAt (x : List (List Rat)) (tr : Nat) (t : Int) : Rat :=
  if 0 ≤ t then (x.getD t.toNat []).getD tr 0 else 0

/-- `(direct, diffuse)` contribution of all Objects items at sample `t`. -/
def objAt {V : Type} [RMod V] (sr : Nat) (objs : List (ObjItem V)) (x : List (List Rat)) (t : Int) : V × V :=
  sumV (objs.map fun it => RMod.smul (xAt x it.track t) (gainAt sr (objTimeline none it.blocks) t).row)

/-- Output sample `s` (`0 ≤ s < T`). -/
def outAt {V : Type} [RMod V] (c : Cfg V) (objs : List (ObjItem V)) (dss : List (DsItem V))
    (hoas : List (HoaItem V)) (x : List (List Rat)) (s : Nat) : V :=
  let direct := (objAt c.sr objs x s).1
  let d := c.decorrelator_delay
  let diffuse := sumV ((List.range c.taps.length).map fun k =>
    RMod.pmul (c.taps.getD k 0) (objAt c.sr objs x ((s : Int) + d - k)).2)
  let ds := sumV (dss.map fun it => RMod.smul (xAt x it.track s) (gainAt c.sr (fixedTimeline it.blocks) s).row)
  let hoa := sumV (hoas.map fun it =>
    (gainAt c.sr (fixedTimeline it.blocks) s).mat (it.tracks.map fun tr => xAt x tr s))
  ((direct + diffuse) + ds) + hoa

/-- The whole specified output: exactly `T = len(x)` frames starting at time zero. -/
def out {V : Type} [RMod V] (c : Cfg V) (objs : List (ObjItem V)) (dss : List (DsItem V))
    (hoas : List (HoaItem V)) (x : List (List Rat)) : List V :=
  (List.range x.length).map (outAt c objs dss hoas x)

end Earverif.RenderSpec
