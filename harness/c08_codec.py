"""C08 — correspondence for the combinator layer: real ElementParser.parse / to_xml vs the Lean model
(Earverif.XmlCodec) on the same abstract trees.  The property rows sent to the driver are the ones extracted
from the real parsers on this run; the hand-written handlers are stubs on the Lean side (accept, leave other
arguments alone), so only the declarative arguments / attributes / child elements are compared."""
import warnings
from fractions import Fraction

NAMESPACES = [None, "urn:ebu:metadata-schema:ebuCore_2014", "urn:ebu:metadata-schema:ebuCore_2015",
              "urn:ebu:metadata-schema:ebuCore_2016", "urn:ebu:metadata-schema:ebuCore_2017",
              "urn:ebu:metadata-schema:ebuCore", "urn:metadata-schema:adm"]
DEFAULT_NS = "urn:ebu:metadata-schema:ebuCore_2017"

# GenericElement handlers that do nothing when their elements / attributes are absent
INERT_GENERICS = ("handle_position_offset", "handle_gain_attribute", "handle_gainInteractionRange",
                  "handle_positionInteractionRange")
DECL = ("Attribute", "AttrElement", "ListElement", "HandleText", "TypeAttribute")


def enc(s):
    return "=" + ".".join("%x" % ord(c) for c in s)


def dec(w):
    assert w[0] == "="
    return "" if w == "=" else "".join(chr(int(h, 16)) for h in w[1:].split("."))


def row_line(r):
    kind, adm, arg, att, ty, hdef, cdef, req, po, label, enum, handler = r
    en = "~" if not enum else ",".join("%s:%d" % (enc(n), v) for n, v in enum)
    return " ".join([enc(kind), enc(adm), enc(arg), enc(ty), enc(hdef), "1" if req else "0", "1" if po else "0",
                     enc(label), en])


def tree_tokens(t):
    """t = (ns, name, [(k, v)], text, [children])"""
    ns, name, attrs, text, kids = t
    out = ["N", "~" if ns is None else enc(ns), enc(name), str(len(attrs))]
    for k, v in attrs:
        out += [enc(k), enc(v)]
    out += [enc(text), str(len(kids))]
    for c in kids:
        out += tree_tokens(c)
    return out


def parse_tree_tokens(ws, i=0):
    assert ws[i] == "N"
    ns = None if ws[i + 1] == "~" else dec(ws[i + 1])
    name = dec(ws[i + 2])
    na = int(ws[i + 3])
    i += 4
    attrs = []
    for _ in range(na):
        attrs.append((dec(ws[i]), dec(ws[i + 1])))
        i += 2
    text = dec(ws[i])
    nc = int(ws[i + 1])
    i += 2
    kids = []
    for _ in range(nc):
        c, i = parse_tree_tokens(ws, i)
        kids.append(c)
    return (ns, name, attrs, text, kids), i


def to_lxml(t):
    import lxml.etree as ET

    ns, name, attrs, text, kids = t
    el = ET.Element(name if ns is None else "{%s}%s" % (ns, name))
    for k, v in attrs:
        el.set(k, v)
    if text != "":
        el.text = text
    for c in kids:
        el.append(to_lxml(c))
    return el


def from_lxml(el):
    import lxml.etree as ET

    q = ET.QName(el.tag)
    return (q.namespace, q.localname, [(k, v) for k, v in el.attrib.items()], el.text or "",
            [from_lxml(c) for c in el if isinstance(c.tag, str)])


def leaf_val(v):
    from enum import Enum
    from ear.fileio.adm.time_format import FractionalTime

    if v is None:
        return "n"
    if isinstance(v, bool):
        return "b1" if v else "b0"
    if isinstance(v, int):
        return "i%d" % v
    if isinstance(v, str):
        return "s" + enc(v)
    if isinstance(v, FractionalTime):
        return "tF%d/%d" % (v.format_numerator, v.format_denominator)
    if isinstance(v, Fraction):
        return "tD%d/%d" % (v.numerator, v.denominator)
    if isinstance(v, float):
        k = round(v * 100000)
        if k / 100000.0 != v:
            return "?float-off-grid"
        return "f%d" % k
    if isinstance(v, Enum):
        return "e%s:%d" % (enc(v.name), v.value)
    return "?" + type(v).__name__


def val_tokens(v):
    if isinstance(v, list):
        return " ".join(["L%d" % len(v)] + [leaf_val(x) for x in v])
    return leaf_val(v)


def capture_parser(parser):
    """the real ElementParser with the real properties, but a constructor that returns the kwargs"""
    from ear.fileio.adm import xml as X

    return X.ElementParser(lambda **kw: kw, parser.adm_name, parser.properties, parser.validate)


def py_parse_kwargs(cap, rows, tree):
    from ear.fileio.adm.xml import ParseError

    with warnings.catch_warnings():
        warnings.simplefilter("ignore")
        try:
            kw = cap.parse(to_lxml(tree))
        except ParseError:
            return "E"
        except Exception as e:
            return "X:" + type(e).__name__
    decl_args = {r[2] for r in rows if r[0] in DECL}
    return {a: val_tokens(v) for a, v in kw.items() if a in decl_args}


def model_kwargs(line, rows):
    if line == "E" or line == "bad-op":
        return line
    ws = line.split()
    assert ws[0] == "K"
    decl_args = {r[2] for r in rows if r[0] in DECL}
    out, i = {}, 1
    while i < len(ws):
        a = dec(ws[i])
        v = ws[i + 1]
        i += 2
        if v.startswith("L"):
            n = int(v[1:])
            v = " ".join([v] + ws[i:i + n])
            i += n
        if a in decl_args:
            out[a] = v
    return out


# ---- generators


def value_strings(rng, ty, time_strings):
    """a value string for the type: mostly acceptable, sometimes not (only spellings on which the model's codec
    and Python's agree by construction: see Model/XmlLeaf.lean)"""
    bad = rng.random() < 0.07
    if ty in ("StringType", "RefType"):
        return rng.choice(["", "x", "AP_00031001", "a b", "é", " lead", "ATU_00000000"])
    if ty == "TrackUIDRefType":
        return rng.choice(["ATU_00000000", "ATU_00000001", "atu_00000000", "", "x"])
    if ty == "IntType":
        if bad:
            return rng.choice(["x", "", "1.5", "-", "12a"])
        return rng.choice(["0", "10", "-3", "007", "48000", str(rng.randint(-10 ** 12, 10 ** 12))])
    if ty == "BoolType":
        return rng.choice(["2", "true", "", "01"]) if bad else rng.choice(["0", "1"])
    if ty == "FloatType":
        if bad:
            return rng.choice(["abc", "", "1.2.3", "-"])
        k = rng.choice([0, 1, -1, 100000, -50000, rng.randint(-10 ** 9, 10 ** 9)])
        return "%s%d.%05d" % ("-" if k < 0 else "", abs(k) // 100000, abs(k) % 100000)
    if ty in ("TimeType", "TimeTypeV1"):
        return rng.choice(time_strings)
    return rng.choice(["", "x"])


def synthetic_tree(rng, adm_name, rows, time_strings):
    """attributes / children for the declarative rows (valid and invalid values, 0-2 occurrences, all namespaces),
    unknown attributes and children; never a child handled by a hand-written handler"""
    custom_names = {r[1] for r in rows if r[0] == "CustomElement"}
    attrs, kids = [], []
    for r in rows:
        kind, adm, arg, att, ty = r[:5]
        if kind == "Attribute" and rng.random() < (0.97 if r[7] else 0.6):
            attrs.append((adm, value_strings(rng, ty, time_strings)))
        elif kind == "TypeAttribute":
            enum = r[10]
            c = rng.random()
            n, v = rng.choice(enum)
            if c < 0.35:
                attrs.append((adm, n))
            elif c < 0.6:
                attrs.append((r[9], rng.choice(["%04X" % v, "%04x" % v, "%X" % v])))
            elif c < 0.85:
                n2, v2 = rng.choice(enum)
                pair = [(adm, n), (r[9], "%04X" % v2)]
                rng.shuffle(pair)
                attrs += pair
            elif c < 0.95:
                attrs.append(rng.choice([(adm, "Nonsense"), (r[9], "00FF"), (r[9], "zz"), (r[9], "")]))
        elif kind in ("AttrElement", "ListElement"):
            for _ in range(rng.choice([0, 0, 1, 1, 1, 2] if kind == "AttrElement" else [0, 1, 2, 3])):
                ns = rng.choice(NAMESPACES + [DEFAULT_NS, DEFAULT_NS, "urn:unknown"])
                kids.append((ns, adm, [], value_strings(rng, ty, time_strings), []))
    for _ in range(rng.choice([0, 0, 1])):
        attrs.append((rng.choice(["unknownAttr", "gainUnknown", "ID"]), "v"))
    for _ in range(rng.choice([0, 0, 1])):
        nm = rng.choice(["unknownElement", "comment", "audioProgrammeLabel"])
        if nm not in custom_names:
            kids.append((rng.choice([None, DEFAULT_NS]), nm, [], "t", []))
    seen, uniq = set(), []
    for k, v in attrs:  # XML attribute names are unique
        if k not in seen:
            seen.add(k)
            uniq.append((k, v))
    rng.shuffle(uniq)
    rng.shuffle(kids)
    text = ""
    if any(r[0] == "HandleText" for r in rows):
        text = rng.choice(["AC_00010001", "", "x"])
    return (DEFAULT_NS, adm_name, uniq, text, kids)


def usable_for_synthetic(rows):
    for r in rows:
        if r[0] == "GenericElement" and not any(h in r[11] for h in INERT_GENERICS):
            return False
        if r[0] in ("CustomElement", "GenericElement") and r[7]:
            return False  # required hand-written item: never satisfiable without its element
    return True


def obj_values(rows, obj):
    """declarative values of a real object, keyed by arg name, as driver tokens (refs as id strings)"""
    out = []
    for r in rows:
        kind, adm, arg, att, ty = r[:5]
        if kind not in DECL or r[8]:
            continue
        v = getattr(obj, att if kind != "Attribute" else arg)
        if ty in ("RefType",):
            v = [x.id for x in v] if isinstance(v, list) else (None if v is None else v.id)
        elif ty == "TrackUIDRefType":
            v = [None if x is None else x.id for x in v]
        out.append((arg, v))
    return out


def filter_declarative(tree, rows):
    """drop what the hand-written handlers wrote (attributes / children whose names no declarative row owns)"""
    ns, name, attrs, text, kids = tree
    akeys = {r[1] for r in rows if r[0] == "Attribute"} | {r[1] for r in rows if r[0] == "TypeAttribute"} | \
        {r[9] for r in rows if r[0] == "TypeAttribute"}
    enames = {r[1] for r in rows if r[0] in ("AttrElement", "ListElement")}
    has_text = any(r[0] == "HandleText" for r in rows)
    return (ns, name, [(k, v) for k, v in attrs if k in akeys],
            text if has_text else "",
            [(cns, cn, [], ct, []) for cns, cn, ca, ct, ck in kids if cn in enames])


# ---------------------------------------------------------------------------------------------
# exactly modelled hand-written handlers: frequency, jumpPosition, DirectSpeakers position


def grid(k):
    return "%s%d.%05d" % ("-" if k < 0 else "", abs(k) // 100000, abs(k) % 100000)


def to_k(v):
    """a float / Fraction on the 1e-5 grid as integer count (None stays None)"""
    if v is None:
        return None
    k = round(v * 100000)
    return k


def opt(k):
    return "~" if k is None else str(k)


def visiting_order(kids):
    """the order in which xml.xpath() yields same-named children: namespace by namespace"""
    idx = {ns: i for i, ns in enumerate(NAMESPACES)}
    return sorted([k for k in kids if k[0] in idx], key=lambda k: idx[k[0]])


def py_handler_parse(which, tree):
    from ear.fileio.adm import xml as X
    from ear.fileio.adm.elements import Frequency, JumpPosition, DirectSpeakerPolarPosition

    el = to_lxml(tree)
    try:
        with warnings.catch_warnings():
            warnings.simplefilter("ignore")
            if which == "freq":
                kw = {}
                for c in el:
                    X.handle_frequency(kw, c)
                f = kw.get("frequency", Frequency())
                return "%s %s" % (opt(to_k(f.lowPass)), opt(to_k(f.highPass)))
            if which == "jump":
                kw = {}
                for c in el:
                    X.handle_jump_position(kw, c)
                j = kw.get("jumpPosition", JumpPosition())
                return "%d %s" % (1 if j.flag else 0, opt(to_k(j.interpolationLength)))
            if which == "ds":
                p = X.parse_speaker_position(el)
                return ds_value(p)
    except Exception:
        return "E"


def ds_value(p):
    from ear.fileio.adm.elements import DirectSpeakerPolarPosition

    def b(x):
        return "%d %s %s" % (to_k(x.value), opt(to_k(x.min)), opt(to_k(x.max)))

    s = p.screenEdgeLock
    lock = "%s %s" % ("~" if s.horizontal is None else enc(s.horizontal), "~" if s.vertical is None else enc(s.vertical))
    if isinstance(p, DirectSpeakerPolarPosition):
        return "P %s %s %s %s" % (b(p.bounded_azimuth), b(p.bounded_elevation), b(p.bounded_distance), lock)
    return "C %s %s %s %s" % (b(p.bounded_X), b(p.bounded_Y), b(p.bounded_Z), lock)


def py_handler_to_xml(which, value):
    """value: freq (lo, hi); jump (flag, k); ds ('P'|'C', [(v, mn, mx)]*3, h, v). Returns the parent tree."""
    import types
    import lxml.etree as ET
    from ear.fileio.adm import xml as X
    from ear.fileio.adm.elements import (BoundCoordinate, DirectSpeakerCartesianPosition, DirectSpeakerPolarPosition,
                                         Frequency, JumpPosition, ScreenEdgeLock)

    fl = lambda k: None if k is None else k / 100000.0
    parent = ET.Element("parent")
    if which == "freq":
        X.frequency_to_xml(parent, types.SimpleNamespace(frequency=Frequency(lowPass=fl(value[0]), highPass=fl(value[1]))))
    elif which == "jump":
        il = None if value[1] is None else Fraction(value[1], 100000)
        X.jump_position_to_xml(parent, types.SimpleNamespace(jumpPosition=JumpPosition(flag=value[0], interpolationLength=il)))
    else:
        kind, bs, h, v = value
        bc = [BoundCoordinate(value=fl(a), min=fl(mn), max=fl(mx)) for a, mn, mx in bs]
        sel = ScreenEdgeLock(horizontal=h, vertical=v)
        if kind == "P":
            pos = DirectSpeakerPolarPosition(bounded_azimuth=bc[0], bounded_elevation=bc[1], bounded_distance=bc[2],
                                             screenEdgeLock=sel)
        else:
            pos = DirectSpeakerCartesianPosition(bounded_X=bc[0], bounded_Y=bc[1], bounded_Z=bc[2], screenEdgeLock=sel)
        X.speaker_position_to_xml(parent, types.SimpleNamespace(position=pos))
    return from_lxml(parent)


def handler_value_line(which, value):
    if which == "freq":
        return "hx freq %s %s" % (opt(value[0]), opt(value[1]))
    if which == "jump":
        return "hx jump %d %s" % (1 if value[0] else 0, opt(value[1]))
    kind, bs, h, v = value
    return "hx ds %s %s %s %s" % (kind, " ".join("%d %s %s" % (a, opt(mn), opt(mx)) for a, mn, mx in bs),
                                  "~" if h is None else enc(h), "~" if v is None else enc(v))


def gen_handler_values(rng, n):
    out = []
    ok = lambda lo, hi: rng.choice([None, rng.randint(lo, hi)])
    for _ in range(n):
        out.append(("freq", (ok(0, 2 * 10 ** 7), ok(0, 2 * 10 ** 7))))
        out.append(("jump", (rng.random() < 0.7, rng.choice([None, 0, 1, 512, rng.randint(0, 10 ** 7)]))))
        kind = rng.choice("PC")
        rngs = [(-18000000, 18000000), (-9000000, 9000000), (0, 200000)] if kind == "P" else [(-100000, 100000)] * 3
        bs = []
        for lo, hi in rngs:
            bs.append((rng.randint(lo, hi), ok(lo, hi) if rng.random() < 0.5 else None,
                       ok(lo, hi) if rng.random() < 0.5 else None))
        if kind == "P" and rng.random() < 0.4:
            bs[2] = (100000, None, None)  # the default distance, elided on output
        h = rng.choice([None, None, "left", "right"])
        v = rng.choice([None, None, "top", "bottom"])
        if rng.random() < 0.05:
            h, v = rng.choice([("top", None), (None, "left"), ("x", None)])  # invalid locks: written, refused on parse
        out.append(("ds", (kind, bs, h, v)))
    return out


def gen_handler_trees(rng, n):
    """synthetic children for the three handlers: valid, duplicated, malformed"""
    out = []
    nsr = lambda: rng.choice([DEFAULT_NS, DEFAULT_NS, DEFAULT_NS, None, "urn:ebu:metadata-schema:ebuCore_2014"])
    num = lambda: rng.choice([grid(rng.randint(-2 * 10 ** 7, 2 * 10 ** 7)), grid(0), "x", ""]) if rng.random() < 0.06 \
        else grid(rng.randint(-2 * 10 ** 7, 2 * 10 ** 7))
    for _ in range(n):
        kids = []
        for _ in range(rng.choice([0, 1, 1, 2, 2, 3])):
            a = []
            if rng.random() < 0.9:
                a.append(("typeDefinition", rng.choice(["lowPass", "highPass", "lowPass", "highPass", "bandPass", ""])))
            kids.append((DEFAULT_NS, "frequency", a, num(), []))
        out.append(("freq", ("~", "parent", [], "", kids)))
        kids = []
        for _ in range(rng.choice([0, 1, 1, 1, 2])):
            a = []
            if rng.random() < 0.5:
                a.append(("interpolationLength", num()))
            if rng.random() < 0.1:
                a.append(("other", "1"))
            kids.append((DEFAULT_NS, "jumpPosition", a, rng.choice(["0", "1", "1", "1", "2", ""]), []))
        out.append(("jump", ("~", "parent", [], "", kids)))
        kids = []
        coords = rng.choice([["azimuth", "elevation"], ["azimuth", "elevation", "distance"], ["X", "Y"], ["X", "Y", "Z"],
                             ["azimuth", "elevation", "distance"], ["X", "Y", "Z"], ["azimuth"], ["azimuth", "X", "Y"],
                             ["azimuth", "elevation", "Z"], []])
        for c in coords:
            bounds = [None] + [b for b in ("min", "max") if rng.random() < 0.4]
            if rng.random() < 0.03:
                bounds.append(rng.choice(["value", "mid", "min"]))
            if rng.random() < 0.03:
                bounds.remove(None)
            for b in bounds:
                a = [("coordinate", c)] if rng.random() < 0.98 else []
                if b is not None:
                    a.append(("bound", b))
                if rng.random() < 0.04:
                    a.append(("screenEdgeLock", rng.choice(["left", "right", "top", "bottom", "x"])))
                elif b is None and rng.random() < 0.3 and c in ("azimuth", "X", "elevation", "Z"):
                    a.append(("screenEdgeLock", rng.choice(["left", "right"] if c in ("azimuth", "X") else ["top", "bottom"])))
                kids.append((nsr(), "position", a, num(), []))
        if rng.random() < 0.3:
            rng.shuffle(kids)
        out.append(("ds", ("~", "parent", [], "", kids)))
    return out


# ---------------------------------------------------------------------------------------------
# round 3: Objects position, gain, channelLock, objectDivergence, zoneExclusion


def _ns(**kw):
    import types
    return types.SimpleNamespace(**kw)


def _fl(k):
    return None if k is None else k / 100000.0


def gain_token(kw):
    """python result of a gain handler -> ('~' | ('L', float))"""
    return "~" if "gain" not in kw else kw["gain"]


def gain_matches(model, py):
    """model 'L k' / 'D k' / '~' / 'E' vs python float / '~' / 'E' (dB: 10 ** (g / 20), not on the grid)"""
    if model in ("~", "E") or py in ("~", "E"):
        return model == py
    kind, k = model.split()
    k = int(k)
    if kind == "L":
        return py == k / 100000.0
    want = 10 ** ((k / 100000.0) / 20.0)
    return abs(py - want) <= 1e-12 * max(1.0, abs(want))


def py2_parse(which, tree):
    from ear.fileio.adm import xml as X
    from ear.fileio.adm.elements import ObjectPolarPosition

    el = to_lxml(tree)
    try:
        with warnings.catch_warnings():
            warnings.simplefilter("ignore")
            if which == "opos":
                p = X.parse_objects_position(el)
                s = p.screenEdgeLock
                lock = "%s %s" % ("~" if s.horizontal is None else enc(s.horizontal),
                                  "~" if s.vertical is None else enc(s.vertical))
                if isinstance(p, ObjectPolarPosition):
                    return "P %d %d %d %s" % (to_k(p.azimuth), to_k(p.elevation), to_k(p.distance), lock)
                return "C %d %d %d %s" % (to_k(p.X), to_k(p.Y), to_k(p.Z), lock)
            if which in ("gain1", "gain2"):
                kw = {}
                h = X.handle_gain_element_v1 if which == "gain1" else X.handle_gain_element_v2
                for c in el:
                    h(kw, c)
                return gain_token(kw)
            if which in ("gattr1", "gattr2"):
                kw = {}
                (X.handle_gain_attribute_v1 if which == "gattr1" else X.handle_gain_attribute_v2)(kw, el)
                return gain_token(kw)
            if which == "clock":
                kw = {}
                for c in el:
                    X.handle_channel_lock(kw, c)
                c = kw.get("channelLock")
                return "~" if c is None else "1 %s" % opt(to_k(c.maxDistance))
            if which == "div":
                kw = {}
                for c in el:
                    X.handle_divergence(kw, c)
                d = kw.get("objectDivergence")
                return "~" if d is None else "%d %s %s" % (to_k(d.value), opt(to_k(d.azimuthRange)), opt(to_k(d.positionRange)))
            if which == "zones":
                kw = {}
                h = X.zone_exclusion_handler.as_handler("zoneExclusion", default=[])
                for c in el:
                    h.handler(kw, c)
                if "zoneExclusion" not in kw:
                    return "~"
                return zones_value(kw["zoneExclusion"])
    except Exception:
        return "E"


def zones_value(zs):
    from ear.fileio.adm.elements import CartesianZone

    out = ["Z %d" % len(zs)]
    for z in zs:
        if isinstance(z, CartesianZone):
            out.append("C %d %d %d %d %d %d" % tuple(to_k(x) for x in (z.minX, z.minY, z.minZ, z.maxX, z.maxY, z.maxZ)))
        else:
            out.append("P %d %d %d %d" % tuple(to_k(x) for x in (z.minElevation, z.maxElevation, z.minAzimuth, z.maxAzimuth)))
    return " ".join(out)


def py2_to_xml(which, value):
    import lxml.etree as ET
    from ear.fileio.adm import xml as X
    from ear.fileio.adm.elements import (CartesianZone, ChannelLock, ObjectCartesianPosition, ObjectDivergence,
                                         ObjectPolarPosition, PolarZone, ScreenEdgeLock)

    parent = ET.Element("parent")
    if which == "opos":
        kind, a, b, c, h, v = value
        sel = ScreenEdgeLock(horizontal=h, vertical=v)
        pos = ObjectPolarPosition(azimuth=_fl(a), elevation=_fl(b), distance=_fl(c), screenEdgeLock=sel) if kind == "P" \
            else ObjectCartesianPosition(X=_fl(a), Y=_fl(b), Z=_fl(c), screenEdgeLock=sel)
        X.object_position_to_xml(parent, _ns(position=pos))
    elif which == "gain":
        X.gain_to_xml(parent, _ns(gain=_fl(value)))
    elif which == "ogain":
        X.optional_gain_to_xml(parent, _ns(gain=_fl(value)))
    elif which == "gattr":
        X.gain_attribute_to_xml(parent, _ns(gain=_fl(value)))
    elif which == "clock":
        X.channel_lock_to_xml(parent, _ns(channelLock=None if value is None else ChannelLock(maxDistance=_fl(value[0]))))
    elif which == "div":
        d = None if value is None else ObjectDivergence(value=_fl(value[0]), azimuthRange=_fl(value[1]), positionRange=_fl(value[2]))
        X.divergence_to_xml(parent, _ns(objectDivergence=d))
    elif which == "zones":
        zs = [CartesianZone(**dict(zip(("minX", "minY", "minZ", "maxX", "maxY", "maxZ"), map(_fl, z[1:])))) if z[0] == "C"
              else PolarZone(**dict(zip(("minElevation", "maxElevation", "minAzimuth", "maxAzimuth"), map(_fl, z[1:]))))
              for z in value]
        X.zone_exclusion_handler.as_handler("zoneExclusion", default=[]).to_xml(parent, _ns(zoneExclusion=zs))
    return from_lxml(parent)


def value2_line(which, value):
    if which == "opos":
        kind, a, b, c, h, v = value
        return "hx opos %s %d %d %d %s %s" % (kind, a, b, c, "~" if h is None else enc(h), "~" if v is None else enc(v))
    if which == "gain":
        return "hx gain %d" % value
    if which in ("ogain", "gattr"):
        return "hx %s %s" % (which, opt(value))
    if which == "clock":
        return "hx clock ~" if value is None else "hx clock 1 %s" % opt(value[0])
    if which == "div":
        return "hx div ~" if value is None else "hx div %d %s %s" % (value[0], opt(value[1]), opt(value[2]))
    if which == "zones":
        return "hx zones " + " ".join("%s %s" % (z[0], " ".join(map(str, z[1:]))) for z in value)


def expected2(which, value):
    """what parsing the written XML must give back (direct predicate on the real code), or None if the value
    is outside the stated domain"""
    if which == "opos":
        kind, a, b, c, h, v = value
        if h not in (None, "left", "right") or v not in (None, "top", "bottom"):
            return None
        return ("opos", "%s %d %d %d %s %s" % (kind, a, b, c, "~" if h is None else enc(h), "~" if v is None else enc(v)))
    if which == "gain":
        return ("gain2", "~" if value == 100000 else value / 100000.0)
    if which == "ogain":
        return ("gain2", "~" if value is None else value / 100000.0)
    if which == "gattr":
        return ("gattr2", "~" if value is None else value / 100000.0)
    if which == "clock":
        return ("clock", "~" if value is None else "1 %s" % opt(value[0]))
    if which == "div":
        return ("div", "~" if value is None else "%d %s %s" % (value[0], opt(value[1]), opt(value[2])))
    if which == "zones":
        return ("zones", "~" if not value else " ".join(["Z %d" % len(value)] + ["%s %s" % (z[0], " ".join(map(str, z[1:]))) for z in value]))


def gen_values2(rng, n):
    out = []
    o = lambda lo, hi, p=0.5: rng.randint(lo, hi) if rng.random() < p else None
    for _ in range(n):
        kind = rng.choice("PC")
        if kind == "P":
            a, b, c = rng.randint(-18000000, 18000000), rng.randint(-9000000, 9000000), rng.choice([100000, 0, rng.randint(0, 300000)])
        else:
            a, b, c = rng.randint(-100000, 100000), rng.randint(-100000, 100000), rng.choice([0, 0, rng.randint(-100000, 100000)])
        h = rng.choice([None, None, "left", "right"]); v = rng.choice([None, None, "top", "bottom"])
        if rng.random() < 0.04:
            h = rng.choice(["top", "x"])
        out.append(("opos", (kind, a, b, c, h, v)))
        out.append(("gain", rng.choice([100000, 0, 50000, rng.randint(0, 400000)])))
        out.append(("ogain", rng.choice([None, 100000, rng.randint(0, 400000)])))
        out.append(("gattr", rng.choice([None, 100000, rng.randint(-200000, 200000)])))
        out.append(("clock", rng.choice([None, (None,), (rng.randint(0, 200000),)])))
        out.append(("div", None if rng.random() < 0.2 else (rng.randint(0, 100000), o(0, 18000000), o(0, 100000))))
        zs = []
        for _ in range(rng.choice([0, 1, 1, 2, 3])):
            if rng.random() < 0.5:
                zs.append(("C",) + tuple(rng.randint(-100000, 100000) for _ in range(6)))
            else:
                zs.append(("P", rng.randint(-9000000, 9000000), rng.randint(-9000000, 9000000),
                           rng.randint(-18000000, 18000000), rng.randint(-18000000, 18000000)))
        out.append(("zones", zs))
    return out


def gen_trees2(rng, n):
    """synthetic children for the handlers of round 3 (valid, duplicated, malformed)"""
    out = []
    bad = lambda p=0.05: rng.random() < p
    num = lambda lo=-2 * 10 ** 7, hi=2 * 10 ** 7: rng.choice(["x", "", grid(0)]) if bad() else grid(rng.randint(lo, hi))
    for _ in range(n):
        # Objects position
        coords = rng.choice([["azimuth", "elevation"], ["azimuth", "elevation", "distance"], ["X", "Y"], ["X", "Y", "Z"],
                             ["azimuth", "elevation", "distance"], ["X", "Y", "Z"], ["azimuth"], ["X", "Y", "azimuth"], []])
        kids = []
        for c in coords:
            a = [("coordinate", c)] if not bad(0.02) else []
            if rng.random() < 0.3 and c in ("azimuth", "X", "elevation", "Z"):
                a.append(("screenEdgeLock", rng.choice(["left", "right"] if c in ("azimuth", "X") else ["top", "bottom"])))
            elif bad(0.04):
                a.append(("screenEdgeLock", rng.choice(["left", "top", "x"])))
            if bad(0.05):
                a.append(("bound", "max"))
            lo, hi = {"azimuth": (-19000000, 19000000), "elevation": (-9500000, 9500000), "distance": (-10000, 300000)}.get(c, (-150000, 150000))
            kids.append((rng.choice([DEFAULT_NS, DEFAULT_NS, DEFAULT_NS, None]), "position", a, num(lo, hi), []))
        if bad(0.06) and kids:
            kids.append(kids[0])
        out.append(("opos", (None, "parent", [], "", kids)))
        # gain elements (both versions)
        kids = []
        for _ in range(rng.choice([0, 1, 1, 1, 2])):
            a = [("gainUnit", rng.choice(["linear", "dB", "dB", "db", ""]))] if rng.random() < 0.4 else []
            kids.append((DEFAULT_NS, "gain", a, num(-4000000, 4000000), []))
        out.append((rng.choice(["gain1", "gain2"]), (None, "parent", [], "", kids)))
        # gain attribute
        a = []
        if rng.random() < 0.7:
            a.append(("gain", num(-4000000, 4000000)))
        if rng.random() < 0.4:
            a.append(("gainUnit", rng.choice(["linear", "dB", "x"])))
        if rng.random() < 0.3:
            a.append(("phase", "1.00000"))
        rng.shuffle(a)
        out.append((rng.choice(["gattr1", "gattr2"]), (None, "coefficient", a, "AC_00010001", [])))
        # channelLock
        kids = []
        for _ in range(rng.choice([0, 1, 1, 1, 2])):
            a = [("maxDistance", num(0, 200000))] if rng.random() < 0.5 else []
            kids.append((DEFAULT_NS, "channelLock", a, rng.choice(["1", "1", "1", "0", "2", ""]), []))
        out.append(("clock", (None, "parent", [], "", kids)))
        # objectDivergence
        kids = []
        for _ in range(rng.choice([0, 1, 1, 1, 2])):
            a = []
            if rng.random() < 0.5: a.append(("azimuthRange", num(0, 18000000)))
            if rng.random() < 0.5: a.append(("positionRange", num(0, 100000)))
            kids.append((DEFAULT_NS, "objectDivergence", a, num(0, 100000), []))
        out.append(("div", (None, "parent", [], "", kids)))
        # zoneExclusion
        kids = []
        for _ in range(rng.choice([0, 1, 1, 1, 2])):
            zk = []
            for _ in range(rng.choice([0, 1, 2, 3])):
                keys = list(rng.choice([["minX", "minY", "minZ", "maxX", "maxY", "maxZ"],
                                        ["minAzimuth", "maxAzimuth", "minElevation", "maxElevation"]]))
                if bad(0.06): keys.pop()
                if bad(0.06): keys.append(rng.choice(["minX", "minAzimuth", "other"]))
                keys = list(dict.fromkeys(keys))  # attribute names are unique in XML
                rng.shuffle(keys)
                zk.append((rng.choice([DEFAULT_NS, DEFAULT_NS, None, "urn:unknown"]),
                           rng.choice(["zone", "zone", "zone", "notzone"]), [(k, num(-100000, 100000)) for k in keys], "", []))
            kids.append((DEFAULT_NS, "zoneExclusion", [], "", zk))
        out.append(("zones", (None, "parent", [], "", kids)))
    return out
