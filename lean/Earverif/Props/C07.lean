/-
C07 — Track-to-pack allocation is sound, complete and duplicate-free.

Property theorems about the model `Earverif/Model/PackAlloc.lean` of
`ear.core.select_items.pack_allocation`.  Long helper proofs: `Proofs/C07Sound.lean`.

Proved here for all inputs:
* `alloc_sound`               every yielded solution meets every docstring requirement;
* `allocImpl_fuel_sufficient` the recursion bound of the model is enough (termination);
* `select_accepted_valid`, `select_conflicting_iff`, `select_ambiguous_iff`
                              what `select_pack_mapping` decides, in terms of the yielded list.

* `alloc_complete`            for well-formed problems every valid allocation is yielded up
                              to `≈` (pruning, `obvious` step, silent-track rules lose nothing);
* `alloc_incomplete_without_WF` the excluded point (a pack listing a channel format twice);
* `select_conflicting_iff_none_valid`, `select_accepted_unique`, `accept_iff_unique_partial`.

* `alloc_nodup`               for well-formed problems no two yielded solutions are `≈`;
* `alloc_dup_same_pack_twice`, `alloc_dup_same_track_twice` the excluded points of `alloc_nodup`;
* `accept_iff_unique`         accepted ⇔ exactly one `≈`-class of valid allocations,
                              Conflicting ⇔ none, Ambiguous ⇔ at least two inequivalent ones.

Where the hypothesis `WF` comes from for the problems that item selection builds (`_PackAllocator`):
derived in `Props/C06.lean` — `Earverif.Adm.allocWF0_of_multitree` (from `multitreeOK`, the success condition
of `_validate_pack_channel_multitree`: `cf_nodup`; `packs_nodup`/`tracks_nodup` by construction) and
`allocWF_of_multitree` (adds `wrappedNonempty` for `WF.nonempty`, which `validate_structure` does NOT
establish); over C14's validation model in `Proofs/C14Alloc.lean` (`Validate.allocProblem_wf`,
`allocProblem_wf_dropEmpty`).  Packs without channels are never allocated
(`Proofs/C14Empty.lean: selectPackMapping_dropEmpty`), so both apply the theorems below to `dropEmpty prob`.
-/
import Earverif.Model.PackAlloc
import Earverif.Proofs.C07Sound
import Earverif.Proofs.C07Complete
import Earverif.Proofs.C07Nodup

namespace Earverif.PackAlloc
open List

theorem flatMap_congr' {α β : Type} {f g : α → List β} : ∀ {l : List α},
    (∀ a ∈ l, f a = g a) → l.flatMap f = l.flatMap g
  | [], _ => rfl
  | a :: l, h => by
    rw [flatMap_cons, flatMap_cons, h a (by simp), flatMap_congr' (fun b hb => h b (by simp [hb]))]

/-- Termination: the `fuel` that cuts the mutual recursion
`_allocate_packs_impl` ↔ `_allocate_packs_impl_obvious` never runs out when it is at
least `len(tracks) + 1`; any two such values give the same list of solutions. -/
theorem allocImpl_fuel_irrelevant : ∀ (f1 f2 : Nat) (packs : List Pack) (tracks : List TrackRef)
    (refs : Option (List Nat)) (partialSol : Sol),
    tracks.length + 1 ≤ f1 → tracks.length + 1 ≤ f2 →
    allocImpl f1 packs tracks refs partialSol = allocImpl f2 packs tracks refs partialSol
  | 0, _, _, _, _, _, h1, _ => by omega
  | _ + 1, 0, _, _, _, _, _, h2 => by omega
  | n + 1, m + 1, packs, [], refs, partialSol, _, _ => by simp [allocImpl]
  | n + 1, m + 1, packs, track :: rest, refs, partialSol, h1, h2 => by
    simp only [allocImpl]
    split
    · rfl
    · apply flatMap_congr'
      intro c _
      obtain ⟨np, rp, rr⟩ := c
      simp only [allocObviousWith]
      split
      · rfl
      · rename_i np' tracks' hob
        have hl := (obviousPacks_spec [] np rest np' tracks' hob).2.2.1
        simp only [length_cons] at h1 h2
        exact allocImpl_fuel_irrelevant n m rp tracks' rr np' (by omega) (by omega)

theorem allocImpl_fuel_sufficient (fuel : Nat) (packs : List Pack) (tracks : List TrackRef)
    (refs : Option (List Nat)) (partialSol : Sol) (h : tracks.length + 1 ≤ fuel) :
    allocImpl fuel packs tracks refs partialSol =
      allocImpl (tracks.length + 1) packs tracks refs partialSol :=
  allocImpl_fuel_irrelevant _ _ _ _ _ _ h (Nat.le_refl _)

/-- With enough fuel `allocImpl` satisfies the recursion equation of
`_allocate_packs_impl`, whose recursive call is `_allocate_packs_impl_obvious`
(`allocObvious`, itself defined with enough fuel). -/
theorem allocImpl_cons_eq (fuel : Nat) (packs : List Pack) (track : TrackRef) (rest : List TrackRef)
    (refs : Option (List Nat)) (partialSol : Sol) (h : rest.length + 2 ≤ fuel) :
    allocImpl fuel packs (track :: rest) refs partialSol =
      if (track :: rest).length < countEmpty partialSol then []
      else
        (candidatePartialSolutions track
          (packs.filter (couldPossiblyAllocate (track :: rest) refs (countEmpty partialSol)))
          refs partialSol).flatMap fun c => allocObvious c.2.1 rest c.2.2 c.1 := by
  obtain ⟨n, rfl⟩ : ∃ n, fuel = n + 1 := ⟨fuel - 1, by omega⟩
  simp only [allocImpl]
  split
  · rfl
  · apply flatMap_congr'
    intro c _
    obtain ⟨np, rp, rr⟩ := c
    simp only [allocObvious, allocObviousWith]
    split
    · rfl
    · rename_i np' tracks' hob
      have hl := (obviousPacks_spec [] np rest np' tracks' hob).2.2.1
      exact allocImpl_fuel_irrelevant _ _ _ _ _ _ (by omega) (by omega)

/-- **C07 (soundness).** Every solution yielded by `allocate_packs` meets all the
requirements of its docstring — for every problem, without any well-formedness
hypothesis. -/
theorem alloc_sound (prob : Problem) (sol : Sol) (h : sol ∈ allocatePacks prob) : Valid prob sol := by
  unfold allocatePacks at h
  have hs := allocImpl_sound prob.packs _ prob.packs (tracksIncSilent prob) prob.packRefs [] sol
    (fun _ hp => hp) (fun _ ha => by cases ha) h
  obtain ⟨hg, hc, hf, hr⟩ := hs
  simp only [filled_nil, nil_append] at hf
  refine ⟨fun a ha => (hg a ha).1, fun a ha => (hg a ha).2.1, hc, ?_, ?_, ?_, ?_⟩
  · have := hf.filterMap id
    rw [tracksIncSilent_realTracks] at this
    exact this
  · have := hf.count_eq none
    rw [tracksIncSilent_count] at this
    exact this
  · intro cs hcs t ht
    simp only [slots, mem_flatMap] at hcs
    obtain ⟨a, ha, hcs⟩ := hcs
    exact (isCompatible_some t cs.1).1 ((hg a ha).2.2 cs hcs t ht)
  · cases hrefs : prob.packRefs with
    | none => trivial
    | some r =>
      rw [hrefs] at hr
      simpa [RefsAcc, roots, RefsOK] using hr

/-- `select_pack_mapping` accepts only a `Valid` allocation. -/
theorem select_accepted_valid (prob : Problem) (sol : Sol)
    (h : selectPackMapping prob = .accepted sol) : Valid prob sol := by
  unfold selectPackMapping at h
  split at h
  · cases h
  · rename_i s hs
    cases h
    exact alloc_sound prob sol (by rw [hs]; simp)
  · cases h

/-- "Conflicting" is reported exactly when nothing is yielded. -/
theorem select_conflicting_iff (prob : Problem) :
    selectPackMapping prob = .conflicting ↔ allocatePacks prob = [] := by
  unfold selectPackMapping
  split <;> simp_all

/-- "Ambiguous" is reported exactly when at least two solutions are yielded (the code
probes two). -/
theorem select_ambiguous_iff (prob : Problem) :
    selectPackMapping prob = .ambiguous ↔ 2 ≤ (allocatePacks prob).length := by
  unfold selectPackMapping
  split <;> simp_all

/-! ## Completeness -/

theorem perm_reals_silents {α : Type} [DecidableEq α] : ∀ (l : List (Option α)),
    l ~ (l.filterMap id).map some ++ replicate (l.count none) none
  | [] => by simp
  | none :: l => by
    have ih := perm_reals_silents l
    simp only [filterMap_cons_none, id, count_cons_self, replicate_succ]
    exact (Perm.cons none ih).trans perm_middle.symm
  | some a :: l => by
    have ih := perm_reals_silents l
    have hc : count none (some a :: l) = count none l := by
      rw [count_cons]; simp
    rw [hc]
    have e : filterMap id (some a :: l) = a :: filterMap id l := by simp
    rw [e, map_cons, cons_append]
    exact Perm.cons _ ih

theorem silentLast_tracksIncSilent (prob : Problem) : SilentLast (tracksIncSilent prob) := by
  simp only [SilentLast, tracksIncSilent, pairwise_append]
  refine ⟨?_, ?_, ?_⟩
  · simp only [pairwise_map]
    exact pairwise_of_forall (fun _ _ h => by cases h)
  · exact pairwise_of_forall_mem_list (fun _ _ _ hb _ => (mem_replicate.1 hb).2)
  · intro a _ b hb _
    exact (mem_replicate.1 hb).2

/-- The search starts inside the invariant of `Proofs/C07Complete.lean`, whatever the
valid target. -/
theorem inv_initial (prob : Problem) (sol : Sol) (hwf : WF prob) (hv : Valid prob sol) :
    Inv prob.packs (tracksIncSilent prob) prob.packRefs [] [] sol := by
  refine ⟨by simp [Fills], ?_, (fun _ h => by cases h), ?_, ?_, ?_, silentLast_tracksIncSilent prob⟩
  · intro e he
    refine ⟨hv.packs_mem e he, hv.channels e he, ?_⟩
    intro hnil
    have := hv.channels e he
    rw [hnil] at this
    exact hwf.nonempty _ (hv.packs_mem e he) this.symm
  · intro a ha
    constructor
    · intro cs hcs
      have hmem : cs ∈ slots sol := by
        simp only [slots, mem_flatMap]; exact ⟨a, ha, hcs⟩
      have hne := hv.complete cs hmem
      cases hs : cs.2 with
      | none => exact absurd hs hne
      | some x =>
        refine ⟨x, rfl, ?_⟩
        cases x with
        | none => rfl
        | some t => exact (isCompatible_some t cs.1).2 (hv.compat cs hmem t hs)
    · have := hwf.cf_nodup _ (hv.packs_mem a ha)
      rw [← hv.channels a ha, map_map] at this
      exact this
  · simp only [newSol, nil_append]
    have h1 := perm_reals_silents (filled sol)
    have h2 : (filled sol).count none = prob.numSilent := hv.silent
    rw [h2] at h1
    exact h1.trans (Perm.append_right _ (Perm.map _ hv.tracks))
  · have := hv.refs
    cases hr : prob.packRefs with
    | none => trivial
    | some r =>
      rw [hr] at this
      exact this

/-- **C07 (completeness).** For a well-formed problem every allocation that meets the
docstring requirements is yielded, up to the order of the `AllocatedPack`s (silent tracks
being indistinguishable).  The pruning tests, the `obvious` step and the silent-track
rules lose nothing.  (Of `WF` only `nonempty` and `cf_nodup` are used.) -/
theorem alloc_complete (prob : Problem) (sol : Sol) (hwf : WF prob) (hv : Valid prob sol) :
    ∃ sol' ∈ allocatePacks prob, SolEquiv sol' sol := by
  obtain ⟨s, h1, h2⟩ := allocImpl_complete _ prob.packs (tracksIncSilent prob) prob.packRefs [] [] sol
    (Nat.le_refl _) (inv_initial prob sol hwf hv)
  exact ⟨s, h1, by simpa [SolEquiv] using h2⟩

/-- `WF` cannot be dropped: a pack that lists one channel format twice and two
interchangeable tracks has two valid allocations, the search yields one (an ambiguity is
missed; the real code behaves the same, see the harness). -/
def exDup : Problem := ⟨[⟨0, 10, [⟨1, [10]⟩, ⟨1, [10]⟩]⟩], [⟨0, 1, 10⟩, ⟨1, 1, 10⟩], none, 0⟩

theorem alloc_incomplete_without_WF :
    ¬ WF exDup ∧ (allocatePacks exDup).length = 1 ∧
    ∃ sol, Valid exDup sol ∧ ¬ ∃ sol' ∈ allocatePacks exDup, SolEquiv sol' sol := by
  refine ⟨by decide, by decide,
    [⟨⟨0, 10, [⟨1, [10]⟩, ⟨1, [10]⟩]⟩,
      [(⟨1, [10]⟩, some (some ⟨1, 1, 10⟩)), (⟨1, [10]⟩, some (some ⟨0, 1, 10⟩))]⟩], by decide, by decide⟩

/-! ## What `select_pack_mapping` decides, relative to the set of valid allocations -/

/-- "Conflicting" ⇔ no allocation satisfies the requirements. -/
theorem select_conflicting_iff_none_valid (prob : Problem) (hwf : WF prob) :
    selectPackMapping prob = .conflicting ↔ ¬ ∃ sol, Valid prob sol := by
  rw [select_conflicting_iff]
  constructor
  · intro h ⟨sol, hv⟩
    obtain ⟨s, hs, _⟩ := alloc_complete prob sol hwf hv
    rw [h] at hs
    cases hs
  · intro h
    cases hl : allocatePacks prob with
    | nil => rfl
    | cons s tl => exact absurd ⟨s, alloc_sound prob s (by rw [hl]; simp)⟩ h

/-- Accepted ⇒ the accepted allocation is valid and every valid allocation is `≈` to it. -/
theorem select_accepted_unique (prob : Problem) (hwf : WF prob) (s : Sol)
    (h : selectPackMapping prob = .accepted s) :
    Valid prob s ∧ ∀ sol, Valid prob sol → SolEquiv s sol := by
  refine ⟨select_accepted_valid prob s h, ?_⟩
  intro sol hv
  obtain ⟨s', hs', he⟩ := alloc_complete prob sol hwf hv
  unfold selectPackMapping at h
  split at h
  · cases h
  · rename_i s0 hl
    cases h
    rw [hl] at hs'
    simp only [mem_singleton] at hs'
    subst hs'
    exact he
  · cases h

/-- Two inequivalent valid allocations ⇒ "Ambiguous" (needs only completeness). -/
theorem accept_iff_unique_partial (prob : Problem) (hwf : WF prob) (s1 s2 : Sol)
    (h1 : Valid prob s1) (h2 : Valid prob s2) (hne : ¬ SolEquiv s1 s2) :
    selectPackMapping prob = .ambiguous := by
  cases hsel : selectPackMapping prob with
  | ambiguous => rfl
  | conflicting =>
    exact absurd ⟨s1, h1⟩ ((select_conflicting_iff_none_valid prob hwf).1 hsel)
  | accepted s =>
    obtain ⟨_, hu⟩ := select_accepted_unique prob hwf s hsel
    exact absurd ((hu s1 h1).symm.trans (hu s2 h2)) hne

/-! ## No duplicates -/

/-- **C07 (no duplicates).** For a well-formed problem no two yielded solutions are `≈`:
the branches of the search are disjoint and the silent-track rules (`obvious` filling,
first gap, `packs[pack_i:]`) keep one representative per class.  (Of `WF` only
`packs_nodup` and `tracks_nodup` are used: distinct `AllocationPack` objects, distinct
`AllocationTrack` objects.) -/
theorem alloc_nodup (prob : Problem) (hwf : WF prob) :
    (allocatePacks prob).Pairwise (fun a b => ¬ SolEquiv a b) := by
  unfold allocatePacks SolEquiv
  apply allocImpl_nodup prob.packs
  refine ⟨fun _ hp => hp, (fun _ ha => by cases ha), hwf.packs_nodup, ?_,
    silentLast_tracksIncSilent prob, Or.inr (fun _ ha => by cases ha)⟩
  rw [filled_nil, nil_append, tracksIncSilent_realTracks]
  exact hwf.tracks_nodup

/-- The two identity hypotheses cannot be dropped (what happens in the model — and, as
the harness records, in the real code — when the same object is listed twice). -/
theorem alloc_dup_same_pack_twice :
    let p : Pack := ⟨0, 10, [⟨1, [10]⟩]⟩
    let prob : Problem := ⟨[p, p], [], none, 1⟩
    ¬ WF prob ∧ allocatePacks prob = [[⟨p, [(⟨1, [10]⟩, some none)]⟩], [⟨p, [(⟨1, [10]⟩, some none)]⟩]] := by
  decide

theorem alloc_dup_same_track_twice :
    let t : Track := ⟨0, 1, 10⟩
    let prob : Problem := ⟨[⟨0, 10, [⟨1, [10]⟩]⟩, ⟨1, 10, [⟨1, [10]⟩]⟩], [t, t], none, 0⟩
    ¬ WF prob ∧ ¬ (allocatePacks prob).Pairwise (fun a b => ¬ SolEquiv a b) := by
  decide

/-! ## `accept_iff_unique` -/

theorem pairwise_not_perm_le_one {l : List Sol} (hp : l.Pairwise (fun a b => ¬ SolEquiv a b))
    (s : Sol) (hall : ∀ x ∈ l, SolEquiv s x) : l.length ≤ 1 := by
  match l, hp, hall with
  | [], _, _ => simp
  | [_], _, _ => simp
  | a :: b :: tl, hp, hall =>
    exfalso
    have := (pairwise_cons.1 hp).1 b (by simp)
    exact this ((hall a (by simp)).symm.trans (hall b (by simp)))

/-- "Ambiguous" ⇔ at least two inequivalent allocations satisfy the requirements. -/
theorem select_ambiguous_iff_two_valid (prob : Problem) (hwf : WF prob) :
    selectPackMapping prob = .ambiguous ↔
      ∃ s1 s2, Valid prob s1 ∧ Valid prob s2 ∧ ¬ SolEquiv s1 s2 := by
  constructor
  · intro h
    have hnd := alloc_nodup prob hwf
    unfold selectPackMapping at h
    split at h
    · cases h
    · cases h
    · rename_i a b tl hl
      rw [hl] at hnd
      refine ⟨a, b, alloc_sound prob a (by rw [hl]; simp), alloc_sound prob b (by rw [hl]; simp), ?_⟩
      exact (pairwise_cons.1 hnd).1 b (by simp)
  · rintro ⟨s1, s2, h1, h2, hne⟩
    exact accept_iff_unique_partial prob hwf s1 s2 h1 h2 hne

/-- Accepted ⇔ exactly one `≈`-class of allocations satisfies the requirements. -/
theorem select_accepted_iff_unique_valid (prob : Problem) (hwf : WF prob) :
    (∃ s, selectPackMapping prob = .accepted s) ↔
      ∃ s, Valid prob s ∧ ∀ sol, Valid prob sol → SolEquiv s sol := by
  constructor
  · rintro ⟨s, h⟩
    exact ⟨s, select_accepted_unique prob hwf s h⟩
  · rintro ⟨s, hv, hu⟩
    have hall : ∀ x ∈ allocatePacks prob, SolEquiv s x :=
      fun x hx => hu x (alloc_sound prob x hx)
    have hlen := pairwise_not_perm_le_one (alloc_nodup prob hwf) s hall
    obtain ⟨s', hs', _⟩ := alloc_complete prob s hwf hv
    unfold selectPackMapping
    match hl : allocatePacks prob with
    | [] => rw [hl] at hs'; cases hs'
    | [x] => exact ⟨x, rfl⟩
    | _ :: _ :: _ => rw [hl] at hlen; simp at hlen

/-- **C07 (`accept_iff_unique`).** For a well-formed problem `select_pack_mapping`
accepts exactly when one `≈`-class of allocations meets the requirements, reports
"Conflicting" exactly when none does, and "Ambiguous" exactly when at least two
inequivalent ones do. -/
theorem accept_iff_unique (prob : Problem) (hwf : WF prob) :
    ((∃ s, selectPackMapping prob = .accepted s) ↔
      ∃ s, Valid prob s ∧ ∀ sol, Valid prob sol → SolEquiv s sol) ∧
    (selectPackMapping prob = .conflicting ↔ ¬ ∃ sol, Valid prob sol) ∧
    (selectPackMapping prob = .ambiguous ↔
      ∃ s1 s2, Valid prob s1 ∧ Valid prob s2 ∧ ¬ SolEquiv s1 s2) :=
  ⟨select_accepted_iff_unique_valid prob hwf, select_conflicting_iff_none_valid prob hwf,
    select_ambiguous_iff_two_valid prob hwf⟩

/-! ## Non-vacuity

A concrete problem with a nested-pack alternative, pack references and a silent track:
pack 0 = root 10 with channels (cf 1 on path [10]) and (cf 2 on path [10, 11]);
pack 1 = the sub-pack 11 as its own root with channel cf 2; pack 2 = root 10 again with
another channel set (as for matrix packs).  Tracks: cf 1 referencing 10, cf 2
referencing 11.  `pack_refs = [10]`, no silent track: exactly one solution.  With one
silent track and `pack_refs = [11, 10]` the second track fits the nested channel of
pack 0 or the channel of pack 1 (ambiguous); with only the first track, one silent track
and `pack_refs = [10]` there is exactly one solution, using the silent track. -/

def exPacks : List Pack :=
  [⟨0, 10, [⟨1, [10]⟩, ⟨2, [10, 11]⟩]⟩, ⟨1, 11, [⟨2, [11]⟩]⟩, ⟨2, 10, [⟨3, [10]⟩]⟩]

def exTracks : List Track := [⟨0, 1, 10⟩, ⟨1, 2, 11⟩]

def exA : Problem := ⟨exPacks, exTracks, some [10], 0⟩
def exB : Problem := ⟨exPacks, exTracks, some [11, 10], 1⟩
def exD : Problem := ⟨exPacks, [⟨0, 1, 10⟩], some [10], 1⟩
def exC : Problem := ⟨exPacks, exTracks, none, 1⟩

example : WF exA := by decide
example : WF exB := by decide
example : allocatePacks exA =
    [[⟨exPacks[0], [(⟨1, [10]⟩, some (some ⟨0, 1, 10⟩)), (⟨2, [10, 11]⟩, some (some ⟨1, 2, 11⟩))]⟩]] := by
  decide
example : (allocatePacks exB).length = 2 := by decide  -- track 1 fits the nested channel of pack 0 or pack 1
example : selectPackMapping exB = .ambiguous := by decide
example : selectPackMapping exD =
    .accepted [⟨exPacks[0], [(⟨1, [10]⟩, some (some ⟨0, 1, 10⟩)), (⟨2, [10, 11]⟩, some none)]⟩] := by decide
example : selectPackMapping exC = .ambiguous := by decide
example : selectPackMapping ⟨exPacks, exTracks, some [11], 0⟩ = .conflicting := by decide
example : ∀ s ∈ allocatePacks exC, Valid exC s := by decide
example : (bruteForce exC).length = (allocatePacks exC).length := by decide

end Earverif.PackAlloc
