/-
Table rows → model properties: the key / argument lists of `ofRows` are computed from the strings of the
rows (so that the hypotheses `KeysOK` of `codec_roundtrip` are decided on the extracted tables), and the
concrete leaf codecs round-trip on their domains.
-/
import Mathlib.Tactic.SplitIfs
import Earverif.Model.XmlLeaf
import Earverif.Proofs.C08Codec
import Earverif.Proofs.C08Digits

namespace Earverif.XmlCodec
open Earverif.Digits

def rowAttrKeys (r : Row) : List String :=
  if r.kind = "Attribute" then [r.admName]
  else if r.kind = "TypeAttribute" then [r.admName, r.labelName] else []

def rowElemNames (r : Row) : List String :=
  if r.kind = "AttrElement" ∨ r.kind = "ListElement" ∨ r.kind = "CustomElement" then [r.admName] else []

def rowDeclArg? (r : Row) : Option String :=
  if r.kind = "Attribute" ∨ r.kind = "HandleText" ∨ r.kind = "TypeAttribute" then some r.argName
  else if r.kind = "AttrElement" ∨ r.kind = "ListElement" then (if r.parseOnly then none else some r.argName)
  else none

def rowIsText (r : Row) : Bool := r.kind == "HandleText"

/-- the key obligations, on the strings of the table -/
def rowsKeysOK (rows : List Row) : Bool :=
  decide (rows.flatMap rowAttrKeys).Nodup && decide (rows.flatMap rowElemNames).Nodup &&
  decide (rows.filterMap rowDeclArg?).Nodup && decide ((rows.filter rowIsText).length ≤ 1)

theorem attrKeys_ofRow (impl : Row → CustomImpl Leaf) (r : Row) : (ofRow impl r).attrKeys = rowAttrKeys r := by
  unfold ofRow ofRowG rowAttrKeys
  split_ifs <;> simp_all [Property.attrKeys]

theorem elemNames_ofRow (impl : Row → CustomImpl Leaf) (r : Row) : (ofRow impl r).elemNames = rowElemNames r := by
  unfold ofRow ofRowG rowElemNames
  split_ifs <;> simp_all [Property.elemNames]

theorem declArg_ofRow (impl : Row → CustomImpl Leaf) (r : Row) : (ofRow impl r).declArg? = rowDeclArg? r := by
  unfold ofRow ofRowG rowDeclArg?
  split_ifs <;> simp_all [Property.declArg?]

theorem textHandler_ofRow (impl : Row → CustomImpl Leaf) (r : Row) :
    ((ofRow impl r).textHandler?).isSome = rowIsText r := by
  unfold ofRow ofRowG rowIsText
  split_ifs <;> simp_all [Property.textHandler?]

theorem flatMap_map' {α β γ} (f : α → β) (g : β → List γ) (l : List α) :
    (l.map f).flatMap g = l.flatMap (fun x => g (f x)) := by
  induction l with
  | nil => rfl
  | cons x xs ih => simp [List.flatMap_cons, ih]

theorem keysOK_ofRows (impl : Row → CustomImpl Leaf) (rows : List Row) (h : rowsKeysOK rows = true)
    (hargs : (allArgs (ofRows impl rows)).Nodup) :
    KeysOK (ofRows impl rows) := by
  simp only [rowsKeysOK, Bool.and_eq_true, decide_eq_true_eq] at h
  obtain ⟨⟨⟨h1, h2⟩, _⟩, h4⟩ := h
  refine ⟨?_, ?_, ?_, ?_⟩
  · unfold ofRows; rw [flatMap_map']; simpa [attrKeys_ofRow] using h1
  · unfold ofRows; rw [flatMap_map']; simpa [elemNames_ofRow] using h2
  · exact hargs
  · unfold ofRows
    rw [List.filterMap_map]
    have hlen : ∀ l : List Row,
        (l.filterMap ((fun p : Property Leaf => p.textHandler?) ∘ ofRow impl)).length = (l.filter rowIsText).length := by
      intro l
      induction l with
      | nil => rfl
      | cons r rs ih =>
        have := textHandler_ofRow impl r
        rw [List.filterMap_cons, List.filter_cons]
        cases ht : (ofRow impl r).textHandler? with
        | none =>
          have hf : rowIsText r = false := by rw [← this, ht]; rfl
          simp [ht, hf, ih]
        | some t =>
          have hf : rowIsText r = true := by rw [← this, ht]; rfl
          simp [ht, hf, ih]
    rw [hlen]; exact h4

/-! ### the concrete codecs round-trip on their domains -/

theorem stringCodec_roundtrip (s : String) : stringCodec.loads (stringCodec.dumps (.str s)) = some (.str s) := rfl

theorem trackUIDRefCodec_roundtrip_none :
    trackUIDRefCodec.loads (trackUIDRefCodec.dumps .none) = some .none := by
  simp [trackUIDRefCodec]

/-- an audioTrackUID reference whose id is not the reserved one (guaranteed by `ids_not_reserved`) -/
theorem trackUIDRefCodec_roundtrip_str (s : String) (h : s ≠ "ATU_00000000") :
    trackUIDRefCodec.loads (trackUIDRefCodec.dumps (.str s)) = some (.str s) := by
  simp [trackUIDRefCodec, h]

theorem boolCodec_roundtrip (b : Bool) : boolCodec.loads (boolCodec.dumps (.bool b)) = some (.bool b) := by
  cases b <;> simp [boolCodec]

theorem allDec_decStr (n : Nat) : allDec (decStr n) = true := by
  unfold allDec
  simp only [Bool.and_eq_true, Bool.not_eq_true', List.all_eq_true]
  refine ⟨?_, decStr_all_dec n⟩
  cases h : decStr n with
  | nil => exact absurd h (decStr_ne_nil n)
  | cons c cs => rfl

theorem isDec_minus : isDec '-' = false := by decide

theorem decStr_head_ne_minus (n : Nat) : ∃ c cs, decStr n = c :: cs ∧ c ≠ '-' := by
  cases h : decStr n with
  | nil => exact absurd h (decStr_ne_nil n)
  | cons c cs =>
    refine ⟨c, cs, rfl, ?_⟩
    rintro rfl
    have := decStr_all_dec n '-' (by rw [h]; simp)
    rw [isDec_minus] at this; cases this

theorem loadsInt_dumpsInt (i : Int) : loadsInt (dumpsInt i) = some i := by
  unfold loadsInt dumpsInt
  by_cases hi : i < 0
  · simp only [hi, if_true, String.toList_ofList, allDec_decStr, decNat_decStr]
    congr 1; omega
  · simp only [hi, if_false, String.toList_ofList]
    obtain ⟨c, cs, hcs, hc⟩ := decStr_head_ne_minus i.natAbs
    have hall := allDec_decStr i.natAbs
    have hval := decNat_decStr i.natAbs
    rw [hcs] at hall hval ⊢
    split
    · rename_i ds heq; injection heq with h1 _; exact absurd h1 hc
    · simp only [hall, if_true, hval]
      congr 1; omega

theorem intCodec_roundtrip (i : Int) : intCodec.loads (intCodec.dumps (.int i)) = some (.int i) := by
  simp [intCodec, loadsInt_dumpsInt]

/-- `f"{n:0{w}d}"` has exactly `w` characters when the number fits -/
theorem decPad_length (w n : Nat) (hw : 1 ≤ w) (h : n < 10 ^ w) : (decPad w n).length = w := by
  unfold decPad
  rw [padLeft_length]
  have h1 : (decStr n).length ≤ w := by
    unfold decStr; rw [List.length_map]
    exact natDigits_length_le 8 w n hw (by simpa using h)
  omega

theorem isDec_dot' : isDec '.' = false := by decide

theorem loadsNumAbs_body (n : Nat) :
    loadsNumAbs (decStr (n / 100000) ++ '.' :: decPad 5 (n % 100000)) = some n := by
  unfold loadsNumAbs
  have hs := takeWhile_isDec (decStr (n / 100000)) ('.' :: decPad 5 (n % 100000)) (decStr_all_dec _)
    (Or.inr ⟨'.', _, rfl, isDec_dot'⟩)
  simp only [hs.1, hs.2]
  have hl : (decPad 5 (n % 100000)).length = 5 := decPad_length 5 _ (by omega) (by omega)
  have ha : (decPad 5 (n % 100000)).all isDec = true := by
    rw [List.all_eq_true]; exact decPad_all_dec 5 _
  have hne : (decStr (n / 100000)).isEmpty = false := by
    cases h : decStr (n / 100000) with
    | nil => exact absurd h (decStr_ne_nil _)
    | cons c cs => rfl
  simp only [hne, hl, ha, decNat_decStr, decNat_decPad, Bool.not_false, Bool.and_self, decide_true, if_true]
  congr 1
  have := Nat.div_add_mod n 100000
  omega

theorem loadsNum_dumpsNum (k : Int) : loadsNum (dumpsNum k) = some k := by
  unfold loadsNum dumpsNum
  by_cases hk : k < 0
  · simp only [hk, if_true, String.toList_ofList, loadsNumAbs_body]
    congr 1; simp only [Int.ofNat_eq_natCast]; omega
  · simp only [hk, if_false, String.toList_ofList]
    obtain ⟨c, cs, hcs, hc⟩ := decStr_head_ne_minus (k.natAbs / 100000)
    have := loadsNumAbs_body k.natAbs
    rw [hcs] at this ⊢
    simp only [List.cons_append] at this ⊢
    split
    · rename_i ds heq; injection heq with h1 _; exact absurd h1 hc
    · simp only [this]
      congr 1; simp only [Int.ofNat_eq_natCast]; omega

/-- floats on the printable grid -/
theorem floatCodec_roundtrip (k : Int) : floatCodec.loads (floatCodec.dumps (.num k)) = some (.num k) := by
  simp [floatCodec, loadsNum_dumpsNum]

/-! ### `TypeAttribute` codecs over an enum table -/

theorem find?_unique {α} {q : α → Bool} {x : α} :
    ∀ {l : List α}, x ∈ l → q x = true → (∀ y ∈ l, q y = true → y = x) → l.find? q = some x := by
  intro l
  induction l with
  | nil => intro h; cases h
  | cons z zs ih =>
    intro hx hq hu
    rw [List.find?_cons]
    cases hz : q z with
    | true => simp only; rw [hu z (by simp) hz]
    | false =>
      simp only
      rcases List.mem_cons.mp hx with rfl | hx'
      · rw [hq] at hz; cases hz
      · exact ih hx' hq (fun y hy => hu y (by simp [hy]))

theorem hexDigitVal_hexChar : ∀ d, d < 16 → hexDigitVal? (hexChar d) = some d := by decide

theorem foldlM_hex (ds : List Nat) (h : ∀ d ∈ ds, d < 16) (a : Nat) :
    (ds.map hexChar).foldlM (fun a c => (hexDigitVal? c).map fun d => a * 16 + d) a
      = some (ds.foldl (fun a d => a * 16 + d) a) := by
  induction ds generalizing a with
  | nil => rfl
  | cons d ds ih =>
    simp only [List.map_cons, List.foldlM_cons, List.foldl_cons, hexDigitVal_hexChar d (h d (by simp)),
      Option.map_some, Option.bind_eq_bind, Option.bind_some]
    exact ih (fun x hx => h x (by simp [hx])) _

theorem loadsHex_hexPad (w n : Nat) (hw : 1 ≤ w) : loadsHex (String.ofList (hexPad w n)) = some n := by
  unfold loadsHex
  rw [String.toList_ofList]
  have hrep : hexPad w n = (List.replicate (w - (natDigits 14 n).length) 0 ++ natDigits 14 n).map hexChar := by
    unfold hexPad padLeft
    simp [List.map_append, List.map_replicate, hexChar]
  have hne : hexPad w n ≠ [] := by
    intro h
    have := hexPad_length_ge w n
    rw [h] at this; simp at this; omega
  cases hc : hexPad w n with
  | nil => exact absurd hc hne
  | cons c cs =>
    simp only
    rw [← hc, hrep, foldlM_hex]
    · congr 1
      have := ofDigits_replicate_zero 16 (w - (natDigits 14 n).length) (natDigits 14 n)
      unfold ofDigits at this
      rw [this]
      exact ofDigits_natDigits 14 n
    · intro d hd
      rw [List.mem_append] at hd
      rcases hd with hd | hd
      · rw [List.mem_replicate] at hd; omega
      · exact natDigits_lt 14 n d hd

/-- an enum member of a table with pairwise distinct names and values survives both attribute codecs -/
theorem enumCodecs_roundtrip (tbl : List (String × Nat)) (n : String) (v : Nat) (hm : (n, v) ∈ tbl)
    (hn : (tbl.map (·.1)).Nodup) (hv : (tbl.map (·.2)).Nodup) :
    (enumDefCodec tbl).loads ((enumDefCodec tbl).dumps (.enum n v)) = some (.enum n v) ∧
    (enumLabelCodec tbl).loads ((enumLabelCodec tbl).dumps (.enum n v)) = some (.enum n v) := by
  have u1 : ∀ y ∈ tbl, y.1 = n → y = (n, v) := by
    intro y hy hyn
    have hn' : (tbl.filterMap (fun e => some e.1)).Nodup := by
      rw [List.filterMap_eq_map']; exact hn
    exact nodup_filterMap_unique hn' y hy (n, v) hm n (by simp [hyn]) rfl
  have u2 : ∀ y ∈ tbl, y.2 = v → y = (n, v) := by
    intro y hy hyv
    have hv' : (tbl.filterMap (fun e => some e.2)).Nodup := by
      rw [List.filterMap_eq_map']; exact hv
    exact nodup_filterMap_unique hv' y hy (n, v) hm v (by simp [hyv]) rfl
  constructor
  · simp only [enumDefCodec]
    rw [find?_unique (x := (n, v)) hm (by simp) (fun y hy h => u1 y hy (by simpa using h))]
    rfl
  · simp only [enumLabelCodec, loadsHex_hexPad 4 v (by omega), Option.bind_some]
    rw [find?_unique (x := (n, v)) hm (by simp) (fun y hy h => u2 y hy (by simpa using h))]
    rfl

/-! ### from table rows and object values to the hypotheses of `codec_roundtrip` -/

/-- default elision is symmetric for this row: an optional item elides exactly the constructor default; a
required item is never elided (`default=None`) -/
def rowDefaultOK (r : Row) : Bool :=
  !(r.kind == "Attribute" || r.kind == "AttrElement") || (r.kind == "AttrElement" && r.parseOnly) ||
  (if r.required then r.handlerDefault == "None"
   else r.classDefault == "<no-class>" || r.handlerDefault == r.classDefault)

/-- `TypeAttribute` enum table: member names and values pairwise distinct, values fit four hex digits -/
def rowEnumOK (r : Row) : Bool :=
  !(r.kind == "TypeAttribute") ||
  (!r.enum.isEmpty && decide ((r.enum.map (·.1)).Nodup) && decide ((r.enum.map (·.2)).Nodup) &&
    r.enum.all (fun e => e.2 ≤ 0xFFFF))

/-- parse-only properties are never required -/
def rowParseOnlyOK (r : Row) : Bool := !r.parseOnly || !r.required

/-- the object's value for a declarative row lies in the domain of the row's codec -/
def RowValueOK (o : Obj Leaf) (r : Row) : Prop :=
  if r.kind = "Attribute" ∨ (r.kind = "AttrElement" ∧ r.parseOnly = false) then
    ∃ v, o r.argName = .one v ∧
      (v ≠ leafOfRepr r.handlerDefault → (codecOf r.ty).loads ((codecOf r.ty).dumps v) = some v) ∧
      (r.required = true → v ≠ .none)
  else if r.kind = "ListElement" ∧ r.parseOnly = false then
    ∃ vs, o r.argName = .many vs ∧ (∀ v ∈ vs, (codecOf r.ty).loads ((codecOf r.ty).dumps v) = some v) ∧
      (vs = [] → r.required = false)
  else if r.kind = "HandleText" then
    ∃ v, o r.argName = .one v ∧ (codecOf r.ty).loads ((codecOf r.ty).dumps v) = some v
  else if r.kind = "TypeAttribute" then
    ∃ n v, o r.argName = .one (.enum n v) ∧ (n, v) ∈ r.enum
  else True

/-- `cd` is the constructor-default map the table records: an optional scalar argument defaults to the listed
constructor default, a list argument to "no entries" -/
def CdOK (cd : Obj Leaf) (r : Row) : Prop :=
  ((r.kind = "Attribute" ∨ (r.kind = "AttrElement" ∧ r.parseOnly = false)) → r.required = false →
    cd r.argName = .one (leafOfRepr (if r.classDefault = "<no-class>" then r.handlerDefault else r.classDefault))) ∧
  (r.kind = "ListElement" → r.parseOnly = false → cd r.argName = .many [])

theorem fieldOK_ofRow (impl : Row → CustomImpl Leaf) (ps : List (Property Leaf)) (e : Xml)
    (o cd : Obj Leaf) (r : Row)
    (hdef : rowDefaultOK r = true) (henum : rowEnumOK r = true) (hpo : rowParseOnlyOK r = true)
    (hv : RowValueOK o r) (hcd : CdOK cd r)
    (hfr : r.kind ≠ "Attribute" → r.kind ≠ "AttrElement" → r.kind ≠ "ListElement" → r.kind ≠ "HandleText" →
      r.kind ≠ "TypeAttribute" → FieldOK ps e o cd (ofRow impl r)) :
    FieldOK ps e o cd (ofRow impl r) := by
  have scalar : (r.kind = "Attribute" ∨ (r.kind = "AttrElement" ∧ r.parseOnly = false)) →
      ScalarOK o cd r.argName (codecOf r.ty) r.required (leafOfRepr r.handlerDefault) := by
    intro hk
    unfold RowValueOK at hv
    rw [if_pos hk] at hv
    obtain ⟨v, hov, hrt, hreq⟩ := hv
    refine ⟨v, hov, hrt, ?_⟩
    have hk' : (r.kind == "Attribute" || r.kind == "AttrElement") = true := by
      rcases hk with h | h <;> simp [h]
    have hex : (r.kind == "AttrElement" && r.parseOnly) = false := by
      rcases hk with h | h
      · simp [h]
      · simp [h.2]
    have hif : (if r.required then r.handlerDefault == "None"
        else r.classDefault == "<no-class>" || r.handlerDefault == r.classDefault) = true := by
      simpa [rowDefaultOK, hk', hex] using hdef
    cases hr : r.required with
    | true =>
      simp only [if_true]
      rw [hr] at hif
      simp only [if_true, beq_iff_eq] at hif
      rw [hif]; exact hreq hr
    | false =>
      simp only [Bool.false_eq_true, if_false]
      have h1 := hcd.1 hk hr
      rw [hr] at hif
      simp only [Bool.false_eq_true, if_false, Bool.or_eq_true, beq_iff_eq] at hif
      by_cases hc : r.classDefault = "<no-class>"
      · simpa [hc] using h1
      · simp only [hc, if_false] at h1
        rcases hif with h | h
        · exact absurd h hc
        · rw [h]; exact h1
  by_cases hc : r.kind ≠ "Attribute" ∧ r.kind ≠ "AttrElement" ∧ r.kind ≠ "ListElement" ∧ r.kind ≠ "HandleText" ∧
      r.kind ≠ "TypeAttribute"
  · exact hfr hc.1 hc.2.1 hc.2.2.1 hc.2.2.2.1 hc.2.2.2.2
  unfold ofRow ofRowG
  split_ifs with h1 h2 h3 h4 h5 h6
  · exact scalar (Or.inl h1)
  · cases hp : r.parseOnly with
    | true =>
      left
      refine ⟨rfl, ?_⟩
      simpa [rowParseOnlyOK, hp] using hpo
    | false => right; exact ⟨rfl, scalar (Or.inr ⟨h2, hp⟩)⟩
  · cases hp : r.parseOnly with
    | true =>
      left
      refine ⟨rfl, ?_⟩
      simpa [rowParseOnlyOK, hp] using hpo
    | false =>
      right
      refine ⟨rfl, ?_⟩
      unfold RowValueOK at hv
      rw [if_neg (by simp [h1, h2]), if_pos ⟨h3, hp⟩] at hv
      obtain ⟨vs, hov, hrt, hreq⟩ := hv
      exact ⟨vs, hov, hrt, fun hn => ⟨hreq hn, hcd.2 h3 hp⟩⟩
  · unfold RowValueOK at hv
    rw [if_neg (by simp [h1, h2]), if_neg (by simp [h3]), if_pos h4] at hv
    exact hv
  · unfold RowValueOK at hv
    rw [if_neg (by simp [h1, h2]), if_neg (by simp [h3]), if_neg h4, if_pos h5] at hv
    obtain ⟨n, v, hov, hm⟩ := hv
    have he : (r.kind == "TypeAttribute") = true := by simp [h5]
    simp only [rowEnumOK, he, Bool.not_true, Bool.false_or, Bool.and_eq_true, decide_eq_true_eq] at henum
    have := enumCodecs_roundtrip r.enum n v hm henum.1.1.2 henum.1.2
    exact ⟨.enum n v, hov, this.1, this.2⟩
  · exact absurd ⟨h1, h2, h3, h4, h5⟩ hc
  · exact absurd ⟨h1, h2, h3, h4, h5⟩ hc

end Earverif.XmlCodec
