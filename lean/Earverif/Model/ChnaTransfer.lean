/-
Model of the transfer between audioTrackUIDs and CHNA rows: `ear.fileio.adm.chna`
(`populate_chna_chunk` / `_get_chna_entries`, `load_chna_chunk`, `_load_track_or_channel_ref`, `_load_pack_ref`,
`guess_track_indices`, `validate_trackIndex`) and of the table part of the chunk
(`ear.fileio.bw64.chunks.ChnaChunk.numTracks / numUIDs / asByteArray`, `Bw64Reader._read_chna_chunk`).
Core Lean only.

Strings are their 7-bit bytes, as in `Model/Chna.lean` (a CHNA chunk is a list of the `Chna.Entry` rows modelled
there); `str.upper()` is the ASCII upper-casing of those bytes.

An audioTrackUID is seen through the attributes the transfer reads and writes.  A *resolved* reference
(`audioTrackFormat`, `audioChannelFormat`, `audioPackFormat`: a Python object) is represented by the `id` stored in
the referenced element; a *pending* reference (`…IDRef`: a string that the final `adm.lazy_lookup_references()`
resolves) by that string.  `ADM.lookup_element` is a parameter `lookup : Bytes → Option Bytes` (the stored id of
the element found, `none` = `KeyError`); `Model/AdmRefs.lean` provides the instance.  The element found is
assigned whatever its class is (attrs validators do not run on assignment) — recorded as an excluded point.
-/
import Earverif.Model.Chna
import Earverif.Model.AdmRefs

namespace Earverif.ChnaTransfer
open Earverif.Chna

/-- `str.upper()` on one 7-bit code unit -/
def upByte (b : UInt8) : UInt8 := if 97 ≤ b ∧ b ≤ 122 then b - 32 else b

/-- `str.upper()` -/
def up (bs : Bytes) : Bytes := bs.map upByte

/-- `b"ATU_00000000"` -/
def silentUID : Bytes := [0x41, 0x54, 0x55, 0x5F, 0x30, 0x30, 0x30, 0x30, 0x30, 0x30, 0x30, 0x30]

/-- the attributes of `AudioTrackUID` that take part in the transfer -/
structure TrackUID where
  id : Bytes
  /-- `trackIndex`: 1-based index of the track in the sample data -/
  trackIndex : Option Nat
  /-- `audioTrackFormat` (resolved): the id of the referenced audioTrackFormat -/
  audioTrackFormat : Option Bytes
  /-- `audioChannelFormat` (resolved, BS.2076-2) -/
  audioChannelFormat : Option Bytes
  /-- `audioPackFormat` (resolved) -/
  audioPackFormat : Option Bytes
  /-- `audioTrackFormatIDRef` (pending) -/
  audioTrackFormatIDRef : Option Bytes
  /-- `audioChannelFormatIDRef` (pending) -/
  audioChannelFormatIDRef : Option Bytes
  /-- `audioPackFormatIDRef` (pending) -/
  audioPackFormatIDRef : Option Bytes
  deriving Repr, BEq, DecidableEq

/-- the exceptions of `chna.py` (and of the `lazy_lookup_references` call at the end of `load_chna_chunk`) -/
inductive Err where
  /-- `Exception("audioTrackUID … is linked to both an audioTrackFormat and a audioChannelFormat")` (load) -/
  | bothLinked
  /-- `Exception("Error in track UID …: CHNA entry references '…' but AXML references '…'")` -/
  | refConflict
  /-- `Exception("Error in track UID …: audioPackFormatIDRef in CHNA, '…' does not match value in AXML, …")` -/
  | packConflict
  /-- `Exception("audioTrackUID element or CHNA row found with UID ATU_00000000, …")` -/
  | silentUID
  /-- `assert track.trackIndex == chna_entry.trackIndex` -/
  | indexMismatch
  /-- `AdmIDError("duplicate objects with id=…")` from `ADM._without_duplicates` -/
  | duplicateID
  /-- `KeyError('Unknown element requested …')` from `ADM.lookup_element` -/
  | unknownRef
  /-- `Exception("Track UID … has no track number.")` (populate) -/
  | noTrackIndex
  /-- `Exception("Track UID … has no track or channel format.")` (populate) -/
  | noFormatRef
  /-- `Exception("Track UID … has both track and channel formats.")` (populate) -/
  | bothFormats
  /-- `Exception("audioTrackUID … has track index … (1-based) in a file with … tracks")` (validate_trackIndex) -/
  | indexTooLarge
  /-- `assert track_uid.trackIndex is None` (guess_track_indices) -/
  | indexAlreadySet
  /-- `Exception("Invalid track UID ….")` (guess_track_indices) -/
  | invalidUID
  deriving Repr, DecidableEq

/-! ### `populate_chna_chunk` -/

/-- one iteration of `_get_chna_entries`: a track UID without track index, without a track / channel format
reference, or with both, raises; otherwise the row carries the ids as stored (no padding, no case change) -/
def entryOf (t : TrackUID) : Except Err Entry :=
  match t.trackIndex with
  | none => .error .noTrackIndex
  | some idx =>
    match t.audioTrackFormat, t.audioChannelFormat with
    | none, none => .error .noFormatRef
    | some _, some _ => .error .bothFormats
    | some tf, none => .ok ⟨idx, t.id, tf, t.audioPackFormat⟩
    | none, some cf => .ok ⟨idx, t.id, cf, t.audioPackFormat⟩

/-- `populate_chna_chunk`: `chna.audioIDs = list(_get_chna_entries(adm))` — every audioTrackUID of the document, in
document order; the first offending track UID raises and nothing is written -/
def populateChna (tracks : List TrackUID) : Except Err (List Entry) := tracks.mapM entryOf

/-! ### `load_chna_chunk` -/

/-- `{track.id.upper(): track for track in adm.audioTrackUIDs}.get(key)` as the position of the track UID: with
repeated keys the last one wins -/
def dictGet : List TrackUID → Bytes → Option Nat
  | [], _ => none
  | t :: ts, k =>
    match dictGet ts k with
    | some i => some (i + 1)
    | none => if up t.id = k then some 0 else none

/-- `AudioTrackUID(id=chna_entry.audioTrackUID.upper())` -/
def newTrack (uid : Bytes) : TrackUID := ⟨up uid, none, none, none, none, none, none, none⟩

/-- `_load_track_or_channel_ref`.  The CHNA reference is a channel reference iff the string *as read* starts with
`AC_` (case-sensitive); its id is compared upper-cased. -/
def loadFormatRef (t : TrackUID) (e : Entry) : Except Err TrackUID :=
  let chnaIsChannel := acPrefix.isPrefixOf e.audioTrackFormatIDRef
  let chnaId := up e.audioTrackFormatIDRef
  match t.audioTrackFormat, t.audioChannelFormat with
  | some _, some _ => .error .bothLinked
  | _, some cf => if chnaIsChannel = true ∧ chnaId = up cf then .ok t else .error .refConflict
  | some tf, none => if chnaIsChannel = false ∧ chnaId = up tf then .ok t else .error .refConflict
  | none, none =>
    if chnaIsChannel then .ok { t with audioChannelFormatIDRef := some chnaId }
    else .ok { t with audioTrackFormatIDRef := some chnaId }

/-- `_load_pack_ref` (the pending reference keeps the case of the CHNA string) -/
def loadPackRef (t : TrackUID) (e : Entry) : Except Err TrackUID :=
  match e.audioPackFormatIDRef with
  | none => .ok t
  | some p =>
    match t.audioPackFormat with
    | none => .ok { t with audioPackFormatIDRef := some p }
    | some q => if up q = up p then .ok t else .error .packConflict

/-- the body of the row loop on the track UID found or created -/
def loadInto (t : TrackUID) (e : Entry) : Except Err TrackUID := do
  let t ← match t.trackIndex with
    | none => pure { t with trackIndex := some e.trackIndex }
    | some i => if i = e.trackIndex then pure t else .error .indexMismatch
  let t ← loadFormatRef t e
  loadPackRef t e

/-- one CHNA row: `dict` is the id map built *before* the loop (a track UID created for an unknown UID is appended
to the document but not entered into the map) -/
def loadRow (dict : Bytes → Option Nat) (cur : List TrackUID) (e : Entry) : Except Err (List TrackUID) :=
  let (i, cur) := match dict (up e.audioTrackUID) with
    | some i => (i, cur)
    | none => (cur.length, cur ++ [newTrack e.audioTrackUID])
  match cur[i]? with
  | none => .ok cur  -- unreachable: `dict` answers positions of `cur`
  | some t => do
    let t' ← loadInto t e
    pure (cur.set i t')

/-- `ADM._without_duplicates` on the audioTrackUID list (none of them a common definition, all with an id): a
repeated id (compared upper-cased) is an `AdmIDError`, otherwise the list is unchanged -/
def noDuplicates : List TrackUID → Bool
  | [] => true
  | t :: ts => !(ts.any fun u => up u.id == up t.id) && noDuplicates ts

/-- `AudioTrackUID.lazy_lookup_references`: the three pending references, in the order of the code -/
def resolveTrack (lookup : Bytes → Option Bytes) (t : TrackUID) : Except Err TrackUID := do
  let t ← match t.audioTrackFormatIDRef with
    | none => pure t
    | some r => match lookup r with
      | some x => pure { t with audioTrackFormat := some x, audioTrackFormatIDRef := none }
      | none => .error .unknownRef
  let t ← match t.audioChannelFormatIDRef with
    | none => pure t
    | some r => match lookup r with
      | some x => pure { t with audioChannelFormat := some x, audioChannelFormatIDRef := none }
      | none => .error .unknownRef
  match t.audioPackFormatIDRef with
    | none => pure t
    | some r => match lookup r with
      | some x => pure { t with audioPackFormat := some x, audioPackFormatIDRef := none }
      | none => .error .unknownRef

/-- the row loop of `load_chna_chunk(adm, chna)` on the audioTrackUIDs of `adm`, the reserved-UID check over the whole
document, and the duplicate check with which the final `adm.lazy_lookup_references()` starts -/
def loadRows (tracks : List TrackUID) (rows : List Entry) : Except Err (List TrackUID) := do
  let cur ← rows.foldlM (loadRow (dictGet tracks)) tracks
  if cur.any (fun t => up t.id == silentUID) then .error .silentUID
  else if !noDuplicates cur then .error .duplicateID
  else pure cur

/-- `load_chna_chunk(adm, chna)` (the other elements are assumed resolved already, as the docstring says): rows in
order; the reserved UID check; then `adm.lazy_lookup_references()` = duplicate check + resolution of the references
just stored, with `lookup` standing for `adm.lookup_element`. -/
def loadChna (lookup : Bytes → Option Bytes) (tracks : List TrackUID) (rows : List Entry) :
    Except Err (List TrackUID) := do
  let cur ← loadRows tracks rows
  cur.mapM (resolveTrack lookup)

/-- `adm.lookup_element` for a document whose other elements (programmes … track formats, in chain order) have the
ids `others` and whose audioTrackUIDs are `cur`: the stored id of the first element whose id matches -/
def chainLookup (others : List (Option Bytes)) (cur : List TrackUID) (k : Bytes) : Option Bytes :=
  (others ++ cur.map fun t => some t.id).findSome? fun id =>
    match id with
    | some s => if up s = up k then some s else none
    | none => none

/-- `load_chna_chunk` with `lookup_element` instantiated for a concrete document (the chain ends with the
audioTrackUIDs themselves, including the ones just created) -/
def loadChnaADM (others : List (Option Bytes)) (tracks : List TrackUID) (rows : List Entry) :
    Except Err (List TrackUID) := do
  let cur ← loadRows tracks rows
  cur.mapM (resolveTrack (chainLookup others cur))

/-- `chainLookup` is `AdmRefs.lookup` on the element chain, seen through the ids -/
def lookupIn (els : List (AdmRefs.Elem Bytes)) (k : Bytes) : Option Bytes :=
  (AdmRefs.lookup up els k).bind (·.id)

/-! ### `validate_trackIndex`, `guess_track_indices` -/

/-- `validate_trackIndex(adm, num_channels)`: only an index *greater* than the channel count is refused (an absent
index and — after `load_chna_chunk` — the index 0 pass) -/
def validateTrackIndex (tracks : List TrackUID) (numChannels : Nat) : Except Err Unit :=
  if tracks.any (fun t => match t.trackIndex with | some i => decide (numChannels < i) | none => false)
  then .error .indexTooLarge else .ok ()

def hexVal (b : UInt8) : Option Nat :=
  if 48 ≤ b ∧ b ≤ 57 then some (b.toNat - 48)
  else if 97 ≤ b ∧ b ≤ 102 then some (b.toNat - 87)
  else if 65 ≤ b ∧ b ≤ 70 then some (b.toNat - 55)
  else none

/-- `b"ATU_"` -/
def atuPrefix : Bytes := [0x41, 0x54, 0x55, 0x5F]

/-- `re.compile("ATU_([0-9a-fA-F]{8})$").match(id)`, `int(group(1), 16)`: anchored at the start, `$` also matches
before one final newline -/
def guessIndex (id : Bytes) : Option Nat :=
  if !atuPrefix.isPrefixOf id then none else
  let rest := id.drop 4
  let digits := rest.take 8
  let tail := rest.drop 8
  if digits.length ≠ 8 then none
  else if tail ≠ [] ∧ tail ≠ [10] then none
  else digits.foldlM (fun a b => (hexVal b).map (a * 16 + ·)) 0

/-- `guess_track_indices` -/
def guessTrackIndices (tracks : List TrackUID) : Except Err (List TrackUID) :=
  tracks.mapM fun t =>
    match t.trackIndex with
    | some _ => .error .indexAlreadySet
    | none => match guessIndex t.id with
      | some i => .ok { t with trackIndex := some i }
      | none => .error .invalidUID

/-! ### the table part of the chunk -/

/-- `len(set(…))` -/
def distinctCount : List Nat → Nat
  | [] => 0
  | x :: xs => (if xs.contains x then 0 else 1) + distinctCount xs

/-- `ChnaChunk.numTracks`: number of distinct track indices -/
def numTracks (rows : List Entry) : Nat := distinctCount (rows.map (·.trackIndex))

/-- `ChnaChunk.numUIDs` -/
def numUIDs (rows : List Entry) : Nat := rows.length

def u16 (n : Nat) : Bytes := [UInt8.ofNat (n % 256), UInt8.ofNat (n / 256)]

/-- the chunk data of `ChnaChunk.asByteArray` (after the 8-byte RIFF chunk header): `'<HH'` + rows; `none` =
`struct.error` (a count does not fit 16 bits) or a row that `AudioID.asByteArray` refuses -/
def encodeChunk (rows : List Entry) : Option Bytes :=
  if 65536 ≤ numUIDs rows then none else do
    let bs ← rows.mapM encode
    some (u16 (numTracks rows) ++ u16 (numUIDs rows) ++ bs.flatten)

inductive ReadErr where
  /-- `struct.error`: the chunk is shorter than the announced table / a row outside the 7-bit model -/
  | short
  /-- `ValueError("numTracks in CHNA (…) does not match the number of referenced tracks (…)")` -/
  | numTracks
  deriving Repr, DecidableEq

def readRows : Nat → Bytes → Option (List Entry)
  | 0, _ => some []
  | n + 1, bs => do
    let e ← decode (bs.take 40)
    let rest ← readRows n (bs.drop 40)
    some (e :: rest)

/-- `Bw64Reader._read_chna_chunk` on the chunk data: `numUIDs` rows are read (anything after them is ignored), then
the announced `numTracks` is compared with the number of distinct indices -/
def decodeChunk (bs : Bytes) : Except ReadErr (List Entry) :=
  if bs.length < 4 then .error .short else
  let nt := (bs.getD 0 0).toNat + 256 * (bs.getD 1 0).toNat
  let nu := (bs.getD 2 0).toNat + 256 * (bs.getD 3 0).toNat
  match readRows nu (bs.drop 4) with
  | none => .error .short
  | some rows => if numTracks rows ≠ nt then .error .numTracks else .ok rows

end Earverif.ChnaTransfer
