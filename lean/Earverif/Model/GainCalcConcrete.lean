/-
C01 — `GainCalc.render` with the position handlers and the point-source panners plugged in
(`renderConcreteCart`, `renderConcretePolarPoint`).  Core Lean only.

`Model/GainCalc.lean` keeps the screen-scale / edge-lock / channel-lock handlers and the extent panner of
`renderFull` as function parameters.  Here they are instantiated with the models other checks own, by import:
  * zone masks                 `Earverif.Zone.getExcluded`, `alloExcluded`          (Model/Zone.lean, C13)
  * channel lock               `Earverif.Lock.lockHandle`                            (Model/ChannelLock.lean, C13)
  * polar screen scaling       `Earverif.Lock.scaleAzEl`                             (Model/ChannelLock.lean, C13)
  * `compensate_position`      `Earverif.CartLock.compensatePosition`                (Model/CartLock.lean, C13)
  * `_speaker_tree`            `Earverif.CartLock.speakerTree`                       (Model/CartLock.lean, C13)
  * Cartesian <-> polar        `Earverif.Conv.pointCartToPolar/pointPolarToCart`     (Model/Conversion.lean, C19)
  * point-source panner        `Earverif.PointSource.RawLayout.handle` on the table  (Model/PointSource.lean, C05)
and with own transliterations of `screen_common.PolarEdges.from_screen`, `ScreenEdgeLockHandler`,
`ScreenScaleHandler` (the glue around the imported pieces).

Adapters and what they assume:
  * The imported models are written over their own scalar classes; the functions below take one instance of each
    (`GainCalc.Scalar`, `Zone.ScalarSqrt`, `Conv.Scalar`, `PointSource.Scalar` + `OfF2`) for the same carrier and only
    move values between them (`V3` tuples <-> `Zone.P3`), never mix their arithmetic.
  * `np.roots` of the two `QuadRegion` quadratics is the closed form (`quadRoot`): the root list is
    `[q/a, c/q]` with `q = -(b + sign(b)√Δ)/2` (larger root first; for `a = 0` the single root of the linear polynomial), scanned in that order
    with the code's ±1e-10 acceptance test.  LAPACK's eigenvalue order for the 2x2 companion matrix is assumed to
    agree with this whenever both roots pass the test (checked by the correspondence, not proved).
  * The polar point path covers `width = height = depth = 0` with a distance ≥ 1 after the position transforms
    (then `extent_mod(0, d) = 0`, `ammount_spread = 0` and `calc_pv_spread` is the point-source panner alone);
    for other distances the spread weights come in, which stay a parameter (`polarHandle`).
  * `applyOffset`'s range check, `coord_trans`, `diverge` and everything after the panners are the C01 model.
-/
import Earverif.Model.GainCalc
import Earverif.Model.Zone
import Earverif.Model.ChannelLock
import Earverif.Model.CartLock
import Earverif.Model.Conversion
import Earverif.Model.PointSource

namespace Earverif.GainCalc

/-! ### own glue, over the C01 scalar class only -/

section glue
variable {α : Type} [Scalar α]

/-- `PolarScreen` / `CartesianScreen` -/
structure ScreenSpec (α : Type) where
  polar : Bool
  aspectRatio : α
  /-- azimuth, elevation, distance | X, Y, Z of `centrePosition` -/
  centre : V3 α
  /-- `widthAzimuth` | `widthX` -/
  width : α

def vsub (a b : V3 α) : V3 α := (a.1 - b.1, a.2.1 - b.2.1, a.2.2 - b.2.2)
def vaddv (a b : V3 α) : V3 α := (a.1 + b.1, a.2.1 + b.2.1, a.2.2 + b.2.2)
def vscale (a : V3 α) (s : α) : V3 α := (a.1 * s, a.2.1 * s, a.2.2 * s)

/-- `screen_common.PolarEdges.from_screen`; `none` = one of its two `ValueError`s -/
def polarEdges (s : ScreenSpec α) : Option (Lock.Edges α) :=
  let (centre, xVec, zVec) : V3 α × V3 α × V3 α :=
    if s.polar then
      let width := s.centre.2.2 * Scalar.tan (radians (s.width / k 2))
      let height := width / s.aspectRatio
      -- rows 0 and 2 of local_coordinate_system(az, el)
      let ax0 := cart (s.centre.1 - k 90) zero one
      let ax2 := cart s.centre.1 (s.centre.2.1 + k 90) one
      (cart s.centre.1 s.centre.2.1 s.centre.2.2, vscale ax0 width, vscale ax2 height)
    else
      let width := s.width / k 2
      let height := width / s.aspectRatio
      (s.centre, (width, zero, zero), (zero, zero, height))
  let left := azimuthOf (vsub centre xVec)
  let right := azimuthOf (vaddv centre xVec)
  if left < right then none
  else if k (1 / 1000) < azimuthOf (vsub centre zVec) - azimuthOf (vaddv centre zVec) then none
  else some ⟨left, right, elevationOf (vsub centre zVec), elevationOf (vaddv centre zVec)⟩

/-- `ScreenEdgeLock`: horizontal `some true` = "left", `some false` = "right"; vertical `some true` = "top" -/
structure EdgeSel where
  horizontal : Option Bool
  vertical : Option Bool

/-- `ScreenEdgeLockHandler.lock_to_screen_edge` -/
def lockToScreenEdge (e : Lock.Edges α) (az el : α) (sel : EdgeSel) : α × α :=
  let az := match sel.horizontal with
    | some true => e.left
    | some false => e.right
    | none => az
  let el := match sel.vertical with
    | some true => e.top
    | some false => e.bottom
    | none => el
  (az, el)

/-- `pan_axis`' acceptance test for one root: real part in (−1e-10, 1 + 1e-10), then clipped to [0, 1] -/
def acceptRoot (r : α) : Option α :=
  if k (-1 / 10000000000) < r ∧ r < one + k (1 / 10000000000) then some (clip r zero one) else none

/-- `for root in roots: if …: return …` over two candidates -/
def firstSome : Option α → Option α → Option α
  | some r, _ => some r
  | none, o => o

/-- the root `pan_axis` picks from `np.roots([a, b, c])` (see the header for the assumed order of the root list) -/
def quadRoot (c : α × α × α) : Option α :=
  if eqS c.1 zero then
    -- np.roots strips the leading zero: linear (or constant: no roots)
    if eqS c.2.1 zero then none else acceptRoot (-c.2.2 / c.2.1)
  else if c.2.1 * c.2.1 - k 4 * c.1 * c.2.2 < zero then
    -- complex pair: accepted only if the imaginary part is below 1e-10
    if Scalar.sqrt (-(c.2.1 * c.2.1 - k 4 * c.1 * c.2.2)) / (k 2 * maxS c.1 (-c.1)) < k (1 / 10000000000)
    then acceptRoot (-c.2.1 / (k 2 * c.1)) else none
  else
    -- numerically stable closed form: q = -(b + sign(b)·√Δ)/2, roots q/a (the larger in magnitude, listed first by
    -- the companion-matrix eigenvalue routine) and c/q
    let s := Scalar.sqrt (c.2.1 * c.2.1 - k 4 * c.1 * c.2.2)
    let q := if c.2.1 < zero then -(c.2.1 - s) / k 2 else -(c.2.1 + s) / k 2
    firstSome (acceptRoot (q / c.1)) (if eqS q zero then none else acceptRoot (c.2.2 / q))

def toP3 (p : V3 α) : Zone.P3 α := ⟨p.1, p.2.1, p.2.2⟩
def ofP3 (p : Zone.P3 α) : V3 α := (p.x, p.y, p.z)

end glue

/-! ### per-layout data and the block, as `render` reads them -/

/-- what `GainCalc.__init__` keeps of the layout (LFE removed), plus the conversion table -/
structure LayoutEnv (α : Type) where
  n : Nat
  isLfe : List Bool
  /-- nominal x y z azimuth elevation per channel (`ZoneExclusionHandler`) -/
  spks : List (Zone.Spk α)
  /-- `allocentric.positions_for_layout` -/
  allo : List (Zone.P3 α)
  /-- `layout.norm_positions` (real positions on the unit sphere; ego channel lock) -/
  normPos : List (Zone.P3 α)
  /-- `channel_priority` of the lock handlers -/
  prio : List Nat
  /-- `ZoneExclusionDownmix.channel_groups` -/
  groups : List (List (List Nat))
  hasU045 : Bool
  /-- `layout.screen` (`None`: no screen-related processing) -/
  screen : Option (ScreenSpec α)
  /-- fuel of the `while` loops of `inside_angle_range` -/
  fuel : Nat

/-- the fields of `AudioBlockFormatObjects` + `ExtraData` that `render` reads (extent is zero in this file) -/
structure CBlock (α : Type) where
  base : Block α
  screenRef : Bool
  referenceScreen : ScreenSpec α
  edge : EdgeSel
  zones : List (Zone.Zone α)
  /-- `none`: no channelLock; `some none`: lock without maxDistance -/
  lock : Option (Option α)

section concrete
variable {α : Type} [Scalar α] [Zone.ScalarSqrt α] [Conv.Scalar α]

/-- `ScreenScaleHandler.handle(position, screenRef, reference_screen, cartesian)`; `none` where the Python raises -/
def screenScaleHandle (E : LayoutEnv α) (P : Conv.Params α) (cartesian : Bool) (b : CBlock α) (p : V3 α) : Option (V3 α) :=
  match b.screenRef, E.screen with
  | true, some rep =>
    match polarEdges b.referenceScreen, polarEdges rep with
    | some refE, some repE =>
      if cartesian then
        match Conv.pointCartToPolar P p.1 p.2.1 p.2.2 with
        | none => none
        | some ((az, el, d), _) =>
          match Lock.scaleAzEl refE repE az el with
          | none => none
          | some (saz, sel) =>
            let c := CartLock.compensatePosition E.hasU045 saz sel
            (Conv.pointPolarToCart P c.1 c.2 d).map (·.1)
      else
        match Lock.scaleAzEl refE repE (azimuthOf p) (elevationOf p) with
        | none => none
        | some (saz, sel) => some (cart saz sel (norm3 p))
    | _, _ => none
  | _, _ => some p

/-- `ScreenEdgeLockHandler.handle_vector(position, screenEdgeLock, cartesian)` -/
def edgeLockHandle (E : LayoutEnv α) (P : Conv.Params α) (cartesian : Bool) (b : CBlock α) (p : V3 α) : Option (V3 α) :=
  match E.screen with
  | none => some p
  | some rep =>
    -- rep_screen_edges is computed in __init__ (a ValueError there prevents the GainCalc from existing)
    match polarEdges rep with
    | none => none
    | some e =>
      if b.edge.horizontal.isNone && b.edge.vertical.isNone then some p
      else if cartesian then
        match Conv.pointCartToPolar P p.1 p.2.1 p.2.2 with
        | none => none
        | some ((az, el, d), _) =>
          let l := lockToScreenEdge e az el b.edge
          let c := CartLock.compensatePosition E.hasU045 l.1 l.2
          (Conv.pointPolarToCart P c.1 c.2 d).map (·.1)
      else
        let l := lockToScreenEdge e (azimuthOf p) (elevationOf p) b.edge
        some (cart l.1 l.2 (norm3 p))

/-- the position after positionOffset, coord_trans, screen scaling and screen edge lock -/
def positionBeforeLock (E : LayoutEnv α) (P : Conv.Params α) (b : CBlock α) : Option (V3 α) :=
  (applyOffset b.base.cartesian b.base.coords b.base.offset).bind fun c =>
  (screenScaleHandle E P b.base.cartesian b (coordTrans b.base.cartesian c)).bind fun p =>
  edgeLockHandle E P b.base.cartesian b p

/-- the tail of `render` shared by both paths -/
def renderTail (E : LayoutEnv α) (path : ZonePath α) (b : CBlock α) (g : List (List α)) : List α × List α :=
  render E.n path (divergeGains b.base.divValue) g b.base.gain b.base.objectGain b.base.mute E.isLfe b.base.diffuse

/-- **`GainCalc.render` for a Cartesian block with zero extent**, everything computed:
    position pipeline → zone mask (`get_excluded` ∘ `allocentric.get_excluded`) → allocentric channel lock →
    diverge → `AllocentricPanner(positions[~excluded]).handle` per diverged position → `render`.
    `none` where the Python raises (offset out of range, screen errors, fuel, lock error, duplicate positions). -/
def renderConcreteCart (E : LayoutEnv α) (P : Conv.Params α) (b : CBlock α) : Option (List α × List α) :=
  (positionBeforeLock E P b).bind fun p =>
  (Zone.getExcluded E.fuel E.spks b.zones).bind fun zmask =>
  let final := Zone.alloExcluded E.allo zmask
  let lk := Lock.lockHandle true E.allo E.prio final (toP3 p) b.lock
  (CartLock.lockedPosition E.allo (toP3 p) lk).bind fun q =>
  let ps := divergePositions true (ofP3 q) b.base.divValue b.base.azimuthRange b.base.positionRange b.base.v2
  let sub := CartLock.keep final E.allo
  (CartLock.speakerTree sub).bind fun st =>
  (ps.mapM fun pos => alloHandle sub.length st pos.1 pos.2.1 pos.2.2).bind fun g =>
  some (renderTail E (.cartesian final) b g)

end concrete

/-! ### the polar point path with the C05 panner -/

section polar
variable {α : Type} [Scalar α] [Zone.ScalarSqrt α] [Conv.Scalar α] [PointSource.Scalar α] [PointSource.OfF2 α]

/-- `point_source_panner.handle(position)` through the C05 model and its regenerated table; the `np.roots` results
    of the quad regions are supplied by `quadRoot` (see the header) -/
def pspHandle (L : PointSource.RawLayout) (p : V3 α) : Option (List α) :=
  match L.regions.mapM (PointSource.RawRegion.toRegion (α := α)) with
  | none => none
  | some regions =>
    let roots : Nat → Option α × Option α := fun i =>
      match regions[i]? with
      | some (.quad _ q) => let py := q.polys p; (quadRoot py.1, quadRoot py.2)
      | _ => (none, none)
    L.handle roots p

/-- `PolarExtentHandler.handle(position, 0, 0, 0)` when only the point-source branch of `calc_pv_spread` runs
    (`ammount_spread ≤ 1e-10`, i.e. distance ≥ 1); `none` otherwise (outside the modelled class) or when the
    point-source panner has no result (numpy then raises) -/
def polarPointPan (E : LayoutEnv α) (L : PointSource.RawLayout) (pos : V3 α) : Option (List α) :=
  match polarExtents (norm3 pos) (zero : α) zero zero with
  | [(w, h)] =>
    if k (1 / 10000000000) < amountSpread w h then none
    else (pspHandle L pos).map fun p => polarHandle E.n p (fun _ _ => []) pos zero zero zero
  | _ => none

/-- **`GainCalc.render` for a polar block with zero extent at distance ≥ 1**, everything computed:
    position pipeline → egocentric channel lock → diverge → point-source panner (C05 table) per diverged position →
    zone mask → `downmix_for_excluded` → `render`. -/
def renderConcretePolarPoint (E : LayoutEnv α) (P : Conv.Params α) (L : PointSource.RawLayout) (b : CBlock α) :
    Option (List α × List α) :=
  (positionBeforeLock E P b).bind fun p =>
  let lk := Lock.lockHandle false E.normPos E.prio [] (toP3 p) b.lock
  (CartLock.lockedPosition E.normPos (toP3 p) lk).bind fun q =>
  let ps := divergePositions false (ofP3 q) b.base.divValue b.base.azimuthRange b.base.positionRange b.base.v2
  (ps.mapM (polarPointPan E L)).bind fun g =>
  (Zone.getExcluded E.fuel E.spks b.zones).bind fun zmask =>
  (downmixForExcluded E.groups zmask).bind fun D =>
  some (renderTail E (.polar D) b g)

end polar

/-! ### the environment of a layout from the regenerated table -/

section env
variable {α : Type} [Scalar α]

def qOf (p : Int × Nat) : α := k (mkRat p.1 p.2)

def spkOfRow (r : List (Int × Nat)) : Zone.Spk α :=
  match r with
  | [x, y, z, a, e] => ⟨qOf x, qOf y, qOf z, qOf a, qOf e⟩
  | _ => ⟨zero, zero, zero, zero, zero⟩

def p3OfRow (r : List (Int × Nat)) : Zone.P3 α :=
  match r with
  | [x, y, z] => ⟨qOf x, qOf y, qOf z⟩
  | _ => ⟨zero, zero, zero⟩

def screenOfRow (s : Bool × List (Int × Nat)) : Option (ScreenSpec α) :=
  match s.2 with
  | [a, c1, c2, c3, w] => some ⟨s.1, qOf a, (qOf c1, qOf c2, qOf c3), qOf w⟩
  | _ => none

/-- what `GainCalc(layout)` holds, read off the regenerated `Gen/C01_Tables.lean` -/
def LayoutTable.env (T : LayoutTable) (fuel : Nat) : LayoutEnv α :=
  { n := T.n, isLfe := T.isLfe, spks := T.spk.map spkOfRow, allo := T.allo.map p3OfRow,
    normPos := T.normPos.map p3OfRow, prio := T.prio, groups := T.groups, hasU045 := T.hasU045,
    screen := T.screen.bind screenOfRow, fuel := fuel }

end env

end Earverif.GainCalc
