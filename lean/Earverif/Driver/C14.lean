/- Line protocol for the C14 model (document graph by indices → outcome class).

   in : nine `|`-separated sections; elements inside a section are `;`-separated, fields are
        space-separated, lists are `,`-separated with `-` for the empty list / `None`:
          head        `<v2Allowed 0|1> <programme|-> <selected complementary objects>`
          programmes  `<contents> <avs refs (tokens)>`
          contents    `<objects> <avs refs>`
          objects     `<objects> <packs> <tracks (s = silent)> <complementary> <params: 5 bits start duration gain mute
                      positionOffset> <own avs tokens>`
          packs       `<type 1..5> <channels> <packs> <encodePacks> <input|-> <output|-> <norm|-> <scr|-> <nfc|-> <absDist|->`
          channels    `<type> <freq 0|1> <blocks>`  blocks `/`-separated, each
                      `cart:eq:order:degree:norm:scr:outCh:coeffs:rtime:duration:nfc`, coeffs `,`-separated
                      `<input|->.<badVar 0|1>.<negDelay 0|1>` or `-`; parameter values are tokens (equal value = equal token)
          streams     `<channel|-> <pack|->`
          trackFormats `<stream|->`
          trackUIDs   `<trackIndex|-> <pack|-> <trackFormat|-> <channel|->`
   out: `items:<n>` | `adm:<kind>@<function>:<ordinal> <reads>` | `internal:<kind>`, then ` mt=<0|1>`
        (1 iff the multitree validation accepting the document implies the unique-path property; proved as
        `multitree_sound`, still evaluated).  `<kind>` is the canonical raise-site kind (`paramshare.<name>` /
        `parampath.<name>` carry the parameter name), `<function>:<ordinal>` its raise site (`AdmKind.site`), `<reads>`
        the structured diagnostic: `,`-separated `ao:3` (an element id), `tn.apf:1` (a type name), `ab:2.0` (block id),
        `avs:7`, `n:2` (a length), `pn:rtime`, `r:<reason>` (start of one AdmFormatRefError reason), `chna`; `-` if empty.
        The request `sites` answers the whole table `<kind>=<function>:<ordinal>;...`.
        `bad-op` for a malformed or ill-scoped line. -/
import Earverif.Model.Validate
import Earverif.Driver.Util
open Earverif.AdmV Earverif.Validate Earverif.Driver

def optNat (s : String) : Option (Option Nat) :=
  if s == "-" then some none else s.toNat?.map some

def optInt (s : String) : Option (Option Int) :=
  if s == "-" then some none else s.toInt?.map some

def natList (s : String) : Option (List Nat) :=
  if s == "-" then some [] else (s.splitOn ",").mapM (fun t => t.toNat?)

def trackList (s : String) : Option (List (Option Nat)) :=
  if s == "-" then some [] else (s.splitOn ",").mapM (fun t => if t == "s" then some none else t.toNat?.map some)

def bool? (s : String) : Option Bool :=
  if s == "0" then some false else if s == "1" then some true else none

def typeDef? (s : String) : Option TypeDef :=
  match s with
  | "1" => some .directSpeakers | "2" => some .matrix | "3" => some .objects
  | "4" => some .hoa | "5" => some .binaural | _ => none

/-- elements of a section -/
def elems (s : String) : List (List String) :=
  ((s.splitOn ";").map words).filter (fun ws => !ws.isEmpty)

def coeff? (s : String) : Option Coeff :=
  match s.splitOn "." with
  | [i, b, n] => do some { input := ← optNat i, badVar := ← bool? b, negDelay := ← bool? n }
  | _ => none

def coeffs? (s : String) : Option (List Coeff) :=
  if s == "-" then some [] else (s.splitOn ",").mapM coeff?

def block? (s : String) : Option Block :=
  match s.splitOn ":" with
  | [c, e, o, g, n, sc, oc, cs, rt, du, nf] => do
    some { cartMismatch := ← bool? c, equation := ← bool? e, order := ← optInt o, degree := ← optInt g,
           norm := ← optNat n, scr := ← optNat sc, outCh := ← optNat oc, coeffs := ← coeffs? cs,
           rtime := ← optNat rt, duration := ← optNat du, nfc := ← optNat nf }
  | _ => none

def blocks? (s : String) : Option (List Block) :=
  if s == "-" then some [] else (s.splitOn "/").mapM block?

def programme? : List String → Option Programme
  | [c, a] => do some { contents := ← natList c, avs := ← natList a }
  | _ => none

def content? : List String → Option Content
  | [o, a] => do some { objects := ← natList o, avs := ← natList a }
  | _ => none

def obj? : List String → Option Obj
  | [o, p, t, c, pa, a] => do
    let bits ← pa.toList.mapM (fun ch => bool? (String.singleton ch))
    match bits with
    | [b1, b2, b3, b4, b5] =>
      some { objects := ← natList o, packs := ← natList p, tracks := ← trackList t, comps := ← natList c,
             pstart := b1, pdur := b2, pgain := b3, pmute := b4, poffset := b5, avs := ← natList a }
    | _ => none
  | _ => none

def pack? : List String → Option Pack
  | [t, c, p, e, i, o, n, s, nf, ad] => do
    some { type := ← typeDef? t, channels := ← natList c, packs := ← natList p, encodePacks := ← natList e,
           input := ← optNat i, output := ← optNat o, norm := ← optNat n, scr := ← optNat s,
           nfc := ← optNat nf, absDist := ← optNat ad }
  | _ => none

def channel? : List String → Option Channel
  | [t, f, b] => do some { type := ← typeDef? t, freq := ← bool? f, blocks := ← blocks? b }
  | _ => none

def stream? : List String → Option Stream
  | [c, p] => do some { channel := ← optNat c, pack := ← optNat p }
  | _ => none

def tf? : List String → Option TrackFormat
  | [s] => do some { stream := ← optNat s }
  | _ => none

def atu? : List String → Option TrackUID
  | [i, p, f, c] => do some { trackIndex := ← optNat i, pack := ← optNat p, trackFormat := ← optNat f, channel := ← optNat c }
  | _ => none

def showPName : PName → String
  | .rtime => "rtime" | .duration => "duration" | .normalization => "normalization"
  | .nfcRefDist => "nfcRefDist" | .screenRef => "screenRef" | .absoluteDistance => "absoluteDistance"

def showAdm : AdmKind → String
  | .paramshare n => "paramshare." ++ showPName n
  | .parampath n => "parampath." ++ showPName n
  | k => (reprStr k).replace "Earverif.Validate.AdmKind." ""
def showInt (k : IntKind) : String := (reprStr k).replace "Earverif.Validate.IntKind." ""

def showEK : EK → String
  | .ap => "ap" | .ac => "ac" | .ao => "ao" | .apf => "apf" | .acf => "acf" | .asf => "asf" | .atf => "atf" | .atu => "atu"

def showAcc : Acc → String
  | .id k i => s!"{showEK k}:{i}"
  | .tname k i => s!"tn.{showEK k}:{i}"
  | .block c b => s!"ab:{c}.{b}"
  | .avs t => s!"avs:{t}"
  | .num n => s!"n:{n}"
  | .pname n => "pn:" ++ showPName n
  | .reason r => "r:" ++ (reprStr r).replace "Earverif.Validate.Diag." ""
  | .chna => "chna"

def showMsg (m : Msg) : String := if m.isEmpty then "-" else ",".intercalate (m.map showAcc)

def showSite (k : AdmKind) : String := s!"{k.site.1}:{k.site.2}"

def showRes : R Nat → String
  | .ok n => s!"items:{n}"
  | .error (.adm k m) => s!"adm:{showAdm k}@{showSite k} {showMsg m}"
  | .error (.internal k) => "internal:" ++ showInt k

/-- the raise-site table (parameter-carrying kinds once: the site does not depend on the name) -/
def siteTable : String :=
  ";".intercalate (AdmKind.all.map (fun k =>
    (match k with
     | .paramshare _ => "paramshare"
     | .parampath _ => "parampath"
     | k => showAdm k) ++ "=" ++ showSite k))

def answer (line : String) : String :=
  if line.trimAscii.toString == "sites" then siteTable else
  match line.splitOn "|" with
  | [hd, ps, cs, os, pks, chs, ss, tfs, atus] =>
    let r : Option String := do
      let (v2, prog, sel) ← match words hd with
        | [v, p, s] => do some (← bool? v, ← optNat p, ← natList s)
        | _ => none
      let d : Doc := {
        v2Allowed := v2
        programmes := ← (elems ps).mapM programme?
        contents := ← (elems cs).mapM content?
        objects := ← (elems os).mapM obj?
        packs := ← (elems pks).mapM pack?
        channels := ← (elems chs).mapM channel?
        streams := ← (elems ss).mapM stream?
        trackFormats := ← (elems tfs).mapM tf?
        trackUIDs := ← (elems atus).mapM atu? }
      if !d.wellScoped then none
      if !d.avsOwned then none
      if !(allLt sel d.objects.length) then none
      let res := selectItems d prog sel
      let mt := match validateMultitree d with
        | .ok _ => uniquePaths d
        | .error _ => true
      some (showRes res ++ (if mt then " mt=1" else " mt=0"))
    r.getD "bad-op"
  | _ => "bad-op"

def main : IO Unit := lineLoop answer
