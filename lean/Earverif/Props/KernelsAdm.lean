/-
Kernel ties, group `KernelsAdm` (see `harness/kernels.py` and the header of `Props/Kernels.lean`): `ear/fileio/adm/time_format.py`
and `ear/fileio/adm/generate_ids.py` (property C08).

`Earverif/Gen/KernelsAdm.lean` is regenerated on every run from the Python SOURCE of the functions below; each theorem here states
that the regenerated definition equals the hand-written model definition (`Model/TimeFormat.lean`, `Model/GenIds.lean`) that the
C08 theorems are about.  Strings are `List Char`; f-strings and `str.format` go through `Model/C08Digits.lean`
(`{x}` of a natural = `decStr`, `{x:02d}` = `decPad 2`, `{x:04X}` = `hexPad 4`; one-character literals are `[c]`, longer ones
`"..".toList`).  Where the model has no separate def for the translated piece, the theorem states the model function with the
translated def in place of its own expression.

Only core Lean.  Proof notes: `unfold` (not `simp only [f]`) on definitions that contain string literals - `simp` visiting
`"APR_".toList` evaluates the literal and takes seconds.
-/
import Earverif.Gen.KernelsAdm
import Earverif.Model.TimeFormat
import Earverif.Model.GenIds

-- simp sets below carry lemmas that only a behaviour-preserving rewrite of the source needs
set_option linter.unusedSimpArgs false

namespace Earverif.Kernels
open Earverif Earverif.Digits

/-! ### C08 — time_format -/

theorem unparse_whole_part_eq_model (s : Nat) : Gen.unparse_whole_part s = TimeFormat.wholePart s := by
  simp only [Gen.unparse_whole_part, TimeFormat.wholePart, List.append_assoc, List.cons_append, List.nil_append]

theorem unparse_fractional_fmt_eq_model (n d : Nat) :
    TimeFormat.unparseFractional n d = Gen.unparse_fractional_fmt (TimeFormat.wholePart (n / d)) (n % d) d := by
  simp only [Gen.unparse_fractional_fmt, TimeFormat.unparseFractional, List.append_assoc, List.cons_append,
    List.nil_append]

theorem from_fraction_eq_model (q : Rat) (d : Nat) : Gen.from_fraction q d = (q * (d : Rat), d) := by
  first | rfl | (unfold Gen.from_fraction; rw [Rat.mul_comm])

theorem parse_time_frac_value (hh mm ss n d : Nat) :
    Gen.parse_time_frac hh mm ss n d =
      if n < d then some ((((((hh * 60 + mm) * 60 + ss) * d + n : Nat) : Rat) / (d : Rat)), d) else none := by
  simp only [Gen.parse_time_frac]
  by_cases hlt : n < d
  · have hd : (d : Rat) ≠ 0 := by
      intro h0
      have := Rat.natCast_eq_zero_iff.mp h0
      omega
    have hle : ¬ d ≤ n := by omega
    simp only [hlt, hle, not_true_eq_false, if_true, if_false, Rat.natCast_add, Rat.natCast_mul, Rat.natCast_ofNat]
    congr 2
    grind
  · have hle : d ≤ n := by omega
    simp only [hlt, hle, not_false_eq_true, if_true, if_false]

/-- the fractional branch of `parse_time` inside the model's `parseTail`: the `num` and `den` groups are `num`, `den` -/
theorem parse_time_frac_eq_model (hh mm ss : Nat) (r num rest den : List Char)
    (h1 : TimeFormat.digits1 r = some (num, 'S' :: rest)) (h2 : TimeFormat.digits1 rest = some (den, [])) :
    TimeFormat.parseTail ((hh * 60 + mm) * 60) ss r =
      (Gen.parse_time_frac hh mm ss (decNat num) (decNat den)).map fun p =>
        TimeFormat.Time.frac (Gen.from_fraction p.1 p.2).1.num.toNat (Gen.from_fraction p.1 p.2).2 := by
  rw [parse_time_frac_value]
  have hnum : ∀ k : Nat, ((k : Rat)).num.toNat = k := by intro k; simp
  simp only [TimeFormat.parseTail, h1, from_fraction_eq_model, Option.bind_eq_bind, Option.bind_some]
  rw [h2]
  simp only [Option.bind_some]
  split <;> rename_i h
  · have hd : ((decNat den : Nat) : Rat) ≠ 0 := by
      intro h0
      have := Rat.natCast_eq_zero_iff.mp h0
      omega
    simp only [Option.map_some, Rat.div_mul_cancel hd, hnum]
  · rfl

theorem parse_time_dec_eq_model (hh mm ss : Nat) (r num : List Char) (h1 : TimeFormat.digits1 r = some (num, [])) :
    TimeFormat.parseTail ((hh * 60 + mm) * 60) ss r =
      some (.dec (Gen.parse_time_dec hh mm
        (mkRat ((ss * 10 ^ num.length + decNat num : Nat) : Int) (10 ^ num.length)))) := by
  simp only [TimeFormat.parseTail, h1, Gen.parse_time_dec]
  rfl

/-! ### C08 — generate_ids: the ten id formats and the ten counter start values -/

theorem id_apr_eq_model (i : Nat) : Gen.id_apr i = GenIds.aprId i := by
  unfold Gen.id_apr GenIds.aprId
  first | rfl | (simp only [List.append_assoc]; rfl)
theorem id_aco_eq_model (i : Nat) : Gen.id_aco i = GenIds.acoId i := by
  unfold Gen.id_aco GenIds.acoId
  first | rfl | (simp only [List.append_assoc]; rfl)
theorem id_ao_eq_model (i : Nat) : Gen.id_ao i = GenIds.aoId i := by
  unfold Gen.id_ao GenIds.aoId
  first | rfl | (simp only [List.append_assoc]; rfl)
theorem id_avs_eq_model (i j : Nat) : Gen.id_avs i j = GenIds.avsId i j := by
  unfold Gen.id_avs GenIds.avsId
  first | rfl | (simp only [List.append_assoc]; rfl)
theorem id_ap_eq_model (t i : Nat) : Gen.id_ap t i = GenIds.apId t i := by
  unfold Gen.id_ap GenIds.apId
  first | rfl | (simp only [List.append_assoc]; rfl)
theorem id_ac_eq_model (t i : Nat) : Gen.id_ac t i = GenIds.acId t i := by
  unfold Gen.id_ac GenIds.acId
  first | rfl | (simp only [List.append_assoc]; rfl)
theorem id_ab_eq_model (t i b : Nat) : Gen.id_ab t i b = GenIds.abId t i b := by
  unfold Gen.id_ab GenIds.abId
  first | rfl | (simp only [List.append_assoc]; rfl)
theorem id_as_eq_model (t i : Nat) : Gen.id_as t i = GenIds.asId t i := by
  unfold Gen.id_as GenIds.asId
  first | rfl | (simp only [List.append_assoc]; rfl)
theorem id_at_eq_model (t i k : Nat) : Gen.id_at t i k = GenIds.atId t i k := by
  unfold Gen.id_at GenIds.atId
  first | rfl | (simp only [List.append_assoc]; rfl)
theorem id_atu_eq_model (i : Nat) : Gen.id_atu i = GenIds.atuId i := by
  unfold Gen.id_atu GenIds.atuId
  first | rfl | (simp only [List.append_assoc]; rfl)
theorem ids_start_apr_eq_model : Gen.ids_start_apr = GenIds.firstId := by first | rfl | decide
theorem ids_start_aco_eq_model : Gen.ids_start_aco = GenIds.firstId := by first | rfl | decide
theorem ids_start_ao_eq_model : Gen.ids_start_ao = GenIds.firstId := by first | rfl | decide
theorem ids_start_avs_eq_model : Gen.ids_start_avs = 1 := by first | rfl | decide
theorem ids_start_ap_eq_model : Gen.ids_start_ap = GenIds.firstId := by first | rfl | decide
theorem ids_start_ac_eq_model : Gen.ids_start_ac = GenIds.firstId := by first | rfl | decide
theorem ids_start_ab_eq_model : Gen.ids_start_ab = 1 := by first | rfl | decide
theorem ids_start_as_eq_model : Gen.ids_start_as = GenIds.firstId := by first | rfl | decide
theorem ids_start_at_eq_model : Gen.ids_start_at = 1 := by first | rfl | decide
theorem ids_start_atu_eq_model : Gen.ids_start_atu = 1 := by first | rfl | decide

/-- The ten start values, tied to the model's `generateIds` itself (not to a restated literal): with the counters of
`generate_ids` starting where the source says, the model's output is what it is. -/
theorem ids_starts_generate (x : GenIds.Input) (h : x.unlinkedTracks = 0) :
    GenIds.generateIds x = some {
      programmes := (List.range' Gen.ids_start_apr x.nProgrammes).map GenIds.aprId
      contents := (List.range' Gen.ids_start_aco x.nContents).map GenIds.acoId
      objects := (GenIds.enumFrom Gen.ids_start_ao x.objects).map fun p => GenIds.aoId p.1
      avs := (GenIds.enumFrom Gen.ids_start_ao x.objects).map fun p =>
        (List.range' Gen.ids_start_avs p.2).map (GenIds.avsId p.1)
      packs := (GenIds.enumFrom Gen.ids_start_ap x.packs).map fun p => GenIds.apId p.2 p.1
      channels := (GenIds.enumFrom Gen.ids_start_ac x.channels).map fun p => GenIds.acId p.2.1 p.1
      blocks := (GenIds.enumFrom Gen.ids_start_ac x.channels).map fun p =>
        (List.range' Gen.ids_start_ab p.2.2).map (GenIds.abId p.2.1 p.1)
      streams := (GenIds.enumFrom Gen.ids_start_as x.streams).map fun p => GenIds.asId p.2.1 p.1
      tracks := (GenIds.enumFrom Gen.ids_start_as x.streams).map fun p =>
        (List.range' Gen.ids_start_at p.2.2).map (GenIds.atId p.2.1 p.1)
      trackUIDs := (List.range' Gen.ids_start_atu x.nTrackUIDs).map GenIds.atuId } := by
  unfold GenIds.generateIds
  rw [if_neg (by simp [h])]
  rfl

example : (⟨2, 1, [1, 0], [3], [(1, 2)], [(1, 1)], 0, 2⟩ : GenIds.Input).unlinkedTracks = 0 := rfl

end Earverif.Kernels
