/-
Lemmas about the positional digit strings of `Model/C08Digits.lean` (core Lean only):
printing then reading a number is the identity, printed strings consist of digit characters,
minimum-width padding has the stated length.
-/
import Earverif.Model.C08Digits

namespace Earverif.Digits

theorem ofDigits_append (b : Nat) (xs : List Nat) (d : Nat) :
    ofDigits b (xs ++ [d]) = ofDigits b xs * b + d := by
  simp [ofDigits, List.foldl_append]

theorem ofDigits_cons_zero (b : Nat) (xs : List Nat) : ofDigits b (0 :: xs) = ofDigits b xs := by
  simp [ofDigits]

theorem ofDigits_replicate_zero (b k : Nat) (xs : List Nat) :
    ofDigits b (List.replicate k 0 ++ xs) = ofDigits b xs := by
  induction k with
  | zero => simp
  | succ k ih => rw [List.replicate_succ, List.cons_append, ofDigits_cons_zero, ih]

/-- general Horner step with an accumulator -/
theorem foldl_horner (b : Nat) (xs : List Nat) (a : Nat) :
    xs.foldl (fun a d => a * b + d) a = a * b ^ xs.length + ofDigits b xs := by
  induction xs generalizing a with
  | nil => simp [ofDigits]
  | cons x xs ih =>
    simp only [List.foldl_cons, List.length_cons, ofDigits]
    rw [ih, ih (0 * b + x)]
    rw [Nat.pow_succ, Nat.zero_mul, Nat.zero_add, Nat.add_mul, Nat.mul_assoc, Nat.mul_comm b, Nat.add_assoc]

theorem ofDigits_cons (b x : Nat) (xs : List Nat) :
    ofDigits b (x :: xs) = x * b ^ xs.length + ofDigits b xs := by
  have := foldl_horner b xs (0 * b + x)
  simp only [ofDigits, List.foldl_cons]
  rw [this]; simp [ofDigits]

theorem ofDigits_natDigits (b n : Nat) : ofDigits (b + 2) (natDigits b n) = n := by
  fun_induction natDigits b n with
  | case1 n h => simp [ofDigits]
  | case2 n h ih =>
    rw [ofDigits_append, ih]
    have := Nat.div_add_mod n (b+2)
    rw [Nat.mul_comm] at this; exact this

theorem natDigits_lt (b n : Nat) : ∀ d ∈ natDigits b n, d < b + 2 := by
  fun_induction natDigits b n with
  | case1 n h => simp; exact h
  | case2 n h ih =>
    intro d hd
    rw [List.mem_append] at hd
    rcases hd with hd | hd
    · exact ih d hd
    · simp at hd; rw [hd]; exact Nat.mod_lt _ (by omega)

theorem natDigits_small (b n : Nat) (h : n < b + 2) : natDigits b n = [n] := by
  rw [natDigits]; simp [h]

theorem natDigits_step (b n : Nat) (h : ¬ n < b + 2) :
    natDigits b n = natDigits b (n / (b + 2)) ++ [n % (b + 2)] := by
  rw [natDigits]; simp [h]

theorem natDigits_ne_nil (b n : Nat) : natDigits b n ≠ [] := by
  fun_induction natDigits b n with
  | case1 n h => simp
  | case2 n h ih => simp

/-- a number below `(b+2)^w` has at most `w` digits (`w ≥ 1`) -/
theorem natDigits_length_le (b : Nat) (w n : Nat) (hw : 1 ≤ w) (h : n < (b + 2) ^ w) :
    (natDigits b n).length ≤ w := by
  fun_induction natDigits b n generalizing w with
  | case1 n h' => simp; exact hw
  | case2 n h' ih =>
    rw [List.length_append, List.length_singleton]
    match w, hw with
    | 1, _ => simp at h; omega
    | w + 2, _ =>
      have : n / (b + 2) < (b + 2) ^ (w + 1) := by
        apply Nat.div_lt_of_lt_mul
        rw [Nat.pow_succ] at h; rw [Nat.mul_comm]; exact h
      have := ih (w + 1) (by omega) this
      omega

theorem decVal_decChar : ∀ d, d < 10 → decVal (decChar d) = d := by decide
theorem hexVal_hexChar : ∀ d, d < 16 → hexVal (hexChar d) = d := by decide
theorem isDec_decChar : ∀ d, d < 10 → isDec (decChar d) = true := by decide
theorem isHex_hexChar : ∀ d, d < 16 → isHexUpper (hexChar d) = true := by decide

theorem map_decVal_decChar (ds : List Nat) (h : ∀ d ∈ ds, d < 10) :
    (ds.map decChar).map decVal = ds := by
  induction ds with
  | nil => rfl
  | cons d ds ih =>
    simp only [List.map_cons]
    rw [decVal_decChar d (h d (by simp)), ih (fun x hx => h x (by simp [hx]))]

theorem map_hexVal_hexChar (ds : List Nat) (h : ∀ d ∈ ds, d < 16) :
    (ds.map hexChar).map hexVal = ds := by
  induction ds with
  | nil => rfl
  | cons d ds ih =>
    simp only [List.map_cons]
    rw [hexVal_hexChar d (h d (by simp)), ih (fun x hx => h x (by simp [hx]))]

/-- `int(str(n)) == n` -/
theorem decNat_decStr (n : Nat) : decNat (decStr n) = n := by
  unfold decNat decStr
  rw [map_decVal_decChar _ (natDigits_lt 8 n)]
  exact ofDigits_natDigits 8 n

theorem decStr_all_dec (n : Nat) : ∀ c ∈ decStr n, isDec c = true := by
  intro c hc
  unfold decStr at hc
  rw [List.mem_map] at hc
  obtain ⟨d, hd, rfl⟩ := hc
  exact isDec_decChar d (natDigits_lt 8 n d hd)

theorem decStr_ne_nil (n : Nat) : decStr n ≠ [] := by
  unfold decStr; simp [natDigits_ne_nil]

theorem decStr_length_pos (n : Nat) : 0 < (decStr n).length :=
  List.length_pos_iff.mpr (decStr_ne_nil n)

theorem decVal_zero : decVal '0' = 0 := rfl
theorem hexVal_zero : hexVal '0' = 0 := rfl

/-- `int(f"{n:0{w}d}") == n` -/
theorem decNat_decPad (w n : Nat) : decNat (decPad w n) = n := by
  unfold decNat decPad padLeft
  rw [List.map_append, List.map_replicate, decVal_zero, ofDigits_replicate_zero]
  exact decNat_decStr n

theorem decPad_all_dec (w n : Nat) : ∀ c ∈ decPad w n, isDec c = true := by
  intro c hc
  unfold decPad padLeft at hc
  rw [List.mem_append] at hc
  rcases hc with hc | hc
  · rw [List.mem_replicate] at hc; rw [hc.2]; rfl
  · exact decStr_all_dec n c hc

theorem padLeft_length {α} (w : Nat) (fill : α) (xs : List α) :
    (padLeft w fill xs).length = max w xs.length := by
  unfold padLeft; simp; omega

/-- two-digit fields: `f"{n:02d}"` has exactly two characters for `n < 100` -/
theorem decPad2_length (n : Nat) (h : n < 100) : (decPad 2 n).length = 2 := by
  unfold decPad
  rw [padLeft_length]
  have h1 : (decStr n).length ≤ 2 := by
    unfold decStr; rw [List.length_map]
    exact natDigits_length_le 8 2 n (by omega) (by simpa using h)
  omega

/-- `int("{:0wX}".format(n), 16) == n`: the formatter is injective -/
theorem hexNat_hexPad (w n : Nat) : hexNat (hexPad w n) = n := by
  unfold hexNat hexPad padLeft
  rw [List.map_append, List.map_replicate, hexVal_zero, ofDigits_replicate_zero,
    map_hexVal_hexChar _ (natDigits_lt 14 n)]
  exact ofDigits_natDigits 14 n

theorem hexPad_injective (w a b : Nat) (h : hexPad w a = hexPad w b) : a = b := by
  have := congrArg hexNat h
  rwa [hexNat_hexPad, hexNat_hexPad] at this

theorem hexPad_all_hex (w n : Nat) : ∀ c ∈ hexPad w n, isHexUpper c = true := by
  intro c hc
  unfold hexPad padLeft at hc
  rw [List.mem_append] at hc
  rcases hc with hc | hc
  · rw [List.mem_replicate] at hc; rw [hc.2]; rfl
  · rw [List.mem_map] at hc
    obtain ⟨d, hd, rfl⟩ := hc
    exact isHex_hexChar d (natDigits_lt 14 n d hd)

theorem hexPad_length_ge (w n : Nat) : w ≤ (hexPad w n).length := by
  unfold hexPad; rw [padLeft_length]; omega

/-- exactly `w` digits iff the number fits (`w ≥ 1`) -/
theorem hexPad_length (w n : Nat) (hw : 1 ≤ w) (h : n < 16 ^ w) : (hexPad w n).length = w := by
  unfold hexPad; rw [padLeft_length, List.length_map]
  have := natDigits_length_le 14 w n hw (by simpa using h)
  omega

/-- the leading digit run stops exactly at the end of a digit string that is followed by a
non-digit or the end -/
theorem takeWhile_isDec (ds rest : List Char) (hds : ∀ c ∈ ds, isDec c = true)
    (hrest : rest = [] ∨ ∃ c r, rest = c :: r ∧ isDec c = false) :
    (ds ++ rest).takeWhile isDec = ds ∧ (ds ++ rest).dropWhile isDec = rest := by
  induction ds with
  | nil =>
    rcases hrest with rfl | ⟨c, r, rfl, hc⟩
    · simp
    · simp [hc]
  | cons d ds ih =>
    have hd := hds d (by simp)
    have := ih (fun c hc => hds c (by simp [hc]))
    simp only [List.cons_append, List.takeWhile_cons, List.dropWhile_cons, hd, if_true]
    rw [this.1, this.2]; exact ⟨rfl, rfl⟩

end Earverif.Digits
