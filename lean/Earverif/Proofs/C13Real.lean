/-
C13 — the zone / channel-lock scalar classes over ℝ (used by the theorems that need a square
root or that compose with the C01/C05 models, which are proved over ℝ).
-/
import Earverif.Proofs.C13Zone
import Mathlib.Analysis.Real.Sqrt

namespace Earverif.C13
open Earverif.Zone Earverif.Zone.Scalar Earverif.Zone.ScalarSqrt

noncomputable instance : ScalarSqrt ℝ where
  zero := 0
  one := 1
  ofNat n := (n : ℝ)
  add := (· + ·)
  sub := (· - ·)
  mul := (· * ·)
  div := (· / ·)
  abs x := |x|
  lt a b := decide (a < b)
  le a b := decide (a ≤ b)
  eq a b := decide (a = b)
  eps6 := 1e-6
  eps5 := 1e-5
  sqrt := Real.sqrt
  nanToNum x := x

@[simp] theorem real_zero : (Scalar.zero : ℝ) = 0 := rfl
@[simp] theorem real_one : (Scalar.one : ℝ) = 1 := rfl
@[simp] theorem real_ofNat (n : Nat) : (Scalar.ofNat n : ℝ) = (n : ℝ) := rfl
@[simp] theorem real_add (a b : ℝ) : Scalar.add a b = a + b := rfl
@[simp] theorem real_sub (a b : ℝ) : Scalar.sub a b = a - b := rfl
@[simp] theorem real_mul (a b : ℝ) : Scalar.mul a b = a * b := rfl
@[simp] theorem real_div (a b : ℝ) : Scalar.div a b = a / b := rfl
@[simp] theorem real_lt (a b : ℝ) : Scalar.lt a b = decide (a < b) := rfl
@[simp] theorem real_le (a b : ℝ) : Scalar.le a b = decide (a ≤ b) := rfl
@[simp] theorem real_eq (a b : ℝ) : Scalar.eq a b = decide (a = b) := rfl
@[simp] theorem real_sqrt (a : ℝ) : ScalarSqrt.sqrt a = Real.sqrt a := rfl
@[simp] theorem real_nanToNum (a : ℝ) : ScalarSqrt.nanToNum a = a := rfl

end Earverif.C13
