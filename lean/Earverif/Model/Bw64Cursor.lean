/-
Model of the cursor part of `ear.fileio.bw64.reader.Bw64Reader`
(`seek`, `tell`, `read`, `__len__`, `iter_sample_blocks`).

The only cursor state of the real reader is the position of the underlying
buffer; the model keeps exactly that (`pos`, a byte offset) and transliterates
the integer arithmetic of the Python methods.  Core Lean only (no Mathlib) so
that the driver can run it.
-/
namespace Earverif.Cursor

/-- Constants of an opened file: byte offset of the first data byte, block
alignment (bytes per frame), size of the data chunk in bytes (the ds64 size for
BW64 files) and total file length. -/
structure Cfg where
  data : Int
  A : Int
  size : Int
  fileLen : Int
  deriving Repr

/-- `chunkIndex.position.end`. -/
def Cfg.dend (k : Cfg) : Int := k.data + k.size

/-- `Bw64Reader.__len__` (Python `//` is floor division; `A > 0`). -/
def len (k : Cfg) : Int := k.size / k.A

/-- `Bw64Reader.tell`. -/
def tell (k : Cfg) (pos : Int) : Int := (pos - k.data) / k.A

/-- `Bw64Reader.seek`; `none` = `ValueError` for an unsupported `whence`. -/
def seek (k : Cfg) (pos : Int) (off : Int) (whence : Int) : Option Int :=
  let fo := off * k.A
  let base : Option Int :=
    if whence = 0 then some k.data
    else if whence = 1 then some pos
    else if whence = 2 then some k.dend
    else none
  match base with
  | none => none
  | some b =>
    if b + fo < k.data then some k.data
    else if b + fo > k.dend then some k.dend
    else some (b + fo)

/-- `BytesIO.read(want)` at `pos`: number of bytes returned. A negative
argument reads to the end of the file. -/
def bufRead (k : Cfg) (pos : Int) (want : Int) : Int :=
  let avail := if k.fileLen - pos < 0 then 0 else k.fileLen - pos
  if want < 0 then avail else if want < avail then want else avail

/-- `Bw64Reader.read`: new buffer position and the byte range `(start, count)`
handed to the PCM decoder. -/
def read (k : Cfg) (pos : Int) (n : Int) : Int × (Int × Int) :=
  let n' := if tell k pos + n > len k then len k - tell k pos else n
  let got := bufRead k pos (n' * k.A)
  (pos + got, (pos, got))

/-- `Bw64Reader.iter_sample_blocks`, run to exhaustion, with fuel (the real
loop does not terminate for `blockSize = 0` unless the cursor is at the end). -/
def iter (k : Cfg) (bs : Int) : Nat → Int → Int × List (Int × Int)
  | 0, pos => (pos, [])
  | fuel + 1, pos =>
    if tell k pos = len k then (pos, [])
    else
      let (pos', r) := read k pos bs
      let (pos'', rs) := iter k bs fuel pos'
      (pos'', r :: rs)

/-- Operations a client can perform. -/
inductive Op where
  | seek (off : Int) (whence : Int)
  | tell
  | read (n : Int)
  | iter (bs : Int)
  deriving Repr

/-- Observable result of an operation. -/
inductive Out where
  | unit
  | valueError
  | pos (c : Int)
  | bytes (r : Int × Int)
  | blocks (rs : List (Int × Int))
  deriving Repr, DecidableEq

/-- One step of the concrete reader. Fuel for `iter` is `len + 1`. -/
def step (k : Cfg) (pos : Int) : Op → Int × Out
  | .seek off w =>
    match seek k pos off w with
    | none => (pos, .valueError)
    | some p => (p, .unit)
  | .tell => (pos, .pos (tell k pos))
  | .read n => let (p, r) := read k pos n; (p, .bytes r)
  | .iter bs => let (p, rs) := iter k bs ((len k).toNat + 1) pos; (p, .blocks rs)

/-- Run a sequence of operations, collecting outputs. -/
def run (k : Cfg) : Int → List Op → Int × List Out
  | pos, [] => (pos, [])
  | pos, op :: ops =>
    let (p, o) := step k pos op
    let (p', os) := run k p ops
    (p', o :: os)

/-! ### Specification: a cursor over a list of frames -/

/-- Clamp to `[0, n]`. -/
def clamp (n x : Int) : Int := if x < 0 then 0 else if x > n then n else x

/-- Spec step over a cursor `c ∈ [0, N]`; outputs are frame ranges `(first, count)`. -/
def specSeek (N c off whence : Int) : Option Int :=
  if whence = 0 then some (clamp N off)
  else if whence = 1 then some (clamp N (c + off))
  else if whence = 2 then some (clamp N (N + off))
  else none

def specRead (N c n : Int) : Int × (Int × Int) :=
  let e := if c + n < N then c + n else N
  (e, (c, e - c))

def specIter (N bs : Int) : Nat → Int → Int × List (Int × Int)
  | 0, c => (c, [])
  | fuel + 1, c =>
    if c = N then (c, [])
    else
      let (c', r) := specRead N c bs
      let (c'', rs) := specIter N bs fuel c'
      (c'', r :: rs)

def specStep (N c : Int) : Op → Int × Out
  | .seek off w =>
    match specSeek N c off w with
    | none => (c, .valueError)
    | some c' => (c', .unit)
  | .tell => (c, .pos c)
  | .read n => let (c', r) := specRead N c n; (c', .bytes r)
  | .iter bs => let (c', rs) := specIter N bs (N.toNat + 1) c; (c', .blocks rs)

def specRun (N : Int) : Int → List Op → Int × List Out
  | c, [] => (c, [])
  | c, op :: ops =>
    let (c', o) := specStep N c op
    let (c'', os) := specRun N c' ops
    (c'', o :: os)

/-! ### `iter_sample_blocks` as a lazy generator

`g = reader.iter_sample_blocks(bs)` creates a generator object and runs nothing.  Each `next(g)`
resumes `while self.tell() != len(self): yield self.read(blockSize)`: it looks at the reader's *current*
buffer position (the generator has no cursor of its own, so seeks and reads between two `next` calls are
seen), and either yields one block or finishes; a finished generator raises `StopIteration` on every later
`next`, wherever the cursor is by then. -/

/-- a generator object: its block size, and whether it has returned -/
structure Gen where
  bs : Int
  done : Bool
  deriving Repr, DecidableEq

/-- `next(g)` with the buffer at `pos`: new position, new generator state, the byte range of the block
yielded (`none` = `StopIteration`). -/
def gnext (k : Cfg) (pos : Int) (g : Gen) : Int × Gen × Option (Int × Int) :=
  if g.done then (pos, g, none)
  else if tell k pos = len k then (pos, { g with done := true }, none)
  else
    let (p, r) := read k pos g.bs
    (p, g, some r)

/-- client operations including generator handling -/
inductive GOp where
  | op (o : Op)        -- seek / tell / read / `list(iter_sample_blocks(bs))`
  | mk (bs : Int)      -- `g_i = reader.iter_sample_blocks(bs)` (i = number of generators made before)
  | next (i : Nat)     -- `next(g_i)`
  deriving Repr

inductive GOut where
  | out (o : Out)
  | made (i : Nat)
  | block (r : Int × Int)
  | stop               -- StopIteration
  | noGen              -- no such generator (not a client operation; the driver answers `bad-op`)
  deriving Repr, DecidableEq

/-- state: buffer position and the generators made so far -/
def gstep (k : Cfg) (s : Int × List Gen) : GOp → (Int × List Gen) × GOut
  | .op o => let (p, out) := step k s.1 o; ((p, s.2), .out out)
  | .mk bs => ((s.1, s.2 ++ [⟨bs, false⟩]), .made s.2.length)
  | .next i =>
    match s.2[i]? with
    | none => (s, .noGen)
    | some g =>
      let (p, g', r) := gnext k s.1 g
      ((p, s.2.set i g'), match r with | some r => .block r | none => .stop)

def grun (k : Cfg) : Int × List Gen → List GOp → (Int × List Gen) × List GOut
  | s, [] => (s, [])
  | s, op :: ops =>
    let (s', o) := gstep k s op
    let (s'', os) := grun k s' ops
    (s'', o :: os)

/-- `next(g)` repeated until `StopIteration` (at most `fuel` blocks): what a `for` loop over the generator does -/
def drain (k : Cfg) : Nat → Int → Gen → Int × Gen × List (Int × Int)
  | 0, pos, g => (pos, g, [])
  | fuel + 1, pos, g =>
    match gnext k pos g with
    | (p, g', none) => (p, g', [])
    | (p, g', some r) =>
      let (p', g'', rs) := drain k fuel p g'
      (p', g'', r :: rs)

/-! specification of the generator over a cursor `c ∈ [0, N]` -/

def specGnext (N c : Int) (g : Gen) : Int × Gen × Option (Int × Int) :=
  if g.done then (c, g, none)
  else if c = N then (c, { g with done := true }, none)
  else
    let (c', r) := specRead N c g.bs
    (c', g, some r)

def specGstep (N : Int) (s : Int × List Gen) : GOp → (Int × List Gen) × GOut
  | .op o => let (c, out) := specStep N s.1 o; ((c, s.2), .out out)
  | .mk bs => ((s.1, s.2 ++ [⟨bs, false⟩]), .made s.2.length)
  | .next i =>
    match s.2[i]? with
    | none => (s, .noGen)
    | some g =>
      let (c, g', r) := specGnext N s.1 g
      ((c, s.2.set i g'), match r with | some r => .block r | none => .stop)

def specGrun (N : Int) : Int × List Gen → List GOp → (Int × List Gen) × List GOut
  | s, [] => (s, [])
  | s, op :: ops =>
    let (s', o) := specGstep N s op
    let (s'', os) := specGrun N s' ops
    (s'', o :: os)

end Earverif.Cursor
