/-
C08: composition of the grid model of the float leaf (`Leaf.num k`, `dumpsNum`) with the real float text
(`fmt5` / `parseFloat`, `Model/FloatText.lean`) along the GENERIC handler-table path: every text that a declarative
`FloatType` row (`Attribute` / `AttrElement` / `ListElement`) of a regenerated parser table writes for an object whose
values under that row are bounded grid numbers is the text the real `FloatType.dumps` writes for the nearest double,
`float()` of that text is that double, and printing it again gives the same text.

NOT covered here (the numbers are `Int` fields of hand-written structures rendered by the hand-written handlers of
`Model/XmlCustom.lean` / `XmlBlocks.lean` with `dumpsNum` directly, not `Leaf.num` under a `FloatType` row):
position / speaker position (bounds, screenEdgeLock), channelLock maxDistance, objectDivergence, zoneExclusion, gain
(element and attribute forms, dB), jumpPosition interpolationLength (`SecondsType`), positionOffset, frequency,
the reference-screen centre position / width, gainInteractionRange / positionInteractionRange, the alternativeValueSet
contents, Matrix coefficient gain.  For these the leaf-level `floatCodec_refines` / `secondsCodec_refines` still have to
be applied by the reader.
-/
import Earverif.Proofs.C08Float
import Earverif.Proofs.C08Tables

namespace Earverif.FloatDoc
open Earverif.XmlCodec Earverif.XmlBlocks Earverif.XmlElements Earverif.FloatText Earverif.Ieee

/-- the double (as a `PyFloat`) nearest to the grid value `k / 10^5` -/
noncomputable def gridDouble (k : ℤ) : PyFloat := .fin (decide (k < 0)) (rn53 ((k.natAbs : ℚ) / 100000))

/-- `t` is the text the real `FloatType.dumps` (`"{:.5f}".format`) writes for the double nearest to `k / 10^5`;
the real `FloatType.loads` (`float()`) reads it as exactly that double; writing what was read gives `t` again -/
def RealFloatText (k : ℤ) (t : String) : Prop :=
  IsDouble (rn53 ((k.natAbs : ℚ) / 100000)) ∧
  t.toList = fmt5 (gridDouble k) ∧
  parseFloat t.toList = some (gridDouble k) ∧
  (parseFloat t.toList).map fmt5 = some t.toList

/-- the bound of `floatCodec_refines`: `|k| / 10^5 < 2^36` -/
def numBound : ℕ := 2 ^ 36 * 10 ^ 5

theorem realFloatText_dumpsNum (k : ℤ) (hk : k.natAbs < numBound) : RealFloatText k (dumpsNum k) := by
  obtain ⟨h1, h2, _, h4⟩ := floatCodec_refines k hk
  refine ⟨h4, h1, h2, ?_⟩
  rw [h2, Option.map_some, ← h1]

/-- a table row whose texts are written by `FloatType.dumps` through a declarative combinator
(`TypeAttribute` rows use the enum codecs whatever `ty` says; `HandleText`: see `no_float_handleText`) -/
def isFloatRow (r : Row) : Bool :=
  r.ty == "FloatType" && (r.kind == "Attribute" || r.kind == "AttrElement" || r.kind == "ListElement")

/-- a value under a `FloatType` row: a bounded grid number, or the handler default (nothing is written; for any other
value the real `"{:.5f}".format` raises or prints something the grid model does not describe) -/
def floatValOK (dflt : XV) : XV → Bool
  | .leaf (.num k) => decide (k.natAbs < numBound) || (XV.leaf (.num k) == dflt)
  | v => v == dflt

/-- a list item under a `FloatType` `ListElement` row -/
def floatItemOK : XV → Bool
  | .leaf (.num k) => decide (k.natAbs < numBound)
  | _ => false

/-- the values of `o` under the row `r` are bounded grid numbers (rows that are not declarative `FloatType` rows: no
condition) -/
def rowNumsBounded (o : Obj XV) (r : Row) : Bool :=
  !isFloatRow r ||
  match o r.argName with
  | .one v => r.kind == "ListElement" || floatValOK (.leaf (leafOfRepr r.handlerDefault)) v
  | .many vs => r.kind != "ListElement" || vs.all floatItemOK

/-- **`NumsBounded` for one element** rendered by the parser table `rows` -/
def ObjNumsBounded (rows : List Row) (o : Obj XV) : Bool := rows.all (rowNumsBounded o)

/-- the texts written by the declarative `FloatType` rows of a parser for `o` -/
def floatTexts (impl : Row → CustomImpl XV) (rows : List Row) (o : Obj XV) : List String :=
  (rows.filter isFloatRow).flatMap fun r =>
    ((ofRowG liftCodec XV.leaf impl r).attrsOut o).map Prod.snd ++
    ((ofRowG liftCodec XV.leaf impl r).childrenOut o).map Xml.text

/-- … they do occur in the element `toXml` writes: as attribute values or as texts of child elements -/
theorem floatTexts_in_toXml (impl : Row → CustomImpl XV) (rows : List Row) (name : String) (o : Obj XV) :
    ∀ t ∈ floatTexts impl rows o,
      (∃ kv ∈ (toXml (rows.map (ofRowG liftCodec XV.leaf impl)) name o).attrs, kv.2 = t) ∨
      (∃ c ∈ (toXml (rows.map (ofRowG liftCodec XV.leaf impl)) name o).children, c.text = t) := by
  intro t ht
  simp only [floatTexts, List.mem_flatMap, List.mem_filter, List.mem_append, List.mem_map] at ht
  obtain ⟨r, ⟨hr, _⟩, h | h⟩ := ht
  · obtain ⟨kv, hkv, rfl⟩ := h
    exact Or.inl ⟨kv, by
      simp only [toXml, Xml.attrs, List.mem_flatMap, List.mem_map]
      exact ⟨_, ⟨r, hr, rfl⟩, hkv⟩, rfl⟩
  · obtain ⟨c, hc, rfl⟩ := h
    exact Or.inr ⟨c, by
      simp only [toXml, Xml.children, List.mem_flatMap, List.mem_map]
      exact ⟨_, ⟨r, hr, rfl⟩, hc⟩, rfl⟩

theorem codecOf_float : codecOf "FloatType" = floatCodec := by
  unfold codecOf
  simp

theorem liftFloat_dumps (k : ℤ) : (liftCodec floatCodec).dumps (.leaf (.num k)) = dumpsNum k := rfl

/-- the grid number `k` is stored in `o` under the argument `a` -/
def NumAt (o : Obj XV) (a : String) (k : ℤ) : Prop :=
  o a = .one (.leaf (.num k)) ∨ ∃ vs, o a = .many vs ∧ XV.leaf (.num k) ∈ vs

theorem floatValOK_cases (dflt v : XV) (h : floatValOK dflt v = true) (hne : v ≠ dflt) :
    ∃ k : ℤ, v = .leaf (.num k) ∧ k.natAbs < numBound := by
  unfold floatValOK at h
  split at h
  · rename_i k
    simp only [Bool.or_eq_true, decide_eq_true_eq, beq_iff_eq] at h
    rcases h with h | h
    · exact ⟨k, rfl, h⟩
    · exact absurd h hne
  · simp only [beq_iff_eq] at h
    exact absurd h hne

theorem floatItemOK_cases (v : XV) (h : floatItemOK v = true) : ∃ k : ℤ, v = .leaf (.num k) ∧ k.natAbs < numBound := by
  unfold floatItemOK at h
  split at h
  · rename_i k
    exact ⟨k, rfl, by simpa using h⟩
  · cases h

/-- one row -/
theorem floatRow_texts (impl : Row → CustomImpl XV) (r : Row) (o : Obj XV) (hr : isFloatRow r = true)
    (hb : rowNumsBounded o r = true) :
    ∀ t, (t ∈ ((ofRowG liftCodec XV.leaf impl r).attrsOut o).map Prod.snd ∨
          t ∈ ((ofRowG liftCodec XV.leaf impl r).childrenOut o).map Xml.text) →
      ∃ k : ℤ, NumAt o r.argName k ∧ RealFloatText k t := by
  intro t ht
  simp only [rowNumsBounded, hr, Bool.not_true, Bool.false_or] at hb
  simp only [isFloatRow, Bool.and_eq_true, Bool.or_eq_true, beq_iff_eq] at hr
  obtain ⟨hty, hk⟩ := hr
  rcases hk with (hk | hk) | hk
  · -- Attribute
    have hp : ofRowG liftCodec XV.leaf impl r =
        .attr r.admName r.argName (liftCodec floatCodec) r.required (XV.leaf (leafOfRepr r.handlerDefault)) := by
      unfold ofRowG; rw [if_pos hk, hty, codecOf_float]
    rw [hp] at ht
    simp only [Property.attrsOut, Property.childrenOut, List.map_nil, List.not_mem_nil, or_false] at ht
    cases hv : o r.argName with
    | many vs => rw [hv] at ht; simp at ht
    | one v =>
      rw [hv] at ht hb
      have hkl : (r.kind == "ListElement") = false := by rw [hk]; decide
      simp only [hkl, Bool.false_or] at hb
      by_cases hne : v = XV.leaf (leafOfRepr r.handlerDefault)
      · simp [hne] at ht
      · obtain ⟨k, rfl, hkb⟩ := floatValOK_cases _ v hb hne
        simp only [ne_eq, hne, not_false_eq_true, if_true, List.map_cons, List.map_nil, List.mem_singleton] at ht
        subst ht
        exact ⟨k, Or.inl hv, realFloatText_dumpsNum k hkb⟩
  · -- AttrElement
    have hk0 : r.kind ≠ "Attribute" := by rw [hk]; decide
    have hp : ofRowG liftCodec XV.leaf impl r =
        .attrElement r.admName r.argName (liftCodec floatCodec) r.required (XV.leaf (leafOfRepr r.handlerDefault))
          r.parseOnly := by
      unfold ofRowG; rw [if_neg hk0, if_pos hk, hty, codecOf_float]
    rw [hp] at ht
    simp only [Property.attrsOut, Property.childrenOut, List.map_nil, List.not_mem_nil, false_or] at ht
    by_cases hpo : r.parseOnly = true
    · simp [hpo] at ht
    · cases hv : o r.argName with
      | many vs => rw [hv] at ht; simp [hpo] at ht
      | one v =>
        rw [hv] at ht hb
        have hkl : (r.kind == "ListElement") = false := by rw [hk]; decide
        simp only [hkl, Bool.false_or] at hb
        by_cases hne : v = XV.leaf (leafOfRepr r.handlerDefault)
        · simp [hne, hpo] at ht
        · obtain ⟨k, rfl, hkb⟩ := floatValOK_cases _ v hb hne
          simp only [hpo, Bool.false_eq_true, if_false, ne_eq, hne, not_false_eq_true, if_true, List.map_cons,
            List.map_nil, List.mem_singleton, leafElem, Xml.text] at ht
          subst ht
          exact ⟨k, Or.inl hv, realFloatText_dumpsNum k hkb⟩
  · -- ListElement
    have hk0 : r.kind ≠ "Attribute" := by rw [hk]; decide
    have hk1 : r.kind ≠ "AttrElement" := by rw [hk]; decide
    have hp : ofRowG liftCodec XV.leaf impl r =
        .listElement r.admName r.argName (liftCodec floatCodec) r.required r.parseOnly := by
      unfold ofRowG; rw [if_neg hk0, if_neg hk1, if_pos hk, hty, codecOf_float]
    rw [hp] at ht
    simp only [Property.attrsOut, Property.childrenOut, List.map_nil, List.not_mem_nil, false_or] at ht
    by_cases hpo : r.parseOnly = true
    · simp [hpo] at ht
    · cases hv : o r.argName with
      | one v => rw [hv] at ht; simp [hpo] at ht
      | many vs =>
        rw [hv] at ht hb
        have hkl : (r.kind != "ListElement") = false := by rw [hk]; decide
        simp only [hkl, Bool.false_or, List.all_eq_true] at hb
        simp only [hpo, Bool.false_eq_true, if_false, List.map_map, List.mem_map, Function.comp] at ht
        obtain ⟨v, hvm, rfl⟩ := ht
        obtain ⟨k, rfl, hkb⟩ := floatItemOK_cases v (hb v hvm)
        exact ⟨k, Or.inr ⟨vs, hv, hvm⟩, realFloatText_dumpsNum k hkb⟩

/-- **The generic handler-table path, one element.**  For ANY row list `rows` (in particular every parser of the
regenerated table), any hand-written implementations `impl` and any object `o` whose values under the declarative
`FloatType` rows are bounded grid numbers (`ObjNumsBounded`): every text written by such a row — an attribute value
or the text of a child element of `toXml … o` (`floatTexts_in_toXml`) — is `dumpsNum k` for a grid number `k` stored
in `o` under that row's argument, and it is the real float text of the double nearest to `k / 10^5`. -/
theorem obj_floatTexts_real (impl : Row → CustomImpl XV) (rows : List Row) (o : Obj XV)
    (hb : ObjNumsBounded rows o = true) :
    ∀ t ∈ floatTexts impl rows o, ∃ r ∈ rows, ∃ k : ℤ, NumAt o r.argName k ∧ RealFloatText k t := by
  intro t ht
  simp only [floatTexts, List.mem_flatMap, List.mem_filter, List.mem_append] at ht
  obtain ⟨r, ⟨hr, hfr⟩, h⟩ := ht
  have hbr := (List.all_eq_true.mp hb) r hr
  obtain ⟨k, hk, hreal⟩ := floatRow_texts impl r o hfr hbr t h
  exact ⟨r, hr, k, hk, hreal⟩

/-! ### the hand-written gain handlers and jumpPosition (`SecondsType`) -/

/-- the five hand-written gain handler pairs (`gain` sub-element of the block formats, optional `gain` of an
alternativeValueSet, `gain` attribute of a Matrix coefficient) -/
def gainHandlers : List String :=
  ["handle_gain_element_v1 / gain_to_xml", "handle_gain_element_v2 / gain_to_xml",
   "handle_gain_element_v2 / optional_gain_to_xml", "handle_gain_attribute_v1 / gain_attribute_to_xml",
   "handle_gain_attribute_v2 / gain_attribute_to_xml"]

def isGainRow (r : Row) : Bool :=
  (r.kind == "CustomElement" || r.kind == "GenericElement") && gainHandlers.contains r.handler

def isJumpRow (r : Row) : Bool :=
  r.kind == "CustomElement" && r.handler == "handle_jump_position / jump_position_to_xml"

/-- the linear gain of the element (stored as `Leaf.num` under `gain`) is bounded; anything else is not written -/
def gainOK : Val XV → Bool
  | .one (.leaf (.num k)) => decide (k.natAbs < numBound)
  | _ => true

/-- the interpolationLength (`SecondsType`) is non-negative and bounded -/
def jumpOK : Val XV → Bool
  | .one (.jump j) => (match j.interpolationLength with | some k => decide (0 ≤ k) && decide (k.natAbs < numBound) | none => true)
  | _ => true

/-- `t` is the text the real `SecondsType.dumps` (`"{:07.5f}".format(float(t))`) writes for the Fraction `k / 10^5`;
the real `SecondsType.loads` (`Fraction(str)`) reads it as exactly `k / 10^5`; writing what was read gives `t` again -/
def RealSecondsText (k : ℤ) (t : String) : Prop :=
  secondsDumps ((k : ℚ) / 100000) = some t.toList ∧
  parseFraction t.toList = some ((k : ℚ) / 100000) ∧
  (parseFraction t.toList).bind secondsDumps = some t.toList

theorem realSecondsText_dumpsNum (k : ℤ) (h0 : 0 ≤ k) (hk : k.natAbs < numBound) : RealSecondsText k (dumpsNum k) := by
  obtain ⟨h1, h2, _⟩ := secondsCodec_refines k h0 hk
  exact ⟨h1, h2, by rw [h2]; exact h1⟩

theorem gainImpl_texts (v2 : Bool) (o : Obj XV) (t : String)
    (ht : t ∈ ((gainImpl v2).attrsOut o).map Prod.snd ∨ t ∈ ((gainImpl v2).childrenOut o).map Xml.text) :
    ∃ k : ℤ, o "gain" = .one (.leaf (.num k)) ∧ t = dumpsNum k := by
  simp only [gainImpl, List.map_nil, List.not_mem_nil, false_or] at ht
  split at ht
  · rename_i k hk
    refine ⟨k, hk, ?_⟩
    unfold Earverif.XmlCustom.gainToXml at ht
    split at ht
    · simpa [Earverif.XmlCustom.elem, Xml.text] using ht
    · simp at ht
  · simp at ht

theorem optGainImpl_texts (o : Obj XV) (t : String)
    (ht : t ∈ (optGainImpl.attrsOut o).map Prod.snd ∨ t ∈ (optGainImpl.childrenOut o).map Xml.text) :
    ∃ k : ℤ, o "gain" = .one (.leaf (.num k)) ∧ t = dumpsNum k := by
  simp only [optGainImpl, singleImpl, List.map_nil, List.not_mem_nil, false_or] at ht
  split at ht
  · rename_i v hv
    split at ht
    · rename_i k
      exact ⟨k, hv, by simpa [Earverif.XmlCustom.optionalGainToXml, Earverif.XmlCustom.elem, Xml.text] using ht⟩
    · simp at ht
  · simp at ht

theorem gainAttrImpl_texts (v2 : Bool) (o : Obj XV) (t : String)
    (ht : t ∈ ((gainAttrImpl v2).attrsOut o).map Prod.snd ∨ t ∈ ((gainAttrImpl v2).childrenOut o).map Xml.text) :
    ∃ k : ℤ, o "gain" = .one (.leaf (.num k)) ∧ t = dumpsNum k := by
  simp only [gainAttrImpl, List.map_nil, List.not_mem_nil, or_false] at ht
  split at ht
  · rename_i k hk
    exact ⟨k, hk, by simpa [Earverif.XmlCustom.gainAttributeToXml] using ht⟩
  · simp at ht

theorem implX_gain (v2 : Bool) (r : Row) (h : gainHandlers.contains r.handler = true) :
    implX v2 r = gainImpl false ∨ implX v2 r = gainImpl true ∨ implX v2 r = optGainImpl ∨
    implX v2 r = gainAttrImpl false ∨ implX v2 r = gainAttrImpl true := by
  simp only [gainHandlers, List.contains_eq_mem, List.mem_cons, List.not_mem_nil, or_false, decide_eq_true_eq] at h
  rcases h with h | h | h | h | h <;> simp [implX, h]

theorem ofRowG_custom_out (impl : Row → CustomImpl XV) (r : Row) (o : Obj XV)
    (hk : (r.kind == "CustomElement" || r.kind == "GenericElement") = true) :
    (ofRowG liftCodec XV.leaf impl r).attrsOut o = (impl r).attrsOut o ∧
    (ofRowG liftCodec XV.leaf impl r).childrenOut o = (impl r).childrenOut o := by
  simp only [Bool.or_eq_true, beq_iff_eq] at hk
  rcases hk with hk | hk <;> simp [ofRowG, hk, Property.attrsOut, Property.childrenOut]

/-- a gain row: whatever it writes is the real float text of the element's linear gain -/
theorem gainRow_texts (v2 : Bool) (r : Row) (o : Obj XV) (hr : isGainRow r = true) (hb : gainOK (o "gain") = true) :
    ∀ t, (t ∈ ((ofRowG liftCodec XV.leaf (implX v2) r).attrsOut o).map Prod.snd ∨
          t ∈ ((ofRowG liftCodec XV.leaf (implX v2) r).childrenOut o).map Xml.text) →
      ∃ k : ℤ, NumAt o "gain" k ∧ RealFloatText k t := by
  intro t ht
  simp only [isGainRow, Bool.and_eq_true] at hr
  obtain ⟨h1, h2⟩ := ofRowG_custom_out (implX v2) r o hr.1
  rw [h1, h2] at ht
  have : ∃ k : ℤ, o "gain" = .one (.leaf (.num k)) ∧ t = dumpsNum k := by
    rcases implX_gain v2 r hr.2 with h | h | h | h | h <;> rw [h] at ht
    · exact gainImpl_texts _ o t ht
    · exact gainImpl_texts _ o t ht
    · exact optGainImpl_texts o t ht
    · exact gainAttrImpl_texts _ o t ht
    · exact gainAttrImpl_texts _ o t ht
  obtain ⟨k, hk, rfl⟩ := this
  rw [hk] at hb
  exact ⟨k, Or.inl hk, realFloatText_dumpsNum k (by simpa [gainOK] using hb)⟩

/-- the `interpolationLength` attribute values of the `jumpPosition` elements a jump row writes -/
def secondsTextsOf (cs : List Xml) : List String :=
  cs.flatMap fun c => (c.attrs.filter fun kv => kv.1 == "interpolationLength").map Prod.snd

/-- a jumpPosition row: the interpolationLength it writes is the real `SecondsType` text -/
theorem jumpRow_texts (v2 : Bool) (r : Row) (o : Obj XV) (hr : isJumpRow r = true)
    (hb : jumpOK (o "jumpPosition") = true) :
    ∀ t ∈ secondsTextsOf ((ofRowG liftCodec XV.leaf (implX v2) r).childrenOut o),
      ∃ (j : Earverif.XmlCustom.JumpPosition) (k : ℤ), o "jumpPosition" = .one (.jump j) ∧
        j.interpolationLength = some k ∧ RealSecondsText k t := by
  intro t ht
  simp only [isJumpRow, Bool.and_eq_true, beq_iff_eq] at hr
  obtain ⟨_, h2⟩ := ofRowG_custom_out (implX v2) r o (by simp [hr.1])
  have himpl : implX v2 r = jumpImpl := by simp [implX, hr.2]
  rw [h2, himpl] at ht
  simp only [jumpImpl] at ht
  split at ht
  · rename_i j hj
    rw [hj] at hb
    simp only [jumpOK] at hb
    unfold Earverif.XmlCustom.jumpPositionToXml at ht
    split at ht
    · cases hil : j.interpolationLength with
      | none => rw [hil] at ht; simp [secondsTextsOf, Earverif.XmlCustom.elem, Xml.attrs] at ht
      | some k =>
        rw [hil] at ht hb
        simp only [Bool.and_eq_true, decide_eq_true_eq] at hb
        have : t = dumpsNum k := by
          simpa [secondsTextsOf, Earverif.XmlCustom.elem, Xml.attrs] using ht
        subst this
        exact ⟨j, k, hj, hil, realSecondsText_dumpsNum k hb.1 hb.2⟩
    · simp [secondsTextsOf] at ht
  · simp [secondsTextsOf] at ht

/-- the values of `o` that the gain / jumpPosition rows of the table write are bounded -/
def rowCustomBounded (o : Obj XV) (r : Row) : Bool :=
  (!isGainRow r || gainOK (o "gain")) && (!isJumpRow r || jumpOK (o "jumpPosition"))

/-- **`NumsBounded` for one element, with the gain and jumpPosition handlers** -/
def ObjNumsBoundedX (rows : List Row) (o : Obj XV) : Bool :=
  ObjNumsBounded rows o && rows.all (rowCustomBounded o)

/-- the texts written by the gain rows -/
def gainTexts (v2 : Bool) (rows : List Row) (o : Obj XV) : List String :=
  (rows.filter isGainRow).flatMap fun r =>
    ((ofRowG liftCodec XV.leaf (implX v2) r).attrsOut o).map Prod.snd ++
    ((ofRowG liftCodec XV.leaf (implX v2) r).childrenOut o).map Xml.text

/-- the interpolationLength texts written by the jumpPosition rows -/
def jumpTexts (v2 : Bool) (rows : List Row) (o : Obj XV) : List String :=
  (rows.filter isJumpRow).flatMap fun r => secondsTextsOf ((ofRowG liftCodec XV.leaf (implX v2) r).childrenOut o)

/-- **One element rendered by a parser of the regenerated table (`propsX v2 rows`), declarative `FloatType` rows,
gain handlers and jumpPosition.**  Under `ObjNumsBoundedX`: (1) every text written by a declarative `FloatType` row
and (2) by a gain handler is the real `"{:.5f}"` text of the double nearest to a grid number stored in the object,
read back by `float()` as that double and reprinted identically; (3) every interpolationLength written is the real
`SecondsType` text of the stored Fraction, read back by `Fraction()` exactly and reprinted identically. -/
theorem obj_numTexts_real (v2 : Bool) (rows : List Row) (o : Obj XV) (hb : ObjNumsBoundedX rows o = true) :
    (∀ t ∈ floatTexts (implX v2) rows o, ∃ r ∈ rows, ∃ k : ℤ, NumAt o r.argName k ∧ RealFloatText k t) ∧
    (∀ t ∈ gainTexts v2 rows o, ∃ k : ℤ, NumAt o "gain" k ∧ RealFloatText k t) ∧
    (∀ t ∈ jumpTexts v2 rows o, ∃ (j : Earverif.XmlCustom.JumpPosition) (k : ℤ),
      o "jumpPosition" = .one (.jump j) ∧ j.interpolationLength = some k ∧ RealSecondsText k t) := by
  simp only [ObjNumsBoundedX, Bool.and_eq_true, List.all_eq_true, rowCustomBounded] at hb
  obtain ⟨hb1, hb2⟩ := hb
  refine ⟨obj_floatTexts_real (implX v2) rows o hb1, ?_, ?_⟩
  · intro t ht
    simp only [gainTexts, List.mem_flatMap, List.mem_filter, List.mem_append] at ht
    obtain ⟨r, ⟨hr, hg⟩, h⟩ := ht
    have := (hb2 r hr).1
    rw [hg] at this
    exact gainRow_texts v2 r o hg (by simpa using this) t h
  · intro t ht
    simp only [jumpTexts, List.mem_flatMap, List.mem_filter] at ht
    obtain ⟨r, ⟨hr, hj⟩, h⟩ := ht
    have := (hb2 r hr).2
    rw [hj] at this
    exact jumpRow_texts v2 r o hj (by simpa using this) t h

/-- table obligation (regenerated tables): no `HandleText` row has type `FloatType`, so `isFloatRow` covers every
declarative row whose text is written by `FloatType.dumps` -/
theorem no_float_handleText :
    ∀ t ∈ Earverif.Gen.C08.parsers, ∀ r ∈ t.2, ¬ (r.kind = "HandleText" ∧ r.ty = "FloatType") := by
  decide +kernel

/-- table obligation: the declarative `FloatType` rows of the current tables (per version): audioProgramme
maxDuckingDepth; Objects block width / height / depth / diffuse / …; HOA nfcRefDist; loudnessMetadata (six values);
coefficient phase / delay; reference screen aspectRatio — non-vacuity of `isFloatRow` on the regenerated tables -/
theorem float_rows_count :
    30 ≤ ((Earverif.Gen.C08.parsers.flatMap fun t => t.2).filter isFloatRow).length := by
  decide +kernel

end Earverif.FloatDoc
