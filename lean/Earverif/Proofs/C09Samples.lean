/-
C09, sample level: joins the PCM model (`Model/Pcm.lean`, C16) with the writer/reader byte models.
What `write(samples)` appends, as a flattened list of fixed-width code blocks; slices of it decode and
de-interleave to the corresponding slice of the written frames mapped through `decode ∘ encode`.
-/
import Earverif.Proofs.C09Read
import Earverif.Props.C16

namespace Earverif.Pcm
open Earverif.Ieee

/-! ### slices of flattened uniform blocks -/

theorem flatten_drop_take_uniform {α : Type} (w : ℕ) : ∀ (L : List (List α)), (∀ l ∈ L, l.length = w) →
    ∀ c n, (L.flatten.drop (w * c)).take (w * n) = ((L.drop c).take n).flatten
  | [], _, c, n => by simp
  | l :: L, h, 0, 0 => by simp
  | l :: L, h, 0, n + 1 => by
    have hl := h l (by simp)
    have ih := flatten_drop_take_uniform w L (fun x hx => h x (by simp [hx])) 0 n
    simp only [Nat.mul_zero, List.drop_zero] at ih ⊢
    have e : w * (n + 1) = l.length + w * n := by rw [hl]; ring
    rw [List.flatten_cons, e, List.take_length_add_append, ih]
    simp
  | l :: L, h, c + 1, n => by
    have hl := h l (by simp)
    have ih := flatten_drop_take_uniform w L (fun x hx => h x (by simp [hx])) c n
    have e : w * (c + 1) = l.length + w * c := by rw [hl]; ring
    rw [List.flatten_cons, e, List.drop_length_add_append, ih]
    simp

theorem flatten_length_uniform {α : Type} (w : ℕ) (L : List (List α)) (h : ∀ l ∈ L, l.length = w) :
    L.flatten.length = w * L.length := by
  induction L with
  | nil => simp
  | cons l L ih =>
    rw [List.flatten_cons, List.length_append, ih (fun x hx => h x (by simp [hx])), h l (by simp), List.length_cons]
    ring

/-! ### `interleave` of well-shaped rows is their concatenation -/

theorem map_getD_range {α : Type} [Inhabited α] (l : List α) :
    (List.range l.length).map (fun i => l.getD i default) = l := by
  apply List.ext_getElem
  · simp
  · intro i h1 h2
    simp [List.getD_eq_getElem?_getD, h2]

theorem interleave_cons {α : Type} [Inhabited α] (ch : ℕ) (hch : 0 < ch) (fr : List α) (frames : List (List α))
    (h : fr.length = ch) : interleave ch (fr :: frames) = fr ++ interleave ch frames := by
  unfold interleave
  simp only [List.length_cons]
  rw [show (frames.length + 1) * ch = ch + frames.length * ch by ring, List.range_add, List.map_append,
    List.map_map]
  congr 1
  · conv_rhs => rw [← map_getD_range fr, h]
    apply List.map_congr_left
    intro i hi
    have hi' : i < ch := by simpa using hi
    simp [Nat.div_eq_of_lt hi', Nat.mod_eq_of_lt hi']
  · apply List.map_congr_left
    intro j _
    simp [Function.comp, Nat.add_div_left _ hch, Nat.add_mod_left]

theorem interleave_eq_flatten {α : Type} [Inhabited α] (ch : ℕ) (hch : 0 < ch) (frames : List (List α))
    (h : ∀ fr ∈ frames, fr.length = ch) : interleave ch frames = frames.flatten := by
  induction frames with
  | nil => simp [interleave]
  | cons fr frames ih =>
    rw [interleave_cons ch hch fr frames (h fr (by simp)), ih (fun x hx => h x (by simp [hx]))]
    simp

/-! ### packed codes as a flattened list of fixed-width blocks -/

/-- the bytes of one code -/
def codeBytes (b : ℕ) (v : ℤ) : List ℕ := (packCode b v).getD []

theorem toLE_length (n : ℕ) (v : ℤ) : (toLE n v).length = n := by
  induction n generalizing v with
  | zero => rfl
  | succ n ih => simp [toLE, ih]

theorem codeBytes_length (b : ℕ) (hb : Depth b) (v : ℤ) : (codeBytes b v).length = b / 8 := by
  rcases hb with rfl | rfl | rfl <;> simp [codeBytes, packCode, toLE_length]

theorem pack_eq (b : ℕ) (hb : Depth b) (cs : List ℤ) : pack b cs = some ((cs.map (codeBytes b)).flatten) := by
  induction cs with
  | nil => rcases hb with rfl | rfl | rfl <;> simp [pack]
  | cons v vs ih =>
    rcases hb with rfl | rfl | rfl <;> simp [pack, ih, codeBytes, packCode]

theorem encodeBytes_eq (b : ℕ) (hb : Depth b) (xs : List ℚ) :
    encodeBytes b xs = some (((xs.map (encode b)).map (codeBytes b)).flatten) := pack_eq b hb _

theorem encodeBytes_append (b : ℕ) (hb : Depth b) (xs ys : List ℚ) (a c : List ℕ)
    (h1 : encodeBytes b xs = some a) (h2 : encodeBytes b ys = some c) : encodeBytes b (xs ++ ys) = some (a ++ c) := by
  rw [encodeBytes_eq b hb] at h1 h2 ⊢
  obtain rfl := Option.some.inj h1
  obtain rfl := Option.some.inj h2
  simp

/-- decoding the packed bytes of in-range codes -/
theorem decodeBytes_pack (b : ℕ) (hb : Depth b) (cs : List ℤ) (h : ∀ c ∈ cs, IsCode b c) :
    decodeBytes b ((cs.map (codeBytes b)).flatten) = some (cs.map (decode b)) := by
  obtain ⟨bs, p, u, -⟩ := pack_unpack b hb cs h
  rw [pack_eq b hb] at p
  obtain rfl := Option.some.inj p
  simp [decodeBytes, u]

/-- **Slices of written audio.**  If `data` is what the encoder makes of the concatenated rows of the
`ch`-channel frames `F`, then `data` holds `F.length` frames of `b/8 * ch` bytes, and the bytes of frames
`[c, c+n)` decode and de-interleave (no exception) to frames `[c, c+n)` of `F`, each sample mapped
through `decode ∘ encode`. -/
theorem decode_slice (b ch : ℕ) (hb : Depth b) (hch : 0 < ch) (F : List (List ℚ))
    (hF : ∀ fr ∈ F, fr.length = ch) (data : List ℕ) (hd : encodeBytes b F.flatten = some data) (c n : ℕ) :
    data.length = b / 8 * ch * F.length ∧
    (decodeBytes b ((data.drop (b / 8 * ch * c)).take (b / 8 * ch * n))).bind (deinterleave ch) =
      some (((F.drop c).take n).map (·.map (fun x => decode b (encode b x)))) := by
  rw [encodeBytes_eq b hb] at hd
  obtain rfl := Option.some.inj hd
  have hw : ∀ l ∈ (F.flatten.map (encode b)).map (codeBytes b), l.length = b / 8 := by
    intro l hl
    obtain ⟨v, -, rfl⟩ := List.mem_map.mp hl
    exact codeBytes_length b hb v
  constructor
  · rw [flatten_length_uniform (b / 8) _ hw, List.length_map, List.length_map, flatten_length_uniform ch F hF]
    ring
  · have e1 : b / 8 * ch * c = b / 8 * (ch * c) := by ring
    have e2 : b / 8 * ch * n = b / 8 * (ch * n) := by ring
    rw [e1, e2, flatten_drop_take_uniform (b / 8) _ hw]
    simp only [← List.map_drop, ← List.map_take]
    rw [flatten_drop_take_uniform ch F hF]
    set G := (F.drop c).take n with hG
    have hGr : ∀ fr ∈ G, fr.length = ch := fun fr hfr => hF fr (List.mem_of_mem_drop (List.mem_of_mem_take hfr))
    rw [decodeBytes_pack b hb _ (by
      intro v hv
      obtain ⟨x, -, rfl⟩ := List.mem_map.mp hv
      exact (encode_isCode b hb x).1)]
    simp only [Option.bind_some, List.map_map]
    have e3 : List.map (decode b ∘ encode b) G.flatten = (G.map (·.map (fun x => decode b (encode b x)))).flatten := by
      rw [List.map_flatten]; rfl
    rw [e3, ← interleave_eq_flatten ch hch _ (by
      intro fr hfr
      obtain ⟨g, hg, rfl⟩ := List.mem_map.mp hfr
      simpa using hGr g hg)]
    exact il_deil ch hch _ (by
      intro fr hfr
      obtain ⟨g, hg, rfl⟩ := List.mem_map.mp hfr
      simpa using hGr g hg)

end Earverif.Pcm

namespace Earverif.Bw64
open Earverif.Pcm

/-! ### the sample-level writer in terms of the byte-level one -/

/-- all frames of a history, in the order written -/
def framesOf : List SOp → List (List Rat)
  | [] => []
  | .write fr :: ops => fr ++ framesOf ops
  | _ :: ops => framesOf ops

/-- every `write` block of the history has rows of `ch` samples -/
def BlocksOK (ch : ℕ) : List SOp → Prop
  | [] => True
  | .write frames :: ops => (∀ fr ∈ frames, fr.length = ch) ∧ BlocksOK ch ops
  | _ :: ops => BlocksOK ch ops

def pendChnaS (init : Option (List ChnaEntry)) : List SOp → Option (List ChnaEntry)
  | [] => init
  | .setChna v :: ops => pendChnaS v ops
  | _ :: ops => pendChnaS init ops

def pendAxmlS (init : Option Bytes) : List SOp → Option Bytes
  | [] => init
  | .setAxml v :: ops => pendAxmlS v ops
  | _ :: ops => pendAxmlS init ops

def pendBextS (init : Option Bytes) : List SOp → Option Bytes
  | [] => init
  | .setBext v :: ops => pendBextS v ops
  | _ :: ops => pendBextS init ops

theorem stepW_fmt (s : WState) (op : WOp) : (stepW s op).fmt = s.fmt := by cases op <;> rfl

/-- `Bw64Writer.write(samples)` is `append (encode_pcm_samples (interleave samples))`: the sample-level run
is the byte-level run on the encoded blocks, and raises exactly when a block cannot be encoded. -/
theorem runS_eq (sops : List SOp) : ∀ (s : WState), runS s sops = (encOps s.fmt sops).map (runW s) := by
  induction sops with
  | nil => intro s; simp [runS, encOps, runW]
  | cons op ops ih =>
    intro s
    cases op with
    | write frames =>
      simp only [runS, stepS, encOps, SOp.enc]
      cases hb : encodeBlock s.fmt frames with
      | none => simp
      | some b =>
        simp only [Option.map_some]
        rw [ih]
        cases encOps s.fmt ops <;> simp [runW, stepW]
    | setChna v =>
      simp only [runS, stepS, encOps, SOp.enc]
      rw [ih]
      cases encOps s.fmt ops <;> simp [runW, stepW]
    | setAxml v =>
      simp only [runS, stepS, encOps, SOp.enc]
      rw [ih]
      cases encOps s.fmt ops <;> simp [runW, stepW]
    | setBext v =>
      simp only [runS, stepS, encOps, SOp.enc]
      rw [ih]
      cases encOps s.fmt ops <;> simp [runW, stepW]

theorem openW_fmt (fmt : Fmt) (c0 : Option (List ChnaEntry)) (a0 b0 : Option Bytes) (force : Bool) :
    (openW fmt c0 a0 b0 force).fmt = fmt := by
  rcases c0 with _ | es <;> rcases a0 with _ | _ | ⟨x, xs⟩ <;> rcases b0 with _ | _ | ⟨y, ys⟩ <;>
    simp [openW, truthy, WState.writeChna, WState.writeAxml, WState.writeBext]

theorem closedFileS_eq (fmt : Fmt) (c0 : Option (List ChnaEntry)) (a0 b0 : Option Bytes) (force : Bool)
    (sops : List SOp) :
    closedFileS fmt c0 a0 b0 force sops = (encOps fmt sops).map (closedFile fmt c0 a0 b0 force) := by
  simp only [closedFileS, runS_eq, openW_fmt, Option.map_map]
  rfl

theorem unclosedFileS_eq (fmt : Fmt) (c0 : Option (List ChnaEntry)) (a0 b0 : Option Bytes) (force : Bool)
    (sops : List SOp) :
    unclosedFileS fmt c0 a0 b0 force sops = (encOps fmt sops).map (unclosedFile fmt c0 a0 b0 force) := by
  simp only [unclosedFileS, runS_eq, openW_fmt, Option.map_map]
  rfl

/-- a well-shaped block is encoded, as the concatenation of its rows -/
theorem encodeBlock_eq (fmt : Fmt) (_hb : Depth fmt.bits) (hch : 0 < fmt.channels) (frames : List (List Rat))
    (h : ∀ fr ∈ frames, fr.length = fmt.channels) :
    encodeBlock fmt frames = encodeBytes fmt.bits frames.flatten := by
  have : frames.all (fun fr => fr.length == fmt.channels) = true := by
    rw [List.all_eq_true]; intro fr hfr; simpa using h fr hfr
  simp only [encodeBlock, this, ↓reduceIte, interleave_eq_flatten fmt.channels hch frames h]

/-- **Encoding a history.**  With well-shaped blocks nothing raises; the data bytes of the byte-level history
are the encoder's output on all written frames concatenated, whatever the partition into `write` calls; the
setter calls are unchanged. -/
theorem encOps_spec (fmt : Fmt) (hb : Depth fmt.bits) (hch : 0 < fmt.channels) :
    ∀ (sops : List SOp), BlocksOK fmt.channels sops →
    ∃ wops, encOps fmt sops = some wops ∧
      encodeBytes fmt.bits (framesOf sops).flatten = some (dataOf wops) ∧
      (∀ fr ∈ framesOf sops, fr.length = fmt.channels) ∧
      (∀ c, pendChna c wops = pendChnaS c sops) ∧ (∀ a, pendAxml a wops = pendAxmlS a sops) ∧
      (∀ a, pendBext a wops = pendBextS a sops) := by
  intro sops
  induction sops with
  | nil =>
    intro _
    refine ⟨[], rfl, ?_, by simp [framesOf], fun _ => rfl, fun _ => rfl, fun _ => rfl⟩
    rw [encodeBytes_eq fmt.bits hb]; simp [framesOf, dataOf]
  | cons op ops ih =>
    intro hok
    cases op with
    | write frames =>
      obtain ⟨hfr, hrest⟩ := hok
      obtain ⟨wops, e, d, r, pc, pa, pb⟩ := ih hrest
      have hblk := encodeBlock_eq fmt hb hch frames hfr
      obtain ⟨bts, hbts⟩ : ∃ bts, encodeBytes fmt.bits frames.flatten = some bts := ⟨_, encodeBytes_eq fmt.bits hb _⟩
      refine ⟨.write bts :: wops, by simp [encOps, SOp.enc, hblk, hbts, e], ?_, ?_, ?_, ?_, ?_⟩
      · simp only [framesOf, List.flatten_append, dataOf]
        exact encodeBytes_append fmt.bits hb _ _ _ _ hbts d
      · intro fr hfr'
        simp only [framesOf, List.mem_append] at hfr'
        rcases hfr' with h | h
        · exact hfr fr h
        · exact r fr h
      · intro c; simp [pendChna, pendChnaS, pc]
      · intro c; simp [pendAxml, pendAxmlS, pa]
      · intro c; simp [pendBext, pendBextS, pb]
    | setChna v =>
      obtain ⟨wops, e, d, r, pc, pa, pb⟩ := ih hok
      exact ⟨.setChna v :: wops, by simp [encOps, SOp.enc, e], by simpa [framesOf, dataOf] using d,
        by simpa [framesOf] using r, fun c => by simp [pendChna, pendChnaS, pc],
        fun c => by simp [pendAxml, pendAxmlS, pa], fun c => by simp [pendBext, pendBextS, pb]⟩
    | setAxml v =>
      obtain ⟨wops, e, d, r, pc, pa, pb⟩ := ih hok
      exact ⟨.setAxml v :: wops, by simp [encOps, SOp.enc, e], by simpa [framesOf, dataOf] using d,
        by simpa [framesOf] using r, fun c => by simp [pendChna, pendChnaS, pc],
        fun c => by simp [pendAxml, pendAxmlS, pa], fun c => by simp [pendBext, pendBextS, pb]⟩
    | setBext v =>
      obtain ⟨wops, e, d, r, pc, pa, pb⟩ := ih hok
      exact ⟨.setBext v :: wops, by simp [encOps, SOp.enc, e], by simpa [framesOf, dataOf] using d,
        by simpa [framesOf] using r, fun c => by simp [pendChna, pendChnaS, pc],
        fun c => by simp [pendAxml, pendAxmlS, pa], fun c => by simp [pendBext, pendBextS, pb]⟩

/-! ### reading slices of the data chunk -/

theorem readAt_slice {f P data R : Bytes} (hf : f = P ++ (data ++ R)) (k m : ℕ) (h : k + m ≤ data.length) :
    readAt f (P.length + k) m = (data.drop k).take m := by
  subst hf
  simp only [readAt, List.drop_length_add_append]
  rw [List.drop_append_of_le_length (by omega), List.take_append_of_le_length (by simp; omega)]

/-- **`Bw64Reader.read` on written audio.**  In a file that holds, from offset `P.length`, the encoder's
output for the `ch`-channel frames `F`, the `A·n` bytes at offset `P.length + A·c` (`A = ch·bits/8`, the
block alignment) decode and de-interleave to frames `[c, c+n)` of `F` mapped through `decode ∘ encode`. -/
theorem framesAt_written {f P data R : Bytes} (hf : f = P ++ (data ++ R)) (b ch : ℕ) (hb : Depth b) (hch : 0 < ch)
    (F : List (List ℚ)) (hF : ∀ fr ∈ F, fr.length = ch) (hd : encodeBytes b F.flatten = some data) (c n : ℕ)
    (hcn : c + n ≤ F.length) :
    framesAt f b ch (P.length + ch * b / 8 * c) (ch * b / 8 * n) =
      some (((F.drop c).take n).map (·.map (fun x => decode b (encode b x)))) := by
  obtain ⟨hl, hs⟩ := decode_slice b ch hb hch F hF data hd c n
  have hA : ch * b / 8 = b / 8 * ch := by rcases hb with rfl | rfl | rfl <;> omega
  rw [hA]
  unfold framesAt
  rw [readAt_slice hf _ _ (by
    rw [hl]
    calc b / 8 * ch * c + b / 8 * ch * n = b / 8 * ch * (c + n) := by ring
      _ ≤ b / 8 * ch * F.length := Nat.mul_le_mul_left _ hcn)]
  exact hs

/-- where the data chunk lies in a file laid out by the writer -/
theorem read_data_pos {f pre : Bytes} {F : List Chunk} {fmt : Fmt} {c0 cF : Option (List ChnaEntry)}
    {a0 b0 aF bF : Option Bytes} {sz : Nat} {data dp tail : Bytes}
    (hf : f = pre ++ (encAll (F ++ bodyC fmt c0 a0 b0 sz data dp cF aF bF) ++ tail))
    (_hF : ∀ x ∈ F, x.id = idJUNK) :
    ∃ dpos P R, tlookup (walkTable pre.length (F ++ bodyC fmt c0 a0 b0 sz data dp cF aF bF) []) idData =
        some (data.length, dpos) ∧ f = P ++ (data ++ R) ∧ P.length = dpos + 8 := by
  have hcs : F ++ bodyC fmt c0 a0 b0 sz data dp cF aF bF =
      (F ++ fmtC fmt :: preC c0 a0 b0) ++ dataC sz data dp :: lateC c0.isSome (truthy a0) (truthy b0) cF aF bF := by
    simp [bodyC]
  rw [hcs] at hf ⊢
  obtain ⟨h1, P, R, h2, h3⟩ := chunk_found hf (c := dataC sz data dp) (by simp only [dataC]; decide)
    (by show NoId idData _; simp only [lateC]; no_id) []
  exact ⟨_, P, R, h1, h2, h3⟩

end Earverif.Bw64
