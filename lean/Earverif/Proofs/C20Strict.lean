/-
C20 — the strict, independently defined literal meaning (`meaningStrict`, `Model/TrackSpec.lean`)
agrees with the totalised `meaning` exactly on rectangular input and well-formed specs, and is
undefined (`none`) everywhere else.  Core Lean only.
-/
import Earverif.Proofs.C20
set_option linter.unusedSimpArgs false
set_option linter.unusedVariables false
namespace Earverif.TrackSpec
variable {α : Type} [Sample α]

/-- every frame has exactly `nch` samples (what a numpy array of shape `(n, nch)` is) -/
def Rect (nch : Nat) (x : List (List α)) : Prop := ∀ fr ∈ x, fr.length = nch

omit [Sample α] in
theorem rect_all {nch : Nat} {x : List (List α)} (h : Rect nch x) :
    x.all (fun fr => fr.length == nch) = true := by
  simp only [List.all_eq_true, beq_iff_eq]; exact h

omit [Sample α] in
theorem not_rect_all {nch : Nat} {x : List (List α)} (h : ¬ Rect nch x) :
    x.all (fun fr => fr.length == nch) = false := by
  cases hall : x.all (fun fr => fr.length == nch) with
  | false => rfl
  | true =>
    exfalso; apply h
    simp only [List.all_eq_true, beq_iff_eq] at hall; exact hall

omit [Sample α] in
theorem rect_cons {nch : Nat} {fr : List α} {x : List (List α)} :
    Rect nch (fr :: x) ↔ fr.length = nch ∧ Rect nch x := by
  simp [Rect]

theorem colStrict_eq_chanIdx (nch : Nat) (i : Int) : colStrict nch i = chanIdx nch i := by
  unfold colStrict chanIdx
  by_cases h0 : 0 ≤ i
  · by_cases h1 : i < nch
    · simp [h0, h1]
    · have : ¬ (-(nch : Int) ≤ i ∧ i < 0) := by omega
      simp [h0, h1, this]
  · by_cases h1 : -(nch : Int) ≤ i
    · have : i < 0 := by omega
      simp [h0, h1, this]
    · simp [h0, h1]

theorem chanIdx_lt {nch : Nat} {i : Int} {k : Nat} (h : chanIdx nch i = some k) : k < nch := by
  unfold chanIdx at h
  split at h
  · cases h; omega
  · split at h
    · cases h; omega
    · cases h

theorem columnStrict_eq (nch k : Nat) (hk : k < nch) : ∀ (x : List (List α)), Rect nch x →
    columnStrict nch k x = some (x.map fun fr => fr.getD k Sample.zero)
  | [], _ => rfl
  | fr :: rest, h => by
    obtain ⟨h1, h2⟩ := rect_cons.mp h
    have hk' : k < fr.length := by omega
    simp [columnStrict, h1, columnStrict_eq nch k hk rest h2, List.getElem?_eq_getElem hk',
      List.getD_eq_getElem?_getD]

omit [Sample α] in
theorem columnStrict_ragged (nch k : Nat) : ∀ (x : List (List α)), ¬ Rect nch x → columnStrict nch k x = none
  | [], h => (h (by simp [Rect])).elim
  | fr :: rest, h => by
    by_cases h1 : fr.length = nch
    · have h2 : ¬ Rect nch rest := fun hr => h (rect_cons.mpr ⟨h1, hr⟩)
      simp only [columnStrict, h1, ↓reduceIte, columnStrict_ragged nch k rest h2]
      cases fr[k]? <;> rfl
    · simp [columnStrict, h1]

theorem addStrict_eq : ∀ (a b : List α), a.length = b.length → addStrict a b = some (vadd a b)
  | [], [], _ => rfl
  | x :: as, y :: bs, h => by
    simp only [List.length_cons, Nat.add_right_cancel_iff] at h
    simp [addStrict, addStrict_eq as bs h, vadd]
  | [], _ :: _, h => by simp at h
  | _ :: _, [], h => by simp at h

theorem sumStrictFrom_eq : ∀ (ls : List (List α)) (acc : List α), (∀ l ∈ ls, l.length = acc.length) →
    sumStrictFrom acc ls = some (ls.foldl vadd acc)
  | [], _, _ => rfl
  | l :: ls, acc, h => by
    have hl := h l (by simp)
    simp only [sumStrictFrom, addStrict_eq acc l hl.symm, List.foldl_cons]
    apply sumStrictFrom_eq
    intro l' hl'
    rw [vadd_length, hl, Nat.min_self]
    exact h l' (by simp [hl'])

theorem shiftStrict_eq (k : Nat) (l : List α) : shiftStrict k l = delayBy k l := by
  apply List.ext_getElem
  · simp [shiftStrict, delayBy]
  · intro j h1 h2
    simp only [shiftStrict, List.length_map, List.length_range] at h1
    simp only [shiftStrict, delayBy, List.getElem_map, List.getElem_range, List.getElem_take]
    by_cases hj : j < k
    · simp [hj, zeros, List.getElem_append_left]
    · have hjk : j - k < l.length := by omega
      have hle : (List.replicate k (Sample.zero : α)).length ≤ j := by simp; omega
      simp [hj, zeros, List.getElem_append_right hle, List.getElem?_eq_getElem hjk]

mutual
/-- **meaningStrict_eq_meaning.**  On rectangular input and specs inside the quantifier the strict
meaning is defined and equals the totalised `meaning` the processor theorems are stated for. -/
theorem meaningStrict_eq (fs : Int) (nch : Nat) (x : List (List α)) (hx : Rect nch x) :
    ∀ (s : Spec α), s.wf fs nch = true → meaningStrict fs nch s x = some (meaning fs nch s x)
  | .direct i, h => by
    simp only [Spec.wf, Option.isSome_iff_exists] at h
    obtain ⟨k, hk⟩ := h
    simp only [meaningStrict, colStrict_eq_chanIdx, hk, meaning, columnStrict_eq nch k (chanIdx_lt hk) x hx]
  | .silent, _ => by simp [meaningStrict, rect_all hx, meaning, zeros]
  | .mix ts, h => by
    simp only [Spec.wf] at h
    simp only [meaningStrict, rect_all hx, ↓reduceIte, meaningStrictList_eq fs nch x hx ts h, meaning, vsum,
      sumStrict]
    exact sumStrictFrom_eq _ _ (fun l hl => by
      rw [meaningList_length fs nch ts x l hl]; simp)
  | .gain t g, h => by
    simp only [Spec.wf] at h
    simp [meaningStrict, meaningStrict_eq fs nch x hx t h, meaning]
  | .matrix t g d, h => by
    simp only [Spec.wf, Bool.and_eq_true] at h
    have ih := meaningStrict_eq fs nch x hx t h.1
    cases d with
    | none => cases g <;> simp [meaningStrict, ih, meaning, scaleOpt]
    | some ms =>
      have hk : ¬ delaySamples fs ms < 0 := by
        have := h.2; simp only [decide_eq_true_eq] at this; omega
      cases g <;> simp [meaningStrict, ih, meaning, scaleOpt, hk, shiftStrict_eq]
theorem meaningStrictList_eq (fs : Int) (nch : Nat) (x : List (List α)) (hx : Rect nch x) :
    ∀ (ts : List (Spec α)), Spec.wfList fs nch ts = true →
      meaningStrictList fs nch ts x = some (meaningList fs nch ts x)
  | [], _ => rfl
  | t :: ts, h => by
    simp only [Spec.wfList, Bool.and_eq_true] at h
    simp only [meaningStrictList, meaningStrict_eq fs nch x hx t h.1, meaningStrictList_eq fs nch x hx ts h.2,
      meaningList]
end

mutual
/-- on ragged input (some frame is not `nch` wide) the strict meaning is undefined, for every spec -/
theorem meaningStrict_ragged (fs : Int) (nch : Nat) (x : List (List α)) (hx : ¬ Rect nch x) :
    ∀ (s : Spec α), meaningStrict fs nch s x = none
  | .direct i => by
    simp only [meaningStrict]
    cases colStrict nch i with
    | none => rfl
    | some k => exact columnStrict_ragged nch k x hx
  | .silent => by simp [meaningStrict, not_rect_all hx]
  | .mix ts => by simp [meaningStrict, not_rect_all hx]
  | .gain t g => by simp [meaningStrict, meaningStrict_ragged fs nch x hx t]
  | .matrix t g d => by simp [meaningStrict, meaningStrict_ragged fs nch x hx t]
end

mutual
/-- outside the quantifier (a direct index numpy rejects, a delay rounding below zero) the strict
meaning is undefined -/
theorem meaningStrict_not_wf (fs : Int) (nch : Nat) (x : List (List α)) :
    ∀ (s : Spec α), s.wf fs nch = false → meaningStrict fs nch s x = none
  | .direct i, h => by
    simp only [Spec.wf] at h
    have : chanIdx nch i = none := by cases hc : chanIdx nch i <;> simp_all
    simp [meaningStrict, colStrict_eq_chanIdx, this]
  | .silent, h => by simp [Spec.wf] at h
  | .mix ts, h => by
    simp only [Spec.wf] at h
    simp only [meaningStrict, meaningStrictList_not_wf fs nch x ts h]
    split <;> rfl
  | .gain t g, h => by
    simp only [Spec.wf] at h
    simp [meaningStrict, meaningStrict_not_wf fs nch x t h]
  | .matrix t g d, h => by
    simp only [Spec.wf, Bool.and_eq_false_iff] at h
    rcases h with h | h
    · simp [meaningStrict, meaningStrict_not_wf fs nch x t h]
    · simp only [meaningStrict]
      cases meaningStrict fs nch t x with
      | none => rfl
      | some l =>
        cases d with
        | none => simp at h
        | some ms =>
          simp only [decide_eq_false_iff_not, Int.not_le] at h
          simp [h]
theorem meaningStrictList_not_wf (fs : Int) (nch : Nat) (x : List (List α)) :
    ∀ (ts : List (Spec α)), Spec.wfList fs nch ts = false → meaningStrictList fs nch ts x = none
  | [], h => by simp [Spec.wfList] at h
  | t :: ts, h => by
    simp only [Spec.wfList, Bool.and_eq_false_iff] at h
    rcases h with h | h
    · simp [meaningStrictList, meaningStrict_not_wf fs nch x t h]
    · simp only [meaningStrictList, meaningStrictList_not_wf fs nch x ts h]
      cases meaningStrict fs nch t x <;> rfl
end

end Earverif.TrackSpec
