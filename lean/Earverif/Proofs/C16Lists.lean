/-
C16: byte packing / unpacking and channel (de)interleaving of the PCM model are mutually inverse.
-/
import Earverif.Model.Pcm
import Mathlib.Tactic.Ring
import Mathlib.Tactic.Linarith

namespace Earverif.Pcm

/-! ### one code -/

theorem code16 (v : ℤ) (h1 : -2 ^ 15 ≤ v) (h2 : v < 2 ^ 15) :
    sext 16 (fromLE [(v % 256).toNat, (v / 256 % 256).toNat]) = v := by
  simp only [sext, fromLE]
  norm_num
  split_ifs <;> omega

theorem code32 (v : ℤ) (h1 : -2 ^ 31 ≤ v) (h2 : v < 2 ^ 31) :
    sext 32 (fromLE [(v % 256).toNat, (v / 256 % 256).toNat, (v / 256 / 256 % 256).toNat,
      (v / 256 / 256 / 256 % 256).toNat]) = v := by
  simp only [sext, fromLE]
  norm_num
  split_ifs <;> omega

theorem code24 (v : ℤ) (h1 : -2 ^ 23 ≤ v) (h2 : v < 2 ^ 23) :
    (let u : ℤ := (fromLE [(v % 256).toNat, (v / 256 % 256).toNat, (v / 256 / 256 % 256).toNat, 0] : ℕ)
     if u > 2 ^ 23 - 1 then u - 2 ^ 24 else u) = v := by
  simp only [fromLE]
  norm_num
  split_ifs <;> omega

theorem rcode16 (b0 b1 : ℕ) (h0 : b0 < 256) (h1 : b1 < 256) :
    ((sext 16 (fromLE [b0, b1]) % 256).toNat = b0 ∧ (sext 16 (fromLE [b0, b1]) / 256 % 256).toNat = b1) ∧
    -2 ^ 15 ≤ sext 16 (fromLE [b0, b1]) ∧ sext 16 (fromLE [b0, b1]) < 2 ^ 15 := by
  simp only [sext, fromLE]
  norm_num
  split_ifs <;> omega

theorem rcode32 (b0 b1 b2 b3 : ℕ) (h0 : b0 < 256) (h1 : b1 < 256) (h2 : b2 < 256) (h3 : b3 < 256) :
    ((sext 32 (fromLE [b0, b1, b2, b3]) % 256).toNat = b0 ∧
     (sext 32 (fromLE [b0, b1, b2, b3]) / 256 % 256).toNat = b1 ∧
     (sext 32 (fromLE [b0, b1, b2, b3]) / 256 / 256 % 256).toNat = b2 ∧
     (sext 32 (fromLE [b0, b1, b2, b3]) / 256 / 256 / 256 % 256).toNat = b3) ∧
    -2 ^ 31 ≤ sext 32 (fromLE [b0, b1, b2, b3]) ∧ sext 32 (fromLE [b0, b1, b2, b3]) < 2 ^ 31 := by
  simp only [sext, fromLE]
  norm_num
  split_ifs <;> omega

/-- the 24-bit sign extension of `decode_pcm_samples` -/
def sx24 (b0 b1 b2 : ℕ) : ℤ :=
  let u : ℤ := (fromLE [b0, b1, b2, 0] : ℕ)
  if u > 2 ^ 23 - 1 then u - 2 ^ 24 else u

theorem rcode24 (b0 b1 b2 : ℕ) (h0 : b0 < 256) (h1 : b1 < 256) (h2 : b2 < 256) :
    ((sx24 b0 b1 b2 % 256).toNat = b0 ∧ (sx24 b0 b1 b2 / 256 % 256).toNat = b1 ∧
     (sx24 b0 b1 b2 / 256 / 256 % 256).toNat = b2) ∧
    -2 ^ 23 ≤ sx24 b0 b1 b2 ∧ sx24 b0 b1 b2 < 2 ^ 23 := by
  simp only [sx24, fromLE]
  norm_num
  split_ifs <;> omega

/-! ### lists of codes -/

theorem pack16_cons (v : ℤ) (vs : List ℤ) :
    pack 16 (v :: vs) = (pack 16 vs).map (fun r => (v % 256).toNat :: (v / 256 % 256).toNat :: r) := by
  simp only [pack, packCode, toLE]
  cases pack 16 vs <;> simp

theorem pack24_cons (v : ℤ) (vs : List ℤ) :
    pack 24 (v :: vs) = (pack 24 vs).map
      (fun r => (v % 256).toNat :: (v / 256 % 256).toNat :: (v / 256 / 256 % 256).toNat :: r) := by
  simp only [pack, packCode, toLE]
  cases pack 24 vs <;> simp

theorem pack32_cons (v : ℤ) (vs : List ℤ) :
    pack 32 (v :: vs) = (pack 32 vs).map
      (fun r => (v % 256).toNat :: (v / 256 % 256).toNat :: (v / 256 / 256 % 256).toNat ::
        (v / 256 / 256 / 256 % 256).toNat :: r) := by
  simp only [pack, packCode, toLE]
  cases pack 32 vs <;> simp

theorem pack_unpack16 (cs : List ℤ) (h : ∀ c ∈ cs, -2 ^ 15 ≤ c ∧ c < 2 ^ 15) :
    ∃ bs, pack 16 cs = some bs ∧ unpack16 bs = some cs ∧ bs.length = 2 * cs.length := by
  induction cs with
  | nil => exact ⟨[], by simp [pack], rfl, rfl⟩
  | cons v vs ih =>
    obtain ⟨bs, p, u, l⟩ := ih (fun c hc => h c (List.mem_cons_of_mem _ hc))
    obtain ⟨v1, v2⟩ := h v List.mem_cons_self
    refine ⟨_ :: _ :: bs, by rw [pack16_cons, p]; rfl, ?_, by simp [l]; omega⟩
    simp only [unpack16, u, Option.map_some, code16 v v1 v2]

theorem pack_unpack32 (cs : List ℤ) (h : ∀ c ∈ cs, -2 ^ 31 ≤ c ∧ c < 2 ^ 31) :
    ∃ bs, pack 32 cs = some bs ∧ unpack32 bs = some cs ∧ bs.length = 4 * cs.length := by
  induction cs with
  | nil => exact ⟨[], by simp [pack], rfl, rfl⟩
  | cons v vs ih =>
    obtain ⟨bs, p, u, l⟩ := ih (fun c hc => h c (List.mem_cons_of_mem _ hc))
    obtain ⟨v1, v2⟩ := h v List.mem_cons_self
    refine ⟨_ :: _ :: _ :: _ :: bs, by rw [pack32_cons, p]; rfl, ?_, by simp [l]; omega⟩
    simp only [unpack32, u, Option.map_some, code32 v v1 v2]

theorem pack_unpack24go (cs : List ℤ) (h : ∀ c ∈ cs, -2 ^ 23 ≤ c ∧ c < 2 ^ 23) :
    ∃ bs, pack 24 cs = some bs ∧ unpack24go bs = some cs ∧ bs.length = 3 * cs.length := by
  induction cs with
  | nil => exact ⟨[], by simp [pack], rfl, rfl⟩
  | cons v vs ih =>
    obtain ⟨bs, p, u, l⟩ := ih (fun c hc => h c (List.mem_cons_of_mem _ hc))
    obtain ⟨v1, v2⟩ := h v List.mem_cons_self
    refine ⟨_ :: _ :: _ :: bs, by rw [pack24_cons, p]; rfl, ?_, by simp [l]; omega⟩
    have := code24 v v1 v2
    simp only [unpack24go, u, Option.map_some]
    simp only at this
    rw [this]

theorem unpack24_eq (bs : List ℕ) (h : bs.length % 3 = 0) : unpack24 bs = unpack24go bs := by
  unfold unpack24
  split_ifs with hl
  · have : bs = [] := List.eq_nil_of_length_eq_zero (by omega)
    subst this; rfl
  · rfl

theorem unpack_pack16 : ∀ (n : ℕ) (bs : List ℕ), bs.length = 2 * n → (∀ x ∈ bs, x < 256) →
    ∃ cs, unpack16 bs = some cs ∧ pack 16 cs = some bs ∧ (∀ c ∈ cs, -2 ^ 15 ≤ c ∧ c < 2 ^ 15) ∧
      cs.length = n := by
  intro n
  induction n with
  | zero =>
    intro bs hl _
    have : bs = [] := List.eq_nil_of_length_eq_zero (by omega)
    subst this
    exact ⟨[], rfl, by simp [pack], by simp, rfl⟩
  | succ n ih =>
    intro bs hl hb
    match bs, hl, hb with
    | b0 :: b1 :: rest, hl, hb =>
      obtain ⟨cs, u, p, r, l⟩ := ih rest (by simp at hl; omega) (fun x hx => hb x (by simp [hx]))
      obtain ⟨⟨e0, e1⟩, r1, r2⟩ := rcode16 b0 b1 (hb b0 (by simp)) (hb b1 (by simp))
      refine ⟨sext 16 (fromLE [b0, b1]) :: cs, by simp only [unpack16, u, Option.map_some], ?_, ?_, by simp [l]⟩
      · rw [pack16_cons, p, Option.map_some, e0, e1]
      · intro c hc
        rcases List.mem_cons.mp hc with h | h
        · rw [h]; exact ⟨r1, r2⟩
        · exact r c h
    | [], hl, _ => simp at hl
    | [_], hl, _ => simp at hl; omega

theorem unpack_pack32 : ∀ (n : ℕ) (bs : List ℕ), bs.length = 4 * n → (∀ x ∈ bs, x < 256) →
    ∃ cs, unpack32 bs = some cs ∧ pack 32 cs = some bs ∧ (∀ c ∈ cs, -2 ^ 31 ≤ c ∧ c < 2 ^ 31) ∧
      cs.length = n := by
  intro n
  induction n with
  | zero =>
    intro bs hl _
    have : bs = [] := List.eq_nil_of_length_eq_zero (by omega)
    subst this
    exact ⟨[], rfl, by simp [pack], by simp, rfl⟩
  | succ n ih =>
    intro bs hl hb
    match bs, hl, hb with
    | b0 :: b1 :: b2 :: b3 :: rest, hl, hb =>
      obtain ⟨cs, u, p, r, l⟩ := ih rest (by simp at hl; omega) (fun x hx => hb x (by simp [hx]))
      obtain ⟨⟨e0, e1, e2, e3⟩, r1, r2⟩ :=
        rcode32 b0 b1 b2 b3 (hb b0 (by simp)) (hb b1 (by simp)) (hb b2 (by simp)) (hb b3 (by simp))
      refine ⟨sext 32 (fromLE [b0, b1, b2, b3]) :: cs, by simp only [unpack32, u, Option.map_some], ?_, ?_,
        by simp [l]⟩
      · rw [pack32_cons, p, Option.map_some, e0, e1, e2, e3]
      · intro c hc
        rcases List.mem_cons.mp hc with h | h
        · rw [h]; exact ⟨r1, r2⟩
        · exact r c h
    | [], hl, _ => simp at hl
    | [_], hl, _ => simp at hl; omega
    | [_, _], hl, _ => simp at hl; omega
    | [_, _, _], hl, _ => simp at hl; omega

theorem unpack_pack24go : ∀ (n : ℕ) (bs : List ℕ), bs.length = 3 * n → (∀ x ∈ bs, x < 256) →
    ∃ cs, unpack24go bs = some cs ∧ pack 24 cs = some bs ∧ (∀ c ∈ cs, -2 ^ 23 ≤ c ∧ c < 2 ^ 23) ∧
      cs.length = n := by
  intro n
  induction n with
  | zero =>
    intro bs hl _
    have : bs = [] := List.eq_nil_of_length_eq_zero (by omega)
    subst this
    exact ⟨[], rfl, by simp [pack], by simp, rfl⟩
  | succ n ih =>
    intro bs hl hb
    match bs, hl, hb with
    | b0 :: b1 :: b2 :: rest, hl, hb =>
      obtain ⟨cs, u, p, r, l⟩ := ih rest (by simp at hl; omega) (fun x hx => hb x (by simp [hx]))
      obtain ⟨⟨e0, e1, e2⟩, r1, r2⟩ := rcode24 b0 b1 b2 (hb b0 (by simp)) (hb b1 (by simp)) (hb b2 (by simp))
      refine ⟨sx24 b0 b1 b2 :: cs, by simp only [unpack24go, u, Option.map_some, sx24], ?_, ?_, by simp [l]⟩
      · rw [pack24_cons, p, Option.map_some, e0, e1, e2]
      · intro c hc
        rcases List.mem_cons.mp hc with h | h
        · rw [h]; exact ⟨r1, r2⟩
        · exact r c h
    | [], hl, _ => simp at hl
    | [_], hl, _ => simp at hl; omega
    | [_, _], hl, _ => simp at hl; omega

/-! ### interleaving -/


theorem interleave_length {α} [Inhabited α] (ch : ℕ) (frames : List (List α)) :
    (interleave ch frames).length = frames.length * ch := by simp [interleave]

theorem interleave_getD {α} [Inhabited α] (ch : ℕ) (frames : List (List α)) (i : ℕ)
    (hi : i < frames.length * ch) :
    (interleave ch frames).getD i default = (frames.getD (i / ch) []).getD (i % ch) default := by
  simp [interleave, List.getD_eq_getElem?_getD, hi]

theorem il_deil {α} [Inhabited α] (ch : ℕ) (hch : 0 < ch) (frames : List (List α))
    (hfr : ∀ fr ∈ frames, fr.length = ch) :
    deinterleave ch (interleave ch frames) = some frames := by
  unfold deinterleave
  rw [if_neg (by omega), interleave_length]
  rcases Nat.eq_zero_or_pos frames.length with h0 | hpos
  · have : frames = [] := List.eq_nil_of_length_eq_zero h0
    subst this
    simp [hch]
  · have hge : ¬ frames.length * ch < ch := by
      have : ch ≤ frames.length * ch := Nat.le_mul_of_pos_left ch hpos
      omega
    rw [if_neg hge, if_neg (by simp), Nat.mul_div_cancel _ hch]
    congr 1
    apply List.ext_getElem
    · simp
    · intro f h1 h2
      have hf : f < frames.length := h2
      have hlen : frames[f].length = ch := hfr _ (List.getElem_mem _)
      simp only [List.getElem_map, List.getElem_range]
      apply List.ext_getElem
      · simp [hlen]
      · intro c g1 g2
        have hc : c < ch := by simpa using g1
        have hi : c + f * ch < frames.length * ch := by
          calc c + f * ch < ch + f * ch := by omega
            _ = (f + 1) * ch := by ring
            _ ≤ frames.length * ch := Nat.mul_le_mul_right ch hf
        simp only [List.getElem_map, List.getElem_range]
        rw [interleave_getD ch frames _ hi, Nat.add_mul_div_right _ _ hch, Nat.add_mul_mod_self_right,
          Nat.div_eq_of_lt hc, Nat.zero_add, Nat.mod_eq_of_lt hc]
        simp [List.getD_eq_getElem?_getD, hf, g2]

theorem deil_il {α} [Inhabited α] (ch : ℕ) (hch : 0 < ch) (flat : List α)
    (h : flat.length % ch = 0) :
    ∃ frames, deinterleave ch flat = some frames ∧ interleave ch frames = flat ∧
      (∀ fr ∈ frames, fr.length = ch) ∧ frames.length = flat.length / ch := by
  unfold deinterleave
  rw [if_neg (by omega)]
  by_cases hl : flat.length < ch
  · have : flat = [] := List.eq_nil_of_length_eq_zero (by
      have := Nat.mod_eq_of_lt hl; omega)
    subst this
    exact ⟨[], by simp [hch], by simp [interleave], by simp, by simp⟩
  · rw [if_neg hl, if_neg (by omega)]
    refine ⟨_, rfl, ?_, ?_, by simp⟩
    · have hL : flat.length / ch * ch = flat.length := Nat.div_mul_cancel (Nat.dvd_of_mod_eq_zero h)
      apply List.ext_getElem
      · simp [interleave, hL]
      · intro i h1 h2
        have hi : i / ch < flat.length / ch := by
          rw [Nat.div_lt_iff_lt_mul hch, hL]; exact h2
        have hm : i % ch < ch := Nat.mod_lt _ hch
        have e : i % ch + i / ch * ch = i := by
          have := Nat.div_add_mod i ch
          rw [Nat.mul_comm] at this; omega
        simp [interleave, List.getD_eq_getElem?_getD, hi, hm, e, h2]
    · intro fr hfr
      simp only [List.mem_map, List.mem_range] at hfr
      obtain ⟨f, _, rfl⟩ := hfr
      simp
end Earverif.Pcm
