/-
C14 — item selection fails only with ADM errors, and rejects what it cannot resolve.

Theorems about the model `Earverif.Validate.selectItems` (a transliteration of
`select_rendering_items` with C07's model of the pack allocator, see Model/Validate.lean);
the model is tied to /repo by harness/c14.py on every run.

`select_no_internal_partial` is PARTIAL only because these are outside the model: message formatting, attrs
type validators (and with them cross-class references), `RecursionError` (graph walks use fuel = number of
elements; the loop validations run first), rtime/duration and the HOA/absoluteDistance parameters that generated
documents leave unset.  Inside the model: all of `validate_structure` incl. the Matrix branch and
`_validate_avs_references`, the allocator's packs (`wrap_matrix_pack`), `select_pack_mapping` with the pack
allocator itself (C07's model `Earverif.PackAlloc`, called on the problem built from the document — no oracle),
`raise_error` diagnostics, Regular/Matrix `output_channel_allocation`, `_get_rendering_items`.
Structural hypotheses (always true of parsed documents, like dangling references being impossible):
`wellScoped` and `avsOwned` (an alternativeValueSet element is the child of one audioObject).

`resolved_iff_unique_valid_partial` states the second sentence of the property with C07's `accept_iff_unique`:
rendering only if exactly one valid assignment exists, Conflicting / Ambiguous `AdmFormatRefError` otherwise.
PARTIAL: C07's well-formedness `WF` of the built problem is derived from validation (`allocProblem_wf`) except
"no allocation pack without channels", which stays a hypothesis (`noEmptyPacks`: the specification read literally
admits unboundedly many / spurious allocations using an empty pack, which the code never allocates).
-/
import Earverif.Proofs.C14Alloc
namespace Earverif.Validate
open Earverif.AdmV

/-- the graph-theoretic fact `_get_pack_format_path`'s `[found_path] = ...` relies on -/
def MultitreeSound (d : Doc) : Prop := validateMultitree d = .ok () → uniquePaths d = true

/-- proved (round 2): a successful `_validate_pack_channel_multitree` DFS visited pairwise different nodes, so
every channel below a pack is yielded once by `pack_format_channels` and lies on exactly one pack path -/
theorem multitreeSound_holds (d : Doc) : MultitreeSound d := multitree_sound d

/-- After `validate_structure` succeeded every later unpacking / dereference / assert / `type_of` is safe: item
selection never ends in a non-ADM exception — on every well-scoped document graph, Matrix packs included, for
every programme / complementary-object selection and every outcome of the allocator. -/
theorem select_no_internal_partial (d : Doc) (prog : Option Nat) (sel : List Nat)
    (hw : d.wellScoped = true) (hown : d.avsOwned = true)
    (hprog : ∀ p, prog = some p → p < d.programmes.length) :
    ∀ k, selectItems d prog sel ≠ .error (.internal k) := by
  intro k hk
  unfold selectItems at hk
  split at hk
  · rename_i e he; injection hk with hk; subst hk
    exact validateStructure_noInt d k he
  · rename_i hv
    have hs := validateStructure_ok hv
    split at hk
    · rename_i e he; injection hk with hk; subst hk
      exact patterns_noInt hs k he
    · rename_i pats hpats
      split at hk
      · rename_i e he; injection hk with hk; subst hk
        exact selectComplementary_noInt d sel k he
      · split at hk
        · rename_i e he; injection hk with hk; subst hk
          exact selectStates_noInt hprog k he
        · rename_i states hstates
          exact sumE_noInt (fun _ st hst => processState_noInt hw hs (patterns_ok hs hpats)
            (multitree_sound d hs.multitree) st
            (avsSelected_noInt hs hown (selectStates_ok hstates st (List.mem_filter.mp hst).1))) 0 k hk

/-- The allocator's packs can always be built after validation: `matrix.type_of`, `[encode_pack] = ...` and
`encode_pack.inputPackFormat` in `wrap_matrix_pack` are total, whatever the declaration order of the packs. -/
theorem allocator_init_no_internal (d : Doc) (hv : validateStructure d = .ok ()) :
    ∀ k, patterns d ≠ .error (.internal k) := patterns_noInt (validateStructure_ok hv)

/-- `validate_structure` alone raises only ADM errors, on every document graph (no hypothesis at all), Matrix
branch and `_validate_avs_references` included: every `matrix.type_of`, `[encode_apf] = ...`,
`[block_format] = ...` and `assert obj is not None` in it is preceded by its guard, in any declaration order of
the packs (`_partial` only for what is outside the model: attrs validators, messages, unset parameters). -/
theorem validate_no_internal_partial (d : Doc) :
    ∀ k, validateStructure d ≠ .error (.internal k) := validateStructure_noInt d

/-- `_get_alternativeValueSet`'s `assert ... "more than one active alternativeValueSet"` cannot fail for a state
yielded by `_select_programme_content_objects` once `_validate_avs_references` accepted the document. -/
theorem avs_assert_total (d : Doc) (prog : Option Nat) (states : List State)
    (hv : validateStructure d = .ok ()) (hown : d.avsOwned = true) (hst : selectStates d prog = .ok states) :
    ∀ st ∈ states, ∀ k, avsSelected d st ≠ .error (.internal k) :=
  fun st h => avsSelected_noInt (validateStructure_ok hv) hown (selectStates_ok hst st h)

/-- hypothesis of `resolved_iff_unique_valid_partial`: every allocation pack has a channel -/
def noEmptyPacks (pats : List Pattern) : Prop := ∀ pat ∈ pats, pat.channels ≠ []

/-- "Inconsistent or ambiguous format references are always rejected rather than resolved arbitrarily", as a
theorem about the document: for a state of a validated document whose selected tracks passed
`validate_selected_audioTrackUID`, with `prob` the `allocate_packs` problem built from the document and `Valid`
C07's reading of the `allocate_packs` docstring,
* no valid assignment            ⇒ the "Conflicting format references" ADM error;
* two inequivalent valid ones    ⇒ the "Ambiguous format references" ADM error;
* exactly one (up to `≈`)        ⇔ the allocator accepts one and the outcome is its rendering;
* items are returned             ⇒ exactly one valid assignment exists. -/
theorem resolved_iff_unique_valid_partial (d : Doc) (pats : List Pattern) (st : State) (cfs : List (Option Nat))
    (hw : d.wellScoped = true) (hv : validateStructure d = .ok ()) (hp : patterns d = .ok pats)
    (hne : noEmptyPacks pats)
    (htv : forE (selectedOf d st).2.1 (validateSelectedTrack d) = .ok ())
    (hcf : mapE (selectedOf d st).2.1 (channelForTrack d) = .ok cfs) :
    ((¬ ∃ sol, PackAlloc.Valid (stateProblem d pats st cfs) sol) →
        processState d pats st = .error (.adm .conflicting)) ∧
    ((∃ s1 s2, PackAlloc.Valid (stateProblem d pats st cfs) s1 ∧ PackAlloc.Valid (stateProblem d pats st cfs) s2 ∧
        ¬ PackAlloc.SolEquiv s1 s2) → processState d pats st = .error (.adm .ambiguous)) ∧
    ((∃ s, PackAlloc.Valid (stateProblem d pats st cfs) s ∧
        ∀ sol, PackAlloc.Valid (stateProblem d pats st cfs) sol → PackAlloc.SolEquiv s sol) ↔
      ∃ s, PackAlloc.selectPackMapping (stateProblem d pats st cfs) = .accepted s ∧
        processState d pats st = renderSolution d pats st s) ∧
    (∀ n, processState d pats st = .ok n →
      ∃ s, PackAlloc.Valid (stateProblem d pats st cfs) s ∧
        ∀ sol, PackAlloc.Valid (stateProblem d pats st cfs) sol → PackAlloc.SolEquiv s sol) := by
  have hs := validateStructure_ok hv
  have hwf : PackAlloc.WF (stateProblem d pats st cfs) := allocProblem_wf hs (patterns_ok hs hp) hne _ _ _ _
  obtain ⟨hacc, hconf, hamb⟩ := PackAlloc.accept_iff_unique _ hwf
  have hdec := processState_decided (pats := pats) hw hs htv hcf
  refine ⟨?_, ?_, ?_, ?_⟩
  · intro h
    rw [hdec, hconf.mpr h]
  · intro h
    rw [hdec, hamb.mpr h]
  · rw [← hacc]
    constructor
    · rintro ⟨s, hsel⟩
      exact ⟨s, hsel, by rw [hdec, hsel]⟩
    · rintro ⟨s, hsel, _⟩
      exact ⟨s, hsel⟩
  · intro n hn
    rw [← hacc]
    rw [hdec] at hn
    cases hsel : PackAlloc.selectPackMapping (stateProblem d pats st cfs) with
    | conflicting => rw [hsel] at hn; cases hn
    | ambiguous => rw [hsel] at hn; cases hn
    | accepted s => exact ⟨s, rfl⟩

/-- No allocation satisfies the `allocate_packs` requirements ⇒ the "Conflicting" ADM error, never items. -/
theorem conflicting_is_error (d : Doc) (pats : List Pattern) (st : State) (cfs : List (Option Nat))
    (hw : d.wellScoped = true) (hv : validateStructure d = .ok ()) (hp : patterns d = .ok pats)
    (hne : noEmptyPacks pats)
    (htv : forE (selectedOf d st).2.1 (validateSelectedTrack d) = .ok ())
    (hcf : mapE (selectedOf d st).2.1 (channelForTrack d) = .ok cfs)
    (h : ¬ ∃ sol, PackAlloc.Valid (stateProblem d pats st cfs) sol) :
    processState d pats st = .error (.adm .conflicting) :=
  (resolved_iff_unique_valid_partial d pats st cfs hw hv hp hne htv hcf).1 h

/-- Two inequivalent allocations satisfy the requirements ⇒ the "Ambiguous" ADM error, never items. -/
theorem ambiguous_is_error (d : Doc) (pats : List Pattern) (st : State) (cfs : List (Option Nat))
    (hw : d.wellScoped = true) (hv : validateStructure d = .ok ()) (hp : patterns d = .ok pats)
    (hne : noEmptyPacks pats)
    (htv : forE (selectedOf d st).2.1 (validateSelectedTrack d) = .ok ())
    (hcf : mapE (selectedOf d st).2.1 (channelForTrack d) = .ok cfs)
    (h : ∃ s1 s2, PackAlloc.Valid (stateProblem d pats st cfs) s1 ∧ PackAlloc.Valid (stateProblem d pats st cfs) s2 ∧
      ¬ PackAlloc.SolEquiv s1 s2) :
    processState d pats st = .error (.adm .ambiguous) :=
  (resolved_iff_unique_valid_partial d pats st cfs hw hv hp hne htv hcf).2.1 h

/-- `raise_error` on validated tracks raises exactly the ADM error asked for (the diagnostics return normally) -/
theorem raiseError_adm (d : Doc) (packs : Option (List Nat)) (tracks : List Nat) (n : Nat) (a : AdmKind)
    (h : ∀ t ∈ tracks, TrackOk d t) : raiseError d packs tracks n a = .error (.adm a) :=
  raiseError_eq a h

/-- `possible_reference_errors` yields no non-ADM exception for either referencing style, on tracks that
passed `validate_selected_audioTrackUID` in a validated document (`TrackOk`; for a v1-style track the
trackFormat → streamFormat → channelFormat chain is complete, for a v2-style track the direct
channelFormat reference is present). This is the obligation the tree before commit 0d9f6b4 fails. -/
theorem diagnostics_total (d : Doc) (packs : Option (List Nat)) (tracks : List Nat) (n : Nat)
    (h : ∀ t ∈ tracks, TrackOk d t) :
    ∀ k, possibleReferenceErrors d packs tracks n ≠ .error (.internal k) :=
  possibleReferenceErrors_noInt h

/-! ### Non-vacuity and counter-examples (kernel evaluation) -/

deriving instance DecidableEq for Except

def objBlock : Block := {}
def hoaBlock (o g : Int) : Block := { order := some o, degree := some g }

/-- valid BS.2076-1 style document: programme → content → object → pack/track; track → trackFormat → stream → channel -/
def docV1 : Doc := {
  v2Allowed := false
  programmes := [{ contents := [0] }], contents := [{ objects := [0] }]
  objects := [{ packs := [0], tracks := [some 0] }]
  packs := [{ type := .objects, channels := [0] }]
  channels := [{ type := .objects, blocks := [objBlock] }]
  streams := [{ channel := some 0 }], trackFormats := [{ stream := some 0 }]
  trackUIDs := [{ trackIndex := some 1, pack := some 0, trackFormat := some 0 }] }

/-- valid BS.2076-2 style document: track → channel directly -/
def docV2 : Doc := {
  v2Allowed := true
  programmes := [{ contents := [0] }], contents := [{ objects := [0] }]
  objects := [{ packs := [0], tracks := [some 0] }]
  packs := [{ type := .objects, channels := [0] }]
  channels := [{ type := .objects, blocks := [objBlock] }]
  trackUIDs := [{ trackIndex := some 1, pack := some 0, channel := some 0 }] }


example : docV1.wellScoped = true ∧ uniquePaths docV1 = true := by decide
example : selectItems docV1 none [] = .ok 1 := by decide
example : selectItems docV2 none [] = .ok 1 := by decide
example : selectItems docV1 (some 0) [] = .ok 1 := by decide
-- conflicting / ambiguous references, both styles: the ADM error, via total diagnostics
/-- the object references no pack: no allocation exists -/
example : selectItems { docV1 with objects := [{ packs := [], tracks := [some 0] }] } none []
    = .error (.adm .conflicting) := by decide
example : selectItems { docV2 with objects := [{ packs := [], tracks := [some 0] }] } none []
    = .error (.adm .conflicting) := by decide

/-- CHNA-only documents (no programme, no object) with a nested pack `outer ⊃ inner ∋ channel 0` and a track
referencing `inner`: the track fits `inner` on its own and `outer` — two allocations -/
def docAmbV2 : Doc := {
  v2Allowed := true
  packs := [{ type := .directSpeakers, channels := [0] }, { type := .directSpeakers, packs := [0] }]
  channels := [{ type := .directSpeakers, blocks := [{}] }]
  trackUIDs := [{ trackIndex := some 1, pack := some 0, channel := some 0 }] }
def docAmbV1 : Doc := { docAmbV2 with
  streams := [{ channel := some 0 }], trackFormats := [{ stream := some 0 }]
  trackUIDs := [{ trackIndex := some 1, pack := some 0, trackFormat := some 0 }] }
example : selectItems docAmbV1 none [] = .error (.adm .ambiguous) := by decide
example : selectItems docAmbV2 none [] = .error (.adm .ambiguous) := by decide
-- one faulty document per modelled fault class
example : selectItems { docV1 with trackFormats := [{ stream := none }] } none [] = .error (.adm .tfnostream) := by decide
example : selectItems { docV1 with streams := [{}] } none [] = .error (.adm .streamnone) := by decide
example : selectItems { docV1 with streams := [{ channel := some 0, pack := some 0 }] } none [] = .error (.adm .streamboth) := by decide
example : selectItems { docV1 with streams := [{ pack := some 0 }] } none [] = .error (.adm .streamnochannel) := by decide
example : selectItems { docV1 with objects := [{ packs := [0], tracks := [some 0], objects := [0] }] } none [] = .error (.adm .objloop) := by decide
example : selectItems { docV1 with objects := [{ objects := [1], params := true }, { packs := [0], tracks := [some 0] }] } none [] = .error (.adm .leafparam) := by decide
example : selectItems { docV1 with channels := [{ type := .directSpeakers, blocks := [objBlock] }] } none [] = .error (.adm .packchtype) := by decide
example : selectItems { docV1 with packs := [{ type := .objects, channels := [0], packs := [1] }, { type := .directSpeakers }] } none [] = .error (.adm .subpacktype) := by decide
example : selectItems { docV1 with packs := [{ type := .objects, channels := [0], packs := [0] }] } none [] = .error (.adm .packloop) := by decide
example : selectItems { docV1 with packs := [{ type := .objects, channels := [0, 0] }] } none [] = .error (.adm .diamond) := by decide
example : selectItems { docV1 with channels := [{ type := .objects, freq := true, blocks := [objBlock] }] } none [] = .error (.adm .objfreq) := by decide
example : selectItems { docV1 with channels := [{ type := .objects, blocks := [{ cartMismatch := true }] }] } none [] = .error (.adm .cartesian) := by decide
example : selectItems { docV1 with packs := [{ type := .objects, channels := [0], input := some 0 }] } none [] = .error (.adm .nmxinput) := by decide
example : selectItems { docV1 with trackUIDs := [{ trackIndex := some 1, pack := some 0, trackFormat := some 0, channel := some 0 }] } none [] = .error (.adm .v2ref) := by decide
example : selectItems { docV2 with trackUIDs := [{ trackIndex := some 1, pack := some 0 }] } none [] = .error (.adm .tracknone) := by decide
example : selectItems { docV2 with trackUIDs := [{ trackIndex := some 1, pack := some 0, channel := some 0, trackFormat := some 0 }], trackFormats := [{ stream := some 0 }], streams := [{ channel := some 0 }] } none [] = .error (.adm .trackboth) := by decide
example : selectItems { docV2 with trackUIDs := [{ pack := some 0, channel := some 0 }] } none [] = .error (.adm .noindex) := by decide
example : selectItems { docV2 with trackUIDs := [{ trackIndex := some 1, channel := some 0 }] } none [] = .error (.adm .nopack) := by decide
example : selectItems docV2 none [0] = .error (.adm .compnotgroup) := by decide

/-- first-order-less HOA document: one HOA pack with one channel -/
def docHoa : Doc := {
  v2Allowed := true
  programmes := [{ contents := [0] }], contents := [{ objects := [0] }]
  objects := [{ packs := [0], tracks := [some 0] }]
  packs := [{ type := .hoa, channels := [0] }]
  channels := [{ type := .hoa, blocks := [hoaBlock 0 0] }]
  trackUIDs := [{ trackIndex := some 1, pack := some 0, channel := some 0 }] }

example : selectItems docHoa none [] = .ok 1 := by decide
example : selectItems { docHoa with channels := [{ type := .hoa, blocks := [] }] } none [] = .error (.adm .hoablocks) := by decide
example : selectItems { docHoa with channels := [{ type := .hoa, blocks := [{ degree := some 0 }] }] } none [] = .error (.adm .hoaorder) := by decide

/-- former finding F1 (fixed in 03146b0): a HOA pack that references no channel is rejected with an ADM error
(before the fix `get_single_param` indexed `pack_paths_channels[0]`: IndexError) -/
theorem hoa_empty_pack_is_adm :
    selectItems { docHoa with packs := [{ type := .hoa, channels := [] }] } none []
      = .error (.adm .hoaempty) := by decide

/-- former finding F4 (fixed in 76cae51): a consistent Binaural document is rejected with an ADM error
(before the fix `_get_rendering_items` raised NotImplementedError) -/
theorem unsupported_type_is_adm :
    selectItems { docV2 with packs := [{ type := .binaural, channels := [0] }],
                             channels := [{ type := .binaural, blocks := [objBlock] }] } none []
      = .error (.adm .unsupportedtype) := by decide

/-! ### the allocation problem -/

/-- non-vacuity of `noEmptyPacks` (and with it of `resolved_iff_unique_valid_partial`) on the example documents -/
example : (match patterns docV1 with
    | .ok pats => decide (∀ pat ∈ pats, pat.channels ≠ [])
    | .error _ => false) = true := by decide
example : (match patterns docAmbV2 with
    | .ok pats => decide (∀ pat ∈ pats, pat.channels ≠ [])
    | .error _ => false) = true := by decide

/-- an object that references a pack without channels and no tracks -/
def docEmptyPack : Doc := { docV2 with
  objects := [{ packs := [0], tracks := [] }]
  packs := [{ type := .objects, channels := [] }]
  channels := [], trackUIDs := [] }

/-- why `noEmptyPacks` is a hypothesis: the code rejects this object ("Conflicting": an empty pack is never
allocated) although, read literally, the `allocate_packs` requirements are met by allocating the empty pack once -/
theorem empty_pack_rejected_though_spec_valid :
    selectItems docEmptyPack none [] = .error (.adm .conflicting) ∧
    PackAlloc.Valid (allocProblem docEmptyPack [⟨0, false, [], []⟩] (some [0]) [] [] 0) [⟨⟨0, 0, []⟩, []⟩] := by
  decide

/-! ### Matrix documents -/

def dsBlock : Block := {}
def mxBlock (out : Option Nat) (ins : List Nat) : Block := { outCh := out, coeffs := ins.map (fun c => { input := some c }) }

/-- mono → stereo direct matrix: packs 0 mono (channel 0), 1 stereo (channels 1,2), 2 direct matrix (channels 3,4);
the object references the matrix pack, its track the mono channel -/
def docDirect : Doc := {
  v2Allowed := true
  programmes := [{ contents := [0] }], contents := [{ objects := [0] }]
  objects := [{ packs := [2], tracks := [some 0] }]
  packs := [{ type := .directSpeakers, channels := [0] }, { type := .directSpeakers, channels := [1, 2] },
            { type := .matrix, channels := [3, 4], input := some 0, output := some 1 }]
  channels := [{ type := .directSpeakers, blocks := [dsBlock] }, { type := .directSpeakers, blocks := [dsBlock] },
               { type := .directSpeakers, blocks := [dsBlock] },
               { type := .matrix, blocks := [mxBlock (some 1) [0]] }, { type := .matrix, blocks := [mxBlock (some 2) [0]] }]
  trackUIDs := [{ trackIndex := some 1, pack := some 2, channel := some 0 }] }

/-- `_PackAllocator.packs` of `docDirect`: mono, stereo, matrix/input-channels, matrix/pre-applied -/
example : (patterns docDirect).map (·.length) = .ok 4 := by decide
example : docDirect.wellScoped = true := by decide
/-- direct use: the allocator's third pack; two DirectSpeakers items -/
example : selectItems docDirect none [] = .ok 2 := by decide
example : selectItems { docDirect with objects := [{ packs := [], tracks := [some 0] }] } none []
    = .error (.adm .conflicting) := by decide
-- matrix fault classes
example : selectItems { docDirect with packs := [{ type := .directSpeakers, channels := [0] }, { type := .directSpeakers, channels := [1, 2] },
    { type := .matrix, channels := [3, 4] }] } none [] = .error (.adm .mxnoio) := by decide
example : selectItems { docDirect with channels := [{ type := .directSpeakers, blocks := [dsBlock] }, { type := .directSpeakers, blocks := [dsBlock] },
    { type := .directSpeakers, blocks := [dsBlock] },
    { type := .matrix, blocks := [mxBlock (some 1) [1]] }, { type := .matrix, blocks := [mxBlock (some 2) [0]] }] } none []
      = .error (.adm .mxinputch) := by decide
example : selectItems { docDirect with channels := [{ type := .directSpeakers, blocks := [dsBlock] }, { type := .directSpeakers, blocks := [dsBlock] },
    { type := .directSpeakers, blocks := [dsBlock] },
    { type := .matrix, blocks := [mxBlock none [0]] }, { type := .matrix, blocks := [mxBlock (some 2) [0]] }] } none []
      = .error (.adm .mxoutmissing) := by decide
example : selectItems { docDirect with channels := [{ type := .directSpeakers, blocks := [dsBlock] }, { type := .directSpeakers, blocks := [dsBlock] },
    { type := .directSpeakers, blocks := [dsBlock] },
    { type := .matrix, blocks := [] }, { type := .matrix, blocks := [mxBlock (some 2) [0]] }] } none []
      = .error (.adm .mxchblocks) := by decide

/-- former finding F2 (fixed in 76cae51): a matrix coefficient without inputChannelFormat is an ADM error from
`ADM.validate()` (was ValueError) -/
theorem coefficient_without_input_is_adm :
    selectItems { docDirect with channels := [{ type := .directSpeakers, blocks := [dsBlock] }, { type := .directSpeakers, blocks := [dsBlock] },
      { type := .directSpeakers, blocks := [dsBlock] },
      { type := .matrix, blocks := [{ outCh := some 1, coeffs := [{ input := none }] }] },
      { type := .matrix, blocks := [mxBlock (some 2) [0]] }] } none []
      = .error (.adm .coeffnoinput) := by decide

/-- former finding F3 (fixed in 592dfc9): a decode matrix pack (pack 0) declared BEFORE the Matrix pack it
references as encode pack (pack 1), which has neither input nor output reference: ADM error (was the
`assert False` of `matrix.type_of`) -/
theorem encode_without_refs_is_adm :
    selectItems { v2Allowed := true,
                  packs := [{ type := .matrix, output := some 2, encodePacks := [1] }, { type := .matrix },
                            { type := .directSpeakers }] } none []
      = .error (.adm .mxnoio) := by decide

/-! ### alternativeValueSets -/

/-- object 0 owns AVS tokens 7 and 8; the programme references 7 -/
def docAvs : Doc := { docV2 with
  programmes := [{ contents := [0], avs := [7] }]
  objects := [{ packs := [0], tracks := [some 0], params := true, avs := [7, 8] }] }

example : docAvs.avsOwned = true ∧ docAvs.wellScoped = true := by decide
example : selectItems docAvs none [] = .ok 1 := by decide
example : selectItems { docAvs with programmes := [{ contents := [0], avs := [9] }] } none []
    = .error (.adm .avsnotin) := by decide
example : selectItems { docAvs with programmes := [{ contents := [0], avs := [7, 7] }] } none []
    = .error (.adm .avsdup) := by decide
example : selectItems { docAvs with contents := [{ objects := [0], avs := [7] }] } none []
    = .error (.adm .avsboth) := by decide
example : selectItems { docAvs with contents := [{ objects := [0], avs := [8] }] } none []
    = .error (.adm .avsmulti) := by decide

/-- why `avsOwned` is a hypothesis: an AVS shared by two objects (impossible in a parsed document) defeats the
conflict check of `_validate_avs_references` (it files the reference under the first owner only) and the assert
in `_get_alternativeValueSet` fails for the second owner -/
theorem shared_avs_defeats_validation :
    selectItems { docV2 with
      programmes := [{ contents := [0], avs := [7, 8] }]
      contents := [{ objects := [0, 1] }]
      objects := [{ packs := [0], tracks := [some 0], params := true, avs := [7] },
                  { packs := [0], tracks := [some 0], params := true, avs := [7, 8] }] } none [] = .error (.internal .assert) := by decide

end Earverif.Validate
