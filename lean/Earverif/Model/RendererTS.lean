/-
Composition with track processors (C02/C03 round 4): the renderers of `Model/Renderer.lean` with every item's
audio obtained through `TrackProcessor(item.track_spec)` / `MultiTrackProcessor(item.track_specs)` instead of
one direct input track.  Transliterated from

* `ObjectRenderer.set_rendering_items/render`        (`ear/core/objectbased/renderer.py`)
* `DirectSpeakersRenderer.set_rendering_items/render` (`ear/core/direct_speakers/renderer.py`)
* `HOARenderer.set_rendering_items/render`            (`ear/core/scenebased/renderer.py`)
* `Renderer.set_rendering_items/render/get_tail`      (`ear/core/renderer.py`)

The processor objects and their `process` state machine are the ones of the C20 model
(`Model/TrackSpec.lean`: `trackProcessor`, `buildMulti`, `step`, `stepMulti`), imported, not copied; the gain
timeline (`Bpc.process`), `Delay`, the block-size adapter and `BlockAligner` are the ones of
`Model/{Timeline,Stream}.lean`.

Representation: an input frame is a `List Rat` of `c.n_in` samples (`input_samples` of shape `(n, n_in)`;
the width is passed to the processors as `c.n_in`, which is also the `n_channels` given to `get_tail`);
the sample rate handed to `process` is `c.sr`.  Exceptions are `Except ErrTS` (a track-processor exception or
one of the renderer's).  Core Lean only.

The second half of the file is the sample-by-sample specification with track specs (`outTS`), written from the
property text like `Model/RenderSpec.lean`: every item contributes `gains(s) · y_item(s)` where `y_item` is the
literal meaning (`TrackSpec.meaning`) of its track spec on the input.
-/
import Earverif.Model.Renderer
import Earverif.Model.RenderSpec
import Earverif.Model.TrackSpec
namespace Earverif.RendererTS
open Earverif.Stream Earverif.Timeline Earverif.Renderer
open Earverif.TrackSpec (Spec Proc)

/-- What a session can raise: an exception of a track processor (`TrackProcessor(...)` or `.process`), or one of
the renderer proper (metadata interpreters, `BlockProcessingChannel`, `BlockAligner`). -/
inductive ErrTS where
  | track (e : TrackSpec.Err)
  | render (e : Timeline.Err)
  deriving Repr, DecidableEq

def liftT {α : Type} : Except TrackSpec.Err α → Except ErrTS α
  | .ok a => .ok a
  | .error e => .error (.track e)

def liftR {α : Type} : Except Timeline.Err α → Except ErrTS α
  | .ok a => .ok a
  | .error e => .error (.render e)

/-- `ObjectRenderingItem(track_spec, metadata_source)`. -/
structure ObjItemTS (V : Type) where
  spec : Spec Rat
  blocks : List (MetaBlock (V × V))

/-- `DirectSpeakersRenderingItem(track_spec, metadata_source)`. -/
structure DsItemTS (V : Type) where
  spec : Spec Rat
  blocks : List (MetaBlock V)

/-- `HOARenderingItem(track_specs, metadata_source)`. -/
structure HoaItemTS (V : Type) where
  specs : List (Spec Rat)
  blocks : List (MetaBlock (List V))

/-- `[(TrackProcessor(item.track_spec), BlockProcessingChannel(item.metadata_source, Interpret…(…))) for item in
rendering_items]`; `mk` is `TrackProcessor` / `MultiTrackProcessor` on the item's spec(s). -/
def mkChans {I P M S K : Type} (mk : I → Except TrackSpec.Err P) (blocksOf : I → List M) (st0 : S) :
    List I → Except TrackSpec.Err (List (P × Bpc M S K))
  | [] => .ok []
  | it :: rest =>
    match mk it with
    | .error e => .error e
    | .ok p =>
      match mkChans mk blocksOf st0 rest with
      | .error e => .error e
      | .ok cs => .ok ((p, ⟨blocksOf it, st0, []⟩) :: cs)

/-- `for track_spec_processor, block_processing in self.block_processing_channels:
       track_samples = track_spec_processor.process(sample_rate, input_samples)
       block_processing.process(sample_rate, start_sample, track_samples, output)`;
`proc p` is `p.process(sample_rate, input_samples)` (new processor state, samples). -/
def procChansTS {P M S K ι V : Type} (interp : S → M → Except Err (S × List (PBlock K)))
    (upd : K → Nat → ι → V → V) (start_sample : Int) (proc : P → Except TrackSpec.Err (P × List ι)) :
    List (P × Bpc M S K) → List V → Except ErrTS (List (P × Bpc M S K) × List V)
  | [], out => .ok ([], out)
  | (p, b) :: rest, out =>
    match proc p with
    | .error e => .error (.track e)
    | .ok (p', track_samples) =>
      match b.process interp upd start_sample track_samples out with
      | .error e => .error (.render e)
      | .ok (b', out) =>
        match procChansTS interp upd start_sample proc rest out with
        | .error e => .error e
        | .ok (rest', out) => .ok ((p', b') :: rest', out)

/-- State of `ObjectRenderer` (channels now hold a processor object instead of a track number). -/
structure ObjStateTS (V : Type) where
  chans : List (Proc Rat × ObjBpc V)
  delaymem : List V
  vbs : Vbs (List V) V

/-- `ObjectRenderer.__init__` + `set_rendering_items`. -/
def ObjStateTS.init {V : Type} [RMod V] (c : Cfg V) (items : List (ObjItemTS V)) :
    Except TrackSpec.Err (ObjStateTS V) :=
  match mkChans (fun it : ObjItemTS V => TrackSpec.trackProcessor it.spec) (·.blocks) ({} : IState (V × V)) items with
  | .error e => .error e
  | .ok chans =>
    .ok { chans := chans
          delaymem := Delay.init 0 c.overall_delay
          vbs := Vbs.init (Fir.step c.taps) c.block_size 0 (Fir.init c.taps) }

/-- `ObjectRenderer.render`. -/
def ObjStateTS.render {V : Type} [RMod V] (c : Cfg V) (st : ObjStateTS V) (start_sample : Int)
    (inp : List (List Rat)) : Except ErrTS (ObjStateTS V × List V) :=
  match procChansTS (interpObject c.sr) GainKern.upd start_sample (fun p => TrackSpec.step c.sr c.n_in p inp)
      st.chans (List.replicate inp.length (0 : V × V)) with
  | .error e => .error e
  | .ok (chans, interpolated) =>
    let (direct_out, mem) := Delay.process 0 st.delaymem (interpolated.map Prod.fst)
    let (vbs, diffuse_out) := Vbs.process (Fir.step c.taps) c.block_size 0 st.vbs (interpolated.map Prod.snd)
    .ok (⟨chans, mem, vbs⟩, List.zipWith (· + ·) direct_out diffuse_out)

/-- `DirectSpeakersRenderer.render`. -/
def dsRenderTS {V : Type} [RMod V] (c : Cfg V) (chans : List (Proc Rat × DsBpc V)) (start_sample : Int)
    (inp : List (List Rat)) : Except ErrTS (List (Proc Rat × DsBpc V) × List V) :=
  procChansTS (interpFixed c.sr) (fun g _ x o => o + RMod.smul x g) start_sample
    (fun p => TrackSpec.step c.sr c.n_in p inp) chans (List.replicate inp.length 0)

/-- `HOARenderer.render` (`MultiTrackProcessor.process` returns the `(n, m)` stack of the `m` specs' samples). -/
def hoaRenderTS {V : Type} [RMod V] (c : Cfg V) (chans : List (List (Proc Rat) × HoaBpc V)) (start_sample : Int)
    (inp : List (List Rat)) : Except ErrTS (List (List (Proc Rat) × HoaBpc V) × List V) :=
  procChansTS (interpFixed c.sr) matUpd start_sample
    (fun ps => TrackSpec.stepMulti c.sr c.n_in ps inp) chans (List.replicate inp.length 0)

/-- State of `Renderer`. -/
structure RStateTS (V : Type) where
  aligner : Aligner V
  obj : ObjStateTS V
  ds : List (Proc Rat × DsBpc V)
  hoa : List (List (Proc Rat) × HoaBpc V)
  start_sample : Int

/-- `Renderer.__init__` + `set_rendering_items` (Objects, then DirectSpeakers, then HOA items are handed to their
renderers; a `TrackProcessor(...)` exception escapes). -/
def RStateTS.init {V : Type} [RMod V] (c : Cfg V) (objs : List (ObjItemTS V)) (dss : List (DsItemTS V))
    (hoas : List (HoaItemTS V)) : Except TrackSpec.Err (RStateTS V) :=
  match ObjStateTS.init c objs with
  | .error e => .error e
  | .ok obj =>
    match mkChans (fun it : DsItemTS V => TrackSpec.trackProcessor it.spec) (·.blocks) ({} : IState V) dss with
    | .error e => .error e
    | .ok ds =>
      match mkChans (fun it : HoaItemTS V => TrackSpec.buildMulti it.specs) (·.blocks) ({} : IState (List V)) hoas with
      | .error e => .error e
      | .ok hoa => .ok { aligner := Aligner.init, obj := obj, ds := ds, hoa := hoa, start_sample := 0 }

/-- `Renderer.render`. -/
def RStateTS.render {V : Type} [RMod V] (c : Cfg V) (st : RStateTS V) (samples : List (List Rat)) :
    Except ErrTS (RStateTS V × List V) :=
  match st.obj.render c st.start_sample samples with
  | .error e => .error e
  | .ok (obj, o1) =>
    match liftR (liftA (st.aligner.add (st.start_sample - c.overall_delay) o1)) with
    | .error e => .error e
    | .ok al =>
      match dsRenderTS c st.ds st.start_sample samples with
      | .error e => .error e
      | .ok (ds, o2) =>
        match liftR (liftA (al.add st.start_sample o2)) with
        | .error e => .error e
        | .ok al =>
          match hoaRenderTS c st.hoa st.start_sample samples with
          | .error e => .error e
          | .ok (hoa, o3) =>
            match liftR (liftA (al.add st.start_sample o3)) with
            | .error e => .error e
            | .ok al =>
              match liftR (liftA al.get) with
              | .error e => .error e
              | .ok (ret, al) => .ok (⟨al, obj, ds, hoa, st.start_sample + samples.length⟩, ret)

/-- `np.zeros((total_delay, n_channels))` of `get_tail`. -/
def tailFrames {V : Type} (c : Cfg V) : List (List Rat) :=
  List.replicate c.overall_delay (List.replicate c.n_in 0)

/-- `Renderer.get_tail(sample_rate, n_channels)`: the zero block goes through the track processors too. -/
def RStateTS.get_tail {V : Type} [RMod V] (c : Cfg V) (st : RStateTS V) : Except ErrTS (RStateTS V × List V) :=
  st.render c (tailFrames c)

/-- `render` on each block in turn. -/
def RStateTS.run {V : Type} [RMod V] (c : Cfg V) : RStateTS V → List (List (List Rat)) →
    Except ErrTS (RStateTS V × List (List V))
  | st, [] => .ok (st, [])
  | st, b :: bs =>
    match st.render c b with
    | .error e => .error e
    | .ok (st, o) =>
      match RStateTS.run c st bs with
      | .error e => .error e
      | .ok (st, os) => .ok (st, o :: os)

/-- A whole session: `set_rendering_items`, all `render` calls, then `get_tail`; concatenated output. -/
def renderAllTS {V : Type} [RMod V] (c : Cfg V) (objs : List (ObjItemTS V)) (dss : List (DsItemTS V))
    (hoas : List (HoaItemTS V)) (parts : List (List (List Rat))) : Except ErrTS (List V) :=
  match RStateTS.init c objs dss hoas with
  | .error e => .error (.track e)
  | .ok st0 =>
    match RStateTS.run c st0 parts with
    | .error e => .error e
    | .ok (st, os) =>
      match st.get_tail c with
      | .error e => .error e
      | .ok (_, tail) => .ok (os.flatten ++ tail)

/-- Same, keeping the per-call outputs (for the driver): outputs produced before an exception stay observable. -/
def renderTraceTS {V : Type} [RMod V] (c : Cfg V) : RStateTS V → List (List (List Rat)) →
    List (List V) × Option ErrTS
  | st, [] =>
    match st.get_tail c with
    | .ok (_, tail) => ([tail], none)
    | .error e => ([], some e)
  | st, b :: bs =>
    match st.render c b with
    | .ok (st, o) => let (os, e) := renderTraceTS c st bs; (o :: os, e)
    | .error e => ([], some e)

/-! ### Specification with track specs -/

/-- The audio of an item with track spec `spec` at sample `t`: the literal meaning of the spec (inputs summed,
scaled by the gains, delayed by the coefficient delays rounded to whole samples — `TrackSpec.meaning`) on the
input followed by the `overall_delay` frames of silence `get_tail` feeds (so that a delayed input keeps sounding
after the last input frame, where the decorrelator looks ahead); `0` outside `0 ≤ t < T + overall_delay`. -/
def sAt {V : Type} (c : Cfg V) (spec : Spec Rat) (x : List (List Rat)) (t : Int) : Rat :=
  if 0 ≤ t then (TrackSpec.meaning c.sr c.n_in spec (x ++ tailFrames c)).getD t.toNat 0 else 0

/-- `(direct, diffuse)` contribution of all Objects items at sample `t`. -/
def objAtTS {V : Type} [RMod V] (c : Cfg V) (objs : List (ObjItemTS V)) (x : List (List Rat)) (t : Int) : V × V :=
  RenderSpec.sumV (objs.map fun it =>
    RMod.smul (sAt c it.spec x t) (RenderSpec.gainAt c.sr (RenderSpec.objTimeline none it.blocks) t).row)

/-- DirectSpeakers contribution at sample `t`. -/
def dsAtTS {V : Type} [RMod V] (c : Cfg V) (dss : List (DsItemTS V)) (x : List (List Rat)) (t : Int) : V :=
  RenderSpec.sumV (dss.map fun it =>
    RMod.smul (sAt c it.spec x t) (RenderSpec.gainAt c.sr (RenderSpec.fixedTimeline it.blocks) t).row)

/-- HOA contribution at sample `t`: decode matrix applied to the `m` specs' samples. -/
def hoaAtTS {V : Type} [RMod V] (c : Cfg V) (hoas : List (HoaItemTS V)) (x : List (List Rat)) (t : Int) : V :=
  RenderSpec.sumV (hoas.map fun it =>
    (RenderSpec.gainAt c.sr (RenderSpec.fixedTimeline it.blocks) t).mat (it.specs.map fun sp => sAt c sp x t))

/-- Diffuse part: the decorrelation filter on the diffuse gain stream, group delay compensated. -/
def diffuseAtTS {V : Type} [RMod V] (c : Cfg V) (objs : List (ObjItemTS V)) (x : List (List Rat)) (s : Nat) : V :=
  RenderSpec.sumV ((List.range c.taps.length).map fun k =>
    RMod.pmul (c.taps.getD k 0) (objAtTS c objs x ((s : Int) + c.decorrelator_delay - k)).2)

/-- Output sample `s` (`0 ≤ s < T`). -/
def outAtTS {V : Type} [RMod V] (c : Cfg V) (objs : List (ObjItemTS V)) (dss : List (DsItemTS V))
    (hoas : List (HoaItemTS V)) (x : List (List Rat)) (s : Nat) : V :=
  (((objAtTS c objs x s).1 + diffuseAtTS c objs x s) + dsAtTS c dss x s) + hoaAtTS c hoas x s

/-- The whole specified output: exactly `T = len(x)` frames starting at time zero. -/
def outTS {V : Type} [RMod V] (c : Cfg V) (objs : List (ObjItemTS V)) (dss : List (DsItemTS V))
    (hoas : List (HoaItemTS V)) (x : List (List Rat)) : List V :=
  (List.range x.length).map (outAtTS c objs dss hoas x)

/-! ### The per-item streams as one multi-channel signal (what reduces this model to `Model/Renderer.lean`) -/

/-- All track specs of a session, in the order Objects, DirectSpeakers, HOA (each HOA item's specs in turn). -/
def allSpecs {V : Type} (objs : List (ObjItemTS V)) (dss : List (DsItemTS V)) (hoas : List (HoaItemTS V)) :
    List (Spec Rat) :=
  objs.map (·.spec) ++ (dss.map (·.spec) ++ (hoas.map (·.specs)).flatten)

/-- The processed streams of all items as the frames of one signal with `len(allSpecs)` channels: channel `j`
is `meaning(spec_j)` of the input followed by the tail's silence. -/
def itemStreams {V : Type} (c : Cfg V) (objs : List (ObjItemTS V)) (dss : List (DsItemTS V))
    (hoas : List (HoaItemTS V)) (x : List (List Rat)) : List (List Rat) :=
  TrackSpec.stack (x ++ tailFrames c).length
    ((allSpecs objs dss hoas).map fun s => TrackSpec.meaning c.sr c.n_in s (x ++ tailFrames c))

/-- The Objects items reading channel `k, k+1, …` of `itemStreams` directly (`DirectTrackSpec`). -/
def directObjs {V : Type} : Nat → List (ObjItemTS V) → List (ObjItem V)
  | _, [] => []
  | k, it :: rest => ⟨k, it.blocks⟩ :: directObjs (k + 1) rest

def directDss {V : Type} : Nat → List (DsItemTS V) → List (DsItem V)
  | _, [] => []
  | k, it :: rest => ⟨k, it.blocks⟩ :: directDss (k + 1) rest

def directHoas {V : Type} : Nat → List (HoaItemTS V) → List (HoaItem V)
  | _, [] => []
  | k, it :: rest => ⟨List.range' k it.specs.length, it.blocks⟩ :: directHoas (k + it.specs.length) rest

end Earverif.RendererTS
