/- C05 — sphere-coverage certificate of a configured point-source panner and its Bool checker.  Core Lean only.

   `harness/c05_cover.py` builds, from the real `point_source.configure(layout)` object, a closed polyhedral surface
   whose cells are vertex triples / coplanar quadruples of the panner's regions (see `Gen/C05_Cover.lean`).
   `coverCertOk` re-checks, in exact integer arithmetic (every binary64 coordinate `m·2^e` of `Gen/C05_Tables.lean`
   times `2^K`), every side condition from which `Proofs/C05Cover.lean` derives that the vertex cones of the cells
   cover every direction, and that every cell is made of vertices of the region it names:
     * Triplet region  -> the cell is its three positions `[0, 1, 2]`;
     * VirtualNgon     -> the cell is the fan triangle `[order[f], order[(f+1) % n], n]` (`n` = the centre), `f < n`;
     * QuadRegion      -> three or four distinct corner slots. -/
import Earverif.Model.PointSource

namespace Earverif.PointSource.Cover

abbrev IV := Int × Int × Int

def isub (a b : IV) : IV := (a.1 - b.1, a.2.1 - b.2.1, a.2.2 - b.2.2)
def iadd (a b : IV) : IV := (a.1 + b.1, a.2.1 + b.2.1, a.2.2 + b.2.2)
def ineg (a : IV) : IV := (-a.1, -a.2.1, -a.2.2)
def icross (a b : IV) : IV :=
  (a.2.1 * b.2.2 - a.2.2 * b.2.1, a.2.2 * b.1 - a.1 * b.2.2, a.1 * b.2.1 - a.2.1 * b.1)
def idot (a b : IV) : Int := a.1 * b.1 + a.2.1 * b.2.1 + a.2.2 * b.2.2
/-- determinant of the matrix with rows `a b c` (same expansion as `det3`) -/
def idet (a b c : IV) : Int :=
  a.1 * (b.2.1 * c.2.2 - b.2.2 * c.2.1) - a.2.1 * (b.1 * c.2.2 - b.2.2 * c.1) + a.2.2 * (b.1 * c.2.1 - b.2.1 * c.1)

/-- `m·2^e·2^K` as an integer (`none` if it is not one) -/
def scaleF2 (K : Nat) (x : F2) : Option Int :=
  if 0 ≤ x.2 + (K : Int) then some (x.1 * 2 ^ (x.2 + (K : Int)).toNat) else none

def scaleP3 (K : Nat) (v : P3) : Option IV :=
  match scaleF2 K v.1, scaleF2 K v.2.1, scaleF2 K v.2.2 with
  | some x, some y, some z => some (x, y, z)
  | _, _, _ => none

/-- The vertices of a region: its positions, followed by the virtual centre for a `VirtualNgon`. -/
def verts (r : RawRegion) : List P3 := if r.kind == 1 then r.pos ++ [r.centre] else r.pos

/-- One cell of the certificate. -/
structure Cell where
  /-- index into `RawLayout.regions` -/
  region : Nat
  /-- fan triangle number (VirtualNgon only) -/
  fan : Nat
  /-- slots into `verts region`: 3 (triangle) or 4 (coplanar quad, cyclic order) -/
  vs : List Nat
  /-- the outward normal is minus the raw normal -/
  flip : Bool
  /-- neighbour cell across the edges 12, 23, 31 (triangle) / 12, 23, 34, 41 (quad) -/
  nb : List Nat

structure CoverCert where
  cells : List Cell
  /-- three cells with linearly independent normals -/
  span : Nat × Nat × Nat

/-- A cell with its vertices looked up and scaled, its outward normal and plane offset. -/
structure RCell where
  vs : List IV
  n : IV
  c : Int
  nb : List Nat

/-- the slots a cell may use in its region -/
def slotsOk (r : RawRegion) (c : Cell) : Bool :=
  match r.kind with
  | 0 => c.vs == [0, 1, 2]
  | 1 =>
    let n := r.pos.length
    c.fan < n && r.order.getD c.fan 0 < n && r.order.getD ((c.fan + 1) % n) 0 < n &&
    c.vs == [r.order.getD c.fan 0, r.order.getD ((c.fan + 1) % n) 0, n]
  | 2 => (c.vs.length == 3 || c.vs.length == 4) && c.vs.all (· < 4) && allDistinct c.vs
  | _ => false

def rawNormal : List IV → IV
  | [a, b, c] => icross (isub b a) (isub c a)
  | [a, b, c, d] => icross (isub c a) (isub d b)
  | _ => (0, 0, 0)

def resolve (K : Nat) (l : RawLayout) (c : Cell) : Option RCell :=
  match l.regions[c.region]? with
  | none => none
  | some r =>
    if slotsOk r c then
      match c.vs.mapM (fun i => (verts r)[i]?.bind (scaleP3 K)) with
      | none => none
      | some ps =>
        let n := if c.flip then ineg (rawNormal ps) else rawNormal ps
        some { vs := ps, n := n, c := idot n (ps.headD (0, 0, 0)), nb := c.nb }
    else none

/-- the plane of cell `j` contains `w1`, `w2` and has `w3` strictly inside -/
def edgeOk (rs : List RCell) (j : Nat) (w1 w2 w3 : IV) : Bool :=
  match rs[j]? with
  | some J => idot J.n w1 == J.c && idot J.n w2 == J.c && decide (idot J.n w3 < J.c)
  | none => false

def cellOk (rs : List RCell) (k : RCell) : Bool :=
  decide (0 < k.c) &&
  match k.vs, k.nb with
  | [a, b, c], [j1, j2, j3] =>
    idot k.n a == k.c && idot k.n b == k.c && idot k.n c == k.c && idet a b c != 0 &&
    edgeOk rs j1 a b c && edgeOk rs j2 b c a && edgeOk rs j3 c a b
  | [a, b, c, d], [j1, j2, j3, j4] =>
    idot k.n a == k.c && idot k.n b == k.c && idot k.n c == k.c && idot k.n d == k.c &&
    decide (0 < idet a b c * idet a c d) &&
    edgeOk rs j1 a b c && edgeOk rs j2 b c a && edgeOk rs j3 c d a && edgeOk rs j4 d a c
  | _, _ => false

def sumNormals : List RCell → IV
  | [] => (0, 0, 0)
  | k :: ks => iadd k.n (sumNormals ks)

def spanOk (rs : List RCell) (s : Nat × Nat × Nat) : Bool :=
  match rs[s.1]?, rs[s.2.1]?, rs[s.2.2]? with
  | some a, some b, some c => idet a.n b.n c.n != 0
  | _, _, _ => false

def cellsOk (rs : List RCell) (s : Nat × Nat × Nat) : Bool :=
  rs.all (cellOk rs) && sumNormals rs == (0, 0, 0) && spanOk rs s

/-- **The certificate check** for one layout table. -/
def coverCertOk (K : Nat) (l : RawLayout) (cert : CoverCert) : Bool :=
  match cert.cells.mapM (resolve K l) with
  | none => false
  | some rs => cellsOk rs cert.span

def coverTablesOk (K : Nat) (ls : List RawLayout) (cs : List CoverCert) : Bool :=
  ls.length == cs.length && (ls.zip cs).all fun lc => coverCertOk K lc.1 lc.2

/-! ### sign certificate of the QuadRegions (see Proofs/C05CoverQuad.lean)

    For the ordered corners `a b c d` (`order` applied) of a QuadRegion, in scaled integer coordinates: the four
    corner triples have determinants of one strict sign; `(c−a) × (d−b)` has a strict-sign component along every corner;
    the quadratic of each pan axis, evaluated at `t = −1e-10` and `t = 1 + 1e-10` (times `10^20`), has the sign it has
    at `t = 0` resp. `t = 1` (weakly) at every corner. -/

def ismul (k : Int) (a : IV) : IV := (k * a.1, k * a.2.1, k * a.2.2)
/-- `10^10 = 1 / 1e-10` (the tolerance of `pan_axis`) -/
def bigEI : Int := 10000000000
def iloPt (a b : IV) : IV := isub (ismul bigEI a) (isub b a)
def ihiPt (a b : IV) : IV := iadd (ismul bigEI b) (isub b a)
def sgn (f : Bool) (x : Int) : Int := if f then -x else x

def axisSignsOk (f : Bool) (a b c d : IV) : Bool :=
  decide (sgn f (idet (iloPt a b) (iloPt d c) a) ≤ 0) && decide (sgn f (idet (iloPt a b) (iloPt d c) b) ≤ 0) &&
  decide (sgn f (idet (iloPt a b) (iloPt d c) c) ≤ 0) && decide (sgn f (idet (iloPt a b) (iloPt d c) d) ≤ 0) &&
  decide (0 ≤ sgn f (idet (ihiPt a b) (ihiPt d c) a)) && decide (0 ≤ sgn f (idet (ihiPt a b) (ihiPt d c) b)) &&
  decide (0 ≤ sgn f (idet (ihiPt a b) (ihiPt d c) c)) && decide (0 ≤ sgn f (idet (ihiPt a b) (ihiPt d c) d))

def quadSignsOk (a b c d : IV) : Bool :=
  let f := decide (idet a b c < 0)
  let e := icross (isub c a) (isub d b)
  let f' := decide (idot e a < 0)
  decide (0 < sgn f (idet a b c)) && decide (0 < sgn f (idet a b d)) && decide (0 < sgn f (idet a c d)) &&
  decide (0 < sgn f (idet b c d)) &&
  decide (0 < sgn f' (idot e a)) && decide (0 < sgn f' (idot e b)) && decide (0 < sgn f' (idot e c)) &&
  decide (0 < sgn f' (idot e d)) &&
  axisSignsOk f a b c d && axisSignsOk f b c d a

def quadRegionOk (K : Nat) (r : RawRegion) : Bool :=
  r.kind != 2 ||
  (isPermOfRange r.order 4 &&
   match r.pos.mapM (scaleP3 K) with
   | some [p0, p1, p2, p3] =>
     let c := fun k => [p0, p1, p2, p3].getD (r.order.getD k 0) (0, 0, 0)
     quadSignsOk (c 0) (c 1) (c 2) (c 3)
   | _ => false)

def quadTablesOk (K : Nat) (ls : List RawLayout) : Bool := ls.all fun l => l.regions.all (quadRegionOk K)

/-! ### exactness at loudspeaker positions (see Proofs/C05Exact*.lean, harness/c05_exact.py)

    For a loudspeaker `k` of the layout, with table position `v` (scaled to integers `p`): every region BEFORE the
    region named by the certificate rejects `p`, and the named region has `k` at the named slot and answers the unit
    vector of that slot.  Everything is decided from SIGNS of integer polynomials in the scaled coordinates:
      * Triplet / inner triplets of a VirtualNgon: a Cramer component `N_i / det` of `p · P⁻¹` is `< −1e-11`;
      * QuadRegion: for each pan axis the certificate names a rational interval `[xl, xh]`; the quadratic
        `panPoly` has no root in the acceptance window `(−1e-10, 1 + 1e-10)` outside that interval (`noRootIn`: value
        signs at the end points, discriminant sign, vertex position), and no nearly-real complex pair (`cplxOk`); then
        either the interval is empty (the axis finds no root), or the bilinear sign test `pvs·positions·p ≤ 0` fails on
        the whole (clipped) box of the two intervals (checked at its four corners);
      * the quad that has `k` as corner: the quadratic of each axis has the corner's pan value (0 or 1) as a root and no
        other root in the window. -/

/-- `1 / 1e-11` (`epsilon` of `Triplet.handle`) -/
def bigTI : Int := 100000000000

/-- the acceptance test of `Triplet.handle` FAILS: the positions are independent and a component of `p · P⁻¹`
    (Cramer: `det(p,b,c)/det`, `det(a,p,c)/det`, `det(a,b,p)/det`) is below `−1e-11` -/
def tripletRejects (a b c p : IV) : Bool :=
  let d := idet a b c
  d != 0 &&
  (decide (bigTI * (idet p b c * d) < -(d * d)) || decide (bigTI * (idet a p c * d) < -(d * d)) ||
    decide (bigTI * (idet a b p * d) < -(d * d)))

/-- `QuadRegion.panPoly` on scaled integer vectors -/
def ipanPoly (a b c d p : IV) : Int × Int × Int :=
  (idot (icross (isub b a) (isub c d)) p, idot (iadd (icross a (isub c d)) (icross (isub b a) d)) p,
   idot (icross a d) p)

/-- a rational `n / m` (the checker demands `0 < m`) -/
abbrev Q2 := Int × Int

/-- `m² · f(n/m)` for `f = A t² + B t + C` -/
def qeval (c : Int × Int × Int) (t : Q2) : Int := c.1 * (t.1 * t.1) + c.2.1 * (t.1 * t.2) + c.2.2 * (t.2 * t.2)

/-- `−1e-10` and `1 + 1e-10`: the open acceptance window of `pan_axis` -/
def winLo : Q2 := (-1, bigEI)
def winHi : Q2 := (bigEI + 1, bigEI)

/-- sign conditions from which `A t² + B t + C` has no root in the OPEN interval `(u, v)` -/
def noRootIn (c : Int × Int × Int) (u v : Q2) : Bool :=
  decide (0 < u.2) && decide (0 < v.2) &&
  (decide (v.1 * u.2 ≤ u.1 * v.2) ||
   (if c.1 == 0 then
      ((decide (0 ≤ qeval c u) && decide (0 ≤ qeval c v)) || (decide (qeval c u ≤ 0) && decide (qeval c v ≤ 0))) &&
        (qeval c u != 0 || qeval c v != 0)
    else
      decide (c.2.1 * c.2.1 - 4 * c.1 * c.2.2 < 0) ||
      (decide (c.1 * qeval c u ≤ 0) && decide (c.1 * qeval c v ≤ 0)) ||
      (decide (0 ≤ c.1 * qeval c u) && decide (0 ≤ c.1 * (2 * c.1 * u.1 + c.2.1 * u.2))) ||
      (decide (0 ≤ c.1 * qeval c v) && decide (c.1 * (2 * c.1 * v.1 + c.2.1 * v.2) ≤ 0))))

/-- the complex-pair branch of `pan_axis` (imaginary part below 1e-10) is not taken -/
def cplxOk (c : Int × Int × Int) : Bool :=
  c.1 == 0 || decide (0 ≤ c.2.1 * c.2.1 - 4 * c.1 * c.2.2) ||
    decide (4 * (c.1 * c.1) ≤ -(c.2.1 * c.2.1 - 4 * c.1 * c.2.2) * (bigEI * bigEI))

/-- every pan value `pan_axis` can return for the quadratic `c` is the clip of a root in `[xl, xh]` -/
def axisOk (c : Int × Int × Int) (xl xh : Q2) : Bool := cplxOk c && noRootIn c winLo xl && noRootIn c xh winHi

/-- hint of the certificate for one QuadRegion: root intervals of the two pan axes -/
structure QHint where
  xl : Q2 := (0, 1)
  xh : Q2 := (0, 1)
  yl : Q2 := (0, 1)
  yh : Q2 := (0, 1)

/-- `n / m` clipped to `[0, 1]` -/
def clipQ (t : Q2) : Q2 := if t.1 < 0 then (0, 1) else if t.2 < t.1 then (1, 1) else t

def ltQ (s t : Q2) : Bool := decide (s.1 * t.2 < t.1 * s.2)

/-- `m₁ m₂ ·` the bilinear form `(1−x)(1−y) α + x(1−y) β + x y γ + (1−x) y δ` at `x = n₁/m₁`, `y = n₂/m₂` -/
def bilAt (al be ga de : Int) (x y : Q2) : Int :=
  (x.2 - x.1) * (y.2 - y.1) * al + x.1 * (y.2 - y.1) * be + x.1 * y.1 * ga + (x.2 - x.1) * y.1 * de

/-- `QuadRegion.handle` answers `None` at `p` (ordered corners `a b c d`) -/
def quadRejects (a b c d p : IV) (h : QHint) : Bool :=
  let px := ipanPoly a b c d p
  let py := ipanPoly b c d a p
  (axisOk px h.xl h.xh && ltQ h.xh h.xl) || (axisOk py h.yl h.yh && ltQ h.yh h.yl) ||
  (axisOk px h.xl h.xh && axisOk py h.yl h.yh &&
    decide (0 < h.xl.2) && decide (0 < h.xh.2) && decide (0 < h.yl.2) && decide (0 < h.yh.2) &&
    decide (bilAt (idot a p) (idot b p) (idot c p) (idot d p) (clipQ h.xl) (clipQ h.yl) ≤ 0) &&
    decide (bilAt (idot a p) (idot b p) (idot c p) (idot d p) (clipQ h.xl) (clipQ h.yh) ≤ 0) &&
    decide (bilAt (idot a p) (idot b p) (idot c p) (idot d p) (clipQ h.xh) (clipQ h.yl) ≤ 0) &&
    decide (bilAt (idot a p) (idot b p) (idot c p) (idot d p) (clipQ h.xh) (clipQ h.yh) ≤ 0))

/-- `r0 ∈ {0, 1}` is a root of the quadratic `c ≠ 0` and its only root in the acceptance window -/
def rootIs (c : Int × Int × Int) (r0 : Int) : Bool :=
  (r0 == 0 || r0 == 1) && qeval c (r0, 1) == 0 && (c.1 != 0 || c.2.1 != 0 || c.2.2 != 0) &&
  noRootIn c winLo (r0, 1) && noRootIn c (r0, 1) winHi

/-- at its ordered corner number `kk` (`p` = that corner) the quad finds the pan values of the corner and passes its
    final sign test -/
def quadExactAt (a b c d p : IV) (kk : Nat) : Bool :=
  let px := ipanPoly a b c d p
  let py := ipanPoly b c d a p
  decide (0 < idot p p) &&
  (match kk with
   | 0 => p == a && rootIs px 0 && rootIs py 0
   | 1 => p == b && rootIs px 1 && rootIs py 0
   | 2 => p == c && rootIs px 1 && rootIs py 1
   | 3 => p == d && rootIs px 0 && rootIs py 1
   | _ => false)

/-- the inner triplet number `i` of a VirtualNgon with scaled positions `ps`, centre `ce` -/
def fanTri (ps : List IV) (order : List Nat) (i : Nat) : IV × IV :=
  (ps.getD (order.getD i 0) (0, 0, 0), ps.getD (order.getD ((i + 1) % ps.length) 0) (0, 0, 0))

/-- region `r` answers `None` at the scaled position `p` -/
def regionRejects (K : Nat) (r : RawRegion) (p : IV) (h : QHint) : Bool :=
  match r.kind, r.pos.mapM (scaleP3 K) with
  | 0, some [a, b, c] => tripletRejects a b c p
  | 1, some ps =>
    (match scaleP3 K r.centre with
     | some ce => (List.range ps.length).all fun i => tripletRejects (fanTri ps r.order i).1 (fanTri ps r.order i).2 ce p
     | none => false)
  | 2, some [q0, q1, q2, q3] =>
    isPermOfRange r.order 4 &&
    (let c := fun k => [q0, q1, q2, q3].getD (r.order.getD k 0) (0, 0, 0)
     quadRejects (c 0) (c 1) (c 2) (c 3) p h)
  | _, _ => false

/-- region `r` answers the unit vector of its slot `s` at the scaled position `p` of that slot -/
def regionExact (K : Nat) (r : RawRegion) (s : Nat) (p : IV) : Bool :=
  match r.kind, r.pos.mapM (scaleP3 K) with
  | 0, some [a, b, c] => idet a b c != 0 && [a, b, c][s]? == some p
  | 1, some ps =>
    (match scaleP3 K r.centre with
     | some ce =>
       let n := ps.length
       r.cdm.length == n && ps[s]? == some p &&
       (match (List.range n).find? (fun j => r.order.getD j 0 == s || r.order.getD ((j + 1) % n) 0 == s) with
        | some j =>
          (List.range j).all (fun i => tripletRejects (fanTri ps r.order i).1 (fanTri ps r.order i).2 ce p) &&
          idet (fanTri ps r.order j).1 (fanTri ps r.order j).2 ce != 0 &&
          r.order.getD j 0 < n && r.order.getD ((j + 1) % n) 0 < n &&
          r.order.getD j 0 != r.order.getD ((j + 1) % n) 0
        | none => false)
     | none => false)
  | 2, some [q0, q1, q2, q3] =>
    isPermOfRange r.order 4 &&
    (let c := fun k => [q0, q1, q2, q3].getD (r.order.getD k 0) (0, 0, 0)
     match (List.range 4).find? (fun kk => r.order.getD kk 0 == s) with
     | some kk => quadExactAt (c 0) (c 1) (c 2) (c 3) p kk
     | none => false)
  | _, _ => false

/-- the table position of inner channel `k`: its position in the first region that has it as a channel -/
def speakerPos (l : RawLayout) (k : Nat) : Option P3 :=
  l.regions.findSome? fun r => ((r.ch.zip r.pos).find? (fun cp => cp.1 == k)).map (·.2)

/-- column `k` of the downmix matrix is the unit vector `e_k` (channel `k` is a real loudspeaker fed by nobody else) -/
def columnUnit (l : RawLayout) (k : Nat) : Bool :=
  (List.range l.nReal).all fun i =>
    ((l.downmix.find? (fun e => e.1 == i && e.2.1 == k)).map (·.2.2)) == (if i == k then some ((1 : Int), (0 : Int)) else none)

/-- certificate for one loudspeaker -/
structure SpkCert where
  /-- the region that answers (the first one that has the loudspeaker as a channel) -/
  region : Nat
  /-- the loudspeaker's slot in that region's channel list -/
  slot : Nat
  /-- one hint per earlier region (only read for QuadRegions) -/
  hints : List QHint

/-- **The check for loudspeaker `k`** of the table `l` -/
def spkOk (K : Nat) (l : RawLayout) (k : Nat) (c : SpkCert) : Bool :=
  match l.regions[c.region]? with
  | none => false
  | some r =>
    decide (k < l.nReal) && decide (l.nReal ≤ l.nInner) && columnUnit l k &&
    r.ch[c.slot]? == some k && allDistinct r.ch && r.ch.all (· < l.nInner) && r.pos.length == r.ch.length &&
    speakerPos l k == r.pos[c.slot]? &&
    (match (r.pos[c.slot]?).bind (scaleP3 K) with
     | none => false
     | some p =>
       (List.range c.region).all (fun j =>
         match l.regions[j]? with
         | some rj => regionRejects K rj p (c.hints.getD j {})
         | none => false) &&
       regionExact K r c.slot p)

/-- the loudspeakers of the layout the panner is configured for: all real channels, or the two of 0+2+0 -/
def nSpeakers (l : RawLayout) : Nat := match l.stereo with | none => l.nReal | some _ => 2

/-- the output index of loudspeaker `k`: itself, or left / right of the 0+2+0 wrapper for M+030 / M-030 -/
def speakerOut (l : RawLayout) (k : Nat) : Nat :=
  match l.stereo with
  | none => k
  | some (a, b) => if k == 0 then a else b

def exactLayoutOk (K : Nat) (l : RawLayout) (cs : List SpkCert) : Bool :=
  cs.length == nSpeakers l && decide (nSpeakers l ≤ l.nReal) &&
  (List.range cs.length).all (fun k => spkOk K l k (cs.getD k ⟨0, 0, []⟩)) &&
  (match l.stereo with
   | none => true
   | some (a, b) => a < 2 && b < 2 && a != b && l.nReal == 5)

def exactTablesOk (K : Nat) (ls : List RawLayout) (cs : List (List SpkCert)) : Bool :=
  ls.length == cs.length && (ls.zip cs).all fun lc => exactLayoutOk K lc.1 lc.2

/-! ### layer separation (see Proofs/C05ExactLayer.lean)

    `rows` = real channels of one layer (lower: table position with z < 0; upper: z > 0).  Every region that has a channel
    feeding one of them through the downmix must be "one-sided": a Triplet or VirtualNgon with independent positions
    whose vertices (and virtual centre) all have z in [−1, 0] (lower) resp. [0, 1] (upper).  Such a region rejects every
    direction with z > 3e-11 resp. z < −3e-11 (the acceptance slack is 1e-11 per vertex).  QuadRegions are not
    one-sided in this sense (their acceptance depends on the roots of two quadratics): `layerOkQ` lets them through and
    the theorem that uses it keeps their rejection as a hypothesis. -/

/-- inner channel `c` feeds the real channel `i` through the downmix -/
def feeds (l : RawLayout) (i c : Nat) : Bool := l.downmix.any fun e => e.1 == i && e.2.1 == c

def zSide (K : Nat) (up : Bool) (vs : List IV) : Bool :=
  vs.all fun v => if up then decide (0 ≤ v.2.2) && decide (v.2.2 ≤ 2 ^ K) else decide (-(2 ^ K) ≤ v.2.2) && decide (v.2.2 ≤ 0)

def regionOneSided (K : Nat) (up : Bool) (r : RawRegion) : Bool :=
  match r.kind, r.pos.mapM (scaleP3 K) with
  | 0, some [a, b, c] => idet a b c != 0 && zSide K up [a, b, c]
  | 1, some ps =>
    (match scaleP3 K r.centre with
     | some ce =>
       zSide K up (ce :: ps) &&
       (List.range ps.length).all fun i => idet (fanTri ps r.order i).1 (fanTri ps r.order i).2 ce != 0
     | none => false)
  | _, _ => false

/-- region `r` has a channel that feeds one of the real channels `rows` -/
def touches (l : RawLayout) (rows : List Nat) (r : RawRegion) : Bool := r.ch.any fun c => rows.any fun i => feeds l i c

def layerOk (K : Nat) (l : RawLayout) (rows : List Nat) (up : Bool) : Bool :=
  l.regions.all fun r => !touches l rows r || regionOneSided K up r

/-- the same, QuadRegions let through -/
def layerOkQ (K : Nat) (l : RawLayout) (rows : List Nat) (up : Bool) : Bool :=
  l.regions.all fun r => !touches l rows r || r.kind == 2 || regionOneSided K up r

/-- the real channels whose table position is strictly below (`up = false`) / above (`up = true`) the horizontal plane;
    none for 0+2+0 -/
def layerRows (l : RawLayout) (up : Bool) : List Nat :=
  match l.stereo with
  | some _ => []
  | none =>
    (List.range l.nReal).filter fun k =>
      match speakerPos l k with
      | some v => if up then decide (0 < v.2.2.1) else decide (v.2.2.1 < 0)
      | none => false

def layerTablesOk (K : Nat) (ls : List RawLayout) : Bool :=
  ls.all fun l => layerOk K l (layerRows l false) false && layerOkQ K l (layerRows l true) true

end Earverif.PointSource.Cover
