/- DirectSpeakers / HOA interpreters (`interpFixed`): the yielded block applies the specified constant gain on the
   specified samples; the blocks of an accepted timeline are ordered and disjoint. -/
import Earverif.Proofs.C03Gain
namespace Earverif.Timeline
open Earverif.Stream Earverif.RenderSpec
set_option linter.unusedSectionVars false

variable {V : Type} [RMod V] [LawfulRMod V]

theorem interpFixed_ok {G : Type} {sr : Nat} {st st' : IState G} {m : MetaBlock G} {new : List (PBlock G)}
    (h : interpFixed sr st m = .ok (st', new)) :
    ∃ s e, blockStartEnd st.tlast m = .ok (s, e) ∧ st' = { st with tlast := some e } ∧
      new = [PBlock.new ((sr : Rat) * s) (e.mulNat sr) m.gains] := by
  unfold interpFixed at h
  cases hb : blockStartEnd st.tlast m with
  | error err => rw [hb] at h; cases h
  | ok se =>
    obtain ⟨s, e⟩ := se
    rw [hb] at h
    cases h
    exact ⟨s, e, rfl, rfl, rfl⟩

theorem interpFixed_yield_le_two {G : Type} {sr : Nat} (st : IState G) (m : MetaBlock G) (st' : IState G)
    (new : List (PBlock G)) (h : interpFixed sr st m = .ok (st', new)) : new.length ≤ 2 := by
  obtain ⟨s, e, _, _, hnew⟩ := interpFixed_ok h
  rw [hnew]; simp

/-- What the fixed-gain specification says at a sample, applied through an index-independent kernel `upd`. -/
def fixedEff {G ι : Type} (upd : G → Nat → ι → V → V) (g : GainSpec G) (x : ι) (o : V) : V :=
  match g with
  | .const k => upd k 0 x o
  | _ => o

theorem gainAt_fixed_single {G : Type} (sr : Nat) (s : Rat) (e : Ext Rat) (g : G) (t : Int)
    (hc : (⟨s, e, s, none, g⟩ : SpecBlock G).covers sr t = true) :
    gainAt sr [⟨s, e, s, none, g⟩] t = .const g := by
  unfold gainAt
  simp only [List.find?, hc]
  have := ((covers_iff sr (⟨s, e, s, none, g⟩ : SpecBlock G) t).mp hc).1
  simp only at this
  rw [← ceil_eq_ceilQ, if_pos this]

/-- A whole accepted DirectSpeakers/HOA timeline. -/
theorem fixed_all_spec {G ι : Type} {sr : Nat} (upd : G → Nat → ι → V → V) (hupd : ∀ g k, upd g k = upd g 0) :
    ∀ (blocks : List (MetaBlock G)) (st : IState G) (all : List (PBlock G)),
    interpAll (interpFixed sr) st blocks = .ok all → (∀ m ∈ blocks, NonNegBlock m) →
    (∀ t x o, effAll upd all t x o = fixedEff upd (gainAt sr (fixedTimeline blocks) t) x o) ∧
    (∀ lb, (∀ m ms, blocks = m :: ms → lb ≤ ceil ((blockTimes m).1 * sr)) → ChainLB lb all) ∧
    (∀ m ms, blocks = m :: ms → ∀ l, st.tlast = some l → ∃ t, l = .fin t ∧ t ≤ (blockTimes m).1) := by
  intro blocks
  induction blocks with
  | nil =>
    intro st all h _
    simp only [interpAll] at h; cases h
    refine ⟨?_, fun _ _ => trivial, fun m ms h => by cases h⟩
    intro t x o
    simp [fixedTimeline, gainAt, fixedEff]
  | cons m ms ih =>
    intro st all h hnn
    obtain ⟨st', new, rest, hi, hr, hall⟩ := interpAll_cons_ok h
    obtain ⟨s, e, hb, hst', hnew⟩ := interpFixed_ok hi
    obtain ⟨hbt, hprev⟩ := blockStartEnd_ok hb
    have hs : (blockTimes m).1 = s := by rw [← hbt]
    have he : (blockTimes m).2 = e := by rw [← hbt]
    have hle := blockTimes_le m (hnn m List.mem_cons_self)
    rw [hs, he] at hle
    obtain ⟨ih1, ih2, ih3⟩ := ih st' rest hr (fun m' hm' => hnn m' (List.mem_cons_of_mem _ hm'))
    have htl : st'.tlast = some e := by rw [hst']
    have hafter : ChainAfter (e.mulNat sr) rest := by
      cases he' : e with
      | inf =>
        simp only [Ext.mulNat, ChainAfter]
        cases ms with
        | nil => simp only [interpAll] at hr; cases hr; rfl
        | cons m2 ms2 =>
          obtain ⟨t, ht, _⟩ := ih3 m2 ms2 rfl .inf (by rw [htl, he'])
          cases ht
      | fin e' =>
        simp only [Ext.mulNat, ChainAfter]
        apply ih2
        intro m2 ms2 hms
        obtain ⟨t, ht, hle2⟩ := ih3 m2 ms2 hms (.fin e') (by rw [htl, he'])
        cases ht
        exact ceil_mono (mulNat_le hle2 sr)
    have hcomm : (sr : Rat) * s = s * sr := mul_comm _ _
    have hftl : fixedTimeline (m :: ms) = ⟨s, e, s, none, m.gains⟩ :: fixedTimeline ms := by
      simp only [fixedTimeline, List.map_cons, hs, he]
    refine ⟨?_, ?_, ?_⟩
    · intro t x o
      rw [hall, effAll_append, hnew, hftl, gainAt_cons sr _ (fixedTimeline ms)]
      simp only [effAll_cons, effAll_nil]
      have hcov := covers_iff sr (⟨s, e, s, none, m.gains⟩ : SpecBlock G) t
      simp only at hcov
      by_cases hc : (⟨s, e, s, none, m.gains⟩ : SpecBlock G).covers sr t = true
      · rw [if_pos hc, gainAt_fixed_single sr s e m.gains t hc]
        have hcv := hcov.mp hc
        rw [eff_of_covers _ _ _ _ _ ((covers_new_iff _ _ _ t).mpr (by rw [hcomm]; exact hcv))]
        simp only [PBlock.new, fixedEff]
        rw [hupd]
        cases he' : e with
        | inf =>
          rw [he'] at hafter; simp only [Ext.mulNat, ChainAfter] at hafter
          rw [hafter]; rfl
        | fin e' =>
          rw [he'] at hafter hcv; simp only [Ext.mulNat, ChainAfter, ltCeilE] at hafter hcv
          exact effAll_chain_id _ hafter t hcv.2 x _
      · rw [if_neg hc]
        rw [eff_of_not_covers _ _ _ _ _ ((covers_new_false_iff _ _ _ t).mpr
          (by rw [hcomm]; exact fun hh => hc (hcov.mpr hh)))]
        exact ih1 t x o
    · intro lb hlb
      rw [hall, hnew]
      have h0 := hlb m ms rfl
      rw [hs] at h0
      simp only [List.cons_append, List.nil_append, ChainLB, PBlock.new]
      refine ⟨by rw [hcomm]; exact h0, ?_⟩
      cases he' : e with
      | inf =>
        rw [he'] at hafter; simp only [Ext.mulNat, ChainAfter] at hafter
        simp only [Ext.mulNat, ceilE]; exact hafter
      | fin e' =>
        rw [he'] at hafter hle; simp only [Ext.mulNat, ChainAfter] at hafter hle
        simp only [Ext.mulNat, ceilE]
        exact ⟨by rw [hcomm]; exact ceil_mono (mulNat_le hle sr), hafter⟩
    · intro m' ms' hms l hl
      cases hms
      rw [hs]
      exact hprev l hl

end Earverif.Timeline
