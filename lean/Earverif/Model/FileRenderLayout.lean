/-
Model of the speakers-file front end of `ear-render` and of its selection glue:

* `ear.core.layout.load_real_layout` / `load_speakers` on a *parsed* YAML value (`Y`; the YAML
  text → value step is PyYAML's and is not modelled), including every error branch,
* `Layout.with_speakers`, `Layout.with_real_layout`, `Channel.check_position` /
  `Layout.check_positions` (with `geom.inside_angle_range`), `Layout.check_upmix_matrix`,
* `OfflineRenderDriver.load_output_layout`,
* `OfflineRenderDriver.lookup_adm_element` / `get_audio_programme` / `get_complementary_objects` /
  `apply_conversion` / `get_rendering_items` (the selection, preprocessing and conversion functions
  themselves are parameters: C06/C07/C19 are about them),
* the block loop of `render_input_file`: `chain(infile.iter_sample_blocks(blocksize), [None])`,
  with the blocks taken from C18's cursor specification (`Cursor.specIter`).

Exceptions become `Except Err`. `Err.reject` = the Python code raises. `Err.unsupported` = a corner of
Python's dynamic typing that the model does not follow (strings in numeric positions, which `float()`
may or may not accept; `bool`/`float` channel numbers; a `null` gain, which numpy silently turns into
NaN): no claim is made there and the harness does not compare those cases.
Numbers are exact rationals (YAML floats are dyadic rationals; the code only copies and compares them,
the only arithmetic is `± 360.0` in `inside_angle_range`). Core Lean only.
-/
import Earverif.Model.FileRender
import Earverif.Model.Bw64Cursor

namespace Earverif.FileRenderLayout
open Earverif.FileRender

/-- A parsed YAML document as PyYAML returns it (restricted to null/bool/int/float/str/list/dict;
dict keys are strings, in document order; a non-string key is passed by the harness as a string that
cannot collide with any key the code looks up). -/
inductive Y where
  | null
  | bool (b : Bool)
  | int (i : Int)
  | num (q : Rat)
  | str (s : String)
  | list (xs : List Y)
  | dict (kvs : List (String × Y))

inductive Err where
  | reject (why : String)
  | unsupported (why : String)
  deriving Repr, DecidableEq

abbrev R := Except Err

/-- `for x in xs: f(x)` collecting results, stopping at the first exception (`list(map(f, xs))`). -/
def mapE {α β : Type} (f : α → R β) : List α → R (List β)
  | [] => .ok []
  | x :: xs =>
    match f x with
    | .error e => .error e
    | .ok y =>
      match mapE f xs with
      | .error e => .error e
      | .ok ys => .ok (y :: ys)

/-- `d[key]` / `key in d` on a dict given as an association list. -/
def lookup (k : String) : List (String × Y) → Option Y
  | [] => none
  | (k', v) :: rest => if k' = k then some v else lookup k rest

/-- `float(v)` as used by the attrs converters and `parse_yaml_screen`. -/
def toFloat : Y → R Rat
  | .int i => .ok (i : Rat)
  | .num q => .ok q
  | .bool b => .ok (if b then 1 else 0)
  | .str _ => .error (.unsupported "float(str)")
  | .null => .error (.reject "TypeError: float(None)")
  | .list _ => .error (.reject "TypeError: float(list)")
  | .dict _ => .error (.reject "TypeError: float(dict)")

/-- `ear.common.PolarPosition`. -/
structure PolarPos where
  az : Rat
  el : Rat
  r : Rat
  deriving Repr, DecidableEq

/-- `set(position.keys()) == set(want)`. -/
def keysAre (kvs : List (String × Y)) (want : List String) : Bool :=
  kvs.all (fun kv => want.contains kv.1) && want.all (fun w => (kvs.map (·.1)).contains w)

/-- `parse_yaml_polar_position` followed by the converters and range validators of `PolarPosition`. -/
def parsePolar : Y → R PolarPos
  | .dict kvs =>
    if keysAre kvs ["az", "el", "r"] then
      match lookup "az" kvs, lookup "el" kvs, lookup "r" kvs with
      | some a, some e, some r =>
        match toFloat a with
        | .error x => .error x
        | .ok az =>
          match toFloat e with
          | .error x => .error x
          | .ok el =>
            match toFloat r with
            | .error x => .error x
            | .ok d =>
              if -180 ≤ az ∧ az ≤ 180 ∧ -90 ≤ el ∧ el ≤ 90 ∧ 0 ≤ d then .ok ⟨az, el, d⟩
              else .error (.reject "ValueError: out of range")
      | _, _, _ => .error (.reject "unreachable: keys checked")
    else .error (.reject "Unknown polar position format")
  | _ => .error (.reject "AttributeError: no keys()")

/-- `ear.common.CartesianPosition` (no range validation). -/
structure CartPos where
  X : Rat
  Y : Rat
  Z : Rat
  deriving Repr, DecidableEq

/-- `parse_yaml_cart_position`. -/
def parseCart : Y → R CartPos
  | .dict kvs =>
    if keysAre kvs ["X", "Y", "Z"] then
      match lookup "X" kvs, lookup "Y" kvs, lookup "Z" kvs with
      | some a, some e, some r =>
        match toFloat a with
        | .error x => .error x
        | .ok x =>
          match toFloat e with
          | .error x => .error x
          | .ok y =>
            match toFloat r with
            | .error x => .error x
            | .ok z => .ok ⟨x, y, z⟩
      | _, _, _ => .error (.reject "unreachable: keys checked")
    else .error (.reject "Unknown Cartesian position format")
  | _ => .error (.reject "AttributeError: no keys()")

/-- `PolarScreen` / `CartesianScreen`. -/
inductive Screen where
  | polar (aspect : Rat) (centre : PolarPos) (width : Rat)
  | cart (aspect : Rat) (centre : CartPos) (width : Rat)
  deriving Repr, DecidableEq

/-- `parse_yaml_screen`: `None` for `null`; unknown keys are ignored. -/
def parseScreen : Y → R (Option Screen)
  | .null => .ok none
  | .dict kvs =>
    match lookup "type" kvs with
    | none => .error (.reject "KeyError: type")
    | some (.str "polar") =>
      match lookup "aspectRatio" kvs with
      | none => .error (.reject "KeyError: aspectRatio")
      | some a =>
        match toFloat a with
        | .error x => .error x
        | .ok aspect =>
          match lookup "centrePosition" kvs with
          | none => .error (.reject "KeyError: centrePosition")
          | some c =>
            match parsePolar c with
            | .error x => .error x
            | .ok centre =>
              match lookup "widthAzimuth" kvs with
              | none => .error (.reject "KeyError: widthAzimuth")
              | some w =>
                match toFloat w with
                | .error x => .error x
                | .ok width => .ok (some (.polar aspect centre width))
    | some (.str "cart") =>
      match lookup "aspectRatio" kvs with
      | none => .error (.reject "KeyError: aspectRatio")
      | some a =>
        match toFloat a with
        | .error x => .error x
        | .ok aspect =>
          match lookup "centrePosition" kvs with
          | none => .error (.reject "KeyError: centrePosition")
          | some c =>
            match parseCart c with
            | .error x => .error x
            | .ok centre =>
              match lookup "widthX" kvs with
              | none => .error (.reject "KeyError: widthX")
              | some w =>
                match toFloat w with
                | .error x => .error x
                | .ok width => .ok (some (.cart aspect centre width))
    | some _ => .error (.reject "Unknown screen type")
  | _ => .error (.reject "TypeError: not subscriptable by str")

/-- `layout.Speaker` as `load_real_layout` builds it: `channel` and `gain_linear` are stored as they
come from the file (no validation there). -/
structure RSpeaker where
  channel : Y
  names : List Y
  pos : Option PolarPos
  gain : Y

/-- `if not isinstance(names, list): names = [names]`. -/
def namesOf : Y → List Y
  | .list xs => xs
  | v => [v]

/-- `parse_yaml_speaker`: `names` and `channel` are required; `names` may be a single value;
`position` and `gain_linear` (default 1.0) are optional; any other key is ignored. -/
def parseSpeaker : Y → R RSpeaker
  | .dict kvs =>
    match lookup "names" kvs with
    | none => .error (.reject "KeyError: names")
    | some nm =>
      match lookup "channel" kvs with
      | none => .error (.reject "KeyError: channel")
      | some ch =>
        match lookup "position" kvs with
        | none => .ok ⟨ch, namesOf nm, none, (lookup "gain_linear" kvs).getD (.num 1)⟩
        | some p =>
          match parsePolar p with
          | .error x => .error x
          | .ok pp => .ok ⟨ch, namesOf nm, some pp, (lookup "gain_linear" kvs).getD (.num 1)⟩
  | _ => .error (.reject "TypeError: speaker entry is not a mapping")

/-- What `map(parse_yaml_speaker, v)` iterates over: a list's items, a string's characters, a dict's keys. -/
def speakerItems : Y → R (List Y)
  | .list xs => .ok xs
  | .str s => .ok (s.toList.map fun c => .str c.toString)
  | .dict kvs => .ok (kvs.map fun kv => .str kv.1)
  | _ => .error (.reject "TypeError: not iterable")

/-- `layout.RealLayout`. -/
structure RealLayout where
  speakers : Option (List RSpeaker)
  screen : Option Screen

/-- `load_real_layout` on the parsed document; `dflt` is `ear.common.default_screen`. -/
def loadRealLayout (dflt : Screen) (y : Y) : R RealLayout :=
  let d : R (List (String × Y)) := match y with
    | .dict kvs => .ok kvs
    | .list xs => .ok [("speakers", .list xs)]
    | _ => .error (.reject "Expected mapping or list of loudspeakers.")
  match d with
  | .error e => .error e
  | .ok kvs =>
    let speakers : R (Option (List RSpeaker)) := match lookup "speakers" kvs with
      | none => .ok none
      | some v =>
        match speakerItems v with
        | .error e => .error e
        | .ok items =>
          match mapE parseSpeaker items with
          | .error e => .error e
          | .ok sp => .ok (some sp)
    match speakers with
    | .error e => .error e
    | .ok sp =>
      match lookup "screen" kvs with
      | none => .ok ⟨sp, some dflt⟩
      | some v =>
        match parseScreen v with
        | .error e => .error e
        | .ok sc => .ok ⟨sp, sc⟩

/-- `load_speakers`. -/
def loadSpeakers (dflt : Screen) (y : Y) : R (Option (List RSpeaker)) :=
  match loadRealLayout dflt y with
  | .error e => .error e
  | .ok rl => .ok rl.speakers

/-! ### `Layout.with_speakers` / `with_real_layout` -/

/-- `layout.Channel`: name, real position, allowed azimuth/elevation ranges. -/
structure Channel where
  name : String
  pos : PolarPos
  azLo : Rat
  azHi : Rat
  elLo : Rat
  elHi : Rat
  deriving Repr, DecidableEq

def Y.isStr (name : String) : Y → Bool
  | .str s => s == name
  | _ => false

/-- `find_speaker`: first speaker with `name in speaker.names`. -/
def findRSpeaker (sp : List RSpeaker) (name : String) : Option RSpeaker :=
  sp.find? (fun s => s.names.any (Y.isStr name))

/-- The speaker's channel number as an integer; Python `bool`/`float` are not followed. -/
def chanInt : Y → R Int
  | .int i => .ok i
  | .bool _ => .error (.unsupported "bool channel")
  | .num _ => .error (.unsupported "float channel")
  | _ => .error (.reject "TypeError: channel is not a number")

/-- `upmix_matrix[c, i]` row resolution with Python's negative indices. -/
def pyIndex (out : Nat) (c : Int) : R Nat :=
  if 0 ≤ c ∧ c < out then .ok c.toNat
  else if c < 0 ∧ -(out : Int) ≤ c then .ok (c + out).toNat
  else .error (.reject "IndexError")

/-- Conversion of `gain_linear` when it is stored into the float matrix. -/
def gainValue : Y → R Rat
  | .int i => .ok (i : Rat)
  | .num q => .ok q
  | .bool b => .ok (if b then 1 else 0)
  | .null => .error (.unsupported "None gain becomes NaN")
  | .str _ => .error (.unsupported "str gain")
  | .list _ => .error (.reject "ValueError: sequence")
  | .dict _ => .error (.reject "TypeError: dict")

/-- One iteration of the loop over the layout's channels: where the column's single entry goes
(`none`: no speaker lists the name, the column stays zero) and the re-positioned channel. -/
def column (out : Nat) (sp : List RSpeaker) (ch : Channel) : R (Option (Nat × Rat) × Channel) :=
  match findRSpeaker sp ch.name with
  | none => .ok (none, ch)
  | some s =>
    match chanInt s.channel with
    | .error e => .error e
    | .ok c =>
      match pyIndex out c with
      | .error e => .error e
      | .ok row =>
        match gainValue s.gain with
        | .error e => .error e
        | .ok g =>
          .ok (some (row, g), match s.pos with
            | some p => { ch with pos := p }
            | none => ch)

def entryOf (o : Nat) : Option (Nat × Rat) → Rat
  | some (r, g) => if r = o then g else 0
  | none => 0

/-- `max(...)` of a list of integers (0 for the empty list, which the caller rejects before). -/
def maxInt : List Int → Int
  | [] => 0
  | [x] => x
  | x :: y :: ys => max x (maxInt (y :: ys))

/-- `Layout.with_speakers`: new channels and the `(out_channels × n)` upmix matrix (list of rows). -/
def withSpeakers (chans : List Channel) (sp : List RSpeaker) : R (List Channel × List (List Rat)) :=
  match mapE (fun s => chanInt s.channel) sp with
  | .error e => .error e
  | .ok cs =>
    if cs.isEmpty then .error (.reject "ValueError: max() of empty")
    else
      let out := maxInt cs + 1
      if out < 0 then .error (.reject "ValueError: negative dimensions")
      else
        match mapE (column out.toNat sp) chans with
        | .error e => .error e
        | .ok cols =>
          .ok (cols.map (·.2),
               (List.range out.toNat).map fun o => cols.map fun c => entryOf o c.1)

/-- `np.eye(n)`. -/
def eye (n : Nat) : List (List Rat) :=
  (List.range n).map fun o => (List.range n).map fun i => if i = o then 1 else 0

/-- `Layout.with_real_layout`: (channels, screen, upmix). -/
def withRealLayout (chans : List Channel) (rl : RealLayout) :
    R (List Channel × Option Screen × List (List Rat)) :=
  match rl.speakers with
  | none => .ok (chans, rl.screen, eye chans.length)
  | some sp =>
    match withSpeakers chans sp with
    | .error e => .error e
    | .ok (cs, U) => .ok (cs, rl.screen, U)

/-! ### `inside_angle_range`, `check_positions`, `check_upmix_matrix` -/

/-- `while x - 360.0 > s: x -= 360.0` (`strict`) / `while x - 360.0 >= s` (not `strict`), `fuel` iterations at most. -/
def loopDown (strict : Bool) (s : Rat) : Nat → Rat → Rat
  | 0, x => x
  | f + 1, x => if (if strict then s < x - 360 else s ≤ x - 360) then loopDown strict s f (x - 360) else x

/-- `while x < s: x += 360.0`. -/
def loopUp (s : Rat) : Nat → Rat → Rat
  | 0, x => x
  | f + 1, x => if x < s then loopUp s f (x + 360) else x

/-- A number of iterations that certainly covers a distance `d` in steps of 360. -/
def turns (d : Rat) : Nat := (d / 360).floor.toNat + 1

/-- The two `end` loops of `inside_angle_range`. -/
def normEnd (start end_ : Rat) : Rat :=
  let e1 := loopDown true start (turns (end_ - start)) end_
  loopUp start (turns (start - e1)) e1

/-- The two `x` loops of `inside_angle_range` with `tol = 0`. -/
def normX (start x : Rat) : Rat :=
  let x1 := loopDown false start (turns (x - start)) x
  loopUp start (turns (start - x1)) x1

/-- `geom.inside_angle_range(x, start, end)` with the default `tol=0.0`. -/
def insideAngleRange (x start end_ : Rat) : Bool :=
  normX start x ≤ normEnd start end_

inductive Warn where
  | az (name : String)                    -- "<name>: azimuth … out of range"
  | el (name : String)                    -- "<name>: elevation … out of range"
  | notMapped (name : String)             -- "Channel <name> not mapped to any output."
  | multiOut (name : String) (outs : List Nat)   -- "Channel <name> mapped to multiple outputs"
  | rowMulti (speaker : Nat) (names : List String)  -- "Speaker idx … used by multiple channels"
  deriving Repr, DecidableEq

/-- `Channel.check_position`. -/
def checkPosition (c : Channel) : List Warn :=
  (if insideAngleRange c.pos.az c.azLo c.azHi then [] else [.az c.name]) ++
  (if c.elLo ≤ c.pos.el ∧ c.pos.el ≤ c.elHi then [] else [.el c.name])

/-- `Layout.check_positions`. -/
def checkPositions (chans : List Channel) : List Warn := chans.flatMap checkPosition

/-- Column `i` of a matrix given as a list of rows. -/
def colOf (U : List (List Rat)) (i : Nat) : List Rat := U.map fun row => row.getD i 0

/-- Indices of the non-zero entries (`np.nonzero(v)[0]`). -/
def nonzeroIdx (v : List Rat) : List Nat :=
  (List.range v.length).filter fun j => v.getD j 0 != 0

/-- `Layout.check_upmix_matrix` for a matrix with one column per name. -/
def checkUpmix (names : List String) (U : List (List Rat)) : List Warn :=
  ((names.zipIdx).flatMap fun (name, i) =>
      let nz := nonzeroIdx (colOf U i)
      (if nz.length = 0 then [Warn.notMapped name] else []) ++
      (if nz.length > 1 then [Warn.multiOut name nz] else [])) ++
  ((U.zipIdx).flatMap fun (row, o) =>
      if (nonzeroIdx row).length > 1 then
        [Warn.rowMulti o (((names.zip row).filter fun nr => nr.2 != 0).map (·.1))]
      else [])

/-- Result of `OfflineRenderDriver.load_output_layout`. `upmix = none`: no speakers file. -/
structure OutLayout where
  chans : List Channel
  screen : Option Screen
  upmix : Option (List (List Rat))
  nChannels : Nat
  warnings : List Warn

/-- `OfflineRenderDriver.load_output_layout`; `layScreen` is the screen of the BS.2051 layout object. -/
def loadOutputLayout (dflt : Screen) (layScreen : Option Screen) (chans : List Channel)
    (file : Option Y) : R OutLayout :=
  match file with
  | none => .ok ⟨chans, layScreen, none, chans.length, []⟩
  | some y =>
    match loadRealLayout dflt y with
    | .error e => .error e
    | .ok rl =>
      match withRealLayout chans rl with
      | .error e => .error e
      | .ok (cs, sc, U) =>
        .ok ⟨cs, sc, some U, U.length, checkPositions cs ++ checkUpmix (cs.map (·.name)) U⟩

/-! ### Programme / complementary-object lookup and the item pipeline -/

inductive Kind where
  | programme | object | other
  deriving Repr, DecidableEq

/-- An ADM element as far as `lookup_adm_element` looks at it. -/
structure Elem where
  id : Option String
  kind : Kind
  deriving Repr, DecidableEq

inductive LErr where
  | keyError (id : String)      -- "could not find <type name> with ID <id>"
  | valueError (id : String)    -- "<id> is not an <type name>"
  | assertion                   -- `assert False` on an unknown conversion mode
  | inner (msg : String)        -- raised by the selection / preprocessing / conversion parameter
  deriving Repr, DecidableEq

/-- `str.upper()` on ASCII ids, as a character list (kernel-friendly). -/
def upperKey (s : String) : List Char := s.toList.map Char.toUpper

/-- `ADM.lookup_element`: first element whose id equals the key, ignoring (ASCII) case. -/
def lookupElement (adm : List Elem) (key : String) : Option Elem :=
  adm.find? fun e => match e.id with
    | some i => upperKey i == upperKey key
    | none => false

/-- `OfflineRenderDriver.lookup_adm_element`. -/
def lookupAdmElement (adm : List Elem) (id : Option String) (kind : Kind) : Except LErr (Option Elem) :=
  match id with
  | none => .ok none
  | some i =>
    match lookupElement adm i with
    | none => .error (.keyError i)
    | some e => if e.kind = kind then .ok (some e) else .error (.valueError i)

/-- `get_complementary_objects`: every id must resolve to an audioObject. -/
def lookupAll (adm : List Elem) (kind : Kind) : List String → Except LErr (List Elem)
  | [] => .ok []
  | i :: is =>
    match lookupAdmElement adm (some i) kind with
    | .error e => .error e
    | .ok none => .error (.keyError i)   -- not reachable: an id was given
    | .ok (some e) =>
      match lookupAll adm kind is with
      | .error e => .error e
      | .ok es => .ok (e :: es)

/-- `apply_conversion`. -/
def applyConversion {I : Type} (toCart toPolar : I → Except LErr I) (mode : Option String) (items : I) :
    Except LErr I :=
  match mode with
  | none => .ok items
  | some m =>
    if m = "to_cartesian" then toCart items
    else if m = "to_polar" then toPolar items
    else .error .assertion

/-- `get_rendering_items`: lookups, then `select_rendering_items`, `preprocess_rendering_items`,
`apply_conversion` (parameters `select`, `preprocess`, `toCart`, `toPolar`). -/
def getRenderingItems {I : Type} (select : Option Elem → List Elem → Except LErr I)
    (preprocess toCart toPolar : I → Except LErr I)
    (adm : List Elem) (programmeId : Option String) (compIds : List String) (mode : Option String) :
    Except LErr I :=
  match lookupAdmElement adm programmeId .programme with
  | .error e => .error e
  | .ok prog =>
    match lookupAll adm .object compIds with
    | .error e => .error e
    | .ok comps =>
      match select prog comps with
      | .error e => .error e
      | .ok items =>
        match preprocess items with
        | .error e => .error e
        | .ok items => applyConversion toCart toPolar mode items

/-! ### The block loop of `render_input_file` -/

/-- The blocks `infile.iter_sample_blocks(bs)` yields for a file holding `input` (C18's specification
of the reader: frame ranges of `Cursor.specIter` from cursor 0). -/
def fileParts {α : Type} (bs : Nat) (input : List α) : List (List α) :=
  (Earverif.Cursor.specIter input.length bs (input.length + 1) 0).2.map fun r =>
    (input.drop r.1.toNat).take r.2.toNat

/-- `render_input_file` + the peak monitor and writer of `run`, for a renderer given by its two entry
points (`render` threading a state, `getTail`): one `render` call per block of
`iter_sample_blocks(blocksize)`, then one `get_tail` call; each returned block is scaled, upmixed,
monitored and written (`FileRender.run`). A renderer exception aborts the run. -/
def renderCalls {S E : Type} (render : S → List (List Rat) → Except E (S × List (List Rat)))
    (getTail : S → Except E (List (List Rat))) : S → List (List (List Rat)) → Except E (List (List (List Rat)))
  | st, [] =>
    match getTail st with
    | .error e => .error e
    | .ok t => .ok [t]
  | st, b :: bs =>
    match render st b with
    | .error e => .error e
    | .ok (st', o) =>
      match renderCalls render getTail st' bs with
      | .error e => .error e
      | .ok os => .ok (o :: os)

def runFile {S E : Type} (render : S → List (List Rat) → Except E (S × List (List Rat)))
    (getTail : S → Except E (List (List Rat))) (st0 : S) (blocksize : Nat)
    (chans : List String) (speakers : Option (List Speaker)) (gain : Rat) (failOnOverload : Bool) (M : Int)
    (input : List (List Rat)) : Except E Result :=
  match renderCalls render getTail st0 (fileParts blocksize input) with
  | .error e => .error e
  | .ok outs => .ok (run chans speakers gain failOnOverload M outs)

/-! ### Bridge to the routing model of `FileRender` -/

/-- The `FileRender.Speaker` a parsed speaker stands for when its channel is a non-negative integer and its
gain a number. -/
def toSpeaker (s : RSpeaker) : Option Speaker :=
  match s.channel, gainValue s.gain with
  | .int c, .ok g =>
    if 0 ≤ c then
      some ⟨c.toNat, s.names.filterMap (fun | .str n => some n | _ => none), g⟩
    else none
  | _, _ => none

/-! ### Specification vocabulary (used by the theorems, not by the transliteration) -/

/-- All entries of the file as `FileRender.Speaker`s (defined when every channel is a non-negative integer and
every gain a number). -/
def toSpeakers : List RSpeaker → Option (List Speaker)
  | [] => some []
  | s :: rest =>
    match toSpeaker s, toSpeakers rest with
    | some s', some rest' => some (s' :: rest')
    | _, _ => none

/-- Number of non-zero entries (`np.count_nonzero`). -/
def nnz (v : List Rat) : Nat := v.countP (· != 0)

/-- Entry `[o, i]` of a matrix given as a list of rows (0 outside). -/
def entry (U : List (List Rat)) (o i : Nat) : Rat := (U.getD o []).getD i 0

/-- The id test of `ADM.lookup_element`. -/
def idMatches (key : String) (e : Elem) : Bool :=
  match e.id with
  | some i => upperKey i == upperKey key
  | none => false

end Earverif.FileRenderLayout
