/-
The link between the REGENERATED handler tables and the concrete parsers the class-level theorems are about:
for every element class, `…Rows_eq` (decided by the kernel on every run) says that the rows extracted from the
real `MainElementHandler` now are the rows the proofs were written for (`Proofs/C08Frozen.lean`), and `…Props_eq`
that `ofRowG` — with the hand-written handlers chosen by the handler names recorded in the rows (`implX`) — builds
exactly the concrete parser of the model from them.
-/
import Earverif.Gen.C08_Handlers
import Earverif.Proofs.C08Frozen
import Earverif.Proofs.C08Elements

set_option linter.unusedSimpArgs false

namespace Earverif.XmlElements
open Earverif.XmlCodec Earverif.XmlCustom Earverif.XmlBlocks Earverif.TimeFormat Earverif.C08Frozen

/-- the rows of a parser in the regenerated table -/
def rowsOf (v2 : Bool) (nm : String) : List Row :=
  (Earverif.Gen.C08.parsers.lookup ((if v2 then "v2/" else "v1/") ++ nm)).getD []

theorem leafOfRepr_values' :
    leafOfRepr "None" = .none ∧ leafOfRepr "0.0" = .num 0 ∧ leafOfRepr "False" = .bool false ∧
    leafOfRepr "10" = .int 10 := by decide +kernel

/-- table obligation: the code declares exactly these properties for `audioBlockFormat:DirectSpeakers` -/
theorem dsRows_eq : ∀ v2, rowsOf v2 "audioBlockFormat:DirectSpeakers" = (if v2 then f_v2_audioBlockFormat_DirectSpeakers else f_v1_audioBlockFormat_DirectSpeakers) := by decide +kernel

/-- what `ofRowG` builds from the table rows is the concrete parser -/
theorem dsProps_eq (v2 : Bool) : propsX v2 (rowsOf v2 "audioBlockFormat:DirectSpeakers") = dsPs v2 := by
  rw [dsRows_eq]
  obtain ⟨h1, h2, h3, h4⟩ := leafOfRepr_values'
  cases v2 <;>
    simp [propsX, f_v1_audioBlockFormat_DirectSpeakers, f_v2_audioBlockFormat_DirectSpeakers, ofRowG, implX, codecOf, optArg, dsPs, blockHead, gainElemV2, importanceV2,
      refListV2, typeProp, formatProp, typeTable, formatTable, h1, h2, h3, h4]

/-- table obligation: the code declares exactly these properties for `audioBlockFormat:HOA` -/
theorem hoaRows_eq : ∀ v2, rowsOf v2 "audioBlockFormat:HOA" = (if v2 then f_v2_audioBlockFormat_HOA else f_v1_audioBlockFormat_HOA) := by decide +kernel

/-- what `ofRowG` builds from the table rows is the concrete parser -/
theorem hoaProps_eq (v2 : Bool) : propsX v2 (rowsOf v2 "audioBlockFormat:HOA") = hoaPs v2 := by
  rw [hoaRows_eq]
  obtain ⟨h1, h2, h3, h4⟩ := leafOfRepr_values'
  cases v2 <;>
    simp [propsX, f_v1_audioBlockFormat_HOA, f_v2_audioBlockFormat_HOA, ofRowG, implX, codecOf, optArg, hoaPs, blockHead, gainElemV2, importanceV2,
      refListV2, typeProp, formatProp, typeTable, formatTable, h1, h2, h3, h4]

/-- table obligation: the code declares exactly these properties for `audioBlockFormat:Binaural` -/
theorem binauralRows_eq : ∀ v2, rowsOf v2 "audioBlockFormat:Binaural" = (if v2 then f_v2_audioBlockFormat_Binaural else f_v1_audioBlockFormat_Binaural) := by decide +kernel

/-- what `ofRowG` builds from the table rows is the concrete parser -/
theorem binauralProps_eq (v2 : Bool) : propsX v2 (rowsOf v2 "audioBlockFormat:Binaural") = binauralPs v2 := by
  rw [binauralRows_eq]
  obtain ⟨h1, h2, h3, h4⟩ := leafOfRepr_values'
  cases v2 <;>
    simp [propsX, f_v1_audioBlockFormat_Binaural, f_v2_audioBlockFormat_Binaural, ofRowG, implX, codecOf, optArg, binauralPs, blockHead, gainElemV2, importanceV2,
      refListV2, typeProp, formatProp, typeTable, formatTable, h1, h2, h3, h4]

/-- table obligation: the code declares exactly these properties for `audioBlockFormat:Matrix` -/
theorem matrixRows_eq : ∀ v2, rowsOf v2 "audioBlockFormat:Matrix" = (if v2 then f_v2_audioBlockFormat_Matrix else f_v1_audioBlockFormat_Matrix) := by decide +kernel

/-- what `ofRowG` builds from the table rows is the concrete parser -/
theorem matrixProps_eq (v2 : Bool) : propsX v2 (rowsOf v2 "audioBlockFormat:Matrix") = matrixPs v2 := by
  rw [matrixRows_eq]
  obtain ⟨h1, h2, h3, h4⟩ := leafOfRepr_values'
  cases v2 <;>
    simp [propsX, f_v1_audioBlockFormat_Matrix, f_v2_audioBlockFormat_Matrix, ofRowG, implX, codecOf, optArg, matrixPs, blockHead, gainElemV2, importanceV2,
      refListV2, typeProp, formatProp, typeTable, formatTable, h1, h2, h3, h4]

/-- table obligation: the code declares exactly these properties for `audioBlockFormat:Objects` -/
theorem objectsXRows_eq : ∀ v2, rowsOf v2 "audioBlockFormat:Objects" = (if v2 then f_v2_audioBlockFormat_Objects else f_v1_audioBlockFormat_Objects) := by decide +kernel

/-- what `ofRowG` builds from the table rows is the concrete parser -/
theorem objectsXProps_eq (v2 : Bool) : propsX v2 (rowsOf v2 "audioBlockFormat:Objects") = objPs v2 := by
  rw [objectsXRows_eq]
  obtain ⟨h1, h2, h3, h4⟩ := leafOfRepr_values'
  cases v2 <;>
    simp [propsX, f_v1_audioBlockFormat_Objects, f_v2_audioBlockFormat_Objects, ofRowG, implX, codecOf, optArg, objPs, blockHead, gainElemV2, importanceV2,
      refListV2, typeProp, formatProp, typeTable, formatTable, h1, h2, h3, h4]

/-- table obligation: the code declares exactly these properties for `coefficient` -/
theorem coeffRows_eq : ∀ v2, rowsOf v2 "coefficient" = (if v2 then f_v2_coefficient else f_v1_coefficient) := by decide +kernel

/-- what `ofRowG` builds from the table rows is the concrete parser -/
theorem coeffProps_eq (v2 : Bool) : propsX v2 (rowsOf v2 "coefficient") = coeffPs v2 := by
  rw [coeffRows_eq]
  obtain ⟨h1, h2, h3, h4⟩ := leafOfRepr_values'
  cases v2 <;>
    simp [propsX, f_v1_coefficient, f_v2_coefficient, ofRowG, implX, codecOf, optArg, coeffPs, blockHead, gainElemV2, importanceV2,
      refListV2, typeProp, formatProp, typeTable, formatTable, h1, h2, h3, h4]

/-- table obligation: the code declares exactly these properties for `loudnessMetadata` -/
theorem loudnessRows_eq : ∀ v2, rowsOf v2 "loudnessMetadata" = (if v2 then f_v2_loudnessMetadata else f_v1_loudnessMetadata) := by decide +kernel

/-- what `ofRowG` builds from the table rows is the concrete parser -/
theorem loudnessProps_eq (v2 : Bool) : propsX v2 (rowsOf v2 "loudnessMetadata") = loudnessPs := by
  rw [loudnessRows_eq]
  obtain ⟨h1, h2, h3, h4⟩ := leafOfRepr_values'
  cases v2 <;>
    simp [propsX, f_v1_loudnessMetadata, f_v2_loudnessMetadata, ofRowG, implX, codecOf, optArg, loudnessPs, blockHead, gainElemV2, importanceV2,
      refListV2, typeProp, formatProp, typeTable, formatTable, h1, h2, h3, h4]

/-- table obligation: the code declares exactly these properties for `audioObjectInteraction` -/
theorem interactionRows_eq : ∀ v2, rowsOf v2 "audioObjectInteraction" = (if v2 then f_v2_audioObjectInteraction else f_v1_audioObjectInteraction) := by decide +kernel

/-- what `ofRowG` builds from the table rows is the concrete parser -/
theorem interactionProps_eq (v2 : Bool) : propsX v2 (rowsOf v2 "audioObjectInteraction") = interactionPs v2 := by
  rw [interactionRows_eq]
  obtain ⟨h1, h2, h3, h4⟩ := leafOfRepr_values'
  cases v2 <;>
    simp [propsX, f_v1_audioObjectInteraction, f_v2_audioObjectInteraction, ofRowG, implX, codecOf, optArg, interactionPs, blockHead, gainElemV2, importanceV2,
      refListV2, typeProp, formatProp, typeTable, formatTable, h1, h2, h3, h4]

/-- table obligation: the code declares exactly these properties for `alternativeValueSet` -/
theorem avsRows_eq : ∀ v2, rowsOf v2 "alternativeValueSet" = (if v2 then f_v2_alternativeValueSet else f_v1_alternativeValueSet) := by decide +kernel

/-- what `ofRowG` builds from the table rows is the concrete parser -/
theorem avsProps_eq (v2 : Bool) : propsX v2 (rowsOf v2 "alternativeValueSet") = avsPs v2 := by
  rw [avsRows_eq]
  obtain ⟨h1, h2, h3, h4⟩ := leafOfRepr_values'
  cases v2 <;>
    simp [propsX, f_v1_alternativeValueSet, f_v2_alternativeValueSet, ofRowG, implX, codecOf, optArg, avsPs, blockHead, gainElemV2, importanceV2,
      refListV2, typeProp, formatProp, typeTable, formatTable, h1, h2, h3, h4]

/-- table obligation: the code declares exactly these properties for `audioProgramme` -/
theorem programmeRows_eq : ∀ v2, rowsOf v2 "audioProgramme" = (if v2 then f_v2_audioProgramme else f_v1_audioProgramme) := by decide +kernel

/-- what `ofRowG` builds from the table rows is the concrete parser -/
theorem programmeProps_eq (v2 : Bool) : propsX v2 (rowsOf v2 "audioProgramme") = programmePs v2 := by
  rw [programmeRows_eq]
  obtain ⟨h1, h2, h3, h4⟩ := leafOfRepr_values'
  cases v2 <;>
    simp [propsX, f_v1_audioProgramme, f_v2_audioProgramme, ofRowG, implX, codecOf, optArg, programmePs, blockHead, gainElemV2, importanceV2,
      refListV2, typeProp, formatProp, typeTable, formatTable, h1, h2, h3, h4]

/-- table obligation: the code declares exactly these properties for `audioContent` -/
theorem contentRows_eq : ∀ v2, rowsOf v2 "audioContent" = (if v2 then f_v2_audioContent else f_v1_audioContent) := by decide +kernel

/-- what `ofRowG` builds from the table rows is the concrete parser -/
theorem contentProps_eq (v2 : Bool) : propsX v2 (rowsOf v2 "audioContent") = contentPs v2 := by
  rw [contentRows_eq]
  obtain ⟨h1, h2, h3, h4⟩ := leafOfRepr_values'
  cases v2 <;>
    simp [propsX, f_v1_audioContent, f_v2_audioContent, ofRowG, implX, codecOf, optArg, contentPs, blockHead, gainElemV2, importanceV2,
      refListV2, typeProp, formatProp, typeTable, formatTable, h1, h2, h3, h4]

/-- table obligation: the code declares exactly these properties for `audioObject` -/
theorem objectRows_eq : ∀ v2, rowsOf v2 "audioObject" = (if v2 then f_v2_audioObject else f_v1_audioObject) := by decide +kernel

/-- what `ofRowG` builds from the table rows is the concrete parser -/
theorem objectProps_eq (v2 : Bool) : propsX v2 (rowsOf v2 "audioObject") = objectPs v2 := by
  rw [objectRows_eq]
  obtain ⟨h1, h2, h3, h4⟩ := leafOfRepr_values'
  cases v2 <;>
    simp [propsX, f_v1_audioObject, f_v2_audioObject, ofRowG, implX, codecOf, optArg, objectPs, objectHead, blockHead, gainElemV2, importanceV2,
      refListV2, typeProp, formatProp, typeTable, formatTable, h1, h2, h3, h4]

/-- table obligation: the code declares exactly these properties for `audioPackFormat` -/
theorem packRows_eq : ∀ v2, rowsOf v2 "audioPackFormat" = (if v2 then f_v2_audioPackFormat else f_v1_audioPackFormat) := by decide +kernel

/-- what `ofRowG` builds from the table rows is the concrete parser -/
theorem packProps_eq (v2 : Bool) : propsX v2 (rowsOf v2 "audioPackFormat") = packPs := by
  rw [packRows_eq]
  obtain ⟨h1, h2, h3, h4⟩ := leafOfRepr_values'
  cases v2 <;>
    simp [propsX, f_v1_audioPackFormat, f_v2_audioPackFormat, ofRowG, implX, codecOf, optArg, packPs, blockHead, gainElemV2, importanceV2,
      refListV2, typeProp, formatProp, typeTable, formatTable, h1, h2, h3, h4]

/-- table obligation: the code declares exactly these properties for `audioChannelFormat` -/
theorem channelRows_eq : ∀ v2, rowsOf v2 "audioChannelFormat" = (if v2 then f_v2_audioChannelFormat else f_v1_audioChannelFormat) := by decide +kernel

/-- what `ofRowG` builds from the table rows is the concrete parser -/
theorem channelProps_eq (v2 : Bool) : propsX v2 (rowsOf v2 "audioChannelFormat") = channelPs v2 := by
  rw [channelRows_eq]
  obtain ⟨h1, h2, h3, h4⟩ := leafOfRepr_values'
  cases v2 <;>
    simp [propsX, f_v1_audioChannelFormat, f_v2_audioChannelFormat, ofRowG, implX, codecOf, optArg, channelPs, blockHead, gainElemV2, importanceV2,
      refListV2, typeProp, formatProp, typeTable, formatTable, h1, h2, h3, h4]

/-- table obligation: the code declares exactly these properties for `audioStreamFormat` -/
theorem streamRows_eq : ∀ v2, rowsOf v2 "audioStreamFormat" = (if v2 then f_v2_audioStreamFormat else f_v1_audioStreamFormat) := by decide +kernel

/-- what `ofRowG` builds from the table rows is the concrete parser -/
theorem streamProps_eq (v2 : Bool) : propsX v2 (rowsOf v2 "audioStreamFormat") = streamPs := by
  rw [streamRows_eq]
  obtain ⟨h1, h2, h3, h4⟩ := leafOfRepr_values'
  cases v2 <;>
    simp [propsX, f_v1_audioStreamFormat, f_v2_audioStreamFormat, ofRowG, implX, codecOf, optArg, streamPs, blockHead, gainElemV2, importanceV2,
      refListV2, typeProp, formatProp, typeTable, formatTable, h1, h2, h3, h4]

/-- table obligation: the code declares exactly these properties for `audioTrackFormat` -/
theorem trackRows_eq : ∀ v2, rowsOf v2 "audioTrackFormat" = (if v2 then f_v2_audioTrackFormat else f_v1_audioTrackFormat) := by decide +kernel

/-- what `ofRowG` builds from the table rows is the concrete parser -/
theorem trackProps_eq (v2 : Bool) : propsX v2 (rowsOf v2 "audioTrackFormat") = trackPs := by
  rw [trackRows_eq]
  obtain ⟨h1, h2, h3, h4⟩ := leafOfRepr_values'
  cases v2 <;>
    simp [propsX, f_v1_audioTrackFormat, f_v2_audioTrackFormat, ofRowG, implX, codecOf, optArg, trackPs, blockHead, gainElemV2, importanceV2,
      refListV2, typeProp, formatProp, typeTable, formatTable, h1, h2, h3, h4]

/-- table obligation: the code declares exactly these properties for `audioTrackUID` -/
theorem trackUIDRows_eq : ∀ v2, rowsOf v2 "audioTrackUID" = (if v2 then f_v2_audioTrackUID else f_v1_audioTrackUID) := by decide +kernel

/-- what `ofRowG` builds from the table rows is the concrete parser -/
theorem trackUIDProps_eq (v2 : Bool) : propsX v2 (rowsOf v2 "audioTrackUID") = trackUIDPs v2 := by
  rw [trackUIDRows_eq]
  obtain ⟨h1, h2, h3, h4⟩ := leafOfRepr_values'
  cases v2 <;>
    simp [propsX, f_v1_audioTrackUID, f_v2_audioTrackUID, ofRowG, implX, codecOf, optArg, trackUIDPs, blockHead, gainElemV2, importanceV2,
      refListV2, typeProp, formatProp, typeTable, formatTable, h1, h2, h3, h4]

/-- the reference-screen parser (one table entry, no version) -/
theorem screenRows_eq : (Earverif.Gen.C08.parsers.lookup "audioProgrammeReferenceScreen").getD [] =
    f_audioProgrammeReferenceScreen := by decide +kernel

theorem screenProps_eq (v2 : Bool) :
    propsX v2 ((Earverif.Gen.C08.parsers.lookup "audioProgrammeReferenceScreen").getD []) = screenPs := by
  rw [screenRows_eq]
  obtain ⟨h1, h2, h3, h4⟩ := leafOfRepr_values'
  simp [propsX, f_audioProgrammeReferenceScreen, ofRowG, implX, codecOf, optArg, screenPs, h1, h2, h3, h4]

end Earverif.XmlElements
