/- C01: lemmas about the parts of `GainCalc.render` before the panners — `np.interp`, `extent_mod`, the
   distance/depth logic of `PolarExtentHandler.handle`, `diverge` positions. -/
import Earverif.Proofs.C01Sub

namespace Earverif.GainCalc

/-! ### `np.interp` stays between the smallest and the largest table value -/

theorem interp_go_bounds (x lo hi : ℝ) : ∀ (xs fs : List ℝ) (xa fa : ℝ), xa < x → lo ≤ fa → fa ≤ hi →
    (∀ f ∈ fs, lo ≤ f ∧ f ≤ hi) → lo ≤ interp.go x xa fa xs fs ∧ interp.go x xa fa xs fs ≤ hi
  | [], _, _, _, _, h1, h2, _ => by simp only [interp.go]; exact ⟨h1, h2⟩
  | _ :: _, [], _, _, _, h1, h2, _ => by simp only [interp.go]; exact ⟨h1, h2⟩
  | xb :: xs, fb :: fs, xa, fa, hx, h1, h2, hf => by
    have hfb := hf fb (by simp)
    simp only [interp.go]
    split
    · exact hfb
    · rename_i hne
      split
      · rename_i hlt
        have hd : 0 < xb - xa := by linarith
        have hu0 : 0 < x - xa := by linarith
        have ht0 : 0 ≤ (x - xa) / (xb - xa) := (div_pos hu0 hd).le
        have ht1 : (x - xa) / (xb - xa) ≤ 1 := by rw [div_le_one hd]; linarith
        have hval : (fb - fa) / (xb - xa) * (x - xa) + fa = fa + (fb - fa) * ((x - xa) / (xb - xa)) := by
          field_simp; ring
        rw [hval]
        constructor
        · nlinarith [mul_nonneg ht0 (sub_nonneg.mpr hfb.1), mul_nonneg (sub_nonneg.mpr ht1) (sub_nonneg.mpr h1)]
        · nlinarith [mul_nonneg ht0 (sub_nonneg.mpr hfb.2), mul_nonneg (sub_nonneg.mpr ht1) (sub_nonneg.mpr h2)]
      · rename_i hnlt
        have hxb : xb < x := by
          rcases lt_trichotomy x xb with h | h | h
          · exact absurd h hnlt
          · exact absurd ((eqS_real x xb).mpr h) hne
          · exact h
        exact interp_go_bounds x lo hi xs fs xb fb hxb hfb.1 hfb.2 (fun f hf' => hf f (by simp [hf']))

/-- `np.interp(x, xp, fp)` lies between the bounds of `fp` (non-empty tables) -/
theorem interp_bounds (x lo hi x0 f0 : ℝ) (xs fs : List ℝ) (hf : ∀ f ∈ f0 :: fs, lo ≤ f ∧ f ≤ hi) :
    lo ≤ interp x (x0 :: xs) (f0 :: fs) ∧ interp x (x0 :: xs) (f0 :: fs) ≤ hi := by
  have h0 := hf f0 (by simp)
  simp only [interp]
  split
  · exact h0
  · rename_i hle
    exact interp_go_bounds x lo hi xs fs x0 f0 (lt_of_not_ge hle) h0.1 h0.2 (fun f hf' => hf f (by simp [hf']))

/-- `ammount_spread` is in [0, 1] for every width and height -/
theorem amountSpread_range (w h : ℝ) : 0 ≤ amountSpread w h ∧ amountSpread w h ≤ 1 := by
  simp only [amountSpread, zero_real, one_real]
  exact interp_bounds _ 0 1 _ _ _ _ (by
    intro f hf
    simp only [List.mem_cons, List.not_mem_nil, or_false] at hf
    rcases hf with rfl | rfl <;> norm_num)

/-- `extent_mod` keeps the extent inside [0, 360] -/
theorem extentMod_range (extent distance : ℝ) (h0 : 0 ≤ extent) (h1 : extent ≤ 360) :
    0 ≤ extentMod extent distance ∧ extentMod extent distance ≤ 360 := by
  have h360 : ((360 : ℚ) : ℝ) = 360 := by norm_num
  simp only [extentMod, zero_real, k_real, h360]
  exact interp_bounds _ 0 360 _ _ _ _ (by
    intro f hf
    simp only [List.mem_cons, List.not_mem_nil, or_false] at hf
    rcases hf with rfl | rfl | rfl
    · norm_num
    · exact ⟨h0, h1⟩
    · norm_num)

/-! ### `PolarExtentHandler.handle`: one or two end distances, never negative -/

theorem polarDistances_cases (distance depth : ℝ) :
    (polarDistances distance depth = [distance]) ∨ ∃ d1 d2, polarDistances distance depth = [d1, d2] ∧ 0 ≤ d1 ∧ 0 ≤ d2 := by
  simp only [polarDistances, zero_real]
  split
  · left; rfl
  · right
    refine ⟨_, _, rfl, ?_, ?_⟩ <;> · split <;> [exact le_rfl; (rename_i h; exact le_of_not_gt h)]

/-! ### `diverge`: positions -/

theorem clip_range (x : ℝ) : -1 ≤ clip x (-one) one ∧ clip x (-one) one ≤ 1 := by
  simp only [clip, one_real]
  split
  · norm_num
  · rename_i h1
    split
    · norm_num
    · rename_i h2
      exact ⟨le_of_not_gt h1, le_of_not_gt h2⟩

/-- `diverge` returns as many positions as gains (1 or 3): the first shape condition of `render` -/
theorem divergePositions_length (cartesian : Bool) (position : V3 ℝ) (value ar pr : Option ℝ) (v2 : Bool) :
    (divergePositions cartesian position value ar pr v2).length = (divergeGains value).length := by
  cases value with
  | none => simp [divergePositions, divergeGains]
  | some v =>
    simp only [divergePositions, divergeGains]
    split
    · rfl
    · cases cartesian <;> simp

/-- in the cube: with divergence in Cartesian mode every diverged position is clipped to [-1, 1]³ -/
theorem diverge_cart_in_cube (position : V3 ℝ) (v : ℝ) (hv : v ≠ 0) (ar pr : Option ℝ) (v2 : Bool) :
    ∀ q ∈ divergePositions true position (some v) ar pr v2,
      (-1 ≤ q.1 ∧ q.1 ≤ 1) ∧ (-1 ≤ q.2.1 ∧ q.2.1 ≤ 1) ∧ (-1 ≤ q.2.2 ∧ q.2.2 ≤ 1) := by
  have hne : eqS v zero = false := by
    rw [eqS_eq_decide]; simp [hv]
  intro q hq
  simp only [divergePositions, hne, Bool.false_eq_true, if_false, if_true, List.mem_cons, List.not_mem_nil,
    or_false] at hq
  rcases hq with rfl | rfl | rfl <;> exact ⟨clip_range _, clip_range _, clip_range _⟩

/-- the undiverged position is always among the positions panned (middle entry, or the only one) -/
theorem diverge_polar_keeps_centre (position : V3 ℝ) (value ar pr : Option ℝ) (v2 : Bool) :
    position ∈ divergePositions false position value ar pr v2 := by
  cases value with
  | none => simp [divergePositions]
  | some v =>
    simp only [divergePositions]
    split <;> simp

end Earverif.GainCalc
