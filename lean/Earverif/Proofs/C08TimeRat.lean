/-
The rational-number step of the decimal time round trip (C08): uses Mathlib for `ℚ` algebra and
for the little number theory behind `placesBound`.
-/
import Mathlib.Tactic.FieldSimp
import Mathlib.Tactic.Ring
import Mathlib.Tactic.Linarith
import Mathlib.Tactic.LinearCombination
import Mathlib.Data.Rat.Defs
import Mathlib.Data.Nat.Prime.Basic
import Earverif.Proofs.C08Time

namespace Earverif.TimeFormat
open Earverif.Digits

/-- a denominator that divides a power of ten divides `10 ^ placesBound d`: long division never
needs more than `log2 d + 1` places -/
theorem dvd_pow_placesBound (d k : ℕ) (h : d ∣ 10 ^ k) : d ∣ 10 ^ placesBound d := by
  have e : (10 : ℕ) ^ k = 2 ^ k * 5 ^ k := by rw [← Nat.mul_pow]
  rw [e] at h
  obtain ⟨a, b, ha, hb, rfl⟩ := Nat.dvd_mul.mp h
  obtain ⟨i, _, rfl⟩ := (Nat.dvd_prime_pow Nat.prime_two).mp ha
  obtain ⟨j, _, rfl⟩ := (Nat.dvd_prime_pow Nat.prime_five).mp hb
  unfold placesBound
  have hlt := @Nat.lt_log2_self (2 ^ i * 5 ^ j)
  have h5 : 1 ≤ 5 ^ j := Nat.one_le_pow _ _ (by omega)
  have h2 : 1 ≤ 2 ^ i := Nat.one_le_pow _ _ (by omega)
  have h25 : 2 ^ j ≤ 5 ^ j := Nat.pow_le_pow_left (by omega) j
  have hi : 2 ^ i < 2 ^ ((2 ^ i * 5 ^ j).log2 + 1) := by nlinarith
  have hj : 2 ^ j < 2 ^ ((2 ^ i * 5 ^ j).log2 + 1) := by nlinarith
  have hi' := (Nat.pow_lt_pow_iff_right (by omega : 1 < 2)).mp hi
  have hj' := (Nat.pow_lt_pow_iff_right (by omega : 1 < 2)).mp hj
  have e' : (10 : ℕ) ^ ((2 ^ i * 5 ^ j).log2 + 1) =
      2 ^ ((2 ^ i * 5 ^ j).log2 + 1) * 5 ^ ((2 ^ i * 5 ^ j).log2 + 1) := by rw [← Nat.mul_pow]
  rw [e']
  exact Nat.mul_dvd_mul (Nat.pow_dvd_pow 2 (by omega)) (Nat.pow_dvd_pow 5 (by omega))

/-- a non-negative rational as a quotient of naturals (Python: `time.numerator`, `time.denominator`) -/
theorem nonneg_num_den (q : ℚ) (h0 : 0 ≤ q) :
    ∃ num : ℕ, q.num = num ∧ q.num.toNat = num ∧ q = (num : ℚ) / q.den := by
  have hnum0 : 0 ≤ q.num := Rat.num_nonneg.mpr h0
  refine ⟨q.num.toNat, (Int.toNat_of_nonneg hnum0).symm, rfl, ?_⟩
  calc q = (q.num : ℚ) / q.den := (Rat.num_div_den q).symm
    _ = ((q.num.toNat : ℕ) : ℚ) / q.den := by
      congr 1
      have : ((q.num.toNat : ℕ) : ℤ) = q.num := Int.toNat_of_nonneg hnum0
      exact_mod_cast congrArg (fun z : ℤ => (z : ℚ)) this.symm

/-- decimal round trip on the model, with the printed string exhibited -/
theorem parse_unparseDecimal (q : ℚ) (h0 : 0 ≤ q) (h1 : q < 360000) (k N : ℕ)
    (hN : N < 10 ^ decimalPrec) (hq : q * 10 ^ k = N) :
    ∃ s, unparseDecimal? q = some s ∧ parseTime s = some (.dec q) := by
  -- numerator / denominator as naturals
  have hnum0 : 0 ≤ q.num := Rat.num_nonneg.mpr h0
  obtain ⟨num, hnum⟩ : ∃ num : ℕ, q.num = num := ⟨q.num.toNat, (Int.toNat_of_nonneg hnum0).symm⟩
  have htoNat : q.num.toNat = num := by rw [hnum]; simp
  have hdpos : 0 < q.den := q.den_pos
  have hdq : (q.den : ℚ) ≠ 0 := by exact_mod_cast q.den_nz
  have hqdiv : q = (num : ℚ) / q.den := by
    have := Rat.num_div_den q
    rw [hnum] at this; exact_mod_cast this.symm
  -- num * 10^k = N * d
  have hcross : num * 10 ^ k = N * q.den := by
    have h := hq
    rw [hqdiv] at h
    field_simp at h
    rw [Nat.mul_comm N]
    exact_mod_cast h
  have hcop : Nat.Coprime q.den num := by
    have := q.reduced
    rw [hnum] at this
    simpa using this.symm
  have hd10 : q.den ∣ 10 ^ k :=
    hcop.dvd_of_dvd_mul_left ⟨N, by rw [hcross, Nat.mul_comm]⟩
  have hdL := dvd_pow_placesBound q.den k hd10
  -- long division
  have hn : num % q.den < q.den := Nat.mod_lt _ hdpos
  obtain ⟨ds, hds⟩ := fracDigits_complete q.den (placesBound q.den) (num % q.den) hn
    (Dvd.dvd.mul_left hdL _)
  obtain ⟨hall, hval⟩ := fracDigits_spec q.den _ _ _ hds hn
  have hlen := fracDigits_minimal q.den _ _ _ hds hn k (Dvd.dvd.mul_left hd10 _)
  have hdm := Nat.div_add_mod num q.den
  -- the coefficient fits the Decimal precision
  have hC : num * 10 ^ ds.length = q.den * (num / q.den * 10 ^ ds.length + ofDigits 10 ds) := by
    rw [Nat.mul_add, ← hval]
    calc num * 10 ^ ds.length = (q.den * (num / q.den) + num % q.den) * 10 ^ ds.length := by rw [hdm]
      _ = _ := by ring
  have hCN : num / q.den * 10 ^ ds.length + ofDigits 10 ds ≤ N := by
    have e : 10 ^ k = 10 ^ ds.length * 10 ^ (k - ds.length) := by
      rw [← Nat.pow_add]; congr 1; omega
    have : q.den * ((num / q.den * 10 ^ ds.length + ofDigits 10 ds) * 10 ^ (k - ds.length)) = q.den * N := by
      rw [← Nat.mul_assoc, ← hC, Nat.mul_assoc, ← e, hcross, Nat.mul_comm]
    have := Nat.eq_of_mul_eq_mul_left hdpos this
    rw [← this]
    exact Nat.le_mul_of_pos_right _ (by positivity)
  have hfit : num / q.den * 10 ^ ds.length + ofDigits 10 ds < 10 ^ decimalPrec := by omega
  -- below 100 hours
  have hw : num / q.den < 360000 := by
    apply Nat.div_lt_of_lt_mul
    have h := h1
    rw [hqdiv, div_lt_iff₀ (by exact_mod_cast hdpos)] at h
    have : (num : ℚ) < ((360000 * q.den : ℕ) : ℚ) := by push_cast; linarith
    have := Nat.cast_lt.mp this
    rw [Nat.mul_comm]; exact this
  refine ⟨wholePart (num / q.den) ++ '.' :: (if ds = [] then ['0'] else ds.map decChar), ?_, ?_⟩
  · unfold unparseDecimal?
    simp only [htoNat, hds, hfit, if_true]
  · rw [parseTime_wholePart _ hw]
    unfold parseTail
    by_cases hnil : ds = []
    · subst hnil
      have hn0 : num % q.den = 0 := by simpa [ofDigits] using hval
      have hd1 := digits1_append ['0'] [] (by decide) (by decide) (Or.inl rfl)
      rw [List.append_nil] at hd1
      simp only [if_true, hd1, Option.bind_eq_bind, Option.bind_some]
      congr 2
      rw [Rat.mkRat_eq_div]
      have hwd : (num : ℚ) = (num / q.den : ℕ) * q.den := by
        have : num = q.den * (num / q.den) := by omega
        exact_mod_cast (by rw [Nat.mul_comm] at this; exact this)
      have hrec := whole_recompose (num / q.den)
      generalize q.den = d at *
      rw [hqdiv, hwd]
      generalize num / d = w at *
      generalize (w / 60 / 60 * 60 + w / 60 % 60) * 60 = A at *
      generalize w % 60 = B at *
      have : (A : ℚ) + B = w := by exact_mod_cast hrec
      simp only [decNat, ofDigits, List.map, decVal, List.foldl, List.length]
      push_cast
      field_simp
      linarith
    · have hne : ds.map decChar ≠ [] := by simpa using hnil
      have hd1 := digits1_append (ds.map decChar) [] (map_decChar_all_dec ds hall) hne (Or.inl rfl)
      rw [List.append_nil] at hd1
      simp only [hnil, if_false, hd1, Option.bind_eq_bind, Option.bind_some, List.length_map,
        decNat_map_decChar ds hall]
      congr 2
      rw [Rat.mkRat_eq_div]
      have hrec := whole_recompose (num / q.den)
      have hnumq : (num : ℚ) = (num / q.den : ℕ) * q.den + (num % q.den : ℕ) := by
        have : num = num / q.den * q.den + num % q.den := by rw [Nat.mul_comm]; omega
        exact_mod_cast this
      have hvalq : ((num % q.den : ℕ) : ℚ) * 10 ^ ds.length = q.den * (ofDigits 10 ds : ℕ) := by
        exact_mod_cast hval
      generalize q.den = d at *
      rw [hqdiv, hnumq]
      generalize num / d = w at *
      generalize num % d = n at *
      generalize ofDigits 10 ds = F at *
      generalize (w / 60 / 60 * 60 + w / 60 % 60) * 60 = A at *
      generalize w % 60 = B at *
      have : (A : ℚ) + B = w := by exact_mod_cast hrec
      have hp : (10 : ℚ) ^ ds.length ≠ 0 := by positivity
      push_cast
      field_simp
      have e1 : (n : ℚ) * 10 ^ ds.length = d * F := hvalq
      linear_combination ((10 : ℚ) ^ ds.length * (d : ℚ)) * this - e1

end Earverif.TimeFormat
