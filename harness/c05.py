"""C05 — point-source panner: total, non-negative, unit power, exact at loudspeakers (+ symmetry, side
dominance, layer separation on the nominal layouts).

Lean side: Model/PointSource.lean (scalar-polymorphic transliteration of ear/core/point_source.py),
Props/C05.lean (theorems over the reals for every loudspeaker position and direction + table obligations on
the regenerated Gen/C05_Tables.lean), Driver/C05.lean (Float evaluation).  This module: table extraction,
correspondence of every region handler / wrapper / whole panner with the real objects, and the direct search
of the property on the real code (also used by harness/c12.py).
"""
import json
import math
import multiprocessing
import os
import random

# the kernels here are tiny (3x3, 2x2 eigenvalues): BLAS worker threads only add contention in the process pool
for _v in ("OPENBLAS_NUM_THREADS", "OMP_NUM_THREADS", "MKL_NUM_THREADS"):
    os.environ.setdefault(_v, "1")

import numpy as np  # noqa: E402

from . import common
from . import c05_cover
from . import c05_exact
from .common import Spec, Driver, write_if_changed

LAYOUT_NAMES = ["0+2+0", "0+5+0", "2+5+0", "4+5+0", "4+5+1", "3+7+0", "4+9+0", "9+10+3", "0+7+0", "4+7+0"]
MIN_SEP_DEG = 1.0  # generated layouts: neighbouring loudspeakers of a layer at least this far apart in azimuth
MAX_GAP_DEG = 170.0  # generated layouts: largest horizontal gap (property: < 180)
TOL = 1e-9
# mirror symmetry / side dominance compare two evaluations that may fall on different sides of an acceptance threshold
# (-1e-11 on un-normalised gains, 1e-10 on quad roots): the code itself is only symmetric up to those slacks times the
# local slope of the gains (measured: up to 1.5e-10 on the nominal layouts)
SYM_TOL = 1e-8


# --------------------------------------------------------------------------------------
# exact float transport


def f2(x):
    """binary64 -> (m, e) with x == m * 2**e, m odd or 0."""
    x = float(x)
    if x == 0.0:
        return (0, 0)
    if not math.isfinite(x):
        raise ValueError("non-finite value in table: %r" % x)
    n, d = x.as_integer_ratio()
    e = -(d.bit_length() - 1)
    while n % 2 == 0:
        n //= 2
        e += 1
    return (n, e)


def ftok(x):
    if x is None:
        return "N"
    m, e = f2(x)
    return "%d:%d" % (m, e)


def ftoks(xs):
    return " ".join(ftok(x) for x in np.asarray(xs, dtype=float).ravel())


def parse_bits(line):
    """driver answer -> None | np.array | 'bad-op'"""
    if line == "none":
        return None
    w = line.split()
    if not w or w[0] != "some":
        return "bad-op"
    return np.array([int(t) for t in w[1:]], dtype=np.uint64).view(np.float64)


# --------------------------------------------------------------------------------------
# layouts: nominal, generated admissible (symmetric), fixed asymmetric catalogue


def _mods():
    from ear.core import bs2051, point_source
    from ear.core.layout import Speaker
    from ear.core.geom import PolarPosition

    return bs2051, point_source, Speaker, PolarPosition


def make_layout(name, real=None):
    """Layout `name` without LFE; `real` = {channel name: (az, el)} real loudspeaker positions (or None)."""
    bs2051, ps, Speaker, PolarPosition = _mods()
    lay = bs2051.get_layout(name).without_lfe
    if real:
        speakers = [
            Speaker(i, [ch.name], PolarPosition(float(real[ch.name][0]), float(real[ch.name][1]), 1.0))
            for i, ch in enumerate(lay.channels)
            if ch.name in real
        ]
        lay, _ = lay.with_speakers(speakers)
    return lay


def _layer(el):
    if el < -10:
        return "B"
    if el <= 10:
        return "M"
    if el <= 70:
        return "U"
    return "T"


def admissible(name, real):
    """The property's quantifier for real layouts (symmetry is checked separately):
    in range (check_positions), screen loudspeakers allowed, azimuth order per layer = nominal order
    (strict, >= MIN_SEP_DEG), no horizontal gap > MAX_GAP_DEG."""
    bs2051, ps, _, _ = _mods()
    lay = make_layout(name, real)
    errors = []
    lay.check_positions(callback=errors.append)
    if errors:
        return False
    # screen loudspeakers: allowed ranges and the nominal position they stand for, taken from the documented rule
    # (5-25 degrees -> nominal 15, 35-60 degrees -> nominal 45), NOT from the code under test
    nominal_az = {}
    for ch in lay.channels:
        naz = ch.polar_nominal_position.azimuth
        if ch.name in ("M+SC", "M-SC"):
            a = abs(ch.polar_position.azimuth)
            if 5.0 <= a <= 25.0:
                naz = math.copysign(15.0, ch.polar_position.azimuth)
            elif 35.0 <= a <= 60.0:
                naz = math.copysign(45.0, ch.polar_position.azimuth)
            else:
                return False
        nominal_az[ch.name] = naz
    layers = {}
    for ch in lay.channels:
        layers.setdefault(_layer(ch.polar_nominal_position.elevation), []).append(ch)
    for key, chans in layers.items():
        chans = sorted(chans, key=lambda c: nominal_az[c.name])
        az = [c.polar_position.azimuth for c in chans]
        for a, b in zip(az, az[1:]):
            if not b - a >= MIN_SEP_DEG:
                return False
        if len(az) > 1 and not (az[0] + 360.0) - az[-1] >= MIN_SEP_DEG:
            return False
        if key == "M":
            gaps = [b - a for a, b in zip(az, az[1:])] + [az[0] + 360.0 - az[-1]]
            if max(gaps) > MAX_GAP_DEG:
                return False
    return True


SCREEN_BOUNDARY = [5.0, float(np.nextafter(5.0, 6.0)), float(np.nextafter(25.0, 0.0)), 25.0,
                   35.0, float(np.nextafter(35.0, 36.0)), float(np.nextafter(60.0, 0.0)), 60.0]


def _pick(rng, lo, hi):
    if lo == hi:
        return lo
    k = rng.random()
    if k < 0.15:
        return lo
    if k < 0.3:
        return hi
    return round(rng.uniform(lo, hi), rng.choice([0, 1, 3]))


def gen_real(name, rng, symmetric=True, tries=200):
    """One admissible real layout (dict name -> (az, el)), or None if none was found."""
    bs2051 = _mods()[0]
    lay = bs2051.get_layout(name).without_lfe
    byname = lay.channels_by_name
    for _ in range(tries):
        real = {}
        for ch in lay.channels:
            if ch.name in real:
                continue
            az = _pick(rng, *ch.az_range)
            if ch.name in ("M+SC", "M-SC"):
                sgn = 1.0 if ch.name == "M+SC" else -1.0
                az = sgn * rng.choice(SCREEN_BOUNDARY + [round(rng.uniform(5, 25), 1), round(rng.uniform(35, 60), 1)])
            el = _pick(rng, *ch.el_range)
            real[ch.name] = (min(max(az, ch.az_range[0]), ch.az_range[1]), min(max(el, ch.el_range[0]), ch.el_range[1]))
            part = ch.name.replace("+", "-") if "+" in ch.name else None
            if symmetric and part in byname and part != ch.name:
                real[part] = (-real[ch.name][0], real[ch.name][1])
        if all(real[c.name] == (c.polar_position.azimuth, c.polar_position.elevation) for c in lay.channels):
            continue
        if admissible(name, real):
            return real
    return None


def has_free_ranges(name):
    bs2051 = _mods()[0]
    return any(c.az_range[0] != c.az_range[1] or c.el_range[0] != c.el_range[1] for c in bs2051.get_layout(name).without_lfe.channels)


def asym_catalogue():
    """Fixed catalogue of asymmetric in-range layouts (independent of VERIF_SEED)."""
    rng = random.Random("C05/asymmetric-catalogue/v1")
    out = []
    for name in LAYOUT_NAMES:
        if not has_free_ranges(name):
            continue
        for k in range(4):
            real = gen_real(name, rng, symmetric=False)
            if real is not None:
                out.append(("%s#asym%d" % (name, k), name, real))
    return out


def boundary_catalogue():
    """Fixed catalogue of admissible symmetric real layouts with positions EXACTLY ON the inclusive ends of the
    permitted ranges: each channel (with its mirror partner) at each end of its az / el range, the others nominal;
    all channels at their low / high ends; screen loudspeakers at exactly 5, 25, 35, 60 degrees and one ulp inside,
    combined with M+-030 at both ends of its range.  Entries: (layout id, name, real positions, always).
    `always` entries (screen loudspeakers, all-ends) run in every quick check, the rest is sampled there."""
    bs2051 = _mods()[0]
    out, seen = [], {}

    def add(lid, name, real, always):
        key = (name, tuple(sorted(real.items())))
        if key in seen:
            if always:  # an entry reached again through an always-run family is promoted
                i = seen[key]
                out[i] = out[i][:3] + (True,)
            return
        if not admissible(name, real):
            return
        seen[key] = len(out)
        out.append((lid, name, real, always))

    for name in LAYOUT_NAMES:
        if not has_free_ranges(name):
            continue
        lay = bs2051.get_layout(name).without_lfe
        byname = lay.channels_by_name
        nominal = {c.name: (c.polar_position.azimuth, c.polar_position.elevation) for c in lay.channels}

        def put(real, ch, az=None, el=None):
            a, e = real[ch.name]
            real[ch.name] = (a if az is None else az, e if el is None else el)
            part = ch.name.replace("+", "-") if "+" in ch.name else None
            if part in byname and part != ch.name:
                real[part] = (-real[ch.name][0], real[ch.name][1])

        for ch in lay.channels:
            if "-" in ch.name[1:]:
                continue
            for field, ends in (("az", ch.az_range), ("el", ch.el_range)):
                for v in ends:
                    real = dict(nominal)
                    put(real, ch, **{field: v})
                    add("%s#bnd:%s:%s=%r" % (name, ch.name, field, v), name, real, False)
        for tag, ia, ie in (("lo-lo", 0, 0), ("lo-hi", 0, 1), ("hi-lo", 1, 0), ("hi-hi", 1, 1)):
            real = dict(nominal)
            for ch in lay.channels:
                if "-" in ch.name[1:]:
                    continue
                put(real, ch, az=ch.az_range[ia], el=ch.el_range[ie])
            add("%s#bnd:all:%s" % (name, tag), name, real, True)
        if "M+SC" in byname:
            m030 = byname["M+030"]
            for v in SCREEN_BOUNDARY:
                for m in sorted(set(m030.az_range) | {nominal["M+030"][0]}):
                    real = dict(nominal)
                    put(real, byname["M+SC"], az=v)
                    put(real, m030, az=m)
                    add("%s#bnd:M+SC:az=%r:M+030=%r" % (name, v, m), name, real, True)
    return out


CORNER_LAYOUTS = ["2+5+0", "4+5+0", "4+5+1", "3+7+0", "4+7+0", "4+9+0", "9+10+3", "0+5+0", "0+7+0"]
_CORNER_CACHE = {}


def _corner_value(rng, ch, field):
    if field == "az" and ch.name in ("M+SC", "M-SC"):
        return math.copysign(rng.choice([5.0, 25.0, 35.0, 60.0]), ch.az_range[0] + ch.az_range[1])
    lo, hi = ch.az_range if field == "az" else ch.el_range
    return rng.choice([lo, hi])


def corner_catalogue():
    """Fixed (fixed seed) catalogue of CORNER layouts: every loudspeaker at a randomly chosen inclusive end of its
    az and el range - every mirror pair jointly (symmetric family, `#cornerS`) or every loudspeaker independently
    (asymmetric family, `#cornerA`) - plus the deterministic family `#opp` in which one mirror pair sits at OPPOSITE
    ends of its ranges and everything else is nominal.  All respect the order / gap rules (`admissible`).
    Returns (symmetric list, asymmetric list) of (layout id, name, real positions)."""
    if "v" in _CORNER_CACHE:
        return _CORNER_CACHE["v"]
    bs2051 = _mods()[0]
    rng = random.Random("C05/corner-catalogue/v1")
    sym, asym = [], []
    for name in CORNER_LAYOUTS:
        lay = bs2051.get_layout(name).without_lfe
        byname = lay.channels_by_name
        nominal = {c.name: (c.polar_position.azimuth, c.polar_position.elevation) for c in lay.channels}
        want = 24 if name not in ("0+5+0", "0+7+0") else 8
        for family, out, symmetric in (("cornerS", sym, True), ("cornerA", asym, False)):
            seen, tries = set(), 0
            while len(seen) < want and tries < 40 * want:
                tries += 1
                real = {}
                for ch in lay.channels:
                    if ch.name in real:
                        continue
                    real[ch.name] = (_corner_value(rng, ch, "az"), _corner_value(rng, ch, "el"))
                    part = ch.name.replace("+", "-") if "+" in ch.name else None
                    if symmetric and part in byname and part != ch.name:
                        real[part] = (-real[ch.name][0], real[ch.name][1])
                key = tuple(sorted(real.items()))
                if key in seen or real == nominal or not admissible(name, real):
                    continue
                if not symmetric and all(real.get(n.replace("+", "-"), (None, None)) == (-real[n][0], real[n][1])
                                         for n in real if "+" in n and n.replace("+", "-") in real and n.replace("+", "-") != n):
                    continue  # happens to be symmetric: belongs to the other family
                seen.add(key)
                out.append(("%s#%s%d" % (name, family, len(seen) - 1), name, real))
        # one mirror pair at opposite ends, the rest nominal
        k = 0
        for ch in lay.channels:
            part = ch.name.replace("+", "-") if "+" in ch.name else None
            if part not in byname or part == ch.name:
                continue
            pch = byname[part]
            for (a1, a2) in ((ch.az_range[0], pch.az_range[0]), (ch.az_range[1], pch.az_range[1])):
                # (+lo with -lo) = near end on one side and far end on the other, since the '-' range is mirrored
                for (e1, e2) in ((ch.el_range[0], pch.el_range[0]), (ch.el_range[0], pch.el_range[1]), (ch.el_range[1], pch.el_range[0])):
                    real = dict(nominal)
                    real[ch.name], real[part] = (a1, e1), (a2, e2)
                    if (a1, e1) == (-a2, e2) or not admissible(name, real):
                        continue
                    asym.append(("%s#opp%d:%s" % (name, k, ch.name), name, real))
                    k += 1
    _CORNER_CACHE["v"] = (sym, asym)
    return sym, asym


def failing_catalogue_ids(pid):
    """Layout ids of the fixed catalogues with recorded findings (corpus/C05/known_finding_candidates.json, written when the
    catalogue was first enumerated on the unchanged tree): these are searched in every quick run."""
    path = os.path.join(common.VERIF, "corpus", "C05", "known_finding_candidates.json")
    try:
        ents = json.load(open(path))["findings"]
    except Exception:
        return set()
    return {e["classifier"].split(":", 1)[1] for e in ents if e.get("property") == pid and ":" in e.get("classifier", "")}


def boundary_for_run(ctx, n_sampled):
    """The always-run boundary layouts plus `n_sampled` of the others (all of them if n_sampled is None)."""
    cat = boundary_catalogue()
    must = [c for c in cat if c[3]]
    rest = [c for c in cat if not c[3]]
    if n_sampled is not None and len(rest) > n_sampled:
        rest = ctx.rng.sample(rest, n_sampled)
    return [(lid, name, real) for lid, name, real, _ in must + rest]


def real_catalogue():
    """Fixed catalogue of admissible symmetric real layouts (C12; also searched by C05)."""
    rng = random.Random("C12/real-catalogue/v1")
    out = []
    for name in LAYOUT_NAMES:
        if not has_free_ranges(name):
            continue
        for k in range(3):
            real = gen_real(name, rng, symmetric=True)
            if real is not None:
                out.append(("%s#real%d" % (name, k), name, real))
    return out


# --------------------------------------------------------------------------------------
# the real panner and its parts


class Pan:
    """configure(layout) plus what the predicates need to know about the layout."""

    def __init__(self, lid, name, real=None, nominal=None):
        _, ps, _, _ = _mods()
        self.lid, self.name, self.real = lid, name, real
        self.group = name if real is None else name + ("/boundary" if "#bnd" in lid else "/real")
        self.nominal = (real is None) if nominal is None else nominal
        self.layout = make_layout(name, real)
        self.pan = ps.configure(self.layout)
        self.ps = ps
        self.stereo = name == "0+2+0"
        if self.stereo:
            self.stereo_obj = self.pan.regions[0]
            self.dm = self.stereo_obj.psp
        else:
            self.stereo_obj = None
            self.dm = self.pan
        self.inner = self.dm.psp
        self.regions = list(self.inner.regions)
        self.positions = np.array(self.layout.norm_positions)
        chans = self.layout.channels
        self.n = len(chans)
        x = self.positions[:, 0]
        self.left = x < -1e-9
        self.right = x > 1e-9
        nel = np.array([c.polar_nominal_position.elevation for c in chans])
        self.lower = nel < -10
        self.upper = nel > 10
        # left/right channel permutation (nominal layouts are symmetric)
        self.flip = [int(np.argmin(np.linalg.norm(self.positions - [-p[0], p[1], p[2]], axis=1))) for p in self.positions]
        self.symmetric = all(
            np.linalg.norm(self.positions[self.flip[i]] - [-p[0], p[1], p[2]]) < 1e-9 for i, p in enumerate(self.positions)
        )

    def spec(self):
        return {"layout": self.name, "id": self.lid, "real_positions": self.real}

    def handle(self, p):
        return self.pan.handle(p)


def region_kind(region):
    return type(region).__name__


def region_vertices(region):
    v = [np.array(p, dtype=float) for p in region.positions]
    if region_kind(region) == "VirtualNgon":
        v.append(np.array(region.centre_position, dtype=float))
    return v


def ngon_order(region):
    return [int(t.output_channels[0]) for t in region.regions]


# --------------------------------------------------------------------------------------
# directions


def unit(v):
    v = np.asarray(v, dtype=float)
    return v / np.linalg.norm(v)


def cart(az, el):
    az, el = math.radians(az), math.radians(el)
    return np.array([math.sin(-az) * math.cos(el), math.cos(-az) * math.cos(el), math.sin(el)])


def fibonacci(n, rot=0.0):
    k = np.arange(n) + 0.5
    z = 1 - 2 * k / n
    r = np.sqrt(1 - z * z)
    phi = k * math.pi * (3 - math.sqrt(5)) + rot
    return np.stack([r * np.cos(phi), r * np.sin(phi), z], axis=1)


OFFSETS = [0.0] + [s * d for d in (1e-12, 1e-11, 1e-10, 1e-9, 1e-8, 1e-6, 1e-4, 1e-3) for s in (1, -1)]
FRACTIONS = [0.0, 1e-9, 1e-4, 0.1, 0.25, 0.5, 0.75, 0.9, 1 - 1e-4, 1 - 1e-9, 1.0]


def edge_list(pan):
    """(region index, kind, a, b) for every vertex pair of every region (great-circle arcs)."""
    out = []
    for k, r in enumerate(pan.regions):
        vs = region_vertices(r)
        for i in range(len(vs)):
            for j in range(i + 1, len(vs)):
                a, b = vs[i], vs[j]
                nrm = np.cross(a, b)
                if np.linalg.norm(nrm) < 1e-6:  # (anti)parallel: no unique arc
                    continue
                out.append((k, region_kind(r), a, b))
    return out


def edge_point(a, b, t, delta):
    q = unit((1 - t) * a + t * b)
    n = unit(np.cross(a, b))
    return unit(q + delta * n)


def off_class(delta):
    return "edge" if delta == 0 else "edge~%.0e" % abs(delta)


def class_group(cls):
    """Coarser boundary classes for the evidence counts."""
    if cls.startswith("edge~"):
        return "edge-within-1e-9" if float(cls[5:]) <= 1e-9 else "edge-offset-1e-8..1e-3"
    if cls.startswith("pole"):
        return "pole"
    if cls.startswith("horizontal"):
        return "horizontal"
    if cls in ("fibonacci", "grid", "random", "inside"):
        return "sphere"
    return cls


def direction_stream(pan, rng, budget, fib_n):
    """Yield (class, region kind or '-', direction). Boundary-directed; subsampled to about `budget`."""
    # vertices, poles, horizontal plane, fibonacci sphere
    for k, r in enumerate(pan.regions):
        for v in region_vertices(r):
            yield ("vertex", region_kind(r), unit(v))
    for p in pan.positions:
        yield ("loudspeaker", "-", unit(p))
    for z in (1.0, -1.0):
        yield ("pole", "-", np.array([0.0, 0.0, z]))
        for d in (1e-12, 1e-9, 1e-6, 1e-3):
            for az in (0.0, 45.0, 90.0, 180.0, -90.0, -135.0, rng.uniform(-180, 180)):
                yield ("pole~%.0e" % d, "-", unit(np.array([0.0, 0.0, z]) + d * cart(az, 0.0)))
    nh = max(24, budget // 40)
    for i in range(nh):
        az = -180.0 + 360.0 * (i + rng.random()) / nh
        yield ("horizontal", "-", cart(az, 0.0))
        yield ("horizontal~off", "-", unit(cart(az, 0.0) + np.array([0, 0, rng.choice([1e-9, -1e-9, 1e-12, -1e-12, 1e-6, -1e-6])])))
    for az in (0.0, 30.0, -30.0, 90.0, -90.0, 110.0, -110.0, 135.0, -135.0, 180.0, -180.0, 45.0, -45.0, 60.0, -60.0, 15.0, -15.0):
        for el in (0.0, 30.0, -30.0, 45.0, 90.0, -90.0):
            yield ("grid", "-", cart(az, el))
    for p in fibonacci(fib_n, rot=rng.uniform(0, 2 * math.pi)):
        yield ("fibonacci", "-", p)
    # region edges
    edges = edge_list(pan)
    total = len(edges) * len(FRACTIONS) * len(OFFSETS)
    remaining = max(budget // 2, 1000)
    keep = min(1.0, remaining / float(total)) if total else 0.0
    for (k, kind, a, b) in edges:
        for t in FRACTIONS:
            for d in OFFSETS:
                if keep < 1.0 and rng.random() > keep:
                    continue
                tt = t if t in (0.0, 1.0) or keep >= 1.0 else min(1.0, max(0.0, t + rng.uniform(-0.05, 0.05)))
                yield (off_class(d), kind, edge_point(a, b, tt, d))


# --------------------------------------------------------------------------------------
# the direct predicates (written from the property text; real code only)


def c05_predicates(pan, p, cls, kind, hits, counts, tagprefix=None):
    """Evaluate the property at direction p on the real panner. Returns number of handle calls."""
    calls = 1
    lid = pan.lid

    def hit(what, detail, extra_tags=()):
        tags = list(extra_tags)
        if tagprefix:
            tags.append(tagprefix)
        hits.append({"what": what, "input": dict(pan.spec(), direction=[repr(float(x)) for x in p], boundary_class=cls, region_kind=kind), "detail": detail, "tags": tags})

    try:
        g = pan.handle(p)
    except Exception as e:  # an exception escaping is also "no result"
        hit("panner raised instead of returning gains", {"exception": repr(e)})
        return calls
    if g is None:
        hit("no result (None) for a direction", {})
        return calls
    g = np.asarray(g, dtype=float)
    if g.shape != (pan.n,) or not np.all(np.isfinite(g)):
        hit("gain vector has wrong shape or non-finite entries", {"gains": repr(g)})
        return calls
    if np.any(g < 0):
        hit("negative gain", {"gains": g.tolist()})
    pw = float(np.sum(g * g))
    if pan.stereo:
        if not (0.5 - TOL <= pw <= 1 + TOL):
            hit("0+2+0 power outside [-3 dB, 0 dB]", {"power": pw, "gains": g.tolist()})
    elif abs(pw - 1) > TOL:
        hit("power is not 1", {"power": pw, "gains": g.tolist()})
    if cls == "loudspeaker":
        i = int(np.argmin(np.linalg.norm(pan.positions - p, axis=1)))
        e = np.zeros(pan.n)
        e[i] = 1.0
        if np.max(np.abs(g - e)) > TOL:
            hit("source at a loudspeaker position excites other loudspeakers", {"channel": pan.layout.channel_names[i], "gains": g.tolist()})
    if pan.nominal:
        # mirror symmetry
        pm = np.array([-p[0], p[1], p[2]])
        gm = pan.handle(pm)
        calls += 1
        if gm is None:
            hit("no result (None) for a direction", {"mirrored": True})
        else:
            gm = np.asarray(gm, dtype=float)
            if np.max(np.abs(gm[pan.flip] - g)) > SYM_TOL:
                hit("gains are not mirror-symmetric", {"gains": g.tolist(), "gains_mirrored_direction": gm.tolist()})
        # side dominance
        pl, pr = float(np.sum(g[pan.left] ** 2)), float(np.sum(g[pan.right] ** 2))
        if p[0] < 0 and pr > pl + SYM_TOL:
            hit("source on the left gives the right side more power", {"left_power": pl, "right_power": pr, "gains": g.tolist()})
        if p[0] > 0 and pl > pr + SYM_TOL:
            hit("source on the right gives the left side more power", {"left_power": pl, "right_power": pr, "gains": g.tolist()})
        # layer separation
        if p[2] > 0 and np.any(g[pan.lower] > TOL):
            hit("source above the horizontal plane excites a lower-layer loudspeaker", {"gains": g.tolist()})
        if p[2] < 0 and np.any(g[pan.upper] > TOL):
            hit("source below the horizontal plane excites an upper-layer loudspeaker", {"gains": g.tolist()})
    key = "%s|%s|%s" % (pan.group, kind, class_group(cls))
    counts[key] = counts.get(key, 0) + 1
    return calls


def _segments_cross(p1, p2, p3, p4):
    """Proper crossing of the 2-d segments p1p2 and p3p4."""
    def orient(a, b, c):
        return (b[0] - a[0]) * (c[1] - a[1]) - (b[1] - a[1]) * (c[0] - a[0])
    d1, d2 = orient(p3, p4, p1), orient(p3, p4, p2)
    d3, d4 = orient(p1, p2, p3), orient(p1, p2, p4)
    eps = 1e-9
    return ((d1 > eps and d2 < -eps) or (d1 < -eps and d2 > eps)) and ((d3 > eps and d4 < -eps) or (d3 < -eps and d4 > eps))


def polygon_report(positions, order):
    """Independent look at a region's vertex order: project the vertices along their centre direction and test
    (a) that the polygon in the given order has no crossing edges and (b) that the order equals the order by angle
    around the centre up to rotation / reversal.  Returns None if fine, else a description."""
    pos = np.asarray(positions, dtype=float)
    n = len(pos)
    order = [int(o) for o in order]
    if sorted(order) != list(range(n)):
        return {"problem": "order is not a permutation", "order": order}
    c = unit(np.mean(pos, axis=0))
    d = pos.dot(c)
    proj = pos / d[:, None] if np.all(d > 0.05) else pos  # gnomonic where possible: arcs become straight lines
    h = np.array([0.0, 0.0, 1.0]) if abs(c[2]) < 0.9 else np.array([1.0, 0.0, 0.0])
    e1 = unit(np.cross(h, c))
    e2 = np.cross(c, e1)
    xy = np.stack([proj.dot(e1), proj.dot(e2)], axis=1)
    xy = xy - xy.mean(axis=0)
    poly = xy[order]
    for i in range(n):
        for j in range(i + 1, n):
            if j == i + 1 or (i == 0 and j == n - 1):
                continue
            if _segments_cross(poly[i], poly[(i + 1) % n], poly[j], poly[(j + 1) % n]):
                return {"problem": "edges %d-%d and %d-%d of the ordered polygon cross" % (order[i], order[(i + 1) % n], order[j], order[(j + 1) % n]), "order": order}
    ang = np.arctan2(xy[:, 1], xy[:, 0])
    srt = sorted(ang)
    gaps = [b - a for a, b in zip(srt, srt[1:])]
    if gaps and min(gaps) > 1e-6:  # the angular order is unambiguous
        mine = [int(i) for i in np.argsort(ang)]
        k = mine.index(order[0])
        fwd = mine[k:] + mine[:k]
        bwd = [fwd[0]] + fwd[1:][::-1]
        if order != fwd and order != bwd:
            return {"problem": "order differs from the order by angle around the centre", "order": order, "by_angle": fwd}
    return None


def structural_hits(pan, counts, tagprefix=None):
    """Every QuadRegion / VirtualNgon of the configured panner must have a simple (non self-intersecting) vertex order."""
    hits = []
    for k, r in enumerate(pan.regions):
        kind = region_kind(r)
        if kind == "QuadRegion":
            order = list(r.order)
        elif kind == "VirtualNgon":
            order = ngon_order(r)
        else:
            continue
        key = "structure|%s|%s" % (pan.group, kind)
        counts[key] = counts.get(key, 0) + 1
        rep = polygon_report(r.positions, order)
        if rep is not None:
            hits.append({"what": "region vertex order is not a simple polygon",
                         "input": dict(pan.spec(), region=k, region_kind=kind, output_channels=[int(c) for c in r.output_channels],
                                       vertex_positions=np.asarray(r.positions).tolist()),
                         "detail": rep, "tags": [tagprefix] if tagprefix else []})
    return hits


def _search_task(args):
    """One (layout, budget) unit of C05 search; runs in a worker process."""
    lid, name, real, nominal, seed, budget, fib_n, tagprefix = args
    rng = random.Random(seed)
    hits, counts = [], {}
    try:
        pan = Pan(lid, name, real, nominal)
    except Exception as e:
        hits.append({"what": "configure(layout) raised for an admissible layout", "input": {"layout": name, "id": lid, "real_positions": real},
                     "detail": {"exception": repr(e)}, "tags": [tagprefix] if tagprefix else []})
        return lid, 0, counts, hits, []
    calls = 0
    samples = []
    hits.extend(structural_hits(pan, counts, tagprefix))
    if budget == 0:  # structure + loudspeaker / vertex directions only
        stream = [("loudspeaker", "-", unit(p)) for p in pan.positions]
        stream += [("vertex", region_kind(r), unit(v)) for r in pan.regions for v in region_vertices(r)]
    else:
        stream = direction_stream(pan, rng, budget, fib_n)
    for cls, kind, p in stream:
        calls += c05_predicates(pan, p, cls, kind, hits, counts, tagprefix)
        if len(samples) < 2 and cls.startswith("edge"):
            samples.append({"layout": lid, "class": cls, "region": kind, "direction": [float(x) for x in p]})
        if len(hits) > 40:
            break
    return lid, calls, counts, hits[:10], samples


def run_pool(tasks, fn):
    nproc = min(16, os.cpu_count() or 1, max(1, len(tasks)))
    if nproc <= 1:
        return [fn(t) for t in tasks]
    with multiprocessing.get_context("fork").Pool(nproc) as pool:
        return pool.map(fn, tasks, chunksize=1)


# --------------------------------------------------------------------------------------
# table extraction


def _p3(v):
    return "(%s, %s, %s)" % tuple("(%d, %d)" % f2(x) for x in v)


def _nats(xs):
    return "[" + ", ".join(str(int(x)) for x in xs) + "]"


def region_table(r):
    kind = region_kind(r)
    fields = {"ch": _nats(r.output_channels), "pos": "[" + ", ".join(_p3(p) for p in r.positions) + "]"}
    if kind == "Triplet":
        fields["kind"] = "0"
    elif kind == "VirtualNgon":
        fields["kind"] = "1"
        fields["centre"] = _p3(r.centre_position)
        fields["cdm"] = "[" + ", ".join("(%d, %d)" % f2(x) for x in r.centre_downmix) + "]"
        fields["order"] = _nats(ngon_order(r))
    elif kind == "QuadRegion":
        fields["kind"] = "2"
        fields["order"] = _nats(r.order)
    else:
        raise ValueError("unexpected region type %s" % kind)
    return "{ " + ", ".join("%s := %s" % (k, fields[k]) for k in ("kind", "ch", "pos", "centre", "cdm", "order") if k in fields) + " }"


def tables_text():
    lines = [
        "/- GENERATED by harness/c05.py from point_source.configure(layout.without_lfe) — do not edit.",
        "   Region list in evaluation order, vertex positions as exact binary64 values (m, e) = m·2^e,",
        "   non-zero entries of the PointSourcePannerDownmix matrix. -/",
        "import Earverif.Model.PointSource",
        "namespace Earverif.Gen.C05",
        "open Earverif.PointSource",
        "",
    ]
    names = []
    for li, name in enumerate(LAYOUT_NAMES):
        pan = Pan(name, name)
        rnames = []
        for k, r in enumerate(pan.regions):
            rn = "L%d_r%d" % (li, k)
            lines.append("def %s : RawRegion := %s" % (rn, region_table(r)))
            rnames.append(rn)
        D = np.asarray(pan.dm.downmix, dtype=float)
        ent = ["(%d, %d, (%d, %d))" % ((i, j) + f2(D[i, j])) for i in range(D.shape[0]) for j in range(D.shape[1]) if D[i, j] != 0]
        stereo = ""
        if pan.stereo:
            stereo = ", stereo := some (%d, %d)" % (pan.stereo_obj.left_channel, pan.stereo_obj.right_channel)
        lines.append(
            'def L%d : RawLayout := { name := "%s", nReal := %d, nInner := %d, regions := [%s], downmix := [%s]%s }'
            % (li, name, D.shape[0], pan.inner.num_channels, ", ".join(rnames), ", ".join(ent), stereo)
        )
        assert D.shape[1] == pan.inner.num_channels
        lines.append("")
        names.append("L%d" % li)
    lines.append("def layouts : List RawLayout := [%s]" % ", ".join(names))
    lines.append("")
    lines.append("end Earverif.Gen.C05")
    return "\n".join(lines) + "\n"


# --------------------------------------------------------------------------------------
# correspondence helpers


def region_line(r, p, roots=None):
    kind = region_kind(r)
    if kind == "Triplet":
        return "tri %s %s" % (ftoks(r.positions), ftoks(p))
    if kind == "VirtualNgon":
        n = len(r.output_channels)
        return "ngon %d %s %s %s %s %s" % (n, " ".join(map(str, ngon_order(r))), ftoks(r.positions), ftoks(r.centre_position), ftoks(r.centre_downmix), ftoks(p))
    if kind == "QuadRegion":
        x, y = roots
        return "quad %s %s %s %s %s" % (" ".join(str(int(o)) for o in r.order), ftoks(r.positions), ftok(x), ftok(y), ftoks(p))
    raise ValueError(kind)


def quad_roots(r, p):
    import warnings

    with warnings.catch_warnings():
        warnings.simplefilter("ignore")
        try:
            x, y = r.pan_x(p), r.pan_y(p)
        except Exception:
            x, y = None, None
    return (None if x is None else float(x), None if y is None else float(y))


def ambiguous(r, p, slack=1e-13):
    """Is the acceptance decision of region r at p within rounding of its threshold?"""
    kind = region_kind(r)
    if kind == "Triplet":
        pv = np.dot(p, r._basis)
        if not np.all(np.isfinite(pv)):
            return True
        s = slack * max(1.0, float(np.max(np.abs(r._basis))))
        return bool(np.any(np.abs(pv + 1e-11) < s))
    if kind == "VirtualNgon":
        return any(ambiguous(t, p, slack) for t in r.regions)
    if kind == "QuadRegion":
        x, y = quad_roots(r, p)
        if x is None or y is None:
            # a root just outside [-1e-10, 1+1e-10] or nearly complex: cannot tell from outside; look at the polynomial
            return False
        pvs = np.zeros(4)
        pvs[r.order] = [(1 - x) * (1 - y), x * (1 - y), x * y, (1 - x) * y]
        return abs(pvs.dot(r.positions).dot(p)) < slack
    return False


def close(a, b, tol=TOL):
    if a is None or b is None:
        return a is None and b is None
    if isinstance(a, str) or isinstance(b, str):
        return False
    a, b = np.asarray(a, dtype=float), np.asarray(b, dtype=float)
    if a.shape != b.shape:
        return False
    return bool(np.all(np.abs(a - b) <= tol * np.maximum(1.0, np.abs(b))))


def _call(f, p):
    """Call a real handler; an exception escaping is observed as "no result" (the model's `none`; the search
    predicate reports it separately as a totality failure)."""
    import warnings

    try:
        with warnings.catch_warnings():
            warnings.simplefilter("ignore")
            return f(np.array(p, dtype=float))
    except Exception:
        return None


def _lst(x):
    return None if x is None else (x if isinstance(x, str) else [float(v) for v in x])


# --------------------------------------------------------------------------------------


THEOREMS = (
    "triplet_nonneg",
    "triplet_norm_le_one",
    "triplet_unit_of_strict",
    "triplet_of_comb",
    "triplet_exact_at_vertex",
    "triplet_mirror",
    "ngon_nonneg_unit",
    "quad_nonneg_unit",
    "quad_corner",
    "first_accept_inherits",
    "first_accept_none_iff",
    "panner_inherits",
    "panner_none_iff",
    "downmix_nonneg_unit",
    "stereo_level",
    "extra_mem_iff",
    "extra_all_mid_of_empty_layer",
    "extra_margin",
    "extra_sorted",
    "tables_wellFormed",
    "tables_ten",
    "C05_partial",
    # totality (sphere coverage), Stages 1-3
    "Cover.cover_of_cells",
    "Cover.cover_of_cert",
    "cover_tables_ok",
    "cover_layouts",
    "Cover.panner_total_of_cert",
    "panner_total_layouts_partial",
    "Cover.roots_in_unit_pos",
    "Cover.quadRoot_of_unit_root",
    "Cover.bil_dot_pos",
    "Cover.quad_accepts",
    "Cover.quadAccepts_of_check",
    "quad_tables_ok",
    "quad_accepts_layouts",
    "panner_total_layouts",
    "pspHandle_total_layouts",
    # exactness of the composed panner at every loudspeaker position
    "Cover.triplet_at_vertex",
    "Cover.triplet_none_of_out",
    "Cover.quadRoot_mem",
    "Cover.quadRoot_none",
    "Cover.quadRoot_exact",
    "Cover.quad_handle_none_of_box",
    "Cover.quad_handle_corner",
    "Cover.ngon_exact",
    "Cover.noRootIn_sound",
    "Cover.quadRejects_sound",
    "Cover.regionRejects_sound",
    "Cover.regionExact_sound",
    "Cover.spkOk_sound",
    "Cover.exactLayoutOk_sound",
    "exact_tables_ok",
    "panner_exact_at_speaker_layouts",
    "pspHandle_exact_at_speaker_layouts",
    # layer separation of the composed panner
    "Cover.triplet_none_of_above",
    "Cover.triplet_none_of_below",
    "Cover.regionOneSided_sound",
    "Cover.layer_separation_of_check",
    "layer_tables_ok",
    "layer_separation_lower_layouts",
    "layer_separation_upper_layouts_partial",
    "layer_separation_upper_noquad",
)


class C05(Spec):
    pid = "C05"
    lean_targets = ("Earverif.Props.C05", "c05driver")
    props_module = "Earverif.Props.C05"
    theorems = tuple("Earverif.PointSource." + t for t in THEOREMS)
    trusted_base = (
        "model Earverif/Model/PointSource.lean is a hand transliteration of point_source.Triplet/VirtualNgon/QuadRegion/"
        "PointSourcePanner/PointSourcePannerDownmix/StereoPanDownmix.handle and extra_pos_vertical_nominal, tied to the real "
        "objects by the correspondence harness (Float evaluation, tolerance 1e-9)",
        "black boxes, taken as parameters/data: np.linalg.inv (modelled as adjugate/determinant), np.roots + root selection in "
        "QuadRegion.pan_axis (the selected roots are inputs of the model; the quadratic itself is modelled and its residual at "
        "the real root is checked), geom.ngon_vertex_order (the order is extracted), scipy.spatial.ConvexHull/Qhull (the region "
        "list per layout is extracted into Gen/C05_Tables.lean on every run)",
        "theorems are over the reals: they say nothing about rounding, NaN or the 1e-11 acceptance slack beyond what is stated",
        "harness/c05_cover.py and harness/c05_exact.py (certificate generators, exact integer / Fraction arithmetic) are NOT "
        "trusted: whatever they emit is re-checked by the kernel against Gen/C05_Tables.lean (Cover.coverCertOk, Cover.quadRegionOk, "
        "Cover.spkOk, Cover.layerOk); the root selection for QuadRegions in the totality, exactness and layer theorems is "
        "GainCalc.quadRoot (Model/GainCalcConcrete.lean, owned by C01)",
    )
    assumptions = (
        "generated real layouts: left/right symmetric, every channel inside its BS.2051 az/el range (layout.check_positions "
        "accepts), screen loudspeakers within 5-25 or 35-60 degrees, azimuth order within each layer equal to the nominal order "
        "with neighbours at least %g degrees apart, no horizontal gap above %g degrees (property: < 180)" % (MIN_SEP_DEG, MAX_GAP_DEG),
        "mirror symmetry, side dominance and layer separation are checked on the ten nominal layouts only (as the property says)",
        "fixed-seed corner catalogue (every loudspeaker at an inclusive end of its az/el range): the symmetric family is inside the "
        "quantifier (hits tagged boundary-layout:<id>, not suppressed), the asymmetric families (#cornerA, #opp) are tagged "
        "asymmetric-catalogue:<id>; every configured panner also gets a structural check: the vertex order of each QuadRegion / "
        "VirtualNgon must be a simple polygon equal to the harness's own order by angle around the centre",
        "totality is PROVED for the ten nominal layouts at model level over the reals (panner_total_layouts): the sphere-coverage "
        "certificate Gen/C05_Cover.lean (cells = vertex triples / coplanar quadruples of the real regions, neighbours, orientation) "
        "and the quad sign certificate are regenerated from configure() on every run and re-decided by the kernel; quad pan values "
        "are selected by the closed form GainCalc.quadRoot (np.roots + scan; LAPACK's eigenvalue order is an assumption of that "
        "model, tied by C01's correspondence)",
        "exactness at a loudspeaker of the COMPOSED panner is PROVED for the ten nominal layouts at model level over the reals "
        "(pspHandle_exact_at_speaker_layouts: at the table position of loudspeaker k - layout.norm_positions[k], binary64-exact - "
        "the modelled configure(layout).handle returns exactly e_k; 0+2+0: M+030 -> left only, M-030 -> right only); the per-"
        "loudspeaker certificate Gen/C05_Exact.lean (first region containing k, root intervals for the earlier QuadRegions) is "
        "regenerated from configure() on every run and re-decided by the kernel (exact_tables_ok); the real panner is evaluated "
        "at every loudspeaker position of the ten nominal layouts on every run (measured: bitwise e_k or within 1e-15)",
        "layer separation: the layers are read off the table positions (z < 0: lower, z > 0: upper; checked on every run to be "
        "the split by nominal elevation < -10 / > 10 degrees); PROVED with slack 3e-11 (three times the 1e-11 acceptance "
        "tolerance of Triplet.handle; directions of any length): lower clause without hypothesis "
        "(layer_separation_lower_layouts), upper clause under the hypothesis Cover.QuadsZeroFar that every QuadRegion with an "
        "upper-layer corner, asked for a direction below the plane, answers None OR gives its upper-layer corners the weight "
        "exactly 0 (layer_separation_upper_layouts_partial; without hypothesis for 3+7+0, layer_separation_upper_noquad). The "
        "quads do NOT always answer None there: for p.z between about -1e-10 and -3e-11 the vertical pan root is still inside "
        "pan_axis' window, is clipped to 0 and the quad accepts with upper gains exactly 0.0 (instance proved as an example "
        "on 4+5+0; the real panner does the same). Sampled on the real panner with z offsets 3.1e-11 .. 2 (gains must be "
        "exactly 0.0); both conclusions also state that the answer has one entry per loudspeaker",
        "NOT proved: totality / exactness on real (non-nominal) positions, side dominance, the QuadRegion step of the upper-"
        "layer clause, symmetry of the composed panner, anything about rounding - watched by the search",
    )
    rule = (
        "a case is one (layout, direction) evaluated on the real panner (search) or one (region object | wrapper | whole panner, "
        "direction) compared between the real code and the Lean model (correspondence); directions: Fibonacci sphere, all "
        "vertex pairs of all regions as great-circle arcs with offsets 0, +-1e-12..1e-3 rad across, vertices, loudspeakers, "
        "poles, horizontal plane; layouts: ten nominal + seeded admissible symmetric real layouts + fixed boundary-valued catalogue (positions exactly "
        "on the inclusive ends of the permitted ranges) + fixed asymmetric catalogue; "
        "non-trivial = direction within 1e-3 rad of a region boundary, vertex or pole"
    )

    # ---- T ----
    def extract(self, ctx):
        text = tables_text()
        changed = write_if_changed(os.path.join(common.GEN, "C05_Tables.lean"), text)
        ctx.count("tables:regenerated" if changed else "tables:unchanged")
        ctx.notes.append("Gen/C05_Tables.lean: %d bytes, %d region definitions" % (len(text), text.count(": RawRegion")))
        # An exception other than CoverError / ExactError (those are handled inside and give empty certificates for the
        # layout / loudspeaker concerned) must not leave an OLD certificate file beside the NEW table: write certificates
        # that are empty for every layout (the kernel checks cover_tables_ok / exact_tables_ok then fail) and re-raise.
        try:
            self.extract_cover(ctx)
        except Exception:
            write_if_changed(os.path.join(common.GEN, "C05_Cover.lean"),
                             c05_cover.lean_text(LAYOUT_NAMES, [None] * len(LAYOUT_NAMES), 0))
            raise
        try:
            self.extract_exact(ctx)
        except Exception:
            write_if_changed(os.path.join(common.GEN, "C05_Exact.lean"),
                             c05_exact.lean_text(LAYOUT_NAMES, [[] for _ in LAYOUT_NAMES]))
            raise

    def extract_exact(self, ctx):
        """Exactness-at-loudspeaker certificate (Gen/C05_Exact.lean) and the layer-separation side conditions from the real
        configured panners, exact arithmetic (harness/c05_exact.py).  Nothing is patched: a loudspeaker whose position an
        earlier region does not provably reject (or whose own region does not provably answer e_k) gets an empty
        certificate - the kernel check `exact_tables_ok` then fails too - and a broken obligation naming layout,
        loudspeaker and region; `_exact_selftest` then evaluates the real panner there and reports the gains."""
        pans = [Pan(name, name) for name in LAYOUT_NAMES]
        K = c05_cover.scale_exponent([p.regions for p in pans])
        certs = []
        self._exact_failed = []
        for pan in pans:
            D = np.asarray(pan.dm.downmix, dtype=float)
            nspk = 2 if pan.stereo else D.shape[0]
            names = pan.layout.channel_names
            cs, bad = [], []
            for k in range(nspk):
                try:
                    cs.append(c05_exact.speaker_cert(pan.regions, K, k, D))
                except c05_exact.ExactError as e:
                    cs.append(None)
                    bad.append("%s: %s %s" % (names[k], e.what, json.dumps(e.detail, default=str)[:400]))
                    self._exact_failed.append((pan.name, k))
            certs.append(cs)
            nq = sum(1 for c in cs if c for h in c["hints"] if h != c05_exact.DEFAULT_HINT)
            ctx.obligation("exact-certificate:" + pan.name, not bad,
                           "; ".join(bad[:3]) if bad else "%d loudspeakers, %d earlier regions rejected (%d QuadRegions by root intervals)" % (
                               nspk, sum(c["region"] for c in cs), nq))
            ctx.count("exact|earlier-regions|" + pan.name, sum(c["region"] for c in cs if c))
            # layers: the table's split by the sign of z must be the split by nominal elevation
            if not pan.stereo:
                nel = [c.polar_nominal_position.elevation for c in pan.layout.channels]
                want_lo = [i for i, e in enumerate(nel) if e < -10]
                want_up = [i for i, e in enumerate(nel) if e > 10]
                lo = c05_exact.layer_rows(pan.regions, D.shape[0], False)
                up = c05_exact.layer_rows(pan.regions, D.shape[0], True)
                ctx.obligation("layer-rows:" + pan.name, lo == want_lo and up == want_up,
                               "lower %s upper %s" % ([names[i] for i in lo], [names[i] for i in up]) if lo == want_lo and up == want_up else
                               "table positions give lower %s upper %s, nominal elevations give lower %s upper %s" % (lo, up, want_lo, want_up))
                plo, _ = c05_exact.layer_problem(pan.regions, D, K, lo, False, False)
                pup, quads = c05_exact.layer_problem(pan.regions, D, K, up, True, True)
                ctx.obligation("layer-lower:" + pan.name, plo is None,
                               "%d lower-layer loudspeakers; every region feeding one has all vertices at z <= 0" % len(lo) if plo is None
                               else "%s %s" % (plo[0], json.dumps(plo[1])))
                ctx.obligation("layer-upper:" + pan.name, pup is None,
                               "%d upper-layer loudspeakers; every Triplet/VirtualNgon feeding one has all vertices at z >= 0; %d QuadRegions "
                               "(hypothesis QuadsZeroFar of layer_separation_upper_layouts_partial: None or weight 0 on the upper corners)" % (len(up), len(quads)) if pup is None
                               else "%s %s" % (pup[0], json.dumps(pup[1])))
                ctx.count("layer|upper-quads|" + pan.name, len(quads))
        text = c05_exact.lean_text(LAYOUT_NAMES, certs)
        changed = write_if_changed(os.path.join(common.GEN, "C05_Exact.lean"), text)
        ctx.count("exact-certificate:regenerated" if changed else "exact-certificate:unchanged")
        ctx.notes.append("Gen/C05_Exact.lean: %d bytes, %d loudspeakers" % (len(text), sum(len(c) for c in certs)))

    def extract_cover(self, ctx):
        """Sphere-coverage certificate (Gen/C05_Cover.lean) from the real configured panners, exact arithmetic.  A hole, a
        non-convex edge or a degenerate cell is NOT patched: the layout gets an empty certificate (so the kernel check
        `cover_tables_ok` fails too) and a broken obligation that says what is wrong; the search then runs deep."""
        pans = [Pan(name, name) for name in LAYOUT_NAMES]
        certs = []
        for pan in pans:
            try:
                cert = c05_cover.build(pan.regions)
                used = {c.region for c in cert["cells"]}
                if used != set(range(len(pan.regions))):
                    raise c05_cover.CoverError("a region of the configured panner has no cell", {"regions_without_cell": sorted(set(range(len(pan.regions))) - used)})
                certs.append(cert)
                ctx.obligation("cover-certificate:" + pan.name, True, "%d cells (%d coplanar quads), closed, strictly convex, origin inside" % (
                    len(cert["cells"]), sum(1 for c in cert["cells"] if len(c.vs) == 4)))
                ctx.count("cover|cells|" + pan.name, len(cert["cells"]))
            except c05_cover.CoverError as e:
                certs.append(None)
                ctx.obligation("cover-certificate:" + pan.name, False,
                               "the regions of configure(%s) do not form a closed convex surface around the origin: %s %s"
                               % (pan.name, e.what, json.dumps(e.detail, default=str)[:600]))
            bad = [(k, c05_cover.quad_signs_problem(r)) for k, r in enumerate(pan.regions) if region_kind(r) == "QuadRegion"]
            bad = [(k, why) for k, why in bad if why]
            ctx.obligation("quad-sign-certificate:" + pan.name, not bad,
                           "; ".join("region %d: %s" % b for b in bad[:4]) if bad else
                           "%d QuadRegions" % sum(1 for r in pan.regions if region_kind(r) == "QuadRegion"))
        K = c05_cover.scale_exponent([p.regions for p in pans])
        text = c05_cover.lean_text(LAYOUT_NAMES, certs, K)
        changed = write_if_changed(os.path.join(common.GEN, "C05_Cover.lean"), text)
        ctx.count("cover-certificate:regenerated" if changed else "cover-certificate:unchanged")
        ctx.notes.append("Gen/C05_Cover.lean: %d bytes, %d cells, scale 2^%d" % (len(text), sum(len(c["cells"]) for c in certs if c), K))

    # ---- C ----
    def layouts_for_run(self, ctx, n_real):
        """(lid, name, real, nominal) for the nominal layouts + n_real seeded admissible real layouts."""
        out = [(n, n, None, True) for n in LAYOUT_NAMES]
        free = [n for n in LAYOUT_NAMES if has_free_ranges(n)]
        for i in range(n_real):
            name = free[i % len(free)]
            real = gen_real(name, ctx.rng, symmetric=True)
            if real is not None:
                out.append(("%s#gen%d.%d" % (name, ctx.seed, i), name, real, False))
        return out

    def correspond(self, ctx):
        driver = Driver("c05driver", "Earverif.Driver.C05")
        rng = ctx.rng
        n_real = 4 if ctx.quick else 16
        per_region = 10 if ctx.quick else 40
        per_panner = 250 if ctx.quick else 2000
        lines, metas = [], []

        def add(line, what, inp, impl, amb, key, tol=TOL):
            lines.append(line)
            metas.append((what, inp, impl, amb, key, tol))

        pans = []
        for lid, name, real, nominal in self.layouts_for_run(ctx, n_real):
            try:
                pans.append(Pan(lid, name, real, nominal))
            except Exception as e:
                ctx.hit("configure(layout) raised for an admissible layout", {"layout": name, "id": lid, "real_positions": real}, {"exception": repr(e)})
        for pan in pans:
            tagl = pan.name if pan.real is None else pan.name + "/real"
            # 1. single region handlers
            for k, r in enumerate(pan.regions):
                kind = region_kind(r)
                vs = region_vertices(r)
                dirs = [("vertex", unit(v)) for v in vs]
                for _ in range(per_region):
                    i, j = rng.sample(range(len(vs)), 2)
                    if np.linalg.norm(np.cross(vs[i], vs[j])) < 1e-6:
                        continue
                    t = rng.choice([0.0, 1.0, rng.random(), rng.random()])
                    d = rng.choice([0.0, 0.0, 1e-9, -1e-9, 1e-6, -1e-6, 1e-3, -1e-3])
                    dirs.append((off_class(d), edge_point(vs[i], vs[j], t, d)))
                for _ in range(max(3, per_region // 3)):
                    w = np.array([rng.random() for _ in vs])
                    dirs.append(("inside", unit(w.dot(np.array(vs)))))
                    dirs.append(("random", unit([rng.gauss(0, 1) for _ in range(3)])))
                for cls, p in dirs:
                    roots = quad_roots(r, p) if kind == "QuadRegion" else None
                    impl = _call(r.handle, p)
                    add(region_line(r, p, roots), kind + ".handle", {"layout": pan.spec(), "region": k, "direction": p.tolist(), "roots": roots},
                        _lst(impl), ambiguous(r, p), "%s|%s|%s" % (tagl, kind, class_group(cls)))
                    if kind == "QuadRegion" and roots[0] is not None and roots[1] is not None:
                        # the modelled quadratic must vanish at the root the real code selected
                        add("qpoly %s %s %s" % (" ".join(str(int(o)) for o in r.order), ftoks(r.positions), ftoks(p)), "QuadRegion.pan_axis polynomial",
                            {"layout": pan.spec(), "region": k, "direction": p.tolist(), "roots": roots}, ("poly", roots), False, "%s|QuadPoly|%s" % (tagl, class_group(cls)))
            # 2. wrappers and the whole panner
            n_w = per_panner
            stream = []
            for cls, kind, p in direction_stream(pan, rng, n_w, max(50, n_w // 3)):
                stream.append((cls, kind, p))
            if len(stream) > n_w:
                stream = rng.sample(stream, n_w)
            D = np.asarray(pan.dm.downmix, dtype=float)
            for cls, kind, p in stream:
                inner = _call(pan.inner.handle, p)
                dmres = _call(pan.dm.handle, p)
                amb = any(ambiguous(r, p) for r in pan.regions)
                if cls in ("fibonacci", "vertex") or rng.random() < 0.2:
                    add("dmix %d %d %s %s" % (D.shape[0], D.shape[1], ftoks(D), "N" if inner is None else ftoks(inner)),
                        "PointSourcePannerDownmix.handle", {"layout": pan.spec(), "direction": p.tolist()}, _lst(dmres), False, "%s|Downmix|%s" % (tagl, class_group(cls)))
                if pan.stereo and dmres is not None:
                    add("stereo %s" % ftoks(dmres), "StereoPanDownmix.handle", {"layout": pan.spec(), "direction": p.tolist()},
                        _lst(_call(pan.stereo_obj.handle, p)), False, "%s|Stereo|%s" % (tagl, class_group(cls)))
                if pan.real is None:
                    roots = [(k, quad_roots(r, p)) for k, r in enumerate(pan.regions) if region_kind(r) == "QuadRegion"]
                    add("layout %s %s %d %s" % (pan.name, ftoks(p), len(roots), " ".join("%d %s %s" % (k, ftok(x), ftok(y)) for k, (x, y) in roots)),
                        "configure(layout).handle via Gen/C05_Tables", {"layout": pan.spec(), "direction": p.tolist()},
                        _lst(_call(pan.handle, p)), amb, "%s|Panner|%s" % (tagl, class_group(cls)))
            # 3. extra_pos_vertical_nominal decision logic
            if not pan.stereo:
                lay = pan.ps._set_screen_speaker_nominal_positions(pan.layout)
                extra, dmx = pan.ps.extra_pos_vertical_nominal(lay)
                nch = len(lay.channels)
                nom = [(c.polar_nominal_position.azimuth, c.polar_nominal_position.elevation) for c in lay.channels]
                for (lel, lb, ub) in ((-30.0, -70.0, -10.0), (30.0, 10.0, 70.0)):
                    want = [int(np.argmax(dmx[:, nch + i])) for i, c in enumerate(extra) if c.polar_nominal_position.elevation == lel]
                    add("extra %s %s %d %s" % (ftok(lb), ftok(ub), nch, " ".join("%s %s" % (ftok(a), ftok(e)) for a, e in nom)),
                        "extra_pos_vertical_nominal", {"layout": pan.spec(), "layer": lel}, ("idx", want), False, "%s|Extra|layer%+d" % (tagl, int(lel)))
            # 3b. the Lean model (Float) against the real panner AT every loudspeaker position of the nominal layouts
            #     (the points of pspHandle_exact_at_speaker_layouts; the direction stream above is subsampled)
            if pan.real is None:
                for k, pos in enumerate(c05_exact.speaker_positions(pan.regions, 2 if pan.stereo else pan.n)):
                    if pos is None:
                        continue
                    p = np.array(pos, dtype=float)
                    roots = [(ri, quad_roots(r, p)) for ri, r in enumerate(pan.regions) if region_kind(r) == "QuadRegion"]
                    add("layout %s %s %d %s" % (pan.name, ftoks(p), len(roots), " ".join("%d %s %s" % (ri, ftok(x), ftok(y)) for ri, (x, y) in roots)),
                        "configure(layout).handle via Gen/C05_Tables at a loudspeaker position", {"layout": pan.spec(), "channel": k, "direction": p.tolist()},
                        _lst(_call(pan.handle, p)), any(ambiguous(r, p) for r in pan.regions), "%s|Panner|vertex-loudspeaker" % tagl)
        # 4. coverage self-test on the real objects (nominal and generated real layouts)
        for pan in pans:
            self._cover_selftest(ctx, pan, pan.name if pan.real is None else pan.name + "/real")
        # 5. exactness / layer-separation self-test on the real nominal panners
        for pan in pans:
            if pan.real is None:
                self._exact_selftest(ctx, pan)
        outs = driver.run(lines)
        for line, out, (what, inp, impl, amb, key, tol) in zip(lines, outs, metas):
            ctx.count("corr|" + key)
            nontriv = "edge" in key or "vertex" in key or "pole" in key or "Extra" in key
            if isinstance(impl, tuple) and impl[0] == "idx":
                model = [int(t) for t in out.split()[1:]] if out.startswith("idx") else out
                ok = model == impl[1]
                impl_c = impl[1]
            elif isinstance(impl, tuple) and impl[0] == "poly":
                co = parse_bits(out)
                model, impl_c = _lst(co), list(impl[1])
                if isinstance(co, str) or co is None:
                    ok = False
                else:
                    x, y = impl[1]
                    ok = True
                    for (a, b, c), r in ((co[0:3], x), (co[3:6], y)):
                        scale = abs(a) + abs(b) + abs(c)
                        # residual of the quadratic at the selected root, allowing for the root tolerance 1e-10 and clipping
                        if abs(a * r * r + b * r + c) > 1e-8 * max(scale, 1e-300) + 1e-13:
                            ok = False
            else:
                model = parse_bits(out)
                ok = close(model, impl, tol)
                impl_c = impl
                model = _lst(model)
            ctx.case((what, line), nontriv, sample={"what": what, "input": inp, "impl": impl_c} if nontriv else None)
            if ok:
                ctx.validated()
            elif amb:
                ctx.count("corr|threshold-ambiguous (accept/reject within rounding of -1e-11 / 0; not compared)")
            else:
                ctx.disagree(what, inp, model, impl_c)
                if len(ctx.broken) > 30:
                    break
        # a small budget of the direct predicate runs here too
        self._search(ctx, budget=8000 if ctx.quick else 20000, n_real=2)

    def _exact_selftest(self, ctx, pan):
        """Tie of `pspHandle_exact_at_speaker_layouts` / `layer_separation_*_layouts` to the real panner (own RNG, so that
        the stream of ctx.rng is unchanged): (a) the table position of loudspeaker k (its position in the first region that
        has it) is layout.norm_positions[k] bit for bit; (b) the real panner there returns e_k - floats leave residues of
        ~1e-16, so: above 1e-12 a disagreement with the theorem, above 1e-9 a violation of the property; (c) for sampled
        directions with z > 3e-11 (z < -3e-11) the gains of the lower-layer (upper-layer) loudspeakers are EXACTLY 0.0."""
        rng = random.Random("c05-exact/%d/%s" % (ctx.seed, pan.name))
        names = pan.layout.channel_names
        table = c05_exact.speaker_positions(pan.regions, pan.n if not pan.stereo else 5)
        if pan.stereo:
            outs = [pan.stereo_obj.left_channel, pan.stereo_obj.right_channel]
            inner_names = ["M+030", "M-030"]
            ok_names = [names[outs[0]] == "M+030", names[outs[1]] == "M-030"]
            if not all(ok_names):
                ctx.broken.append("exact self-test 0+2+0: left/right channels of the stereo wrapper are not M+030/M-030: %s" % names)
        else:
            outs = list(range(pan.n))
            inner_names = names
        for k, out_idx in enumerate(outs):
            pos = table[k]
            inp = {"layout": pan.spec(), "channel": inner_names[k], "direction": None if pos is None else [repr(x) for x in pos]}
            ctx.count("exact-selftest|%s" % pan.name)
            ctx.case(("exact", pan.lid, k), True, sample={"what": "panner at a loudspeaker position", "input": inp} if k == 0 else None)
            if pos is None or [float(x) for x in pan.positions[out_idx]] != pos:
                ctx.disagree("table position of a loudspeaker is not layout.norm_positions", inp, pos,
                             [float(x) for x in pan.positions[out_idx]])
                continue
            g = _call(pan.handle, pos)
            e = np.zeros(pan.n)
            e[out_idx] = 1.0
            if g is None:
                ctx.hit("no result (None) for a direction", dict(inp, boundary_class="loudspeaker"), {}, ())
                continue
            dev = float(np.max(np.abs(np.asarray(g, dtype=float) - e)))
            ctx.count("exact-selftest|bitwise e_k" if dev == 0.0 else "exact-selftest|e_k within 1e-15" if dev <= 1e-15 else "exact-selftest|e_k within 1e-12"
                      if dev <= 1e-12 else "exact-selftest|NOT e_k")
            if dev > TOL:
                first = next((ri for ri, r in enumerate(pan.regions) if _call(r.handle, pos) is not None), None)
                ctx.hit("source at a loudspeaker position excites other loudspeakers", dict(inp, boundary_class="loudspeaker"),
                        {"channel": inner_names[k], "gains": [float(x) for x in g], "first_accepting_region": first,
                         "its_output_channels": None if first is None else [int(c) for c in pan.regions[first].output_channels]},
                        ("exact-at-loudspeaker",))
            elif dev > 1e-12:
                ctx.disagree("panner at a loudspeaker position (model theorem: exactly e_k)", inp, e.tolist(), [float(x) for x in g])
            else:
                ctx.validated()
        if pan.stereo:
            return
        lower, upper = np.where(pan.lower)[0], np.where(pan.upper)[0]
        if len(lower) == 0 and len(upper) == 0:
            return
        offs = [3.1e-11, 1e-10, 1e-9, 1e-6, 1e-3, 0.1, 0.5, 2.0]
        for i in range(24 if ctx.quick else 200):
            az = rng.uniform(-180, 180) if i % 3 else rng.choice([0.0, 30.0, -30.0, 45.0, -45.0, 90.0, -90.0, 110.0, -110.0, 135.0, -135.0, 180.0])
            for sgn, rows, what in ((1.0, lower, "above"), (-1.0, upper, "below")):
                if len(rows) == 0:
                    continue
                z = rng.choice(offs)
                h = cart(az, 0.0)
                p = np.array([h[0], h[1], sgn * z])
                if rng.random() < 0.5:
                    p = unit(p)
                    if not abs(p[2]) > 3.05e-11:
                        continue
                g = _call(pan.handle, p)
                ctx.count("layer-selftest|%s|%s" % (pan.name, what))
                ctx.case(("layer", pan.lid, tuple(float(x) for x in p)), z <= 1e-6)
                if g is None:
                    continue  # totality is reported by the search predicate
                g = np.asarray(g, dtype=float)
                inp = {"layout": pan.spec(), "direction": [repr(float(x)) for x in p]}
                if np.any(g[rows] > TOL):
                    ctx.hit("source %s the horizontal plane excites a %s-layer loudspeaker" % (what, "lower" if sgn > 0 else "upper"),
                            dict(inp, boundary_class="horizontal~off"), {"gains": g.tolist()}, ("layer-separation",))
                elif np.any(g[rows] != 0.0):
                    ctx.disagree("layer separation (model theorem: exactly 0 beyond 3e-11)", inp, 0.0, g[rows].tolist())
                else:
                    ctx.validated()

    def _cover_selftest(self, ctx, pan, tagl):
        """Tie of the coverage certificate to the real objects: (a) the cell list is made of the real regions' own
        vertices and every real region has a cell; (b) the theorem's claim "a direction in the vertex cone of a cell is
        accepted by that cell's region" is tried on the real region objects (interior samples) and "the panner answers"
        on the whole real panner (interior, vertex and edge samples).  On real (non-nominal) layouts the flat cells need
        not form a convex surface, so only (a)/(b) are run there and whether the surface certifies is just counted."""
        try:
            cells = c05_cover.cells_of_regions(pan.regions)
        except c05_cover.CoverError as e:
            ctx.broken.append("cover self-test %s: %s %s" % (pan.lid, e.what, json.dumps(e.detail, default=str)[:300]))
            return
        missing = sorted(set(range(len(pan.regions))) - {c.region for c in cells})
        if missing:
            ctx.broken.append("cover self-test %s: regions without a cell: %s" % (pan.lid, missing))
        if pan.real is not None:
            try:
                c05_cover.connect(cells)
                ctx.count("cover-selftest|%s|flat surface certifies" % tagl)
            except c05_cover.CoverError as e:
                ctx.count("cover-selftest|%s|flat surface does not certify (%s)" % (tagl, e.what[:40]))
        for ci, cell in enumerate(cells):
            r = pan.regions[cell.region]
            kind = region_kind(r)
            for cls, p in c05_cover.sample_directions(cell, ctx.rng, 1 if ctx.quick else 4):
                inp = {"layout": pan.spec(), "region": cell.region, "region_kind": kind, "cell_vertex_slots": cell.vs,
                       "direction": [repr(float(x)) for x in p], "sample": cls}
                ctx.count("cover-selftest|%s|%s|%s" % (tagl, kind, cls))
                ctx.case(("cover", pan.lid, ci, cls, tuple(float(x) for x in p)), cls != "interior")
                whole = _call(pan.handle, p)
                if whole is None:
                    ctx.hit("no result (None) for a direction inside the vertex cone of a region", inp, {}, ())
                    continue
                if cls in ("centroid", "interior"):
                    own = _call(r.handle, p)
                    if own is None and not ambiguous(r, p):
                        ctx.disagree("region rejects a direction strictly inside its own vertex cone (model theorem: accepts)",
                                     inp, "some", None)
                        continue
                ctx.validated()

    # ---- S ----
    def _search(self, ctx, budget, n_real, catalogue=False):
        tasks = []
        fib = max(200, budget // (6 * (len(LAYOUT_NAMES) + n_real)))
        per = max(500, budget // (len(LAYOUT_NAMES) + n_real + (8 if catalogue else 0)))
        for lid, name, real, nominal in self.layouts_for_run(ctx, n_real):
            tasks.append((lid, name, real, nominal, "%s/%d/%s/%d" % (ctx.tier, ctx.seed, lid, ctx.rng.randrange(1 << 30)), per, fib, None))
        if catalogue:
            for lid, name, real in real_catalogue():
                tasks.append((lid, name, real, False, "%s/%d/%s" % (ctx.tier, ctx.seed, lid), per // 2, fib // 2, None))
            for lid, name, real in asym_catalogue():
                tasks.append((lid, name, real, False, "%s/%d/%s" % (ctx.tier, ctx.seed, lid), per // 2, fib // 2, "asymmetric-catalogue:" + lid))
            # positions exactly on the inclusive ends of the permitted ranges (inside the quantifier: failures here
            # are violations; the tag only makes them easy to recognise)
            for lid, name, real in boundary_for_run(ctx, 16 if ctx.quick else None):
                tasks.append((lid, name, real, False, "%s/%d/%s" % (ctx.tier, ctx.seed, lid), max(1500, per // 4), max(100, fib // 4), "boundary-layout:" + lid))
            # corner layouts: all of them get the structural check + loudspeaker/vertex directions (budget 0), a seeded
            # sample (all in the thorough tier) gets the full direction search
            csym, casym = corner_catalogue()
            full = None if not ctx.quick else ({c[0] for c in ctx.rng.sample(csym, min(8, len(csym))) + ctx.rng.sample(casym, min(12, len(casym)))}
                                               | failing_catalogue_ids("C05"))
            for fam, tag in ((csym, "boundary-layout:"), (casym, "asymmetric-catalogue:")):
                for lid, name, real in fam:
                    b = max(1500, per // (4 if ctx.quick else 6)) if full is None or lid in full else 0
                    tasks.append((lid, name, real, False, "%s/%d/%s" % (ctx.tier, ctx.seed, lid), b, max(100, fib // 4), tag + lid))
        for lid, calls, counts, hits, samples in run_pool(tasks, _search_task):
            for k, v in counts.items():
                ctx.count("search|" + k, v)
            ctx.cov["evaluations"] += calls
            ctx.count("search-handle-calls|" + lid.split("#")[0], calls)
            for s in samples:
                ctx.case(("search", lid, tuple(s["direction"])), True, sample=s)
            for h in hits:
                ctx.hit(h["what"], h["input"], h["detail"], h["tags"])

    def _reuse_probe(self, ctx):
        """One configured panner called repeatedly: (a) with ONE position buffer overwritten in place between calls (what a
        caller streaming directions through a preallocated array does), (b) keeping every returned gain vector and re-reading
        it after all later calls.  `handle` must be a function of the direction's VALUE alone and must hand out arrays that
        later calls leave alone: compared with a fresh panner / fresh arrays.  Deterministic (no rng): loudspeaker positions
        and a fixed Fibonacci set, forwards and backwards, on four layouts."""
        for name in ("0+2+0", "0+5+0", "4+5+0", "9+10+3"):
            shared = Pan(name, name)
            fresh = Pan(name, name)
            dirs = [np.array(v, dtype=float) for v in shared.positions] + [np.array(v) for v in fibonacci(24)]
            dirs = dirs + dirs[::-1]
            buf = np.zeros(3)
            kept = []
            for i, d in enumerate(dirs):
                buf[:] = d
                got = shared.handle(buf)
                want = fresh.handle(np.array(d, copy=True))
                ctx.count("reuse-probe:calls")
                if (got is None) != (want is None) or (got is not None and not np.allclose(got, want, rtol=0, atol=1e-12)):
                    ctx.hit("handle depends on earlier calls: a position buffer overwritten in place gives the gains of an "
                            "earlier direction", dict(layout=name, call_index=i, direction=[float(x) for x in d],
                                                      previous_direction=[float(x) for x in dirs[i - 1]] if i else None),
                            dict(got=None if got is None else [float(x) for x in got],
                                 fresh=None if want is None else [float(x) for x in want]), ["position-buffer-reuse"])
                    break
                if got is not None:
                    kept.append((got, np.array(got, copy=True), i))
            for arr, snap, i in kept:
                if not np.array_equal(arr, snap):
                    ctx.hit("a gain vector returned by handle changed under later calls", dict(layout=name, call_index=i),
                            dict(when_returned=[float(x) for x in snap], later=[float(x) for x in arr]),
                            ["returned-gains-aliased"])
                    break

    def search(self, ctx, deep):
        self._reuse_probe(ctx)
        if deep:
            self._search(ctx, budget=5000000 if not ctx.quick else 600000, n_real=60 if not ctx.quick else 20, catalogue=True)
        else:
            self._search(ctx, budget=90000, n_real=8, catalogue=True)


SPEC = C05()

REGISTRY = dict(
    text="PARTIAL: Lean theorems over the reals, for every loudspeaker position and direction (Earverif.PointSource."
    "triplet_nonneg, triplet_norm_le_one, triplet_unit_of_strict, triplet_of_comb, triplet_exact_at_vertex, triplet_mirror, "
    "ngon_nonneg_unit, quad_nonneg_unit, quad_corner, first_accept_inherits, first_accept_none_iff, panner_inherits, panner_none_iff, downmix_nonneg_unit, stereo_level, extra_mem_iff, "
    "extra_all_mid_of_empty_layer, extra_margin, extra_sorted; conjunction C05_partial) prove that every region handler and wrapper of the point-source panner returns non-negative "
    "gains of unit power (0+2+0: between -3 dB and 0 dB), is exact at a vertex, is mirror-invariant, and that the panner "
    "inherits these from the first accepting region and returns no result iff every region rejects; table obligations "
    "(tables_wellFormed, decide +kernel) on the region tables regenerated from configure() for the ten nominal layouts. "
    "TOTALITY (never 'no result') is now proved for the ten nominal layouts at the level of the model over the reals: "
    "Cover.cover_of_cells (a closed, locally strictly convex cell complex around the origin covers every direction by its vertex "
    "cones), cover_tables_ok (the certificate regenerated from the real configured panner - cells, neighbours, orientation, exact "
    "binary64 coordinates - passes the checker, decide +kernel), Cover.cover_of_cert / cover_layouts (every direction is a "
    "non-negative combination of three independent vertices of one region), Cover.panner_total_of_cert (Triplet and VirtualNgon "
    "accept on their cones; first-accept, downmix and stereo wrappers pass a result on), quad_tables_ok + Cover.quad_accepts / "
    "quad_accepts_layouts (a QuadRegion accepts on the cone of its corners: its quadratics have an exact root in [0,1] which the "
    "closed-form root selection GainCalc.quadRoot returns, and the final sign test passes), panner_total_layouts / "
    "pspHandle_total_layouts (the modelled configure(layout).handle never answers none for a non-zero direction); "
    "panner_total_layouts_partial is the same for any root selection under the hypothesis Cover.QuadAcceptsOnCone. "
    "EXACTNESS AT A LOUDSPEAKER of the COMPOSED panner is proved for the ten nominal layouts (model level, reals): "
    "pspHandle_exact_at_speaker_layouts / panner_exact_at_speaker_layouts - at the table position of every loudspeaker k "
    "(= layout.norm_positions[k], binary64-exact) the modelled configure(layout).handle returns exactly e_k (0+2+0 through the "
    "stereo wrapper: M+030 -> left only, M-030 -> right only): exact_tables_ok (decide +kernel on the certificate Gen/C05_Exact.lean "
    "regenerated from configure() on every run: every region tried before the first one that contains k rejects k's position "
    "with the code's own tolerances - a Cramer component of p.P^-1 below -1e-11 for Triplets and the inner triplets of a "
    "VirtualNgon; for QuadRegions sign conditions showing that a pan quadratic has no root in (-1e-10, 1+1e-10), or that all its "
    "roots there lie in a rational interval on whose clipped box the final bilinear sign test fails - and the first region "
    "containing k answers e_k; the downmix column of k is e_k) + soundness of the checker (Cover.quadRoot_mem, Cover.quadRoot_none, "
    "Cover.quadRoot_exact: the converse directions of roots_in_unit_pos / quadRoot_of_unit_root including quadRoot's degenerate and "
    "complex branches; Cover.regionRejects_sound, Cover.regionExact_sound, Cover.spkOk_sound, Cover.exactLayoutOk_sound). "
    "LAYER SEPARATION of the composed panner, layers read off the table (z < 0 lower, z > 0 upper): layer_tables_ok (decide "
    "+kernel: every region with a channel feeding a lower-layer loudspeaker - directly or through a downmixed virtual "
    "loudspeaker - is a Triplet/VirtualNgon with independent positions all at z in [-1, 0]; for the upper layer such a region "
    "with z in [0, 1] or a QuadRegion), layer_separation_lower_layouts (NO hypothesis: p.z > 3e-11 => every lower-layer "
    "loudspeaker gets exactly 0; B+000, B+-045 on 4+5+1 and 9+10+3), layer_separation_upper_layouts_partial (p.z < -3e-11 => "
    "upper-layer loudspeakers get exactly 0 under the hypothesis Cover.QuadsZeroFar: every QuadRegion with an upper-layer corner, "
    "asked for such a direction, answers None OR gives its upper-layer corners the weight exactly 0 - a quad finds pan values "
    "on the antipodal cone too and rejects it only by its final sign test, and for p.z between about -1e-10 and -3e-11 the "
    "vertical pan root is still inside pan_axis' window (-1e-10, 1+1e-10), is clipped to 0 and the quad ACCEPTS with weight "
    "exactly 0 on the upper corners; an instance of the hypothesis is proved as an example (4+5+0, rear mid/upper quad, "
    "direction (0, -2^34, -1): Cover.quadAxisOk + AxisIn.eq_zero); the hypothesis itself - a statement about the roots of the "
    "two quadratics at a general direction incl. np.roots' nearly-real complex pairs - is NOT proved), both with the "
    "conclusion out.length = nReal and out[k] = 0, layer_separation_upper_noquad (no hypothesis when no QuadRegion has an upper-layer corner: 3+7+0). "
    "NOT proved (searched on the real code): totality and exactness on real (non-nominal) positions, side dominance, the "
    "QuadRegion step of the upper-layer clause, symmetry of the composed panner; rounding; that np.roots lists the roots in "
    "the order GainCalc.quadRoot assumes.",
    note="Trusted: Lean kernel, hand transliteration of point_source.py tied by Float correspondence on every region object, "
    "wrapper and whole nominal panner; np.linalg.inv / np.roots / ngon_vertex_order / Qhull are parameters or extracted data "
    "(np.roots: closed form GainCalc.quadRoot in the totality theorem). The coverage and quad-sign certificates are generated by "
    "harness/c05_cover.py in exact rational arithmetic from the real region objects, never patched (a hole, a non-convex edge or "
    "a degenerate cell is reported as a broken obligation and leaves an empty certificate so that the kernel check fails too), "
    "and self-tested: every real region has a cell, the real regions / the real panner accept sample directions inside every cell. "
    "The exactness certificate (harness/c05_exact.py) is handled the same way: a loudspeaker whose position an earlier region does "
    "not provably reject gets an empty certificate and a broken obligation naming layout, loudspeaker and region; on every run the "
    "real panner is evaluated at every loudspeaker position of the ten nominal layouts (table position = layout.norm_positions "
    "bit for bit; result e_k bitwise or within 1e-15; above 1e-12 a disagreement, above 1e-9 a violation with the first accepting "
    "region named) and on directions 3.1e-11 .. 2 above / below the horizontal plane (lower / upper gains exactly 0.0). "
    "Search: Fibonacci sphere + every region edge arc with offsets 1e-12..1e-3 + vertices + poles + horizontal plane on nominal, "
    "generated admissible symmetric real layouts, a fixed catalogue of boundary-valued real layouts (every channel at each "
    "inclusive end of its az/el range, screen loudspeakers at exactly 5/25/35/60 degrees and one ulp inside) and a fixed "
    "asymmetric catalogue.",
    technique="Lean 4 algebraic proofs over the reals on a scalar-polymorphic model + regenerated region tables and regenerated "
    "geometric certificates (exact integer arithmetic, decide +kernel) + differential correspondence with the real region objects "
    "+ boundary-directed search of the property on the real panner",
    design_ref="DESIGN.md section 4, C05",
)
