/- C01: the `allo_extent.get_gains` skeleton (everything after the per-axis weights) is non-negative and has unit
   power whenever its pre-normalisation vector is non-zero. -/
import Earverif.Proofs.C01Sub

namespace Earverif.GainCalc

theorem norm_nonneg' (v : List ℝ) : 0 ≤ norm v := by simp only [norm, sqrt_real]; exact Real.sqrt_nonneg _

theorem length_safeNorm (v : List ℝ) : (safeNorm v).length = v.length := by
  simp only [safeNorm]; split <;> simp

theorem safeNorm_nonneg {v : List ℝ} (h : Nonneg v) : Nonneg (safeNorm v) := by
  simp only [safeNorm]
  split
  · intro x hx
    simp only [List.mem_map] at hx
    obtain ⟨y, hy, rfl⟩ := hx
    exact div_nonneg (h y hy) (norm_nonneg' v)
  · exact zeros_nonneg _

theorem zipWith_nonneg {β γ : Type} (f : β → γ → ℝ) : ∀ (l1 : List β) (l2 : List γ),
    (∀ a ∈ l1, ∀ b ∈ l2, 0 ≤ f a b) → Nonneg (List.zipWith f l1 l2)
  | [], _, _ => by intro x hx; simp at hx
  | _ :: _, [], _ => by intro x hx; simp at hx
  | a :: as, b :: bs, h => by
    intro x hx
    simp only [List.zipWith_cons_cons, List.mem_cons] at hx
    rcases hx with rfl | hx
    · exact h a (by simp) b (by simp)
    · exact zipWith_nonneg f as bs (fun a' ha b' hb => h a' (by simp [ha]) b' (by simp [hb])) x hx

/-- all ten per-channel inputs are ≥ 0 -/
def ExtCh.Nonneg (c : ExtCh ℝ) : Prop :=
  0 ≤ c.fx ∧ 0 ≤ c.fy ∧ 0 ≤ c.fz ∧ 0 ≤ c.bLeft ∧ 0 ≤ c.bRight ∧ 0 ≤ c.bFront ∧ 0 ≤ c.bBack ∧ 0 ≤ c.bCeil ∧
    0 ≤ c.bFloor ∧ 0 ≤ c.gPoint

theorem fadeGains_spec (sEff : ℝ) (h0 : 0 ≤ sEff) :
    0 ≤ (fadeGains sEff).1 ∧ 0 ≤ (fadeGains sEff).2 ∧ (fadeGains sEff).1 ^ 2 + (fadeGains sEff).2 ^ 2 = 1 := by
  simp only [fadeGains, k_real, cos_real, sin_real, pi_real, zero_real, one_real]
  split
  · rename_i hlt
    have hlt' : sEff < 1 / 5 := by
      have : ((1 / 5 : ℚ) : ℝ) = 1 / 5 := by push_cast; ring
      rw [this] at hlt; exact hlt
    have hpi := Real.pi_pos
    have heq : sEff * Real.pi / (((1 / 5 : ℚ) : ℝ) * ((2 : ℚ) : ℝ)) = sEff * 5 / 2 * Real.pi := by
      push_cast; ring
    rw [heq]
    have hx0 : 0 ≤ sEff * 5 / 2 * Real.pi := by positivity
    have hx1 : sEff * 5 / 2 * Real.pi ≤ Real.pi / 2 := by
      have : sEff * 5 / 2 ≤ 1 / 2 := by linarith
      calc sEff * 5 / 2 * Real.pi ≤ 1 / 2 * Real.pi := mul_le_mul_of_nonneg_right this hpi.le
        _ = Real.pi / 2 := by ring
    exact ⟨Real.cos_nonneg_of_neg_pi_div_two_le_of_le (by linarith) hx1,
      Real.sin_nonneg_of_nonneg_of_le_pi hx0 (by linarith), Real.cos_sq_add_sin_sq _⟩
  · norm_num

theorem extGSize_nonneg (p mu : ℝ) (chs : List (ExtCh ℝ)) (hc : ∀ c ∈ chs, c.Nonneg) (hmu : 0 ≤ mu) :
    Nonneg (extGSize p mu chs) := by
  simp only [extGSize]
  refine zipWith_nonneg _ _ _ ?_
  intro c hcm gi hgi
  have hin : Nonneg (chs.map fun c => c.fx * c.fy * c.fz) := by
    intro x hx
    simp only [List.mem_map] at hx
    obtain ⟨c', hc', rfl⟩ := hx
    obtain ⟨h1, h2, h3, _⟩ := hc c' hc'
    positivity
  have hgi0 : 0 ≤ gi := safeNorm_nonneg hin gi hgi
  obtain ⟨h1, h2, h3, h4, h5, h6, h7, h8, h9, _⟩ := hc c hcm
  simp only [pow_real]
  apply Real.rpow_nonneg
  positivity

theorem length_extGSize (p mu : ℝ) (chs : List (ExtCh ℝ)) : (extGSize p mu chs).length = chs.length := by
  simp [extGSize, length_safeNorm]

theorem extGTotal_nonneg (p mu sEff : ℝ) (chs : List (ExtCh ℝ)) (hc : ∀ c ∈ chs, c.Nonneg) (hmu : 0 ≤ mu)
    (hs : 0 ≤ sEff) : Nonneg (extGTotal p mu sEff chs) := by
  obtain ⟨ha, hb, _⟩ := fadeGains_spec sEff hs
  simp only [extGTotal]
  refine zipWith_nonneg _ _ _ ?_
  intro c hcm gs hgs
  have hgs0 : 0 ≤ gs := safeNorm_nonneg (extGSize_nonneg p mu chs hc hmu) gs hgs
  have hg : 0 ≤ c.gPoint := (hc c hcm).2.2.2.2.2.2.2.2.2
  positivity

/-- **Non-negativity of `allo_extent.get_gains`** given non-negative weights (`fx, fy, fz`, boundary terms, point
    gains), `mu ≥ 0`, `s_eff ≥ 0`. -/
theorem alloExtent_nonneg (p mu sEff : ℝ) (chs : List (ExtCh ℝ)) (hc : ∀ c ∈ chs, c.Nonneg) (hmu : 0 ≤ mu)
    (hs : 0 ≤ sEff) : Nonneg (alloExtentSkeleton p mu sEff chs) :=
  safeNorm_nonneg (extGTotal_nonneg p mu sEff chs hc hmu hs)

/-- **Unit power of `allo_extent.get_gains`** whenever the vector before the last `safe_norm` is longer than the
    threshold (non-zero total) -/
theorem alloExtent_unit (p mu sEff : ℝ) (chs : List (ExtCh ℝ))
    (h : 1 / 10000000000000000 < norm (extGTotal p mu sEff chs)) : sumSq (alloExtentSkeleton p mu sEff chs) = 1 :=
  safeNorm_unit _ h

/-- weighted sum of two non-negative vectors: the cross term only adds power -/
theorem sumSq_mix_ge (a b : ℝ) (ha : 0 ≤ a) (hb : 0 ≤ b) : ∀ (G S : List ℝ), G.length = S.length → Nonneg G → Nonneg S →
    a ^ 2 * sumSq G + b ^ 2 * sumSq S ≤ sumSq (List.zipWith (fun g s => a * g + b * s) G S)
  | [], [], _, _, _ => by simp
  | [], _ :: _, h, _, _ => by simp at h
  | _ :: _, [], h, _, _ => by simp at h
  | g :: G, s :: S, h, hG, hS => by
    have ih := sumSq_mix_ge a b ha hb G S (by simpa using h) (fun x hx => hG x (by simp [hx]))
      (fun x hx => hS x (by simp [hx]))
    have hg : 0 ≤ g := hG g (by simp)
    have hs : 0 ≤ s := hS s (by simp)
    simp only [List.zipWith_cons_cons, sumSq_cons]
    have : 0 ≤ a * g * (b * s) := by positivity
    nlinarith

/-- **Sufficient condition for a non-zero total**: if the point gains have unit power (the allocentric
    point-source panner: `allo_unit_power`) and the size vector before its normalisation is longer than the
    threshold, then the returned gains are non-negative with Σ² = 1 — for every fade state `s_eff ≥ 0`. -/
theorem alloExtent_unit_of_size (p mu sEff : ℝ) (chs : List (ExtCh ℝ)) (hc : ∀ c ∈ chs, c.Nonneg) (hmu : 0 ≤ mu)
    (hs : 0 ≤ sEff) (hpt : sumSq (chs.map (·.gPoint)) = 1)
    (hsize : 1 / 10000000000000000 < norm (extGSize p mu chs)) :
    Nonneg (alloExtentSkeleton p mu sEff chs) ∧ sumSq (alloExtentSkeleton p mu sEff chs) = 1 := by
  refine ⟨alloExtent_nonneg p mu sEff chs hc hmu hs, alloExtent_unit p mu sEff chs ?_⟩
  obtain ⟨ha, hb, hab⟩ := fadeGains_spec sEff hs
  have hSn : Nonneg (safeNorm (extGSize p mu chs)) := safeNorm_nonneg (extGSize_nonneg p mu chs hc hmu)
  have hSu : sumSq (safeNorm (extGSize p mu chs)) = 1 := safeNorm_unit _ hsize
  have hGn : Nonneg (chs.map (·.gPoint)) := by
    intro x hx
    simp only [List.mem_map] at hx
    obtain ⟨c, hcm, rfl⟩ := hx
    exact (hc c hcm).2.2.2.2.2.2.2.2.2
  have hrew : extGTotal p mu sEff chs =
      List.zipWith (fun g s => (fadeGains sEff).1 * g + (fadeGains sEff).2 * s) (chs.map (·.gPoint))
        (safeNorm (extGSize p mu chs)) := by
    simp only [extGTotal, List.zipWith_map_left]
  have hge := sumSq_mix_ge _ _ ha hb (chs.map (·.gPoint)) (safeNorm (extGSize p mu chs))
    (by simp [length_safeNorm, length_extGSize]) hGn hSn
  rw [hpt, hSu, ← hrew] at hge
  have h1 : 1 ≤ sumSq (extGTotal p mu sEff chs) := by linarith
  have : (1 : ℝ) ≤ norm (extGTotal p mu sEff chs) := by
    simp only [norm, sqrt_real]
    calc (1 : ℝ) = Real.sqrt 1 := Real.sqrt_one.symm
      _ ≤ Real.sqrt (sumSq (extGTotal p mu sEff chs)) := Real.sqrt_le_sqrt h1
  linarith

end Earverif.GainCalc
