"""Maintain seeded/results.json (seed -> per-VERIF_SEED outcome and first failing input) and regenerate the table in
seeded/RESULTS.md below the marker line.  Usage:
  tools/mk_seed_results.py [regress-output-file ...]   (files written by tools/seed_regress.sh)"""
import glob, json, os, re, sys
V = os.path.dirname(os.path.dirname(os.path.abspath(__file__)))
RJ = os.path.join(V, "seeded", "results.json")
MD = os.path.join(V, "seeded", "RESULTS.md")
res = json.load(open(RJ)) if os.path.exists(RJ) else {}
if not res:  # bootstrap from the existing hand-kept table
    for line in open(MD):
        m = re.match(r"\| (C\d\d_\d) \| (.*?) \| (\w+) \| (\w+) \| (\w+) \| (.*?) \|$", line.strip())
        if m:
            res[m.group(1)] = {"0": m.group(3), "1": m.group(4), "2": m.group(5), "what": m.group(6)}
for f in sys.argv[1:]:
    for line in open(f):
        m = re.match(r"(C\d\d_\d+) vs=(\d+) exit=(\d*) violation=(\d+) nofail=(\d+) \| ?(.*)", line)
        if not m:
            continue
        s, vs, rc, _, nofail, w = m.groups()
        r = res.setdefault(s, {})
        r[vs] = ("caught" if rc == "1" and nofail == "0" else "caught (no-failing-input-found)" if rc == "1"
                 else "MISSED" if rc == "0" else "infra(%s)" % rc)
        mw = re.search(r'"what": "([^"]*)"', w)
        if vs == "0" and mw:
            r["what"] = mw.group(1)
json.dump(res, open(RJ, "w"), indent=1, sort_keys=True)
head = []
for line in open(MD):
    if line.startswith("| seed |"):
        break
    head.append(line)
rows = ["| seed | change (author's summary) | s0 | s1 | s2 | first hit (VERIF_SEED=0) |\n", "|---|---|---|---|---|---|\n"]
def key(s):
    a, b = s.split("_"); return (a, int(b))
for s in sorted(res, key=key):
    try:
        summ = json.load(open(os.path.join(V, "seeded", s, "meta.json"))).get("summary", "")
    except Exception:
        summ = ""
    r = res[s]
    rows.append("| %s | %s | %s | %s | %s | %s |\n" % (s, summ[:200].replace("|", "/"), r.get("0", "-"), r.get("1", "-"), r.get("2", "-"), r.get("what", "")))
open(MD, "w").write("".join(head + rows))
n = len(res); bad = [s for s in res if any(res[s].get(v, "-") not in ("caught",) for v in "012")]
print("seeds:", n, "not caught-with-input for all three seeds:", bad)
